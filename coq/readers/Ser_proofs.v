(* readers/Ser_proofs.v — the serialisation Frame::to_buf / byteorder.rs compute is the two's-
   complement encoding (least significant byte first, reversed for big-endian) of every sample that
   fits the byte width; incl. the hand-written 24-bit routines. *)
From FlacReaders Require Import Spec Lists_proofs.
Open Scope N_scope.

Lemma order_single e x : order e [x] = [x].
Proof. destruct e; reflexivity. Qed.

Lemma mod_lt_N z m : (0 < m)%Z -> Z.to_N (z mod m) < Z.to_N m.
Proof. intros H. pose proof (Z.mod_pos_bound z m H). lia. Qed.

Lemma ser1_w1 e s : ser1 e 1 s = twos_complement e 1 s.
Proof.
  unfold twos_complement. change (N.to_nat 1) with 1%nat. cbn [ser1 le_bytes]. unfold i8_to_bytes.
  change (2 ^ (8 * Z.of_N 1))%Z with 256%Z. rewrite order_single.
  pose proof (mod_lt_N s 256 ltac:(lia)) as H. change (Z.to_N 256) with 256 in H.
  now rewrite N.mod_small by exact H.
Qed.

Lemma ser1_w2 e s : ser1 e 2 s = twos_complement e 2 s.
Proof.
  unfold twos_complement. change (N.to_nat 2) with 2%nat. cbn [ser1 le_bytes]. unfold i16_to_bytes.
  change (2 ^ (8 * Z.of_N 2))%Z with 65536%Z.
  pose proof (mod_lt_N s 65536 ltac:(lia)) as H. change (Z.to_N 65536) with 65536 in H.
  remember (Z.to_N (s mod 65536)) as u eqn:Eu. clear Eu.
  assert (Hq : u / 256 < 256) by (apply N.div_lt_upper_bound; lia).
  now rewrite (N.mod_small (u / 256)) by exact Hq.
Qed.

Lemma ser1_w4 e s : ser1 e 4 s = twos_complement e 4 s.
Proof.
  unfold twos_complement. change (N.to_nat 4) with 4%nat. cbn [ser1 le_bytes]. unfold i32_to_bytes, as_u32.
  change (2 ^ (8 * Z.of_N 4))%Z with 4294967296%Z.
  pose proof (mod_lt_N s 4294967296 ltac:(lia)) as H. change (Z.to_N 4294967296) with 4294967296 in H.
  remember (Z.to_N (s mod 4294967296)) as u eqn:Eu. clear Eu.
  rewrite !N.div_div by lia. change (256 * 256) with 65536. change (65536 * 256) with 16777216.
  assert (Hq : u / 16777216 < 256) by (apply N.div_lt_upper_bound; lia).
  now rewrite (N.mod_small (u / 16777216)) by exact Hq.
Qed.

(* ---- the 24-bit routines *)
Lemma land_255 u : N.land u 255 = u mod 256.
Proof. change 255 with (N.ones 8). rewrite N.land_ones. reflexivity. Qed.

Lemma mid_byte u : N.shiftr (N.land u 65280) 8 = (u / 256) mod 256.
Proof.
  rewrite N.shiftr_land. change (N.shiftr 65280 8) with (N.ones 8).
  rewrite N.land_ones, N.shiftr_div_pow2. reflexivity.
Qed.

Lemma lor_high t : t < 8388608 -> N.lor 8388608 t = 8388608 + t.
Proof.
  intros H. assert (Hl : N.land 8388608 t = 0).
  { rewrite <- (N.mod_small t 8388608) by exact H. change 8388608 with (2 ^ 23) at 2.
    rewrite <- N.land_ones, N.land_assoc. change (N.land 8388608 t) with (N.land 8388608 t).
    rewrite (N.land_comm 8388608 t), <- N.land_assoc. change (N.land 8388608 (N.ones 23)) with 0.
    apply N.land_0_r. }
  rewrite <- N.lxor_lor by exact Hl. symmetry. now apply N.add_nocarry_lxor.
Qed.

Lemma i24_unsigned_fits s : fits 24 s -> i24_unsigned s = Z.to_N (s mod 16777216).
Proof.
  unfold fits. change (2 ^ (24 - 1))%Z with 8388608%Z. intros H. unfold i24_unsigned, as_u32.
  destruct (Z.leb_spec 0 s) as [Hp|Hn].
  - rewrite !Z.mod_small by lia. reflexivity.
  - rewrite (Z.mod_small (s + 8388608)) by lia. rewrite lor_high by lia.
    replace (s mod 16777216)%Z with (s + 16777216)%Z.
    + lia.
    + apply (Z.mod_unique s 16777216 (-1) (s + 16777216)); lia.
Qed.

Lemma ser1_w3 e s : fits 24 s -> ser1 e 3 s = twos_complement e 3 s.
Proof.
  intros Hf. unfold twos_complement. change (N.to_nat 3) with 3%nat. cbn [ser1 le_bytes]. unfold i24_to_bytes, as_u8.
  rewrite (i24_unsigned_fits s Hf). change (2 ^ (8 * Z.of_N 3))%Z with 16777216%Z.
  pose proof (mod_lt_N s 16777216 ltac:(lia)) as H. change (Z.to_N 16777216) with 16777216 in H.
  remember (Z.to_N (s mod 16777216)) as u eqn:Eu. clear Eu.
  rewrite land_255, mid_byte, N.shiftr_div_pow2. change (2 ^ 16) with 65536.
  rewrite N.div_div by lia. change (256 * 256) with 65536.
  rewrite N.mod_mod by lia. rewrite (N.mod_mod (u / 256)) by lia. reflexivity.
Qed.

(* Ser of a sample that fits the byte width is its two's-complement encoding in the byte order *)
Theorem ser1_twos_complement e w s :
  1 <= w <= 4 -> fits (8 * Z.of_N w) s -> ser1 e w s = twos_complement e w s.
Proof.
  intros Hw Hf. assert (Hc : w = 1 \/ w = 2 \/ w = 3 \/ w = 4) by lia.
  destruct Hc as [ -> | [ -> | [ -> | -> ] ] ].
  - apply ser1_w1.
  - apply ser1_w2.
  - apply ser1_w3. exact Hf.
  - apply ser1_w4.
Qed.

(* samples of a stream with bps bits per sample fit the byte width bytes_per_sample(bps) *)
Lemma fits_widen b1 b2 s : (0 < b1 <= b2)%Z -> fits b1 s -> fits b2 s.
Proof.
  unfold fits. intros Hb H.
  assert (2 ^ (b1 - 1) <= 2 ^ (b2 - 1))%Z by (apply Z.pow_le_mono_r; lia). lia.
Qed.

Lemma bytes_per_sample_bounds bps : 1 <= bps <= 32 ->
  1 <= bytes_per_sample bps <= 4 /\ bps <= 8 * bytes_per_sample bps.
Proof.
  intros Hb. unfold bytes_per_sample.
  pose proof (N.div_mod (bps + 7) 8 ltac:(lia)) as Hd.
  pose proof (N.mod_upper_bound (bps + 7) 8 ltac:(lia)) as Hm.
  remember ((bps + 7) / 8) as q. remember ((bps + 7) mod 8) as r. lia.
Qed.

Lemma bps_fits_width bps s : 1 <= bps <= 32 -> fits (Z.of_N bps) s -> fits (8 * Z.of_N (bytes_per_sample bps)) s.
Proof.
  intros Hb. apply fits_widen. destruct (bytes_per_sample_bounds bps Hb). lia.
Qed.

Theorem ser_twos_complement e bps xs :
  1 <= bps <= 32 -> Forall (fits (Z.of_N bps)) xs ->
  ser e (bytes_per_sample bps) xs = concat (map (twos_complement e (bytes_per_sample bps)) xs).
Proof.
  intros Hb H. unfold ser. f_equal. apply map_ext_in. intros s Hs.
  rewrite Forall_forall in H. apply ser1_twos_complement.
  - now destruct (bytes_per_sample_bounds bps Hb).
  - apply bps_fits_width; [exact Hb | now apply H].
Qed.
