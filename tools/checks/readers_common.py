"""Shared machinery of the `readers` area (C06 seeking lands exactly, C07 readers deliver the stream
exactly once): proof stage over coq/readers, harness runs (release + debug), the extracted OCaml
model run in parallel on the harness' histories, the diff, the vm_compute cross-check of the
extraction, evidence."""
import json
import os
import shutil
import subprocess

import vlib
from vlib import VERIF, CACHE, sh

BASE = os.path.join(VERIF, "coq", "base")
AREA = os.path.join(VERIF, "coq", "readers")
QFLAGS = "-Q ../base FlacBase -Q . FlacReaders"
REQUIRES = ["FlacReaders.Spec", "FlacReaders.Props_C06", "FlacReaders.Props_C07", "FlacReaders.Props_Damaged", "FlacReaders.Props_NoPanic", "FlacReaders.Pins"]

ASSUMPTIONS = [
    "the decoder core is abstract: Decoder::read_frame over a valid stream hands out the decoded frames in order and then end-of-stream for ever (theorems hold for every list of well-formed frames; that the real decoder does this is C03/C05's business and is exercised here on every generated file)",
    "the seek table is truthful (every defined point names a real frame and its first sample: what C09 shows for files this crate writes); files whose table is not truthful are skipped with a note",
    "std is modelled at its contract: VecDeque as a list (Read for VecDeque<u8> on a contiguous deque), Cursor seeks never fail, usize = u64",
    "the hand-written model (coq/readers/{Ser,Readers,Seek}.v) mirrors src/decode.rs, src/audio.rs, src/byteorder.rs; tie = extracted model vs implementation on every generated history, in the release and the debug build, plus a vm_compute sample checking the extraction",
]


def proof_stage(chk, theorems, e2e_theorems=None):
    files = [f for f in vlib.coq_files(AREA) if f not in ("Extract.v",)]
    if e2e_theorems:
        # the property also claims theorems of the composed development (coq/e2e): writers x codec x readers
        codec = os.path.join(VERIF, "coq", "codec")
        writers = os.path.join(VERIF, "coq", "writers")
        e2e = os.path.join(VERIF, "coq", "e2e")
        return vlib.proof_stage(
            chk, coq_dirs=[BASE, codec, writers, AREA, e2e], build_dir=e2e,
            qflags="-Q ../base FlacBase -Q ../codec FlacCodec -Q ../writers FlacWriters -Q ../readers FlacReaders -Q . FlacE2E",
            requires=REQUIRES + ["FlacE2E.Bridge", "FlacE2E.E2E", "FlacE2E.Props_E2E"], theorems=theorems + e2e_theorems,
            obligation_files=[(AREA, files), (e2e, vlib.coq_files(e2e))],
            gen_steps=["python3 %s/tools/gen_crc.py %s %s/GenCrc.v" % (VERIF, vlib.REPO, BASE),
                       "python3 %s/tools/gen_readers.py %s %s/anchors.json" % (VERIF, vlib.REPO, AREA),
                       "python3 %s/tools/gen_stream.py %s %s/GenStream.v" % (VERIF, vlib.REPO, codec),
                       "python3 %s/tools/gen_writers.py %s %s/GenWriters.v" % (VERIF, vlib.REPO, writers)])
    return vlib.proof_stage(
        chk, coq_dirs=[BASE, AREA], build_dir=AREA, qflags=QFLAGS, requires=REQUIRES, theorems=theorems,
        obligation_files=[(AREA, files)],
        gen_steps=["python3 %s/tools/gen_crc.py %s %s/GenCrc.v" % (VERIF, vlib.REPO, BASE),
                   "python3 %s/tools/gen_readers.py %s %s/anchors.json" % (VERIF, vlib.REPO, AREA)])


def build_driver(chk, tag):
    mdir = os.path.join(CACHE, "ocaml", "readers_" + tag)
    os.makedirs(mdir, exist_ok=True)
    for f in ("readers_model.ml", "readers_model.mli"):
        shutil.copy(os.path.join(AREA, f), mdir)
    shutil.copy(os.path.join(VERIF, "ocaml", "readers_driver.ml"), mdir)
    okb, exe, bout = vlib.ocaml_build(mdir, ["readers_model.mli", "readers_model.ml", "readers_driver.ml"], "readers_driver")
    if not okb:
        chk.broken_tie("ocaml-build", bout)
        return None
    return exe


def run_harness(chk, binname, profile):
    """Build + run one harness binary. Returns dict(files, cases, viols, stat, notes) or None."""
    ok, binp, out = vlib.cargo_build(os.path.join(VERIF, "harness"), binname, profile)
    if not ok:
        chk.broken_tie("harness-build:%s:%s" % (binname, profile), out)
        return None
    rc, out = sh([binp], timeout=3000)
    if rc != 0:
        chk.broken_tie("harness-run:%s:%s" % (binname, profile), out[-4000:])
        return None
    res = {"files": [], "cases": [], "viols": [], "stat": {}, "notes": [], "profile": profile}
    for ln in out.splitlines():
        if not ln.startswith("{"):
            continue
        try:
            d = json.loads(ln)
        except ValueError:
            chk.broken_tie("harness-output:%s" % binname, ln[:400])
            return None
        t = d.get("t")
        if t == "file":
            res["files"].append(d)
        elif t == "case":
            res["cases"].append(d)
        elif t == "viol":
            res["viols"].append(d)
        elif t == "stat":
            res["stat"] = d
        elif t == "note":
            res["notes"].append(d["msg"])
    return res


def run_model(chk, exe, files, cases, jobs=None):
    """Run the extracted model on the cases (parallel chunks, every chunk gets all file lines).
    Identical model lines are evaluated once.  Returns {m-line: observation string} or None."""
    uniq = sorted(set(c["m"] for c in cases))
    if not uniq:
        return {}
    jobs = jobs or max(1, min(vlib.NCPU, 12))
    chunks = [uniq[i::jobs] for i in range(jobs)]
    head = "\n".join(f["m"] for f in files) + "\n"
    procs = []
    for ch in chunks:
        if not ch:
            continue
        p = subprocess.Popen([exe], stdin=subprocess.PIPE, stdout=subprocess.PIPE, stderr=subprocess.STDOUT,
                             universal_newlines=True)
        procs.append((p, ch))
    import threading
    outs = {}

    def feed(p, ch):
        o, _ = p.communicate(head + "\n".join(ch) + "\n")
        outs[id(p)] = o

    ths = [threading.Thread(target=feed, args=(p, ch)) for p, ch in procs]
    for t in ths:
        t.start()
    for t in ths:
        t.join(3000)
    res = {}
    for p, ch in procs:
        lines = outs.get(id(p), "").split("\n")
        if p.returncode != 0 or len(lines) < len(ch):
            chk.broken_tie("model-run", "driver rc=%s, %d of %d lines: %s" % (p.returncode, len(lines), len(ch), "\n".join(lines[-5:])[:1000]))
            return None
        for m, o in zip(ch, lines):
            res[m] = o.strip()
    return res


def same_obs(a, b):
    """error class strict (ok / err / panic), error variant soft"""
    if a == b:
        return True
    return a.startswith("e:") and b.startswith("e:")


def first_diff(impl, model):
    a, b = impl.split(";") if impl else [], model.split(";") if model else []
    for i in range(max(len(a), len(b))):
        x = a[i] if i < len(a) else None
        y = b[i] if i < len(b) else None
        if x is None or y is None or not same_obs(x, y):
            return i, x, y
    return None


def diff(chk, pid, run, model, stage):
    """Compare implementation observations with the model's. A disagreement on a history for which the
    searcher reported a property violation is attributed to that violation (reported once by key);
    any other disagreement is a correspondence violation.  Returns (#compared, #disagreements)."""
    attributed = set()
    n = bad = 0
    variant_soft = 0
    filemap = {f["id"]: f for f in run["files"]}
    reported = 0
    for c in run["cases"]:
        mo = model.get(c["m"])
        if mo is None:
            continue
        n += 1
        if mo.startswith("driver-error"):
            bad += 1
            if reported < 3:
                reported += 1
                chk.violation("correspondence:%s:driver" % stage, "the model driver rejected a history: %s" % mo,
                              {"case": c["m"], "impl_obs": c["obs"][:2000]})
            continue
        if c["obs"] != mo:
            d = first_diff(c["obs"], mo)
            if d is None:
                variant_soft += 1
                continue
            bad += 1
            i, x, y = d
            # did the searcher find the property failing on this very history?  Then the violation is
            # reported through its "viol" line (report_viols), under its own key.
            if c.get("viol"):
                attributed.add(c["viol"])
                continue
            if reported < 3:
                reported += 1
                f = filemap.get(c["file"], {})
                chk.violation(
                    "correspondence:%s:%s" % (stage, c["reader"]),
                    "model and implementation (%s build) differ on a history for which the property itself was not seen to fail: op #%d implementation %s, model %s" % (
                        run["profile"], i, (x or "-")[:200], (y or "-")[:200]),
                    {"case": c["m"], "file_model": f.get("m", "")[:20000], "flac_hex": f.get("flac_hex", "")[:40000],
                     "impl_obs": c["obs"][:4000], "model_obs": mo[:4000], "op_index": i, "profile": run["profile"]})
    return n, bad, variant_soft


def report_viols(chk, run):
    for v in run["viols"]:
        chk.violation(v["key"], v["desc"], {k: v[k] for k in v if k != "t"})


# ---------------------------------------------------------------- vm_compute cross-check of the extraction

def coq_z(x):
    x = int(x)
    return "(%d)" % x if x < 0 else "%d" % x


def coq_file(fm, reader, seekable, profile):
    """Coq term of type `file` from a model file line + case parameters."""
    _, fid, ch, bps, total, table, frames = fm.split(" ", 6)
    slots = []
    for fr in frames.split("|"):
        chans = ["[" + "; ".join(coq_z(s) for s in c.split(",")) + "]" for c in fr.split("/")]
        slots.append("SFrame ([" + "; ".join(chans) + "]%Z)")
    if table == "-":
        tb = "None"
    elif table == "e":
        tb = "Some []"
    else:
        pts = []
        for p in table.split(","):
            if p == "p":
                pts.append("Placeholder")
            else:
                o, i = p.split(":")
                pts.append("Defined %s %s" % (o, i))
        tb = "Some [" + "; ".join(pts) + "]"
    return ("{| f_slots := [%s]; f_channels := %s; f_bps := %s; f_total := %s; f_table := %s; f_seekable := %s; "
            "f_endian := %s; f_profile := %s; f_usize_bits := 64; f_rev := Repaired |}") % (
        "; ".join(slots), ch, bps, "None" if total == "-" else "Some %s" % total, tb,
        "true" if seekable == "1" else "false", "BE" if reader == "bytes_be" else "LE",
        "Debug" if profile == "d" else "Release")


def coq_ops(reader, ops):
    out = []
    for o in ops.split(";") if ops else []:
        t, _, a = o.partition(":")
        if reader.startswith("bytes"):
            out.append({"r": "BRead %s" % a, "f": "BFill", "c": "BConsume %s" % a, "ss": "BSeek (Start %s)" % a,
                        "sc": "BSeek (Current %s%%Z)" % coq_z(a or 0), "se": "BSeek (End_ %s%%Z)" % coq_z(a or 0)}[t])
        elif reader == "samples":
            out.append({"r": "SRead %s" % a, "f": "SFill", "c": "SConsume %s" % a, "n": "SNext", "s": "SSeek %s" % a}[t])
        else:
            out.append({"f": "CFill", "c": "CConsume %s" % a, "s": "CSeek %s" % a}[t])
    return "[" + "; ".join(out) + "]"


def coq_outs(reader, obs):
    res = []
    for o in obs.split(";") if obs else []:
        if o == "u":
            res.append("OUnit")
        elif o == "none":
            res.append("OItem None")
        elif o == "panic":
            res.append("OPanic PSlice")
        elif o.startswith("e:"):
            res.append("OErr EOther")
        elif o.startswith("p:"):
            res.append("OPos %s" % o[2:])
        elif o.startswith("i:"):
            res.append("OItem (Some %s%%Z)" % coq_z(o[2:]))
        elif o.startswith("d:"):
            d = o[2:]
            if reader.startswith("bytes"):
                res.append("OBytes [" + "; ".join(str(int(d[i:i + 2], 16)) for i in range(0, len(d), 2)) + "]")
            elif reader == "samples":
                res.append("OSamples ([" + "; ".join(coq_z(s) for s in d.split(",") if s != "") + "]%Z)")
            else:
                res.append("OChans ([" + "; ".join("[" + "; ".join(coq_z(s) for s in c.split(",") if s != "") + "]" for c in d.split("/")) + "]%Z)")
        else:
            res.append("OPanic PFuel")
    return "[" + "; ".join(res) + "]"


def vm_sample(chk, pid, run, limit=40, max_ops=14, max_file_len=1500):
    """Evaluate up to `limit` small histories with vm_compute inside coqc and compare with the
    implementation's observations (checks the extraction). Returns number of cases evaluated."""
    filemap = {f["id"]: f for f in run["files"]}
    picked, seen = [], set()
    for c in run["cases"]:
        f = filemap.get(c["file"])
        if f is None or len(f["m"]) > max_file_len or c["nops"] > max_ops or c["nops"] < 3 or c.get("viol"):
            continue
        key = (c["reader"], c.get("class"), c["file"])
        if key in seen:
            continue
        seen.add(key)
        picked.append(c)
        if len(picked) >= limit:
            break
    if not picked:
        return 0
    lines = ["From FlacReaders Require Import Spec.", "Open Scope N_scope."]
    exprs = []
    for i, c in enumerate(picked):
        _, fid, reader, seekable, profile, *rest = c["m"].split(" ")
        ops = rest[0] if rest else ""
        runf = {"bytes_le": "byte_run", "bytes_be": "byte_run", "samples": "sample_run", "channels": "chan_run"}[reader]
        lines.append("Definition F%d : file := %s." % (i, coq_file(filemap[fid]["m"], reader, seekable, profile)))
        exprs.append("agrees (outs (snd (%s F%d %s))) %s" % (runf, i, coq_ops(reader, ops), coq_outs(reader, c["obs"])))
    lines.append("Definition results : list bool := [%s]." % ";\n  ".join(exprs))
    lines.append("Eval vm_compute in results.")
    d = os.path.join(CACHE, "assum")
    os.makedirs(d, exist_ok=True)
    vfile = os.path.join(d, "ReadersCases_%s.v" % pid)
    open(vfile, "w").write("\n".join(lines) + "\n")
    rc, out = sh("coqc -noglob %s %s" % (QFLAGS, vfile), cwd=AREA, timeout=900)
    import re
    m = re.search(r"=\s*\[(.*?)\]\s*:\s*list bool", out, re.S)
    vals = [v.strip() for v in m.group(1).split(";")] if m else []
    if rc != 0 or len(vals) != len(picked) or any(v != "true" for v in vals):
        badi = next((i for i, v in enumerate(vals) if v != "true"), None)
        chk.violation("correspondence:vm_compute", "vm_compute evaluation of the reader model disagrees with the implementation (or with the extracted run)",
                      {"coq_output": out[-3000:], "case": picked[badi]["m"] if badi is not None else None,
                       "impl_obs": picked[badi]["obs"][:3000] if badi is not None else None})
    return len(picked)


def sample_cases(run, k=4):
    out = []
    seen = set()
    for c in run["cases"]:
        key = (c["reader"], c.get("class"))
        if key in seen or c["nops"] > 16:
            continue
        seen.add(key)
        out.append({"history": c["m"], "chunking": c.get("chunking"), "observed": c["obs"][:600]})
        if len(out) >= k:
            break
    return out
