(* ---- tail of the driver for the COMPOSED model coq/e2eupd (update_file run with the metadata area's
   reader and writer).  tools/checks/c10.py assembles the driver from the dump/parse part of
   ocaml/metadata_driver.ml (with `open E2eupd_model`) followed by this file.  One case per line:
     upd <start> <filehex|.> <dump-of-the-edited-list | !>      (! = the callback failed)
   prints  <ok:true|ok:false|err|panic> orig=<hex|.> rebuilt=<hex|.|->          (- = nothing written) *)
let handle (line : string) : string =
  match split ' ' line with
  | [ "upd"; start; fh; d ] ->
    let edited = if d = "!" then None else Some (parse_blocks (if d = "~" then "" else d)) in
    let (p, r) = d_update_file (n_of_int (int_of_string start)) (unhx fh) edited in
    let (orig, rebuilt) = p in
    let rs = match r with Ok true -> "ok:true" | Ok false -> "ok:false" | Err _ -> "err" | Panic _ -> "panic" in
    Printf.sprintf "%s orig=%s rebuilt=%s" rs (hx orig) (match rebuilt with Some b -> hx b | None -> "-")
  | _ -> "bad-case"

let () =
  try
    while true do
      let line = String.trim (input_line stdin) in
      if line <> "" then print_endline (try handle line with Failure m -> "driver-error:" ^ m | Not_found -> "driver-error:not-found")
    done
  with End_of_file -> ()
