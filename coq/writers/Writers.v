(* writers/Writers.v — the three writer front-ends as state machines over the abstract block
   encoder: FlacByteWriter (either byte order), FlacSampleWriter, FlacChannelWriter.

   Mirrors (after the fix commits of branch verif-writers):
     src/encode.rs  FlacByteWriter::new 137, finalize_inner 239, write 355;
                    FlacSampleWriter::new 483, write 554, finalize_inner 584;
                    FlacChannelWriter::new 767, write 830, finalize_inner 893; update_md5 1292;
     src/audio.rs   Frame::fill_from_buf 149, fill_from_samples 192, fill_from_channels 208,
                    MultiZip 231;
     src/byteorder.rs  LittleEndian / BigEndian conversions.
   `finalize(self)` consumes the writer, so the `finalized` flags are not modelled. *)
From FlacWriters Require Export Finalize.
Open Scope N_scope.

(* ---- generic list pieces *)

Fixpoint fold_res {S A} (f : S -> A -> res S) (s : S) (l : list A) : res S :=
  match l with [] => Ok s | a :: r => s' <- f s a;; fold_res f s' r end.

(* the first k elements and the rest, if there are k *)
Fixpoint split_exact {A} (k : nat) (l : list A) : option (list A * list A) :=
  match k with
  | O => Some ([], l)
  | S k' =>
      match l with
      | [] => None
      | x :: r => match split_exact k' r with Some (a, b) => Some (x :: a, b) | None => None end
      end
  end.

(* slice::chunks_exact(k) for k > 0: the whole chunks and the remainder *)
Fixpoint drain_fuel {A} (fuel k : nat) (l : list A) : list (list A) * list A :=
  match fuel with
  | O => ([], l)
  | S f =>
      match split_exact k l with
      | None => ([], l)
      | Some (c, r) => let (cs, r') := drain_fuel f k r in (c :: cs, r')
      end
  end.
Definition drain {A} (k : nat) (l : list A) : list (list A) * list A := drain_fuel (length l) k l.

(* ---- audio.rs *)

(* one PCM frame in front of every channel *)
Fixpoint zip_cons (f : list Z) (chs : list (list Z)) : list (list Z) :=
  match f, chs with
  | x :: f', c :: chs' => (x :: c) :: zip_cons f' chs'
  | _, _ => []
  end.
(* k channels from a list of PCM frames of k samples each *)
Fixpoint channels_of_frames (k : nat) (fs : list (list Z)) : list (list Z) :=
  match fs with
  | [] => repeat [] k
  | f :: r => zip_cons f (channels_of_frames k r)
  end.

(* audio.rs:231 MultiZip::next over the channel iterators: None as soon as one is exhausted *)
Fixpoint heads (chs : list (list Z)) : option (list Z) :=
  match chs with
  | [] => Some []
  | [] :: _ => None
  | (x :: _) :: r => match heads r with Some h => Some (x :: h) | None => None end
  end.
Definition tails (chs : list (list Z)) : list (list Z) := map (@tl Z) chs.
(* the PCM frames of a list of channels; fuel = length of the first channel *)
Fixpoint multizip_fuel (fuel : nat) (chs : list (list Z)) : list (list Z) :=
  match fuel with
  | O => []
  | S f => match heads chs with Some h => h :: multizip_fuel f (tails chs) | None => [] end
  end.
Definition multizip (chs : list (list Z)) : list (list Z) :=
  match chs with [] => [] | c :: _ => multizip_fuel (length c) chs end.

(* audio.rs:192 Frame::fill_from_samples, as seen through Frame::channels():
   channel_len = len / channels; iter_mut() is a MultiZip over chunks_exact_mut(channel_len)
   of the sample vector (ArrayVec of 8 iterators), zipped with the input. *)
Definition fill_from_samples (channels : N) (samples : list Z) : res block :=
  if channels =? 0 then Panic PDivZero else
  let n := N.of_nat (length samples) in
  let cl := n / channels in
  if cl =? 0 then Panic PChunkZero else
  let k := n / cl in
  if 8 <? k then Panic PCapacity else
  Ok (channels_of_frames (N.to_nat k) (fst (drain (N.to_nat k) (firstn (N.to_nat (k * cl)) samples)))).

(* audio.rs:208 Frame::fill_from_channels *)
Definition fill_from_channels (p : profile) (self_channels : N) (chans : block) : res block :=
  _ <- match p with
       | Debug => if N.of_nat (length chans) =? self_channels then Ok tt else Panic PAssert
       | Release => Ok tt
       end;;
  match chans with
  | [] => Panic PSlice                                         (* channels[0] *)
  | c0 :: _ =>
      if length c0 =? 0 then Panic PChunkZero                  (* chunks_exact_mut(0) *)
      else if forallb (fun c => length c =? length c0) chans then Ok chans
           else Panic PSlice                                   (* copy_from_slice length mismatch *)
  end%nat.

(* ---- byteorder.rs *)

Inductive endian := LE | BE.

(* two's complement, n bytes, little-endian *)
Fixpoint le_bytes_z (n : nat) (z : Z) : list N :=
  match n with O => [] | S k => Z.to_N (z mod 256) :: le_bytes_z k (z / 256) end.

(* LittleEndian::i24_to_bytes (byteorder.rs:62) on an i32 *)
Definition i24_to_bytes_le (s : Z) : list N :=
  let unsigned : Z := if (0 <=? s)%Z then s else Z.lor 8388608 ((s + 8388608) mod 4294967296) in
  [Z.to_N (Z.land unsigned 255); Z.to_N (Z.shiftr (Z.land unsigned 65280) 8);
   Z.to_N ((Z.shiftr unsigned 16) mod 256)].

(* unsigned little-endian value of a byte list *)
Fixpoint le_value (l : list N) : Z :=
  match l with [] => 0%Z | b :: r => (Z.of_N b + 256 * le_value r)%Z end.
(* LittleEndian::bytes_to_i8/i16/i24/i32: sign-extend n bytes *)
Definition bytes_to_int_le (l : list N) : Z :=
  let v := le_value l in
  let w := (2 ^ (8 * Z.of_nat (length l)))%Z in
  if (2 * v <? w)%Z then v else (v - w)%Z.

(* E::bytes_to_le (byteorder.rs:113 / 188): BigEndian reverses every whole sample *)
Definition bytes_to_le (e : endian) (bytes_per_sample : N) (buf : list N) : res (list N) :=
  match e with
  | LE => Ok buf
  | BE =>
      if bytes_per_sample =? 0 then Panic PChunkZero else
      let '(cs, r) := drain (N.to_nat bytes_per_sample) buf in
      Ok (concat (map (@rev N) cs) ++ r)
  end.

(* encode.rs:1292 update_md5: the bytes fed to MD5 for a run of samples *)
Definition update_md5 (samples : list Z) (bytes_per_sample : N) : res (list N) :=
  if bytes_per_sample =? 1 then Ok (flat_map (le_bytes_z 1) samples)          (* s as i8 *)
  else if bytes_per_sample =? 2 then Ok (flat_map (le_bytes_z 2) samples)     (* s as i16 *)
  else if bytes_per_sample =? 3 then Ok (flat_map i24_to_bytes_le samples)
  else if bytes_per_sample =? 4 then Ok (flat_map (le_bytes_z 4) samples)
  else Panic PAssert.                       (* panic!("unsupported number of bytes per sample") *)

(* audio.rs:149 Frame::fill_from_buf::<LittleEndian> *)
Definition fill_from_buf_le (channels bytes_per_sample : N) (buf : list N) : res block :=
  if (1 <=? bytes_per_sample) && (bytes_per_sample <=? 4) then
    let samples := map bytes_to_int_le (fst (drain (N.to_nat bytes_per_sample) buf)) in
    fill_from_samples channels samples
  else Panic PAssert.

Section Writers.
Variable enc_block : N -> block -> res (list N).
Variable md5 : list N -> list N.
Variable p : profile.

Notation encoder_encode := (encoder_encode enc_block p).
Notation encoder_finalize := (encoder_finalize md5 p).
Notation encoder_new := (encoder_new p).

(* ================= FlacSampleWriter ================= *)

Record swriter := {
  sw_enc : encoder;
  sw_buf : list Z;                 (* sample_buf *)
  sw_channels : N;                 (* frame.channels = pcm_frame_size *)
  sw_frame_sample_size : N;
  sw_bytes_per_sample : N }.

(* encode.rs:483 *)
Definition sample_new (prefix : list N) (o : options) (sample_rate bits_per_sample channels : N)
           (total_samples : option N) : res swriter :=
  bps <- signed_bit_count_32 bits_per_sample;;
  let bytes := bytes_per_sample_of bps in
  t <- sample_total channels total_samples;;
  e <- encoder_new prefix o sample_rate bps channels t;;
  Ok {| sw_enc := e; sw_buf := []; sw_channels := channels;
        sw_frame_sample_size := channels * o_block_size o; sw_bytes_per_sample := bytes |}.

(* the body of the loop in write, and of the final block in finalize_inner *)
Definition sample_encode_chunk (channels bytes_per_sample : N) (e : encoder) (chunk : list Z) : res encoder :=
  bytes <- update_md5 chunk bytes_per_sample;;
  f <- fill_from_samples channels chunk;;
  encoder_encode (md5_consume e bytes) f.

(* encode.rs:554 *)
Definition sample_write (w : swriter) (samples : list Z) : res swriter :=
  let buf := sw_buf w ++ samples in
  if sw_frame_sample_size w =? 0 then Panic PChunkZero else
  let '(chunks, rest) := drain (N.to_nat (sw_frame_sample_size w)) buf in
  e <- fold_res (sample_encode_chunk (sw_channels w) (sw_bytes_per_sample w)) (sw_enc w) chunks;;
  Ok {| sw_enc := e; sw_buf := rest; sw_channels := sw_channels w;
        sw_frame_sample_size := sw_frame_sample_size w; sw_bytes_per_sample := sw_bytes_per_sample w |}.

(* encode.rs:584 (after the fix of F-C08a: `sample_buf.len() >= pcm_frame_size`) *)
Definition sample_finalize (w : swriter) : res finished :=
  let len := N.of_nat (length (sw_buf w)) in
  e <- (if sw_channels w <=? len then
          if sw_channels w =? 0 then Panic PDivZero else
          let whole := firstn (N.to_nat (len - len mod sw_channels w)) (sw_buf w) in
          sample_encode_chunk (sw_channels w) (sw_bytes_per_sample w) (sw_enc w) whole
        else Ok (sw_enc w));;
  encoder_finalize e.
(* before the fix: `!sample_buf.is_empty()` *)
Definition sample_finalize_pre_fix (w : swriter) : res finished :=
  let len := N.of_nat (length (sw_buf w)) in
  e <- (if negb (len =? 0) then
          if sw_channels w =? 0 then Panic PDivZero else
          let whole := firstn (N.to_nat (len - len mod sw_channels w)) (sw_buf w) in
          sample_encode_chunk (sw_channels w) (sw_bytes_per_sample w) (sw_enc w) whole
        else Ok (sw_enc w));;
  encoder_finalize e.

Definition sample_run (w : swriter) (chunks : list (list Z)) : res finished :=
  w' <- fold_res sample_write w chunks;; sample_finalize w'.

(* ================= FlacByteWriter ================= *)

Record bwriter := {
  bw_enc : encoder;
  bw_buf : list N;
  bw_endian : endian;
  bw_channels : N;
  bw_bytes_per_sample : N;
  bw_pcm_frame_size : N;
  bw_frame_byte_size : N }.

(* encode.rs:137 *)
Definition byte_new (en : endian) (prefix : list N) (o : options)
           (sample_rate bits_per_sample channels : N) (total_bytes : option N) : res bwriter :=
  bps <- signed_bit_count_32 bits_per_sample;;
  let bytes := bytes_per_sample_of bps in
  let pcm_frame_size := bytes * channels in
  t <- byte_total channels bytes total_bytes;;
  e <- encoder_new prefix o sample_rate bps channels t;;
  Ok {| bw_enc := e; bw_buf := []; bw_endian := en; bw_channels := channels;
        bw_bytes_per_sample := bytes; bw_pcm_frame_size := pcm_frame_size;
        bw_frame_byte_size := pcm_frame_size * o_block_size o |}.

Definition byte_encode_chunk (en : endian) (channels bytes_per_sample : N) (e : encoder) (chunk : list N)
  : res encoder :=
  le <- bytes_to_le en bytes_per_sample chunk;;
  f <- fill_from_buf_le channels bytes_per_sample le;;
  encoder_encode (md5_consume e le) f.

(* encode.rs:355 *)
Definition byte_write (w : bwriter) (buf : list N) : res bwriter :=
  let b := bw_buf w ++ buf in
  if bw_frame_byte_size w =? 0 then Panic PChunkZero else
  let '(chunks, rest) := drain (N.to_nat (bw_frame_byte_size w)) b in
  e <- fold_res (byte_encode_chunk (bw_endian w) (bw_channels w) (bw_bytes_per_sample w)) (bw_enc w) chunks;;
  Ok {| bw_enc := e; bw_buf := rest; bw_endian := bw_endian w; bw_channels := bw_channels w;
        bw_bytes_per_sample := bw_bytes_per_sample w; bw_pcm_frame_size := bw_pcm_frame_size w;
        bw_frame_byte_size := bw_frame_byte_size w |}.

(* encode.rs:239 (after the fix of F-C08a: `buf.len() >= pcm_frame_size`) *)
Definition byte_finalize (w : bwriter) : res finished :=
  let len := N.of_nat (length (bw_buf w)) in
  e <- (if bw_pcm_frame_size w <=? len then
          if bw_pcm_frame_size w =? 0 then Panic PDivZero else
          let whole := firstn (N.to_nat (len - len mod bw_pcm_frame_size w)) (bw_buf w) in
          byte_encode_chunk (bw_endian w) (bw_channels w) (bw_bytes_per_sample w) (bw_enc w) whole
        else Ok (bw_enc w));;
  encoder_finalize e.

Definition byte_run (w : bwriter) (chunks : list (list N)) : res finished :=
  w' <- fold_res byte_write w chunks;; byte_finalize w'.

(* ================= FlacChannelWriter ================= *)

Record cwriter := {
  cw_enc : encoder;
  cw_bufs : list (list Z);         (* channel_bufs *)
  cw_channels : N;                 (* frame.channels *)
  cw_frame_sample_size : N;
  cw_bytes_per_sample : N }.

(* encode.rs:767 *)
Definition channel_new (prefix : list N) (o : options) (sample_rate bits_per_sample channels : N)
           (total_samples : option N) : res cwriter :=
  bps <- signed_bit_count_32 bits_per_sample;;
  let bytes := bytes_per_sample_of bps in
  t <- channel_total total_samples;;
  e <- encoder_new prefix o sample_rate bps channels t;;
  Ok {| cw_enc := e; cw_bufs := repeat [] (N.to_nat channels); cw_channels := channels;
        cw_frame_sample_size := o_block_size o; cw_bytes_per_sample := bytes |}.

(* channel_bufs.iter_mut().zip(channels): extend each buffer by the matching slice *)
Fixpoint zip_app (a b : list (list Z)) : list (list Z) :=
  match a with
  | [] => []
  | x :: a' => match b with [] => a | y :: b' => (x ++ y) :: zip_app a' b' end
  end.

(* MultiZip over chunks_exact_mut(bs) of every channel buffer: whole blocks while every channel
   still holds bs samples; fuel = length of the first buffer *)
Fixpoint cdrain_fuel (fuel bs : nat) (bufs : list (list Z)) : list block * list (list Z) :=
  match fuel with
  | O => ([], bufs)
  | S f =>
      if forallb (fun b => bs <=? length b)%nat bufs
      then let (cs, r) := cdrain_fuel f bs (map (skipn bs) bufs) in (map (firstn bs) bufs :: cs, r)
      else ([], bufs)
  end.
Definition cdrain (bs : nat) (bufs : list (list Z)) : list block * list (list Z) :=
  match bufs with [] => ([], bufs) | c :: _ => cdrain_fuel (length c) bs bufs end.

Definition channel_encode_chunk (channels bytes_per_sample : N) (e : encoder) (blk : block) : res encoder :=
  bytes <- update_md5 (concat (multizip blk)) bytes_per_sample;;
  f <- fill_from_channels p channels blk;;
  encoder_encode (md5_consume e bytes) f.

(* encode.rs:830 *)
Definition channel_write (w : cwriter) (chans : list (list Z)) : res cwriter :=
  match chans with
  | [] => Err EChannelCountMismatch
  | first :: rest =>
      if N.of_nat (length chans) =? si_channels (e_si (cw_enc w)) then
        if existsb (fun c => negb (length c =? length first)%nat) rest then Err EChannelLengthMismatch
        else
          let bufs := zip_app (cw_bufs w) chans in
          if cw_frame_sample_size w =? 0 then Panic PChunkZero else
          let '(blocks, rest') := cdrain (N.to_nat (cw_frame_sample_size w)) bufs in
          e <- fold_res (channel_encode_chunk (cw_channels w) (cw_bytes_per_sample w)) (cw_enc w) blocks;;
          Ok {| cw_enc := e; cw_bufs := rest'; cw_channels := cw_channels w;
                cw_frame_sample_size := cw_frame_sample_size w;
                cw_bytes_per_sample := cw_bytes_per_sample w |}
      else Err EChannelCountMismatch
  end.

(* encode.rs:893 *)
Definition channel_finalize (w : cwriter) : res finished :=
  match cw_bufs w with
  | [] => Panic PSlice                                          (* channel_bufs[0] *)
  | c0 :: _ =>
      e <- (if negb (length c0 =? 0)%nat
            then channel_encode_chunk (cw_channels w) (cw_bytes_per_sample w) (cw_enc w) (cw_bufs w)
            else Ok (cw_enc w));;
      encoder_finalize e
  end.

Definition channel_run (w : cwriter) (chunks : list (list (list Z))) : res finished :=
  w' <- fold_res channel_write w chunks;; channel_finalize w'.

End Writers.
