(* readers/Sample_proofs.v — FlacSampleReader and FlacSampleIterator: invariant and refinement of
   the abstract cursor over the interleaved PCM, for read, fill_buf, consume, next and seek. *)
From FlacReaders Require Import Spec Lists_proofs Frame_proofs Core_proofs.
Open Scope N_scope.

Section Sample.
  Variable F : file.
  Hypothesis V : valid_file F.
  Notation data := (pcm F).
  Notation nch := (f_channels F).

  Definition SInv (r : sample_reader) : Prop :=
    exists pre done, f_slots F = pre ++ d_rest (sr_dec r) /\ d_cur (sr_dec r) = sumlen pre /\
                     sdata pre = done ++ sr_buf r.

  Lemma sinv_new : SInv (sample_new F).
  Proof. exists [], []. cbn. auto. Qed.

  Lemma sinv_facts r : SInv r -> exists done,
    data = done ++ sr_buf r ++ sdata (d_rest (sr_dec r)) /\
    spos F r = lenN done /\ lenN done + lenN (sr_buf r) = d_cur (sr_dec r) * nch.
  Proof.
    intros (pre & done & E & Ec & Eb). exists done.
    assert (Hl : lenN (sdata pre) = sumlen pre * nch).
    { apply sdata_len. apply (split_good F V _ _ E). }
    rewrite Eb, lenN_app in Hl.
    split; [unfold pcm; rewrite E at 1; now rewrite sdata_app, Eb, <- app_assoc|].
    unfold spos. rewrite Ec. lia.
  Qed.

  Lemma sdata_total_len : lenN data = total_frames F * nch.
  Proof. apply sdata_len. apply (v_good F V). Qed.

  Lemma interleave_nonempty f : wf_frame nch f -> interleave f <> [].
  Proof.
    intros Hf E. pose proof (interleave_len nch f Hf) as H. rewrite E in H. cbn in H.
    destruct Hf as (_ & Hp & _). pose proof (v_channels F V). nia.
  Qed.

  Lemma sample_refill_spec r : SInv r -> sr_buf r = [] ->
    (d_rest (sr_dec r) = [] /\ sample_refill F r = (r, Ok false)) \/
    (exists f rest r1, d_rest (sr_dec r) = SFrame f :: rest /\ wf_frame nch f /\
        sample_refill F r = (r1, Ok true) /\ SInv r1 /\ sr_buf r1 = interleave f /\
        d_rest (sr_dec r1) = rest /\ spos F r1 = spos F r).
  Proof.
    intros I Eb. destruct I as (pre & done & E & Ec & Ed).
    destruct (d_rest (sr_dec r)) as [|s rest] eqn:Er.
    - left. split; [reflexivity|]. unfold sample_refill. rewrite (read_frame_none F V _ pre E Er Ec).
      destruct r; reflexivity.
    - right. destruct (read_frame_some F V _ pre s rest E Er Ec) as (f & -> & Hf & Hrf).
      exists f, rest. eexists. split; [reflexivity|]. split; [exact Hf|].
      unfold sample_refill. rewrite Hrf. rewrite (iter_ok nch f Hf). rewrite Eb. cbn [app].
      split; [reflexivity|]. cbn [sr_dec sr_buf d_rest d_cur].
      assert (I1 : SInv {| sr_dec := {| d_rest := rest; d_cur := sumlen pre + pcm_frames f; d_buf := f |};
                           sr_buf := interleave f |}).
      { exists (pre ++ [SFrame f]), done. cbn [sr_dec sr_buf d_rest d_cur].
        split; [now rewrite <- app_assoc|]. split; [rewrite sumlen_app; cbn [sumlen slot_frame]; lia|].
        rewrite sdata_app, Ed, Eb, app_nil_r. f_equal. rewrite sdata_cons. unfold sdata. cbn.
        now rewrite app_nil_r. }
      split; [exact I1|]. split; [reflexivity|]. split; [reflexivity|].
      destruct (sinv_facts _ I1) as (done1 & _ & -> & H1).
      assert (I0 : SInv r) by (exists pre, done; rewrite Er; auto).
      destruct (sinv_facts _ I0) as (done0 & _ & -> & H0).
      cbn [sr_dec sr_buf d_cur] in H1. rewrite Eb, Ec in H0. cbn in H0.
      rewrite (interleave_len nch f Hf) in H1. lia.
  Qed.

  Lemma sample_drain_spec r n : SInv r ->
    let (r', o) := sample_drain r n in
    SInv r' /\ o = OSamples (takeN n (sr_buf r)) /\ spos F r' = spos F r + lenN (takeN n (sr_buf r)) /\
    prefix (takeN n (sr_buf r)) (dropN (spos F r) data).
  Proof.
    intros I. unfold sample_drain. rewrite splitN_take_drop.
    destruct I as (pre & done & E & Ec & Ed).
    assert (I0 : SInv r) by (exists pre, done; auto).
    assert (I1 : SInv {| sr_dec := sr_dec r; sr_buf := dropN n (sr_buf r) |}).
    { exists pre, (done ++ takeN n (sr_buf r)). cbn [sr_dec sr_buf].
      split; [exact E|]. split; [exact Ec|]. now rewrite <- app_assoc, take_drop. }
    split; [exact I1|]. split; [reflexivity|].
    destruct (sinv_facts _ I0) as (d0 & Hd0 & P0 & L0). destruct (sinv_facts _ I1) as (d1 & Hd1 & P1 & L1).
    cbn [sr_dec sr_buf] in *. split.
    - rewrite P0, P1. rewrite lenN_dropN in L1. rewrite lenN_takeN. lia.
    - rewrite P0, Hd0, dropN_app_len. rewrite <- (take_drop n (sr_buf r)) at 2. rewrite <- app_assoc.
      apply prefix_app.
  Qed.

  Lemma spos_le r : SInv r -> spos F r <= lenN data.
  Proof. intros I. destruct (sinv_facts _ I) as (d & -> & -> & _). rewrite lenN_app. lia. Qed.

  Lemma s_at_end r : SInv r -> sr_buf r = [] -> d_rest (sr_dec r) = [] -> spos F r = lenN data.
  Proof.
    intros I Eb Er. destruct (sinv_facts _ I) as (d & Hd & -> & _). rewrite Hd, Eb, Er. cbn.
    now rewrite app_nil_r.
  Qed.

  Lemma takeN_nonempty' {A} n (l : list A) : 0 < n -> l <> [] -> takeN n l <> [].
  Proof.
    intros Hn Hl E. apply (f_equal lenN) in E. rewrite lenN_takeN in E. cbn in E.
    pose proof (lenN_pos l Hl). lia.
  Qed.

  Lemma sample_read_ok r n : SInv r ->
    SInv (fst (sample_read F r n)) /\ cur_ok data (abs_s F (r, SRead n, snd (sample_read F r n))).
  Proof.
    intros I. pose proof (spos_le r I) as Hle. unfold cur_ok, abs_s. cbn [e_pos e_op e_out e_pos' sample_step].
    unfold sample_read. destruct (sr_buf r) as [|b0 bs] eqn:Eb.
    - destruct (sample_refill_spec r I Eb) as [(Er & ->)|(f & rest & r1 & Er & Hf & -> & I1 & Eb1 & Er1 & P1)].
      + cbn [fst snd abs_out_data samples_of]. split; [exact I|]. split; [exact Hle|]. split; [exact Hle|].
        split; [apply prefix_nil|]. cbn. split; [lia|]. split; [lia|].
        intros _ Hlt. rewrite (s_at_end r I Eb Er) in Hlt. lia.
      + pose proof (sample_drain_spec r1 n I1) as H. destruct (sample_drain r1 n) as [r' o].
        destruct H as (I' & -> & P' & Hpre). cbn [fst snd abs_out_data samples_of].
        split; [exact I'|]. split; [exact Hle|]. split; [now apply spos_le|].
        rewrite <- P1. split; [exact Hpre|]. split; [rewrite lenN_takeN; lia|]. split; [exact P'|].
        intros Hn _. apply takeN_nonempty'; [exact Hn|]. rewrite Eb1. now apply interleave_nonempty.
    - pose proof (sample_drain_spec r n I) as H. destruct (sample_drain r n) as [r' o].
      destruct H as (I' & -> & P' & Hpre). cbn [fst snd abs_out_data samples_of].
      split; [exact I'|]. split; [exact Hle|]. split; [now apply spos_le|].
      split; [exact Hpre|]. split; [rewrite lenN_takeN; lia|]. split; [exact P'|].
      intros Hn _. apply takeN_nonempty'; [exact Hn|]. rewrite Eb. discriminate.
  Qed.

  Lemma sample_fill_ok r : SInv r ->
    SInv (fst (sample_fill_buf F r)) /\ cur_ok data (abs_s F (r, SFill, snd (sample_fill_buf F r))) /\
    snd (sample_fill_buf F r) = OSamples (sr_buf (fst (sample_fill_buf F r))).
  Proof.
    intros I. pose proof (spos_le r I) as Hle. unfold cur_ok, abs_s. cbn [e_pos e_op e_out e_pos' sample_step].
    unfold sample_fill_buf. destruct (sr_buf r) as [|b0 bs] eqn:Eb.
    - destruct (sample_refill_spec r I Eb) as [(Er & ->)|(f & rest & r1 & Er & Hf & -> & I1 & Eb1 & Er1 & P1)].
      + cbn [fst snd abs_out_data samples_of]. split; [exact I|]. split; [|now rewrite Eb].
        split; [exact Hle|]. split; [exact Hle|]. split; [apply prefix_nil|]. split; [reflexivity|].
        intros Hlt. rewrite (s_at_end r I Eb Er) in Hlt. lia.
      + cbn [fst snd abs_out_data samples_of]. split; [exact I1|]. split; [|reflexivity].
        split; [exact Hle|]. split; [rewrite P1; exact Hle|].
        destruct (sinv_facts _ I1) as (d1 & Hd1 & Pd1 & _).
        split; [rewrite <- P1, Pd1, Hd1, dropN_app_len; apply prefix_app|]. split; [exact P1|].
        intros _. rewrite Eb1. now apply interleave_nonempty.
    - cbn [fst snd abs_out_data samples_of]. split; [exact I|]. split; [|now rewrite Eb].
      split; [exact Hle|]. split; [exact Hle|].
      destruct (sinv_facts _ I) as (d0 & Hd0 & Pd0 & _).
      split; [rewrite Pd0, Hd0, dropN_app_len, Eb; apply prefix_app|]. split; [reflexivity|]. discriminate.
  Qed.

  Lemma sample_consume_ok r k : SInv r -> k <= lenN (sr_buf r) ->
    SInv (fst (sample_consume r k)) /\ cur_ok data (abs_s F (r, SConsume k, snd (sample_consume r k))).
  Proof.
    intros I Hk. pose proof (spos_le r I) as Hle. unfold cur_ok, abs_s. cbn [e_pos e_op e_out e_pos' sample_step].
    unfold sample_consume. apply N.leb_le in Hk as Hk'. rewrite Hk'. cbn [fst snd abs_out_data samples_of item_of].
    destruct I as (pre & done & E & Ec & Ed).
    assert (I0 : SInv r) by (exists pre, done; auto).
    assert (I1 : SInv {| sr_dec := sr_dec r; sr_buf := dropN k (sr_buf r) |}).
    { exists pre, (done ++ takeN k (sr_buf r)). cbn [sr_dec sr_buf].
      split; [exact E|]. split; [exact Ec|]. now rewrite <- app_assoc, take_drop. }
    split; [exact I1|]. split; [exact Hle|]. split; [now apply spos_le|].
    destruct (sinv_facts _ I0) as (d0 & _ & P0 & L0). destruct (sinv_facts _ I1) as (d1 & _ & P1 & L1).
    cbn [sr_dec sr_buf] in *. rewrite lenN_dropN in L1. lia.
  Qed.

  (* popping the front sample of a non-empty buffer *)
  Lemma pop_front_spec r x rest : SInv r -> sr_buf r = x :: rest ->
    SInv {| sr_dec := sr_dec r; sr_buf := rest |} /\
    spos F {| sr_dec := sr_dec r; sr_buf := rest |} = spos F r + 1 /\
    prefix [x] (dropN (spos F r) data).
  Proof.
    intros I Eb. destruct I as (pre & done & E & Ec & Ed).
    assert (I0 : SInv r) by (exists pre, done; auto).
    assert (I1 : SInv {| sr_dec := sr_dec r; sr_buf := rest |}).
    { exists pre, (done ++ [x]). cbn [sr_dec sr_buf].
      split; [exact E|]. split; [exact Ec|]. rewrite Ed, Eb, <- app_assoc. reflexivity. }
    split; [exact I1|].
    destruct (sinv_facts _ I0) as (d0 & Hd0 & P0 & L0). destruct (sinv_facts _ I1) as (d1 & Hd1 & P1 & L1).
    cbn [sr_dec sr_buf] in *. rewrite Eb, lenN_cons in L0. split; [lia|].
    rewrite P0, Hd0, dropN_app_len, Eb. exists (rest ++ sdata (d_rest (sr_dec r))). reflexivity.
  Qed.

  Lemma sample_next_ok r : SInv r ->
    SInv (fst (sample_next F r)) /\ cur_ok data (abs_s F (r, SNext, snd (sample_next F r))).
  Proof.
    intros I. pose proof (spos_le r I) as Hle. unfold cur_ok, abs_s. cbn [e_pos e_op e_out e_pos' sample_step].
    unfold sample_next. destruct (sr_buf r) as [|x bs] eqn:Eb.
    - destruct (sample_refill_spec r I Eb) as [(Er & ->)|(f & rest & r1 & Er & Hf & -> & I1 & Eb1 & Er1 & P1)].
      + cbn [fst snd abs_out_data samples_of item_of]. split; [exact I|]. split; [exact Hle|]. split; [exact Hle|].
        split; [now apply s_at_end|reflexivity].
      + pose proof (interleave_nonempty f Hf) as Hne. rewrite <- Eb1 in Hne.
        destruct (sr_buf r1) as [|y ys] eqn:Eb1'; [congruence|].
        destruct (pop_front_spec r1 y ys I1 Eb1') as (I' & P' & Hpre).
        cbn [fst snd abs_out_data samples_of item_of].
        split; [exact I'|]. split; [exact Hle|]. split; [now apply spos_le|].
        rewrite <- P1. auto.
    - destruct (pop_front_spec r x bs I Eb) as (I' & P' & Hpre).
      cbn [fst snd abs_out_data samples_of item_of].
      split; [exact I'|]. split; [exact Hle|]. split; [now apply spos_le|]. auto.
  Qed.

  (* ---- seek *)
  Lemma sinv_after_dec_seek pre rest o g :
    f_slots F = pre ++ rest -> o = sumlen pre ->
    SInv {| sr_dec := {| d_rest := rest; d_cur := o; d_buf := g |}; sr_buf := [] |} /\
    spos F {| sr_dec := {| d_rest := rest; d_cur := o; d_buf := g |}; sr_buf := [] |} = o * nch.
  Proof.
    intros E Eo. split.
    - exists pre, (sdata pre). cbn [sr_dec sr_buf d_rest d_cur]. rewrite app_nil_r. auto.
    - unfold spos. cbn. lia.
  Qed.

  Lemma sample_skip_spec fuel : forall r pos sample,
    SInv r -> spos F r = pos * nch -> pos <= sample -> sample < U64 ->
    (pos < sample -> sr_buf r = []) -> (length (d_rest (sr_dec r)) < fuel)%nat ->
    let (r', o) := sample_skip F fuel r pos sample in
    SInv r' /\
    ((sample <= total_frames F /\ o = OUnit /\ spos F r' = sample * nch) \/
     (total_frames F < sample /\ o = OErr EOther /\ spos F r' = lenN data)).
  Proof.
    pose proof (v_channels F V) as Hch. pose proof sdata_total_len as Hlen.
    induction fuel as [|fuel IH]; intros r pos sample I P Hle Hd Hbuf Hfuel; [lia|].
    cbn [sample_skip]. destruct (N.ltb_spec pos sample) as [Hlt|Hge].
    - specialize (Hbuf Hlt). unfold sample_fill_buf. rewrite Hbuf.
      destruct (sample_refill_spec r I Hbuf) as [(Er & ->)|(f & rest & r1 & Er & Hf & -> & I1 & Eb1 & Er1 & P1)].
      + unfold div_u. destruct (N.eqb_spec nch 0) as [|_]; [lia|]. cbn.
        split; [exact I|]. right. pose proof (s_at_end r I Hbuf Er) as He. rewrite P in He.
        split; [nia|]. split; [reflexivity|]. now rewrite P.
      + rewrite Eb1. unfold div_u. destruct (N.eqb_spec nch 0) as [|_]; [lia|].
        rewrite (interleave_len nch f Hf), N.div_mul by lia.
        destruct (pcm_frames f) as [|pf] eqn:Epf; [destruct Hf as (_ & Hp & _); lia|]. rewrite <- Epf.
        rewrite u64_sub_ok by lia. cbn [bind]. rewrite (v_usize F V), usize_ok by lia. cbn [bind].
        set (tc := N.min (pcm_frames f) (sample - pos)).
        assert (Hamt : tc * nch <= lenN (sr_buf r1)).
        { rewrite Eb1, (interleave_len nch f Hf). unfold tc. nia. }
        destruct (sinv_facts _ I1) as (dn1 & Hdn1 & _ & _).
        apply (f_equal lenN) in Hdn1. rewrite !lenN_app, Hlen in Hdn1.
        pose proof (total_ch_lt_u64 F V) as Htc.
        rewrite u64_mul_ok by lia. cbn [bind].
        destruct (sample_consume_ok r1 (tc * nch) I1 Hamt) as (I2 & C2).
        unfold sample_consume in *. apply N.leb_le in Hamt as Hamt'. rewrite Hamt' in *. cbn [fst snd] in *.
        destruct C2 as (_ & _ & C2). cbn [abs_s e_op e_out e_pos e_pos' abs_out_data samples_of item_of sample_step] in C2.
        unfold sample_consume in C2. rewrite Hamt' in C2. cbn [fst] in C2.
        rewrite u64_add_ok by (unfold tc; lia).
        apply IH.
        * exact I2.
        * rewrite C2, P1, P. lia.
        * unfold tc. lia.
        * exact Hd.
        * intros Hlt2. cbn [sr_buf]. apply dropN_all. rewrite Eb1, (interleave_len nch f Hf).
          unfold tc in *. assert (N.min (pcm_frames f) (sample - pos) = pcm_frames f) by lia. nia.
        * cbn [sr_dec]. rewrite Er1. rewrite Er in Hfuel. cbn [length] in Hfuel. lia.
    - split; [exact I|]. left. assert (pos = sample) by lia. subst sample.
      pose proof (spos_le r I) as Hle1. rewrite P, Hlen in Hle1.
      split; [nia|]. auto.
  Qed.

  Lemma sample_seek_ok r s : SInv r -> s < U64 ->
    SInv (fst (sample_seek F r s)) /\ cur_ok data (abs_s F (r, SSeek s, snd (sample_seek F r s))) /\
    (f_seekable F = true -> total_frames F < s -> spos F (fst (sample_seek F r s)) = lenN data).
  Proof.
    intros I Hs. pose proof (spos_le r I) as Hle. pose proof sdata_total_len as Hlen.
    unfold cur_ok, abs_s. cbn [e_pos e_op e_out e_pos' sample_step]. unfold sample_target, sample_seek.
    destruct (f_seekable F) eqn:Esk; cbn [negb andb].
    - destruct (dec_seek_spec F V (sr_dec r) s) as (pre & rest & o & E & Eo & Hos & ->).
      destruct (sinv_after_dec_seek pre rest o (d_buf (sr_dec r)) E Eo) as (I0 & P0).
      pose proof (sample_skip_spec (S (S (length rest))) _ o s I0 P0 Hos Hs (fun _ => eq_refl)) as HS.
      cbn [sr_dec d_rest] in HS. specialize (HS ltac:(lia)). cbn [d_rest].
      destruct (sample_skip F (S (S (length rest))) _ o s) as [r' out].
      destruct HS as (I' & [(Hdl & -> & P')|(Hdl & -> & P')]); cbn [fst snd abs_out_data samples_of item_of].
      + split; [exact I'|]. split; [|intros _ Hgt; lia]. split; [exact Hle|]. split; [now apply spos_le|].
        replace (s <=? total_frames F) with true by (symmetry; apply N.leb_le; lia).
        split; [rewrite Hlen; nia | exact P'].
      + split; [exact I'|]. split; [|intros _ _; exact P']. split; [exact Hle|]. split; [now apply spos_le|].
        replace (s <=? total_frames F) with false by (symmetry; apply N.leb_gt; lia).
        auto.
    - cbn [fst snd abs_out_data samples_of item_of]. split; [exact I|]. split; [|discriminate].
      split; [exact Hle|]. split; [exact Hle|]. auto.
  Qed.
End Sample.
