(* Property C09 — STREAMINFO and SEEKTABLE written at finalize describe the stream truthfully. *)
From FlacWriters Require Import Writers Lists_proofs Params_proofs Writers_proofs New_proofs Finalize_proofs Cases
     Encoder_proofs Seek_proofs Finish_proofs C09_proofs Run_proofs.
Open Scope N_scope.

(* Layout: in each of the three cases (placeholder table refilled, table carved out of the
   padding, nothing inserted) the metadata region keeps the length it had when the constructor
   wrote it; the finished stream is the same prefix, a metadata region of the same length, and
   the same frame bytes at the same offsets. *)
Theorem C09_layout_sample :
  forall enc_block md5 p prefix o rate bps ch total w chunks f,
    (forall l, length (md5 l) = 16%nat) ->
    sample_new p prefix o rate bps ch total = Ok w ->
    sample_run enc_block md5 p w chunks = Ok f ->
    layout_ok (sw_enc w) f.
Proof. intros. eapply sample_layout; eauto. Qed.
Theorem C09_layout_byte :
  forall enc_block md5 p en prefix o rate bps ch total w chunks f,
    (forall l, length (md5 l) = 16%nat) ->
    byte_new p en prefix o rate bps ch total = Ok w ->
    byte_run enc_block md5 p w chunks = Ok f ->
    layout_ok (bw_enc w) f.
Proof. intros. eapply byte_layout; eauto. Qed.
Theorem C09_layout_channel :
  forall enc_block md5 p prefix o rate bps ch total w chunks f,
    (forall l, length (md5 l) = 16%nat) ->
    channel_new p prefix o rate bps ch total = Ok w ->
    channel_run enc_block md5 p w chunks = Ok f ->
    layout_ok (cw_enc w) f.
Proof. intros. eapply channel_layout; eauto. Qed.

(* the three cases, on the block list alone *)
Theorem C09_layout_cases : forall cap blocks sel blocks',
  finalize_seektable_gen cap blocks sel = Ok blocks' -> meta_len blocks' = meta_len blocks.
Proof. intros. rewrite !meta_len_blocks_len. f_equal. eapply finalize_seektable_keeps_length; eauto. Qed.

(* STREAMINFO and SEEKTABLE of a successful FlacSampleWriter run, in terms of the samples written.
   `counters_fit`: the true totals (PCM frames, bytes) fit the u64 counters (a release build would
   otherwise wrap; a debug build panics on the overflow).  `fs_min`/`fs_max` are the extrema of
   the frame lengths that fit the 24-bit fields; `md5_of` the little-endian bytes update_md5 feeds.
   Every frame has block_size PCM frames except a shorter last one; the total is their sum; the
   digest is that of the bytes of exactly the whole PCM frames; every defined seek point is the
   candidate (first sample, byte offset, length) of an emitted frame, the table is contiguous
   (defined points strictly ascending, placeholders last), and generate_seektable on the frames
   selects the same points (identical table when it was carved out of the padding; same defined
   points, up to the placeholder table's length, when a total was declared). *)
Theorem C09_sample :
  forall enc_block md5 p prefix o rate bps ch total w chunks f,
    (forall l, length (md5 l) = 16%nat) ->
    options_wf o -> sample_new p prefix o rate bps ch total = Ok w ->
    sample_run enc_block md5 p w chunks = Ok f -> counters_fit (f_enc f) ->
    let all := concat chunks in
    let bs := o_block_size o in
    let bytes := bytes_per_sample_of bps in
    exists cs r,
      drain (N.to_nat (ch * bs)) all = (cs, r) /\
      let tail := N.of_nat (length r) / ch in
      let whole := firstn (N.to_nat (ch * tail)) r in
      let frames := frames_info (f_enc f) in
      map fst frames = repeat bs (length cs) ++ (if 1 <=? tail then [tail] else []) /\ tail < bs /\
      si_total (f_si f) = Some (bs * N.of_nat (length cs) + tail) /\
      si_rate (f_si f) = rate /\ si_channels (f_si f) = ch /\ si_bps (f_si f) = bps /\
      si_min_bs (f_si f) = bs /\ si_max_bs (f_si f) = bs /\
      si_min_fs (f_si f) = fs_min (map snd frames) /\ si_max_fs (f_si f) = fs_max (map snd frames) /\
      si_md5 (f_si f) = Some (md5 (md5_of bytes (concat cs ++ (if 1 <=? tail then whole else [])))) /\
      (forall iv pts, o_seektable_interval o = Some iv -> first_seektable (f_blocks f) = Some pts ->
         is_contiguous pts = true /\
         (forall s b m, In (Defined s b m) pts ->
            In {| sp_sample := s; sp_byte := Some b; sp_frames := m |} (frame_seekpoints 0 0 frames)) /\
         exists sel regenerated,
           generate_seektable p rate frames iv = Ok regenerated /\
           defined_points regenerated = take_n (map to_mpoint sel) MAX_POINTS /\
           match first_seektable (e_blocks (sw_enc w)) with
           | None => pts = regenerated
           | Some old => defined_points pts = take_n (map to_mpoint sel) (N.of_nat (length old))
           end).
Proof. intros. eapply sample_c09; eauto. Qed.

(* the same at the level of the Encoder, for any front-end: finalize on an encoder satisfying the
   bookkeeping invariant *)
Theorem C09_streaminfo : forall md5 p e f,
  (forall l, length (md5 l) = 16%nat) ->
  enc_inv e -> enc_static e -> frames_nonempty e -> encoder_finalize md5 p e = Ok f ->
  si_total (f_si f) = Some (true_samples e) /\
  si_min_fs (f_si f) = fs_min (map snd (frames_info e)) /\
  si_max_fs (f_si f) = fs_max (map snd (frames_info e)) /\
  si_md5 (f_si f) = Some (md5 (md5_input e)) /\
  si_rate (f_si f) = si_rate (e_si e) /\ si_channels (f_si f) = si_channels (e_si e) /\
  si_bps (f_si f) = si_bps (e_si e) /\ si_min_bs (f_si f) = si_min_bs (e_si e) /\
  si_max_bs (f_si f) = si_max_bs (e_si e) /\ 1 <= true_samples e < MAX_SAMPLES.
Proof. intros. eapply finalize_streaminfo; eauto. Qed.

Theorem C09_points : forall md5 p e f iv pts,
  (forall l, length (md5 l) = 16%nat) ->
  enc_inv e -> enc_static e -> frames_nonempty e -> e_interval e = Some iv ->
  encoder_finalize md5 p e = Ok f -> first_seektable (f_blocks f) = Some pts ->
  is_contiguous pts = true /\
  (forall s b m, In (Defined s b m) pts ->
     In {| sp_sample := s; sp_byte := Some b; sp_frames := m |} (frame_seekpoints 0 0 (frames_info e))) /\
  exists sel regenerated,
    generate_seektable p (si_rate (e_si e)) (frames_info e) iv = Ok regenerated /\
    defined_points regenerated = take_n (map to_mpoint sel) MAX_POINTS /\
    match first_seektable (e_blocks e) with
    | None => pts = regenerated
    | Some old => defined_points pts = take_n (map to_mpoint sel) (N.of_nat (length old))
    end.
Proof. intros. eapply finalize_points; eauto. Qed.

(* the extrema really are extrema *)
Theorem C09_frame_size_extrema : forall lens,
  match fs_min lens with
  | None => Forall (fun s => qualifies s = false) lens
  | Some m => In m lens /\ qualifies m = true /\ forall s, In s lens -> qualifies s = true -> m <= s
  end /\
  match fs_max lens with
  | None => Forall (fun s => qualifies s = false) lens
  | Some m => In m lens /\ qualifies m = true /\ forall s, In s lens -> qualifies s = true -> s <= m
  end.
Proof.
  intros lens. split.
  - unfold fs_min. pose proof (fold_min_spec lens None) as H. destruct (fold_left _ lens None).
    + destruct H as ([H|[H1 H2]] & _ & H3); [discriminate|auto].
    + tauto.
  - unfold fs_max. pose proof (fold_max_spec lens None) as H. destruct (fold_left _ lens None).
    + destruct H as ([H|[H1 H2]] & _ & H3); [discriminate|auto].
    + tauto.
Qed.

(* non-vacuity: a concrete run (2 channels, 16 bits, block size 16, 40 PCM frames, seek point
   every frame, no declared total) finishes, and its STREAMINFO total is 40 *)
Example C09_nonvacuous :
  exists f, sample_run Cases.dummy_enc Cases.dummy_md5 Release
              (match sample_new Release [7; 7; 7]
                       (options_seektable_frames (match options_block_size options_default 16 with Ok o => o | _ => options_default end) 1)
                       44100 16 2 None with Ok w => w | _ => {| sw_enc := {| e_prefix := []; e_meta := []; e_frames_rev := []; e_interval := None; e_blocks := []; e_si := {| si_min_bs := 0; si_max_bs := 0; si_min_fs := None; si_max_fs := None; si_rate := 0; si_channels := 0; si_bps := 0; si_total := None; si_md5 := None |}; e_frame_number := 0; e_samples_written := 0; e_seekpoints_rev := []; e_count := 0; e_md5_rev := []; e_emitted_rev := [] |}; sw_buf := []; sw_channels := 0; sw_frame_sample_size := 0; sw_bytes_per_sample := 0 |} end)
              [repeat 1%Z 50; repeat 2%Z 30] = Ok f /\
           si_total (f_si f) = Some 40 /\
           (exists pts, first_seektable (f_blocks f) = Some pts /\ length pts = 3%nat).
Proof. vm_compute. eexists. split; [reflexivity|]. split; [reflexivity|]. eexists. split; reflexivity. Qed.
