//! C14 searcher: an interrupted encode leaves a file whose complete frames are all decodable.
//! The three writers run against an in-memory Write+Seek sink that records every write call.
//! The byte stream emitted *before finalize begins* is taken (all whole blocks have been
//! encoded by then), and for every write-call boundary and -- for small streams -- every byte
//! prefix, the prefix is decoded: it must deliver exactly the PCM of every frame wholly inside
//! the prefix, in order, and then end or report an error; never a sample that was not written.
//! Declared and undeclared totals, every seek-table policy, padding or none.
#[path = "c01_shared/mod.rs"]
mod shared;

use flac_codec::stream::Frame;
use shared::io::*;
use shared::space::*;
use shared::*;
use std::cell::RefCell;
use std::collections::BTreeMap;
use std::io::{Cursor, Seek, SeekFrom, Write};
use std::rc::Rc;
use vharness::json::{esc, ints, obj};
use vharness::*;

#[derive(Default)]
struct SinkState {
    data: Vec<u8>,
    pos: usize,
    /// (position, length) of every write call
    log: Vec<(usize, usize)>,
    seeks: usize,
    flushes: usize,
    /// 0: every write is accepted whole; m > 0: a write call accepts at most 1 + (call number * 5) % m bytes (a pipe,
    /// a socket, a full disk buffer: `write` may return a short count and the caller must re-offer the rest)
    short: usize,
}
#[derive(Clone)]
struct Sink(Rc<RefCell<SinkState>>);
impl Write for Sink {
    fn write(&mut self, buf: &[u8]) -> std::io::Result<usize> {
        let mut s = self.0.borrow_mut();
        let pos = s.pos;
        let n = if s.short > 0 && !buf.is_empty() { buf.len().min(1 + (s.log.len() * 5) % s.short) } else { buf.len() };
        let buf = &buf[..n];
        if s.data.len() < pos + buf.len() { s.data.resize(pos + buf.len(), 0); }
        s.data[pos..pos + buf.len()].copy_from_slice(buf);
        s.pos += buf.len();
        s.log.push((pos, buf.len()));
        Ok(buf.len())
    }
    fn flush(&mut self) -> std::io::Result<()> { self.0.borrow_mut().flushes += 1; Ok(()) }
}
impl Seek for Sink {
    fn seek(&mut self, p: SeekFrom) -> std::io::Result<u64> {
        let mut s = self.0.borrow_mut();
        s.seeks += 1;
        let np: i64 = match p { SeekFrom::Start(x) => x as i64, SeekFrom::Current(d) => s.pos as i64 + d, SeekFrom::End(d) => s.data.len() as i64 + d };
        if np < 0 { return Err(std::io::Error::new(std::io::ErrorKind::InvalidInput, "negative seek")); }
        s.pos = np as usize;
        Ok(np as u64)
    }
}

/// decode through a source that hands the bytes out in the given read sizes (fill_buf / consume on the FLAC reader)
fn rd_sample_chunked(bytes: &[u8], sizes: &[usize]) -> Obs {
    let mut o = Obs { samples: vec![], end: End::Eof, ch: 0, bps: 0, rate: 0, opened: false };
    let r = catch(|| {
        let mut rd = match flac_codec::decode::FlacSampleReader::new(ChunkedReader::new(bytes, sizes)) {
            Ok(r) => r,
            Err(e) => { o.end = End::Err(err_class(&e)); return; }
        };
        o.opened = true;
        loop {
            match rd.fill_buf() {
                Ok(buf) => { if buf.is_empty() { o.end = End::Eof; return; } let n = buf.len(); o.samples.extend_from_slice(buf); rd.consume(n); }
                Err(e) => { o.end = End::Err(err_class(&e)); return; }
            }
        }
    });
    if let Err(p) = r { o.end = End::Panic(p); }
    o
}

fn main() {
    hook_panics();
    let seed = env_seed();
    let thorough = env_tier_thorough();
    let mut out = Out::new();
    let mut rng = Rng::new(seed, 0xC14);
    let kinds = all_kinds();
    let mut cases_prefix = 0usize;
    let mut n_short = 0usize;
    let (mut n_enc, mut n_prefix, mut n_boundaries, mut n_byte_exhaustive, mut nonappend, mut cases) = (0usize, 0usize, 0usize, 0usize, 0usize, 0usize);
    let mut by_seek: BTreeMap<String, usize> = BTreeMap::new();
    let mut by_writer: BTreeMap<String, usize> = BTreeMap::new();
    let mut ends: BTreeMap<String, usize> = BTreeMap::new();
    let seeks = [SeekPol::Default, SeekPol::Seconds(1), SeekPol::Frames(1), SeekPol::Frames(3), SeekPol::None];
    let n = scale(if thorough { 1500 } else { 90 });
    for i in 0..n {
        let seek = seeks[i % seeks.len()].clone();
        let declare_total = (i / seeks.len()) % 2 == 0;
        let wr = WRITERS[(i / 2) % WRITERS.len()];
        let ch = match rng.below(4) { 0 => 1u8, 1 | 2 => 2, _ => rng.range(1, 6) as u8 };
        let bps = *rng.pick(&[8u32, 16, 16, 24, 32, 12, 5, 20]);
        // every fifteenth stream has blocks large enough that the output spans several 8 KiB buffers
        let big = i % 15 == 14;
        let bs = if big { *rng.pick(&[1152u16, 2048]) } else { rng.range(16, 40) as u16 };
        let rate = if matches!(seek, SeekPol::Seconds(_)) || matches!(seek, SeekPol::Default) { *rng.pick(&[8u32, 20, 44100, 1, 100]) } else { pick_rate(&mut rng) };
        let cfg = Cfg { ch, bps, rate, bs, lpc: *rng.pick(&[None, Some(4u8), Some(8)]), po: rng.range(0, 4) as u32, mid_side: rng.chance(1, 2), fast: rng.chance(1, 2), win: Win::Tukey(0.5), declare_total, seek: seek.clone(), padding: match rng.below(3) { 0 => None, 1 => Some(0), _ => Some(rng.range(1, 64) as u32) } };
        let nblocks = if big { rng.range(3, 5) } else { rng.range(1, 5) } as usize;
        let tail = rng.range(0, bs as i64 - 1) as usize;
        let frames = nblocks * bs as usize + tail;
        let kind = kinds[i % kinds.len()];
        let pcm = gen_pcm_ext(&mut rng, kind, ch as usize, bps, frames);
        let unit = if wr == Writer::Channels { bs as usize } else { bs as usize * ch as usize };
        let total_units = if wr == Writer::Channels { frames } else { pcm.len() };
        let mode = rng.below(3);
        let chunks = chunking(&mut rng, total_units, mode, unit);
        let state = Rc::new(RefCell::new(SinkState::default()));
        // every fourth stream goes into a sink that accepts short counts (small streams only: one call per few bytes)
        let short = if i % 4 == 3 && !big { *rng.pick(&[1usize, 2, 3, 7, 13]) } else { 0 };
        state.borrow_mut().short = short;
        if short > 0 { n_short += 1; }
        let input: Vec<(&str, String)> = vec![("cfg", cfg.json()), ("short_write_max", short.to_string()), ("kind", esc(kind)), ("writer", esc(&format!("{:?}", wr))), ("pcm", ints(&pcm[..pcm.len().min(4000)])), ("chunks", ints(&chunks[..chunks.len().min(40)]))];
        clear_panic_loc();
        // everything up to (not including) finalize: the writer object is leaked, so neither
        // finalize nor Drop runs
        let r = catch(|| encode_with(Sink(state.clone()), wr, &cfg, &pcm, &chunks, false));
        match r {
            Ok(Ok(())) => {}
            Ok(Err(e)) => { out.viol(&format!("encode-err:{}", err_class(&e)), &format!("writing {} PCM frames fails before finalize: {}", frames, err_class(&e)), &input); continue; }
            Err(p) => { out.viol_panic("encode", &p, &format!("writing {} PCM frames panics: {}", frames, p), &input); continue; }
        }
        n_enc += 1;
        *by_seek.entry(format!("{:?}/{}", seek, if declare_total { "declared" } else { "undeclared" })).or_insert(0) += 1;
        *by_writer.entry(format!("{:?}", wr)).or_insert(0) += 1;
        let st = state.borrow();
        let snapshot = st.data.clone();
        // before finalize the output must be append-only
        let mut at = 0usize;
        let mut bounds: Vec<usize> = vec![0];
        let mut append_only = true;
        for (pos, len) in st.log.iter() {
            if *pos != at { append_only = false; }
            at = pos + len;
            bounds.push(at);
        }
        if !append_only || st.seeks > 1 {
            nonappend += 1;
            note(&format!("writer output before finalize is not append-only ({} seeks): prefixes are taken of the final image", st.seeks));
        }
        drop(st);
        bounds.sort();
        bounds.dedup();
        // frame ends inside the snapshot (structural parser, STREAMINFO of the snapshot)
        let si = Si { min_bs: bs, max_bs: bs, min_fs: 0, max_fs: 0, rate, ch, bps, total: 0, md5: [0; 16] }.to_streaminfo();
        let meta_len = match catch(|| flac_codec::stream::FrameIterator::new(Cursor::new(&snapshot[..])).map(|it| it.metadata_len() as usize)) {
            Ok(Ok(m)) => m,
            other => { out.viol("provisional-metadata-unreadable", &format!("metadata written before the first frame does not parse: {:?}", other.map(|r| r.map_err(|e| err_class(&e)))), &[("bytes", esc(&hex(&snapshot[..snapshot.len().min(4000)])))]); continue; }
        };
        let mut frame_ends: Vec<usize> = vec![];
        {
            let mut c = Cursor::new(&snapshot[meta_len..]);
            loop {
                if c.position() as usize >= snapshot.len() - meta_len { break; }
                match catch(|| Frame::read(&mut c, &si)) {
                    Ok(Ok(_)) => frame_ends.push(meta_len + c.position() as usize),
                    _ => break,
                }
            }
        }
        let whole_blocks = frames / bs as usize;
        if frame_ends.len() != whole_blocks || frame_ends.last().copied().unwrap_or(meta_len) != snapshot.len() {
            out.viol("emitted-frames-unexpected", &format!("{} whole blocks were written but the bytes emitted before finalize hold {} parsable frames ({} bytes, last frame ends at {:?})", whole_blocks, frame_ends.len(), snapshot.len(), frame_ends.last()), &input);
            continue;
        }
        // the same bytes for the composed model (coq/e2e): its `stream` after the same writes must be this snapshot
        if cases_prefix < scale(if thorough { 400 } else { 60 }) && pcm.len() <= 6000 && snapshot.len() <= 60000 {
            cases_prefix += 1;
            out.case(obj(&[("t", esc("case")), ("kind", esc("e2e_prefix")), ("profile", esc(profile())), ("writer", esc(&format!("{:?}", wr))), ("bytes", esc(&hex(&snapshot))), ("expect", ints(&pcm)), ("cfg", cfg.json())]));
        }
        let per = bs as usize * ch as usize;
        // prefixes: every write-call boundary; every byte if small; frame ends and their neighbours
        let mut cuts: Vec<usize> = vec![];
        if snapshot.len() <= (if thorough { 2500 } else { 700 }) { cuts.extend(0..=snapshot.len()); n_byte_exhaustive += 1; }
        else {
            if bounds.len() <= 1500 { cuts.extend(bounds.iter().cloned()); } else { for _ in 0..1500 { cuts.push(*rng.pick(&bounds)); } }
            for e in frame_ends.iter() { for d in [-2i64, -1, 0, 1, 2, 7] { let c = *e as i64 + d; if c >= 0 && c as usize <= snapshot.len() { cuts.push(c as usize); } } }
            for d in 0..20 { if meta_len + d <= snapshot.len() { cuts.push(meta_len + d); } cuts.push(meta_len.saturating_sub(d)); }
        }
        n_boundaries += bounds.len();
        cuts.sort();
        cuts.dedup();
        for cut in cuts {
            let q = &snapshot[..cut];
            n_prefix += 1;
            let k = frame_ends.iter().filter(|e| **e <= cut).count();
            let d = decode_all(q);
            *ends.entry(if d.opened { d.end.tag().split(':').take(2).collect::<Vec<_>>().join(":") } else { "open-failed".into() }).or_insert(0) += 1;
            let pin: Vec<(&str, String)> = vec![("cfg", cfg.json()), ("prefix_len", cut.to_string()), ("stream_len", snapshot.len().to_string()), ("frame_ends", ints(&frame_ends)), ("bytes", esc(&hex(&q[..q.len().min(6000)]))), ("expect", ints(&pcm[..(k * per).min(3000)]))];
            if let End::Panic(p) = &d.end {
                out.viol_panic("prefix-decode", p, &format!("decoding a {}-byte prefix of an unfinished file panics: {}", cut, p), &pin);
                continue;
            }
            if d.samples.len() > k * per || d.samples[..] != pcm[..d.samples.len().min(pcm.len())] {
                out.viol("prefix-yields-unwritten-samples", &format!("prefix of {} bytes holds {} complete frames ({} samples) but the decoder delivered {} samples{}", cut, k, k * per, d.samples.len(), if d.samples[..] != pcm[..d.samples.len().min(pcm.len())] { " that differ from the PCM written" } else { "" }), &pin);
            } else if d.samples.len() < k * per {
                out.viol("prefix-loses-complete-frame", &format!("prefix of {} bytes holds {} complete frames ({} samples) but the decoder delivered only {} samples before {}", cut, k, k * per, d.samples.len(), d.end.tag()), &pin);
            }
            // the same prefix through the other ways of reading it: `read` with a buffer length that does not divide
            // the block size, the iterator, the channel reader, and a source that hands the bytes out in short reads
            // (also one byte at a time: a pipe, a socket) — each must deliver what the fill_buf read delivers
            if n_prefix % 7 == 0 {
                let which = (n_prefix / 7) % 5;
                let (name, o): (&str, Obs) = match which {
                    0 => ("FlacSampleReader::read with an odd buffer", rd_sample_read(q, 1 + (cut * 7 + n_prefix) % 53)),
                    1 => ("the sample iterator", rd_iter(q)),
                    2 => ("FlacChannelReader", rd_channels(q)),
                    3 => ("a source making one-byte reads", rd_sample_chunked(q, &vec![1usize; q.len() + 1])),
                    _ => { let unit = 1 + (cut + n_prefix) % 9; let sizes: Vec<usize> = (0..q.len() / unit + 2).map(|i| 1 + (i * 5 + cut) % (2 * unit)).collect(); ("a source making short reads", rd_sample_chunked(q, &sizes)) }
                };
                if let End::Panic(p) = &o.end { out.viol_panic("prefix-decode", p, &format!("{} panics on a {}-byte prefix: {}", name, cut, p), &pin); }
                else if o.samples != d.samples {
                    out.viol("prefix-readers-disagree", &format!("{} delivers {} samples on a {}-byte prefix where the fill_buf read delivers {} (then {}; {} complete frames = {} samples inside the prefix)", name, o.samples.len(), cut, d.samples.len(), o.end.tag(), k, k * per), &pin);
                }
            }
            // cross-check one other front-end now and then
            if n_prefix % 17 == 0 {
                let o = rd_bytes(q, false, 4096);
                if let End::Panic(p) = &o.end { out.viol_panic("prefix-decode", p, &format!("byte reader panics on a {}-byte prefix: {}", cut, p), &pin); }
                else if o.samples != d.samples { out.viol("prefix-readers-disagree", &format!("byte reader delivers {} samples, sample reader {} on the same prefix", o.samples.len(), d.samples.len()), &pin); }
            }
        }
        if cases < scale(if thorough { 200 } else { 40 }) && snapshot.len() < 1500 && pcm.len() <= MODEL_MAX_SAMPLES {
            cases += 1;
            // a few mid-frame prefixes for the model diff
            for cut in [snapshot.len(), frame_ends[0].saturating_sub(1), meta_len + 3] {
                out.case(dec_stream_case(&snapshot[..cut.min(snapshot.len())], None, &[("src", esc("interrupted"))]));
            }
        }
    }
    let m = |m: &BTreeMap<String, usize>| format!("{{{}}}", m.iter().map(|(k, v)| format!("{}:{}", esc(k), v)).collect::<Vec<_>>().join(","));
    println!(
        "{}",
        obj(&[
            ("t", esc("stat")), ("profile", esc(profile())), ("encodes", n_enc.to_string()), ("prefixes_decoded", n_prefix.to_string()), ("write_call_boundaries", n_boundaries.to_string()),
            ("streams_with_every_byte_prefix", n_byte_exhaustive.to_string()), ("streams_into_short_write_sink", n_short.to_string()), ("not_append_only", nonappend.to_string()), ("by_seek_policy", m(&by_seek)), ("by_writer", m(&by_writer)),
            ("prefix_ends", m(&ends)), ("cases_emitted", out.cases.to_string()), ("viols", out.viols.to_string()), ("viol_keys", out.counts()),
        ])
    );
}
