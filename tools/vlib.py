#!/usr/bin/env python3
"""Shared machinery for /verif checks.

A check for property <id> is a Python function registered in tools/check that
  1. regenerates translator output (Gen*.v) from the current repo tree,
  2. builds the Coq development for the property (full .vo; never -vos), verifies
     hygiene (no Admitted/Axiom/...), and reads `Print Assumptions` for the
     property theorems,
  3. builds the Rust harness against the current repo tree (hooks on) and the
     extracted OCaml model driver,
  4. runs the correspondence (model vs implementation on the same cases) and the
     property searcher on the implementation,
  5. writes evidence/<id>.json and prints VIOLATION / KNOWN-FINDING lines.
"""
import hashlib
import json
import os
import re
import shutil
import subprocess
import sys
import time

VERIF = os.path.dirname(os.path.dirname(os.path.abspath(__file__)))
REPO = os.environ.get("VERIF_REPO", "/repo")
CACHE = os.path.join(VERIF, ".cache")
GUARD = "flac_codec_verif"
NCPU = os.cpu_count() or 4

ALLOWED_AXIOMS = {
    # standard-library axioms that may appear (named in DESIGN.md §5); none is expected
    "functional_extensionality_dep", "proof_irrelevance", "classic", "JMeq_eq", "eq_rect_eq",
}

FORBIDDEN = re.compile(
    r"\b(Admitted|admit|Axiom|Axioms|Parameter|Parameters|Conjecture|Conjectures|Admit Obligations|"
    r"bypass_check|Unset Guard Checking|Unset Positivity Checking|Unset Universe Checking|"
    r"type-in-type|impredicative-set|native_compute)\b")


def log(msg):
    sys.stderr.write(msg + "\n")
    sys.stderr.flush()


def sh(cmd, timeout=1800, cwd=None, env=None, stdin=None):
    """Run a command, return (rc, stdout+stderr). rc=124 on timeout."""
    e = dict(os.environ)
    e.setdefault("CARGO_NET_OFFLINE", "true")
    if env:
        e.update(env)
    try:
        p = subprocess.run(cmd, shell=isinstance(cmd, str), cwd=cwd, env=e, input=stdin,
                           stdout=subprocess.PIPE, stderr=subprocess.STDOUT, timeout=timeout,
                           universal_newlines=True, errors="replace")
        return p.returncode, p.stdout
    except subprocess.TimeoutExpired as ex:
        out = ex.stdout or ""
        if isinstance(out, bytes):
            out = out.decode("utf-8", "replace")
        return 124, out + "\n[timeout after %ss]" % timeout


# ---------------------------------------------------------------------------------------
# Coq
# ---------------------------------------------------------------------------------------

def strip_coq_comments(text):
    out = []
    depth = 0
    i = 0
    n = len(text)
    while i < n:
        if text.startswith("(*", i):
            depth += 1
            i += 2
        elif depth and text.startswith("*)", i):
            depth -= 1
            i += 2
        else:
            if depth == 0:
                out.append(text[i])
            i += 1
    return "".join(out)


def coq_files(coq_dir):
    """The .v files listed in <coq_dir>/_CoqProject (in order)."""
    files = []
    for line in open(os.path.join(coq_dir, "_CoqProject")):
        line = line.strip()
        if line.endswith(".v") and not line.startswith("-"):
            files.append(line)
    return files


def coq_hygiene(coq_dirs):
    """Scan every .v under the given dirs for forbidden vernacular. Returns list of hits."""
    hits = []
    for d in coq_dirs:
        for root, _, names in os.walk(d):
            for nm in names:
                if not nm.endswith(".v"):
                    continue
                p = os.path.join(root, nm)
                txt = strip_coq_comments(open(p, errors="replace").read())
                for m in FORBIDDEN.finditer(txt):
                    hits.append("%s: %s" % (os.path.relpath(p, VERIF), m.group(0)))
                # Variable/Hypothesis outside a section
                depth = 0
                for ln in txt.splitlines():
                    s = ln.strip()
                    if re.match(r"Section\b", s):
                        depth += 1
                    elif re.match(r"End\b", s) and depth > 0:
                        depth -= 1
                    elif depth == 0 and re.match(r"(Variable|Variables|Hypothesis|Hypotheses|Context)\b", s):
                        hits.append("%s: section-less %s" % (os.path.relpath(p, VERIF), s.split()[0]))
    return hits


def coq_make(coq_dir, targets=None, timeout=2400):
    """Build (coq_makefile + make -j). Returns (ok, log)."""
    mk = os.path.join(coq_dir, "Makefile")
    cp = os.path.join(coq_dir, "_CoqProject")
    if (not os.path.exists(mk)) or os.path.getmtime(mk) < os.path.getmtime(cp):
        rc, out = sh("coq_makefile -f _CoqProject -o Makefile", cwd=coq_dir, timeout=120)
        if rc != 0:
            return False, out
    tgt = " ".join(targets) if targets else ""
    rc, out = sh("make -j%d %s" % (NCPU, tgt), cwd=coq_dir, timeout=timeout)
    return rc == 0, out


def coq_assumptions(coq_dir, qflags, requires, theorems, tag, timeout=600):
    """Compile a scratch file that Requires the given modules and prints the assumptions
    and statement of each theorem.  Returns (ok, {name: [axioms]}, {name: statement}, log)."""
    scratch = os.path.join(CACHE, "assum")
    os.makedirs(scratch, exist_ok=True)
    path = os.path.join(scratch, "Assum_%s.v" % tag)
    lines = ["Require Import %s." % r for r in requires]
    lines.append("Open Scope N_scope.")
    for t in theorems:
        lines.append('Goal True. idtac "@@BEGIN %s". Abort.' % t)
        lines.append("Print Assumptions %s." % t)
        lines.append('Goal True. idtac "@@TYPE %s". Abort.' % t)
        lines.append("Check %s." % t)
        lines.append('Goal True. idtac "@@END %s". Abort.' % t)
    open(path, "w").write("\n".join(lines) + "\n")
    rc, out = sh("coqc -noglob %s %s" % (qflags, path), cwd=coq_dir, timeout=timeout)
    res, stm = {}, {}
    if rc != 0:
        return False, res, stm, out
    for t in theorems:
        m = re.search(r"@@BEGIN %s\n(.*?)@@TYPE %s\n(.*?)@@END %s" % (re.escape(t), re.escape(t), re.escape(t)), out, re.S)
        if not m:
            return False, res, stm, out
        body = m.group(1)
        stm[t] = " ".join(m.group(2).split())
        if "Closed under the global context" in body:
            res[t] = []
        else:
            ax = re.findall(r"^([A-Za-z_][\w.']*)\s*:", body, re.M)
            res[t] = ax
    return True, res, stm, out


def count_obligations(coq_dir, files):
    """Number of proved statements (Lemma/Theorem/... closed by Qed/Defined) in the files."""
    n_stmt = n_qed = 0
    for f in files:
        txt = strip_coq_comments(open(os.path.join(coq_dir, f), errors="replace").read())
        n_stmt += len(re.findall(r"^\s*(?:Local\s+|Global\s+|#\[[^\]]*\]\s*)?(?:Lemma|Theorem|Corollary|Fact|Example|Proposition|Remark)\b", txt, re.M))
        n_qed += len(re.findall(r"\b(?:Qed|Defined)\s*\.", txt))
    return n_stmt, n_qed


# ---------------------------------------------------------------------------------------
# Rust harness / OCaml
# ---------------------------------------------------------------------------------------

def repo_tag():
    return "repo" if REPO == "/repo" else "alt_" + hashlib.sha1(REPO.encode()).hexdigest()[:8]


def cargo_build(crate_dir, bin_name, profile="release", features=None, hooks=True, timeout=1800):
    """Build one binary of the harness crate against REPO.  The manifest is generated under
    .cache/manifests/<repo tag>/ from <crate_dir>/Cargo.toml.in (@REPO@ = repository path,
    @CRATE@ = crate dir) with explicit [lib]/[[bin]] paths, so concurrent checks against
    different repository copies never share a Cargo.toml.  Returns (ok, binary_path, log)."""
    import glob as _glob
    tmpl = open(os.path.join(crate_dir, "Cargo.toml.in")).read()
    text = tmpl.replace("@REPO@", REPO).replace("@CRATE@", crate_dir)
    text += "\n[lib]\nname = \"vharness\"\npath = \"%s/src/lib.rs\"\n" % crate_dir
    for src in sorted(_glob.glob(os.path.join(crate_dir, "src", "bin", "*.rs"))):
        nm = os.path.splitext(os.path.basename(src))[0]
        text += "\n[[bin]]\nname = \"%s\"\npath = \"%s\"\n" % (nm, src)
    for src in sorted(_glob.glob(os.path.join(crate_dir, "src", "bin", "*", "main.rs"))):
        nm = os.path.basename(os.path.dirname(src))
        text += "\n[[bin]]\nname = \"%s\"\npath = \"%s\"\n" % (nm, src)
    tag = repo_tag() + ("" if hooks else "_nohook")
    mdir = os.path.join(CACHE, "manifests", tag)
    os.makedirs(mdir, exist_ok=True)
    ct = os.path.join(mdir, "Cargo.toml")
    if not os.path.exists(ct) or open(ct).read() != text:
        tmp = ct + ".%d" % os.getpid()
        open(tmp, "w").write(text)
        os.replace(tmp, ct)
    lock_src = os.path.join(REPO, "Cargo.lock")
    lock_dst = os.path.join(mdir, "Cargo.lock")
    if not os.path.exists(lock_dst) and os.path.exists(lock_src):
        shutil.copy(lock_src, lock_dst)
    target = os.path.join(CACHE, "target", tag)
    os.makedirs(target, exist_ok=True)
    env = {"CARGO_TARGET_DIR": target, "CARGO_NET_OFFLINE": "true"}
    if hooks:
        env["RUSTFLAGS"] = "--cfg %s" % GUARD
    cmd = "cargo build --offline --manifest-path %s --bin %s" % (ct, bin_name)
    if profile == "release":
        cmd += " --release"
    if features:
        cmd += " --features " + ",".join(features)
    rc, out = sh(cmd, cwd=mdir, env=env, timeout=timeout)
    binp = os.path.join(target, "release" if profile == "release" else "debug", bin_name)
    return rc == 0 and os.path.exists(binp), binp, out


def ocaml_build(ml_dir, main_files, exe, timeout=900):
    """ocamlfind ocamlopt the given files (in order) into <ml_dir>/<exe>."""
    cmd = "ocamlfind ocamlopt -w -a -o %s %s" % (exe, " ".join(main_files))
    rc, out = sh(cmd, cwd=ml_dir, timeout=timeout)
    return rc == 0, os.path.join(ml_dir, exe), out


# ---------------------------------------------------------------------------------------
# Known findings, evidence, result protocol
# ---------------------------------------------------------------------------------------

def known_findings():
    """Parse /verif/KNOWN_FINDINGS.txt -> ({(prop,key): text}, [fixed lines])."""
    import glob as _glob
    paths = [os.path.join(VERIF, "KNOWN_FINDINGS.txt")] + sorted(_glob.glob(os.path.join(VERIF, "coq", "*", "findings.txt")))
    findings, fixed = {}, []
    for path in paths:
        if not os.path.exists(path):
            continue
        for ln in open(path):
            ln = ln.strip()
            if not ln or ln.startswith("#"):
                continue
            m = re.match(r"finding:\s+property=(\S+)\s+key=(\S+)\s+(.*)", ln)
            if m:
                findings[(m.group(1), m.group(2))] = m.group(3)
            elif ln.startswith("fixed:"):
                fixed.append(ln)
    return findings, fixed


class Check:
    """Collects results of one property check and finishes with the required protocol."""

    def __init__(self, pid, level="proof"):
        self.pid = pid
        self.level = level
        self.t0 = time.time()
        self.tier = os.environ.get("VERIF_TIER", "quick")
        if self.tier not in ("quick", "thorough"):
            self.tier = "quick"
        try:
            self.seed = int(os.environ.get("VERIF_SEED", "1"))
        except ValueError:
            self.seed = 1
        self.violations = []      # (key, description, replay dict)
        self.known_hits = []      # (key, description)
        self.coverage = {}
        self.assumptions = []
        self.notes = []
        self.findings, _ = known_findings()

    def replay_path(self, key):
        d = os.path.join(VERIF, "replay")
        os.makedirs(d, exist_ok=True)
        h = hashlib.sha1(key.encode()).hexdigest()[:10]
        return os.path.join(d, "%s-%s.json" % (self.pid, h))

    def violation(self, key, desc, replay=None, no_input=False):
        """Record a violation. `key` is the finding signature (matched against KNOWN_FINDINGS)."""
        if (self.pid, key) in self.findings:
            if key not in [k for k, _ in self.known_hits]:
                self.known_hits.append((key, self.findings[(self.pid, key)]))
            return
        self.violations.append((key, desc, replay or {}, no_input))

    def broken_tie(self, stage, detail):
        """A proof obligation or correspondence stage no longer checks and no failing input
        was found: reported as a violation ending in no-failing-input-found."""
        self.violation("tie:" + stage, "%s no longer checks: %s" % (stage, detail[-2000:]),
                       {"stage": stage, "detail": detail[-8000:]}, no_input=True)

    def finish(self):
        wall = time.time() - self.t0
        cov = dict(self.coverage)
        ev = {
            "property_id": self.pid,
            "tier": self.tier,
            "seed": self.seed,
            "level": self.level,
            "coverage": cov,
            "assumptions": self.assumptions,
            "wall_s": round(wall, 2),
            "violations": len(self.violations),
        }
        if self.notes:
            ev["coverage"]["notes"] = self.notes
        if self.known_hits:
            ev["coverage"]["known_findings_hit"] = [k for k, _ in self.known_hits]
        os.makedirs(os.path.join(VERIF, "evidence"), exist_ok=True)
        with open(os.path.join(VERIF, "evidence", "%s.json" % self.pid), "w") as f:
            json.dump(ev, f, indent=1, sort_keys=True)
            f.write("\n")
        for key, text in self.known_hits:
            print("KNOWN-FINDING: property=%s %s [%s]" % (self.pid, text, key))
        seen = set()
        for key, desc, replay, no_input in self.violations:
            if key in seen:
                continue
            seen.add(key)
            path = self.replay_path(key)
            with open(path, "w") as f:
                json.dump({"property": self.pid, "key": key, "description": desc, "replay": replay,
                           "seed": self.seed, "tier": self.tier}, f, indent=1)
                f.write("\n")
            tail = " no-failing-input-found" if no_input else ""
            print("VIOLATION property=%s replay=%s%s" % (self.pid, path, tail))
            log("  %s: %s" % (key, desc[:600]))
        sys.stdout.flush()
        if self.violations:
            sys.exit(1)
        print("OK property=%s tier=%s wall=%.1fs" % (self.pid, self.tier, wall))
        sys.exit(0)


def proof_stage(chk, coq_dirs, build_dir, qflags, requires, theorems, obligation_files, gen_steps=(), pins=None):
    """The common proof stage. gen_steps: list of (cmdline) translators to run first.
    coq_dirs: dirs (in dependency order) to `make`; build_dir: where Props live.
    pins: {theorem: regex that the printed statement must match} (statement pinning)."""
    trusted = ["Coq 8.16.1 kernel + vm_compute (no native_compute); no axioms declared (hygiene grep every run)",
               "tools/vlib.py, tools/check (this driver)",
               "extraction: Coq Extraction with ExtrOcamlBasic only (no Extract Constant/Inductive of our own; N/Z/positive/nat stay inductive), OCaml 4.13.1, ocaml/*_driver.ml; cross-checked against vm_compute samples",
               "Rust harness (harness/), rustc/cargo, the hand-written model's fidelity as far as the correspondence run exercises it"]
    for cmd in gen_steps:
        rc, out = sh(cmd, timeout=300)
        trusted.append("translator: " + cmd.split()[1] if len(cmd.split()) > 1 else cmd)
        if rc == 2:
            chk.broken_tie("translator", out)
        elif rc == 3:
            chk.notes.append("anchor changed: " + out.strip()[:500])
        elif rc != 0:
            chk.broken_tie("translator", out)
    ok_all = True
    for d in coq_dirs:
        ok, out = coq_make(d)
        if not ok:
            ok_all = False
            chk.broken_tie("coq-build:" + os.path.relpath(d, VERIF), out)
            break
    hits = coq_hygiene(coq_dirs)
    if hits:
        ok_all = False
        chk.broken_tie("coq-hygiene", "; ".join(hits[:20]))
    n_stmt = n_qed = 0
    for d, files in obligation_files:
        a, b = count_obligations(d, files)
        n_stmt += a
        n_qed += b
    axioms_seen = {}
    if ok_all:
        ok, res, stm, out = coq_assumptions(build_dir, qflags, requires, theorems, chk.pid)
        if not ok:
            ok_all = False
            chk.broken_tie("print-assumptions", out)
        else:
            for t, ax in res.items():
                bad = [a for a in ax if a.split(".")[-1] not in ALLOWED_AXIOMS]
                axioms_seen[t] = ax
                if bad:
                    ok_all = False
                    chk.broken_tie("assumptions:" + t, "depends on " + ", ".join(bad))
            for t, rx in (pins or {}).items():
                if not re.search(rx, stm.get(t, "")):
                    ok_all = False
                    chk.broken_tie("pinned-statement:" + t, "statement is now: " + stm.get(t, "?"))
            chk.coverage["theorem_statements"] = stm
    if ok_all and getattr(chk, "tier", "quick") == "thorough":
        mods = [r for r in requires if not r.startswith("Coq.")]
        if not coqchk_stage(chk, coq_dirs, build_dir, qflags, mods):
            ok_all = False
    chk.coverage["obligations"] = max(n_stmt, 1)
    chk.coverage["discharged"] = n_qed if ok_all else 0
    chk.coverage["theorems"] = theorems
    chk.coverage["print_assumptions"] = {t: (ax or "Closed under the global context") for t, ax in axioms_seen.items()}
    chk.coverage["checker_cmd"] = "coq_makefile -f _CoqProject -o Makefile && make -j%d (coqc 8.16.1, full .vo) in %s; coqc Print Assumptions on %s" % (
        NCPU, ", ".join(os.path.relpath(d, VERIF) for d in coq_dirs), ", ".join(theorems))
    chk.coverage["trusted_base"] = trusted
    return ok_all


def coqchk_stage(chk, coq_dirs, build_dir, qflags, modules):
    """Independent re-check of the compiled development with coqchk (thorough tier): every module the
    property theorems live in, and everything they depend on, is re-checked by the stand-alone checker;
    its context summary must list no axiom, no type-in-type, no unsafe fixpoint, no assumed positivity.
    The result is cached by the hash of the .vo files."""
    import glob as _glob
    h = hashlib.sha256()
    for d in coq_dirs:
        for f in sorted(_glob.glob(os.path.join(d, "*.vo"))):
            h.update(f.encode())
            with open(f, "rb") as fh:
                h.update(fh.read())
    h.update(" ".join(modules).encode())
    cdir = os.path.join(VERIF, ".cache", "coqchk")
    os.makedirs(cdir, exist_ok=True)
    cf = os.path.join(cdir, h.hexdigest()[:24] + ".txt")
    if os.path.exists(cf):
        out = open(cf).read()
        rc = 0
    else:
        rc, out = sh("cd %s && coqchk -o -silent %s %s 2>&1" % (build_dir, qflags, " ".join(modules)), timeout=3000)
        if rc == 0:
            with open(cf, "w") as fh:
                fh.write(out)
    summary = out[out.find("CONTEXT SUMMARY"):] if "CONTEXT SUMMARY" in out else out[-1500:]
    fields = dict(re.findall(r"\* ([^:\n]+):\s*([^\n]*)", summary))
    okc = rc == 0 and fields.get("Axioms", "?").strip() == "<none>" and all(
        v.strip() == "<none>" for k, v in fields.items() if k.startswith(("Constants/Inductives relying", "Inductives whose positivity")))
    chk.coverage["coqchk"] = {"cmd": "coqchk -o -silent %s %s" % (qflags, " ".join(modules)), "summary": {k.strip(): v.strip() for k, v in fields.items()}, "ok": okc}
    if not okc:
        chk.broken_tie("coqchk", summary[-1500:])
    return okc


def splitmix64(state):
    state = (state + 0x9E3779B97F4A7C15) & 0xFFFFFFFFFFFFFFFF
    z = state
    z = ((z ^ (z >> 30)) * 0xBF58476D1CE4E5B9) & 0xFFFFFFFFFFFFFFFF
    z = ((z ^ (z >> 27)) * 0x94D049BB133111EB) & 0xFFFFFFFFFFFFFFFF
    return state, z ^ (z >> 31)
