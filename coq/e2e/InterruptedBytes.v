(* E2E/InterruptedBytes.v — C14 for FlacByteWriter (either byte order), by equality of the Encoder state with the sample
   writer's after the same PCM (writers area, Cross_writes.byte_write_is_sample_write): after ANY sequence of
   byte writes — cut anywhere, also in the middle of a sample — the bytes the writer has put on the underlying stream,
   followed by the next block's frame cut at any byte, are opened by the stream decoder model with the provisional
   STREAMINFO and decode to exactly the whole blocks of the PCM those bytes spell; never a panic. *)
From Coq Require Import List NArith ZArith Lia.
From FlacBase Require Import Res.
From FlacCodec Require Ast Stream Header Wf Enc Enc_proofs Dec Progress.
From FlacWriters Require Import Meta Params Params_proofs Finalize Writers Lists_proofs Writers_proofs Bytes_proofs Cross_proofs Cross_writes New_proofs.
From FlacE2E Require Import Bridge E2E InterruptedE2E.
From FlacE2E Require Transfer.
Import ListNotations.
Open Scope N_scope.

Module CS := FlacCodec.Stream.
Module EP := FlacCodec.Enc_proofs.
Module E := FlacCodec.Enc.

Theorem byte_writer_interrupted : forall o L p en rate bps wo ch tb wb chunks wb',
  options_wf wo ->
  byte_new p en [] wo rate bps ch tb = Ok wb ->
  fold_res (byte_write (encB o L rate bps) p) wb chunks = Ok wb' ->
  Forall byte_ok (concat chunks) ->
  let pcm := decoded en (N.to_nat (bytes_per_sample_of bps)) (concat chunks) in
  forallb (FlacCodec.Wf.fits bps) pcm = true ->
  N.of_nat (length pcm) < 2 ^ 36 ->
  let si := conv_si (e_si (bw_enc wb)) in
  let K := N.to_nat (ch * o_block_size wo) in
  exists bl,
    concat (map CS.interleave_frame bl) = firstn (K * (length pcm / K)) pcm /\
    forall b gb m,
      EP.block_ok si bps b -> E.block_len b = o_block_size wo ->
      E.enc_frame_bytes o L rate bps (N.of_nat (length bl)) b = Some gb -> (m < length gb)%nat ->
      match si_total (e_si (bw_enc wb)) with Some t => EP.blocks_samples bl + E.block_len b <= t | None => True end ->
      match CS.dec_stream (stream (bw_enc wb') ++ firstn m gb) with
      | Some (si', out, en') => si' = si /\ out = map CS.interleave_frame bl /\ FlacCodec.Progress.is_end_panic en' = false
      | None => False
      end.
Proof.
  intros o L p en rate bps wo ch tb wb chunks wb' Hwf Hb Hw Hbytes pcm Hfits Hlen si K.
  pose proof (byte_new_wf p en [] wo rate bps ch tb wb Hwf Hb) as Hbw.
  rewrite (byte_write_concat (encB o L rate bps) (fun _ => repeat 0 16) p chunks wb Hbw) in Hw.
  destruct (FlacE2E.Transfer.byte_new_sample_new p en wo rate bps ch tb wb Hb) as (ts & ws & Hs & Ht).
  (* the two writers hold the same Encoder *)
  pose proof Hwf as ((Hbs16 & _) & _).
  pose proof Hb as Hb0. pose proof Hs as Hs0.
  unfold byte_new in Hb. apply bind_ok in Hb. destruct Hb as (bps1 & Hb1 & Hb). apply bind_ok in Hb. destruct Hb as (t1 & Ht1 & Hb).
  apply bind_ok in Hb. destruct Hb as (e1 & He1 & Hb). injection Hb as <-.
  unfold sample_new in Hs. apply bind_ok in Hs. destruct Hs as (bps2 & Hb2 & Hs). apply bind_ok in Hs. destruct Hs as (t2 & Ht2 & Hs).
  apply bind_ok in Hs. destruct Hs as (e2 & He2 & Hs). injection Hs as <-.
  assert (Eb : bps1 = bps /\ bps2 = bps /\ 1 <= bps /\ bps <= 32).
  { unfold signed_bit_count_32 in Hb1, Hb2. destruct ((1 <=? bps) && (bps <=? 32)) eqn:Eq; [|discriminate].
    injection Hb1 as <-. injection Hb2 as <-. apply andb_prop in Eq. destruct Eq as [A B]. apply N.leb_le in A, B. auto. }
  destruct Eb as (-> & -> & B1 & B32).
  set (nb := bytes_per_sample_of bps) in *.
  assert (Hnb : 1 <= nb <= 4).
  { unfold nb, bytes_per_sample_of. split; [apply N.div_le_lower_bound; lia|]. apply N.lt_succ_r. apply N.div_lt_upper_bound; lia. }
  assert (Hch : 1 <= ch).
  { unfold encoder_new in He2. apply bind_ok in He2. destruct He2 as ([] & Hv & _). unfold encoder_new_validate in Hv.
    destruct (rate <? 1048576); [|discriminate]. destruct ((1 <=? ch) && (ch <=? 8)) eqn:Eq; [|discriminate].
    apply andb_prop in Eq. destruct Eq as [A _]. apply N.leb_le in A. exact A. }
  assert (Et : t1 = t2).
  { subst tb. destruct ts as [s|]; cbn [option_map] in Ht1; [|cbn in Ht1, Ht2; congruence].
    unfold sample_total in Ht2. unfold byte_total in Ht1.
    destruct (exact_div s ch) as [q|] eqn:Eq; [|discriminate].
    unfold exact_div in Eq. destruct (N.eqb_spec ch 0); [lia|]. cbn [negb andb] in Eq.
    destruct (N.eqb_spec (s mod ch) 0) as [Em|]; [|discriminate]. injection Eq as <-.
    assert (Es : s = ch * (s / ch)) by (pose proof (N.div_mod s ch ltac:(lia)); lia).
    set (sq := s / ch) in *. clearbody sq. subst s.
    assert (E1 : exact_div (nb * (ch * sq)) ch = Some (nb * sq)).
    { unfold exact_div. destruct (N.eqb_spec ch 0); [lia|]. cbn [negb andb].
      replace (nb * (ch * sq)) with (nb * sq * ch) by lia.
      rewrite N.mod_mul, N.div_mul by lia. reflexivity. }
    assert (E2 : exact_div (nb * sq) nb = Some sq).
    { unfold exact_div. destruct (N.eqb_spec nb 0); [lia|]. cbn [negb andb].
      rewrite (N.mul_comm nb sq), N.mod_mul, N.div_mul by lia. reflexivity. }
    rewrite E1, E2 in Ht1. destruct (sq =? 0); congruence. }
  subst t2. rewrite He1 in He2. injection He2 as <-.
  (* one write of everything, on both sides *)
  pose proof (byte_write_is_sample_write (encB o L rate bps) p en e1 ch nb (o_block_size wo) (concat chunks) Hnb Hch ltac:(lia) Hbytes) as Eq.
  cbv zeta in Eq. rewrite Hw in Eq. cbn [rmap bind] in Eq. fold pcm in Eq.
  match type of Eq with _ = rmap _ (sample_write _ _ ?w _) => set (ws := w) in * end.
  destruct (sample_write (encB o L rate bps) p ws pcm) as [ws'| |] eqn:Esw; cbn [rmap bind] in Eq; try discriminate.
  injection Eq as Eenc.
  assert (Hfold : fold_res (sample_write (encB o L rate bps) p) ws [pcm] = Ok ws') by (cbn [fold_res]; rewrite Esw; reflexivity).
  assert (Hcat : concat [pcm] = pcm) by (cbn; apply app_nil_r).
  pose proof (sample_writer_interrupted o L p rate bps wo ch ts ws [pcm] ws' Hwf Hs0 Hfold) as SI.
  rewrite Hcat in SI. specialize (SI Hfits Hlen). cbv zeta in SI.
  cbn [sw_enc ws] in SI. cbn [bw_enc] in *. rewrite <- Eenc in SI. exact SI.
Qed.
