(* e2eupd/WrittenFaultsFronts.v — WrittenFaults.v for the other two front-ends.  The step "one more update over faulty
   devices" is independent of how the file came about: whatever holds of the file after every history of typed,
   STREAMINFO-preserving edits holds of the file an Ok update over faulty devices leaves behind. *)
From FlacBase Require Import Res Bits.
From FlacMeta Require Import Bytes Bytes_proofs Blocks BlockList Blocks_proofs Blocks_level BlockList_proofs.
From FlacUpdIo Require GenUpd Update Update_proofs Update_cond IoFault IoFault_proofs.
From FlacCodec Require Ast Stream Spec Wf.
From FlacWriters Require Import Params Params_proofs Finalize Writers Encoder_proofs C09_proofs Bytes_proofs Writers_proofs Cross_proofs.
From FlacE2E Require Bridge E2E Success Transfer.
From FlacE2EMeta Require Import MetaBridge FinishedBlocks.
From FlacE2EUpd Require Import RealCodec CodecView UpdateE2E FaultsE2E WrittenEdited WrittenEditedFronts WrittenBytes WrittenFaults.
Open Scope N_scope.

Lemma faulty_update_after_history (u : list N -> bool) (file0 : list N) (P : list N -> Prop) :
  (forall edits fn rs,
     Forall (typed_edit u) edits -> Forall (U.keeps_streaminfo FlacMeta.Blocks.block) edits ->
     U.run_edits FlacMeta.Blocks.block psize_r ser_r uclass_r (read_blocks_r u) edits file0 = (fn, rs) -> P fn) ->
  forall edits fn rs,
    Forall (typed_edit u) edits -> Forall (U.keeps_streaminfo FlacMeta.Blocks.block) edits ->
    U.run_edits FlacMeta.Blocks.block psize_r ser_r uclass_r (read_blocks_r u) edits file0 = (fn, rs) ->
    forall (cap : nat) (ck : list N -> list (list N)) (edit : U.blocklist FlacMeta.Blocks.block -> res (U.blocklist FlacMeta.Blocks.block)) (rbf : bool)
           (w1 w2 : IO.world) (b : bool) (w1' w2' : IO.world),
    (0 < cap)%nat -> IO.ck_ok ck -> FlacUpdIo.IoFault_proofs.honest (IO.sr (IO.wsched w1)) ->
    IO.wdev w1 = {| IO.data := fn; IO.pos := 0 |} -> IO.wdev w2 = {| IO.data := []; IO.pos := 0 |} ->
    Forall byte fn ->
    typed_edit u edit -> U.keeps_streaminfo FlacMeta.Blocks.block edit ->
    IO.update_file_io FlacMeta.Blocks.block psize_r ser_r uclass_r (read_blocks_b u) true cap ck edit rbf w1 w2 = (Ok b, w1', w2') ->
    P (if b then IO.data (IO.wdev w2') else IO.data (IO.wdev w1')).
Proof.
  intros K edits fn rs T KS Hre cap ck edit rbf w1 w2 b w1' w2' Hcap Hck Hh Hw1 Hw2 Hbytes Te Ke Hio.
  set (out := if b then IO.data (IO.wdev w2') else IO.data (IO.wdev w1')).
  assert (Hp : (IO.pos (IO.wdev w1) <= length (IO.data (IO.wdev w1)))%nat) by (rewrite Hw1; cbn [IO.pos]; lia).
  assert (Hb : Forall byte (IO.data (IO.wdev w1))) by (rewrite Hw1; exact Hbytes).
  pose proof (real_update_under_faults u cap ck edit rbf w1 w2 b w1' w2' Hcap Hck Hh Hp Hw2 Hb Hio) as E.
  rewrite Hw1 in E. cbn [IO.pos IO.data] in E.
  assert (Eu : U.update FlacMeta.Blocks.block psize_r ser_r uclass_r (read_blocks_r u) edit fn = (out, Ok b)).
  { unfold U.update. rewrite E. cbn [U.rebuilt U.orig]. unfold out. destruct b; reflexivity. }
  pose proof (run_edits_snoc u edit edits file0 fn rs out (Ok b) Hre Eu) as Hre2.
  apply (K (edits ++ [edit]) out (rs ++ [Ok b])); [| |exact Hre2].
  - apply Forall_app. split; [exact T|]. constructor; [exact Te|constructor].
  - apply Forall_app. split; [exact KS|]. constructor; [exact Ke|constructor].
Qed.

Theorem byte_written_edited_then_faulty_update : forall (u : list N -> bool),
  (forall s, Forall (fun b => b < 128) s -> u s = true) ->
  forall o L md5, (forall l, length (md5 l) = 16%nat) -> (forall l, Forall (fun b => b < 256) (md5 l)) ->
  forall p rate bps ch, rate < 2 ^ 20 -> 1 <= bps -> bps <= 32 -> 1 <= ch -> ch <= 8 ->
  forall en wo total w (chunks : list (list N)),
  options_wf wo -> Forall plain (o_metadata wo) -> seektables (o_metadata wo) = 0%nat ->
  byte_new p en [] wo rate bps ch total = Ok w ->
  Forall byte_ok (concat chunks) ->
  let nb := bytes_per_sample_of bps in
  let samples := decoded en (N.to_nat nb) (concat chunks) in
  forallb (FlacCodec.Wf.fits bps) samples = true ->
  let W := N.of_nat (length samples) / ch in
  1 <= W -> N.of_nat (length samples) < 2 ^ 36 ->
  match total with Some T => T = nb * (ch * W) | None => True end ->
  exists f blocks,
    byte_run (FlacE2E.E2E.encB o L rate bps) md5 p w chunks = Ok f /\
    concat (map FlacCodec.Stream.interleave_frame blocks) =
      firstn (N.to_nat ch * (length samples / N.to_nat ch)) samples /\
    forall edits fn rs,
      Forall (typed_edit u) edits -> Forall (U.keeps_streaminfo FlacMeta.Blocks.block) edits ->
      U.run_edits FlacMeta.Blocks.block psize_r ser_r uclass_r (read_blocks_r u) edits (f_stream f) = (fn, rs) ->
      forall (cap : nat) (ck : list N -> list (list N)) (edit : U.blocklist FlacMeta.Blocks.block -> res (U.blocklist FlacMeta.Blocks.block)) (rbf : bool)
             (w1 w2 : IO.world) (b : bool) (w1' w2' : IO.world),
      (0 < cap)%nat -> IO.ck_ok ck -> FlacUpdIo.IoFault_proofs.honest (IO.sr (IO.wsched w1)) ->
      IO.wdev w1 = {| IO.data := fn; IO.pos := 0 |} -> IO.wdev w2 = {| IO.data := []; IO.pos := 0 |} ->
      Forall byte fn ->
      typed_edit u edit -> U.keeps_streaminfo FlacMeta.Blocks.block edit ->
      IO.update_file_io FlacMeta.Blocks.block psize_r ser_r uclass_r (read_blocks_b u) true cap ck edit rbf w1 w2 = (Ok b, w1', w2') ->
      let out := if b then IO.data (IO.wdev w2') else IO.data (IO.wdev w1') in
      FlacCodec.Stream.dec_stream out =
        Some (FlacE2E.Bridge.conv_si (f_si f), map FlacCodec.Stream.interleave_frame blocks, FlacCodec.Stream.EndEof) /\
      FlacCodec.Spec.spec_stream out = FlacCodec.Spec.spec_stream (f_stream f) /\
      exists meta_n, out = meta_n ++ frames_bytes (f_enc f).
Proof.
  intros u Hu o L md5 Hmd5 Hmd5b p rate bps ch Hrate Hb1 Hb32 Hc1 Hc8 en wo total w chunks Hwf Hpl Hs0 Hnew Hbytes nb samples Hfits W HW Hlen Htot.
  destruct (byte_written_then_edited u Hu o L md5 Hmd5 Hmd5b p rate bps ch Hrate Hb1 Hb32 Hc1 Hc8 en wo total w chunks Hwf Hpl Hs0 Hnew Hbytes Hfits HW Hlen Htot) as (f & blocks & Hrun & Hcat & K).
  exists f, blocks. split; [exact Hrun|]. split; [exact Hcat|].
  intros edits fn rs T KS Hre cap ck edit rbf w1 w2 b w1' w2' Hcap Hck Hh Hw1 Hw2 Hbytes' Te Ke Hio.
  exact (faulty_update_after_history u (f_stream f) _ K edits fn rs T KS Hre cap ck edit rbf w1 w2 b w1' w2' Hcap Hck Hh Hw1 Hw2 Hbytes' Te Ke Hio).
Qed.

Theorem channel_written_edited_then_faulty_update : forall (u : list N -> bool),
  (forall s, Forall (fun b => b < 128) s -> u s = true) ->
  forall o L md5, (forall l, length (md5 l) = 16%nat) -> (forall l, Forall (fun b => b < 256) (md5 l)) ->
  forall p rate bps ch, rate < 2 ^ 20 -> 1 <= bps -> bps <= 32 -> 1 <= ch -> ch <= 8 ->
  forall wo total w (chunks : list (list (list Z))),
  options_wf wo -> Forall plain (o_metadata wo) -> seektables (o_metadata wo) = 0%nat ->
  channel_new p [] wo rate bps ch total = Ok w ->
  Forall (chunk_ok (N.to_nat ch)) chunks ->
  let samples := concat (multizip (cconcat (N.to_nat ch) chunks)) in
  forallb (FlacCodec.Wf.fits bps) samples = true ->
  let W := N.of_nat (length samples) / ch in
  1 <= W -> N.of_nat (length samples) < 2 ^ 36 ->
  match total with Some T => T = W | None => True end ->
  exists f blocks,
    channel_run (FlacE2E.E2E.encB o L rate bps) md5 p w chunks = Ok f /\
    concat (map FlacCodec.Stream.interleave_frame blocks) =
      firstn (N.to_nat ch * (length samples / N.to_nat ch)) samples /\
    forall edits fn rs,
      Forall (typed_edit u) edits -> Forall (U.keeps_streaminfo FlacMeta.Blocks.block) edits ->
      U.run_edits FlacMeta.Blocks.block psize_r ser_r uclass_r (read_blocks_r u) edits (f_stream f) = (fn, rs) ->
      forall (cap : nat) (ck : list N -> list (list N)) (edit : U.blocklist FlacMeta.Blocks.block -> res (U.blocklist FlacMeta.Blocks.block)) (rbf : bool)
             (w1 w2 : IO.world) (b : bool) (w1' w2' : IO.world),
      (0 < cap)%nat -> IO.ck_ok ck -> FlacUpdIo.IoFault_proofs.honest (IO.sr (IO.wsched w1)) ->
      IO.wdev w1 = {| IO.data := fn; IO.pos := 0 |} -> IO.wdev w2 = {| IO.data := []; IO.pos := 0 |} ->
      Forall byte fn ->
      typed_edit u edit -> U.keeps_streaminfo FlacMeta.Blocks.block edit ->
      IO.update_file_io FlacMeta.Blocks.block psize_r ser_r uclass_r (read_blocks_b u) true cap ck edit rbf w1 w2 = (Ok b, w1', w2') ->
      let out := if b then IO.data (IO.wdev w2') else IO.data (IO.wdev w1') in
      FlacCodec.Stream.dec_stream out =
        Some (FlacE2E.Bridge.conv_si (f_si f), map FlacCodec.Stream.interleave_frame blocks, FlacCodec.Stream.EndEof) /\
      FlacCodec.Spec.spec_stream out = FlacCodec.Spec.spec_stream (f_stream f) /\
      exists meta_n, out = meta_n ++ frames_bytes (f_enc f).
Proof.
  intros u Hu o L md5 Hmd5 Hmd5b p rate bps ch Hrate Hb1 Hb32 Hc1 Hc8 wo total w chunks Hwf Hpl Hs0 Hnew Hchunks samples Hfits W HW Hlen Htot.
  destruct (channel_written_then_edited u Hu o L md5 Hmd5 Hmd5b p rate bps ch Hrate Hb1 Hb32 Hc1 Hc8 wo total w chunks Hwf Hpl Hs0 Hnew Hchunks Hfits HW Hlen Htot) as (f & blocks & Hrun & Hcat & K).
  exists f, blocks. split; [exact Hrun|]. split; [exact Hcat|].
  intros edits fn rs T KS Hre cap ck edit rbf w1 w2 b w1' w2' Hcap Hck Hh Hw1 Hw2 Hbytes' Te Ke Hio.
  exact (faulty_update_after_history u (f_stream f) _ K edits fn rs T KS Hre cap ck edit rbf w1 w2 b w1' w2' Hcap Hck Hh Hw1 Hw2 Hbytes' Te Ke Hio).
Qed.

(* ---- with the device holding the file as written, no typing hypothesis is left (WrittenBytes.v), also for the other two
   front-ends; counters_fit comes through the equal sample-writer run *)

Theorem byte_written_then_faulty_update : forall (u : list N -> bool),
  (forall s, Forall (fun b => b < 128) s -> u s = true) ->
  forall o L md5, (forall l, length (md5 l) = 16%nat) -> (forall l, Forall (fun b => b < 256) (md5 l)) ->
  forall p rate bps ch, rate < 2 ^ 20 -> 1 <= bps -> bps <= 32 -> 1 <= ch -> ch <= 8 ->
  forall en wo total w (chunks : list (list N)),
  options_wf wo -> Forall plain (o_metadata wo) -> seektables (o_metadata wo) = 0%nat ->
  byte_new p en [] wo rate bps ch total = Ok w ->
  Forall byte_ok (concat chunks) ->
  let nb := bytes_per_sample_of bps in
  let samples := decoded en (N.to_nat nb) (concat chunks) in
  forallb (FlacCodec.Wf.fits bps) samples = true ->
  let W := N.of_nat (length samples) / ch in
  1 <= W -> N.of_nat (length samples) < 2 ^ 36 ->
  match total with Some T => T = nb * (ch * W) | None => True end ->
  exists f blocks,
    byte_run (FlacE2E.E2E.encB o L rate bps) md5 p w chunks = Ok f /\
    concat (map FlacCodec.Stream.interleave_frame blocks) =
      firstn (N.to_nat ch * (length samples / N.to_nat ch)) samples /\
    Forall byte (f_stream f) /\
    forall (cap : nat) (ck : list N -> list (list N)) (edit : U.blocklist FlacMeta.Blocks.block -> res (U.blocklist FlacMeta.Blocks.block)) (rbf : bool)
           (w1 w2 : IO.world) (b : bool) (w1' w2' : IO.world),
      (0 < cap)%nat -> IO.ck_ok ck -> FlacUpdIo.IoFault_proofs.honest (IO.sr (IO.wsched w1)) ->
      IO.wdev w1 = {| IO.data := f_stream f; IO.pos := 0 |} -> IO.wdev w2 = {| IO.data := []; IO.pos := 0 |} ->
      typed_edit u edit -> U.keeps_streaminfo FlacMeta.Blocks.block edit ->
      IO.update_file_io FlacMeta.Blocks.block psize_r ser_r uclass_r (read_blocks_b u) true cap ck edit rbf w1 w2 = (Ok b, w1', w2') ->
      let out := if b then IO.data (IO.wdev w2') else IO.data (IO.wdev w1') in
      FlacCodec.Stream.dec_stream out =
        Some (FlacE2E.Bridge.conv_si (f_si f), map FlacCodec.Stream.interleave_frame blocks, FlacCodec.Stream.EndEof) /\
      FlacCodec.Spec.spec_stream out = FlacCodec.Spec.spec_stream (f_stream f) /\
      exists meta_n, out = meta_n ++ frames_bytes (f_enc f).
Proof.
  intros u Hu o L md5 Hmd5 Hmd5b p rate bps ch Hrate Hb1 Hb32 Hc1 Hc8 en wo total w chunks Hwf Hpl Hs0 Hnew Hbytes nb samples Hfits W HW Hlen Htot.
  destruct (byte_written_edited_then_faulty_update u Hu o L md5 Hmd5 Hmd5b p rate bps ch Hrate Hb1 Hb32 Hc1 Hc8 en wo total w chunks Hwf Hpl Hs0 Hnew Hbytes Hfits HW Hlen Htot) as (f & blocks & Hrun & Hcat & K).
  destruct (FlacE2E.Transfer.byte_new_sample_new p en wo rate bps ch total w Hnew) as (ts & ws & Hs & Et).
  pose proof (byte_writer_is_sample_writer (FlacE2E.E2E.encB o L rate bps) md5 p en wo rate bps ch total ts w ws chunks Hwf Hnew Hs Et Hbytes) as Eq.
  fold nb in Eq. fold samples in Eq.
  assert (Ec : concat [samples] = samples) by (cbn [concat]; apply app_nil_r).
  assert (Hnb : 1 <= nb) by (unfold nb, bytes_per_sample_of; apply N.div_le_lower_bound; lia).
  assert (Hts : match ts with Some T => T = ch * W | None => True end).
  { destruct ts as [T|]; [|exact I]. subst total. cbn [option_map] in Htot. fold nb in Htot. nia. }
  pose proof (FlacE2E.Success.sample_run_succeeds o L md5 Hmd5 p rate bps ch Hrate Hb1 Hb32 Hc1 Hc8 wo ts ws [samples] Hwf Hs) as S.
  rewrite Ec in S. destruct (S Hfits HW Hlen Hts) as (f' & Hrun' & Hfit).
  assert (Ef : f' = f) by (rewrite Eq, Hrun' in Hrun; inversion Hrun; reflexivity). subst f'.
  pose proof (byte_written_file_is_bytes o L md5 Hmd5 Hmd5b p en wo rate bps ch total w chunks f Hwf Hpl Hs0 Hnew Hbytes Hrun Hfit) as Hby.
  exists f, blocks. split; [exact Hrun|]. split; [exact Hcat|]. split; [exact Hby|].
  intros cap ck edit rbf w1 w2 b w1' w2' Hcap Hck Hh Hw1 Hw2 Te Ke Hio.
  exact (K [] (f_stream f) [] (Forall_nil _) (Forall_nil _) eq_refl cap ck edit rbf w1 w2 b w1' w2' Hcap Hck Hh Hw1 Hw2 Hby Te Ke Hio).
Qed.

Theorem channel_written_then_faulty_update : forall (u : list N -> bool),
  (forall s, Forall (fun b => b < 128) s -> u s = true) ->
  forall o L md5, (forall l, length (md5 l) = 16%nat) -> (forall l, Forall (fun b => b < 256) (md5 l)) ->
  forall p rate bps ch, rate < 2 ^ 20 -> 1 <= bps -> bps <= 32 -> 1 <= ch -> ch <= 8 ->
  forall wo total w (chunks : list (list (list Z))),
  options_wf wo -> Forall plain (o_metadata wo) -> seektables (o_metadata wo) = 0%nat ->
  channel_new p [] wo rate bps ch total = Ok w ->
  Forall (chunk_ok (N.to_nat ch)) chunks ->
  let samples := concat (multizip (cconcat (N.to_nat ch) chunks)) in
  forallb (FlacCodec.Wf.fits bps) samples = true ->
  let W := N.of_nat (length samples) / ch in
  1 <= W -> N.of_nat (length samples) < 2 ^ 36 ->
  match total with Some T => T = W | None => True end ->
  exists f blocks,
    channel_run (FlacE2E.E2E.encB o L rate bps) md5 p w chunks = Ok f /\
    concat (map FlacCodec.Stream.interleave_frame blocks) =
      firstn (N.to_nat ch * (length samples / N.to_nat ch)) samples /\
    Forall byte (f_stream f) /\
    forall (cap : nat) (ck : list N -> list (list N)) (edit : U.blocklist FlacMeta.Blocks.block -> res (U.blocklist FlacMeta.Blocks.block)) (rbf : bool)
           (w1 w2 : IO.world) (b : bool) (w1' w2' : IO.world),
      (0 < cap)%nat -> IO.ck_ok ck -> FlacUpdIo.IoFault_proofs.honest (IO.sr (IO.wsched w1)) ->
      IO.wdev w1 = {| IO.data := f_stream f; IO.pos := 0 |} -> IO.wdev w2 = {| IO.data := []; IO.pos := 0 |} ->
      typed_edit u edit -> U.keeps_streaminfo FlacMeta.Blocks.block edit ->
      IO.update_file_io FlacMeta.Blocks.block psize_r ser_r uclass_r (read_blocks_b u) true cap ck edit rbf w1 w2 = (Ok b, w1', w2') ->
      let out := if b then IO.data (IO.wdev w2') else IO.data (IO.wdev w1') in
      FlacCodec.Stream.dec_stream out =
        Some (FlacE2E.Bridge.conv_si (f_si f), map FlacCodec.Stream.interleave_frame blocks, FlacCodec.Stream.EndEof) /\
      FlacCodec.Spec.spec_stream out = FlacCodec.Spec.spec_stream (f_stream f) /\
      exists meta_n, out = meta_n ++ frames_bytes (f_enc f).
Proof.
  intros u Hu o L md5 Hmd5 Hmd5b p rate bps ch Hrate Hb1 Hb32 Hc1 Hc8 wo total w chunks Hwf Hpl Hs0 Hnew Hchunks samples Hfits W HW Hlen Htot.
  destruct (channel_written_edited_then_faulty_update u Hu o L md5 Hmd5 Hmd5b p rate bps ch Hrate Hb1 Hb32 Hc1 Hc8 wo total w chunks Hwf Hpl Hs0 Hnew Hchunks Hfits HW Hlen Htot) as (f & blocks & Hrun & Hcat & K).
  destruct (FlacE2E.Transfer.channel_new_sample_new p wo rate bps ch total w Hnew) as (ts & ws & Hs & Et).
  pose proof (channel_writer_is_sample_writer (FlacE2E.E2E.encB o L rate bps) md5 p wo rate bps ch total ts w ws chunks Hwf Hnew Hs Et Hchunks) as Eq.
  fold samples in Eq.
  assert (Ec : concat [samples] = samples) by (cbn [concat]; apply app_nil_r).
  assert (Hts : match ts with Some T => T = ch * W | None => True end).
  { subst ts. destruct total as [T|]; cbn [option_map]; [|exact I]. subst T. reflexivity. }
  pose proof (FlacE2E.Success.sample_run_succeeds o L md5 Hmd5 p rate bps ch Hrate Hb1 Hb32 Hc1 Hc8 wo ts ws [samples] Hwf Hs) as S.
  rewrite Ec in S. destruct (S Hfits HW Hlen Hts) as (f' & Hrun' & Hfit).
  assert (Ef : f' = f) by (rewrite Eq, Hrun' in Hrun; inversion Hrun; reflexivity). subst f'.
  pose proof (channel_written_file_is_bytes o L md5 Hmd5 Hmd5b p wo rate bps ch total w chunks f Hwf Hpl Hs0 Hnew Hchunks Hrun Hfit) as Hby.
  exists f, blocks. split; [exact Hrun|]. split; [exact Hcat|]. split; [exact Hby|].
  intros cap ck edit rbf w1 w2 b w1' w2' Hcap Hck Hh Hw1 Hw2 Te Ke Hio.
  exact (K [] (f_stream f) [] (Forall_nil _) (Forall_nil _) eq_refl cap ck edit rbf w1 w2 b w1' w2' Hcap Hck Hh Hw1 Hw2 Hby Te Ke Hio).
Qed.
