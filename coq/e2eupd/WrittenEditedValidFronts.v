(* e2eupd/WrittenEditedValidFronts.v — written_then_edited_valid (C02 + C10) for the other two front-ends: a file written by the
   FlacByteWriter model (either byte order, any chunking of any byte string) or the FlacChannelWriter model
   (any list of well-formed write arguments), then put through ANY history of typed, STREAMINFO-preserving
   metadata edits, still decodes to exactly the samples the written data spells.  By equality of runs (writers
   area, Cross_proofs) and of constructors (e2e area, Transfer). *)
From FlacBase Require Import Res Bits.
From FlacMeta Require Import Bytes Bytes_proofs Blocks BlockList Blocks_proofs Blocks_level BlockList_proofs.
From FlacUpdIo Require GenUpd Update Update_proofs Update_cond.
From FlacCodec Require Ast Stream Spec Wf.
From FlacWriters Require Import Params Params_proofs Finalize Writers Encoder_proofs C09_proofs Bytes_proofs Writers_proofs Cross_proofs.
From FlacE2E Require Bridge E2E Success Transfer.
From FlacE2EMeta Require Import MetaBridge FinishedBlocks.
From FlacE2EUpd Require Import RealCodec CodecView UpdateE2E WrittenEdited WrittenEditedRead.
Open Scope N_scope.

Theorem byte_written_then_edited_valid : forall (u : list N -> bool),
  (forall s, Forall (fun b => b < 128) s -> u s = true) ->
  forall o L md5, (forall l, length (md5 l) = 16%nat) -> (forall l, Forall (fun b => b < 256) (md5 l)) ->
  forall p rate bps ch, rate < 2 ^ 20 -> 1 <= bps -> bps <= 32 -> 1 <= ch -> ch <= 8 ->
  forall en wo total w (chunks : list (list N)),
  options_wf wo -> Forall plain (o_metadata wo) -> seektables (o_metadata wo) = 0%nat ->
  byte_new p en [] wo rate bps ch total = Ok w ->
  Forall byte_ok (concat chunks) ->
  let nb := bytes_per_sample_of bps in
  let samples := decoded en (N.to_nat nb) (concat chunks) in
  forallb (FlacCodec.Wf.fits bps) samples = true ->
  let W := N.of_nat (length samples) / ch in
  1 <= W -> N.of_nat (length samples) < 2 ^ 36 ->
  match total with Some T => T = nb * (ch * W) | None => True end ->
  exists f blocks,
    byte_run (FlacE2E.E2E.encB o L rate bps) md5 p w chunks = Ok f /\
    concat (map FlacCodec.Stream.interleave_frame blocks) =
      firstn (N.to_nat ch * (length samples / N.to_nat ch)) samples /\
    forall edits fn rs,
      Forall (typed_edit u) edits -> Forall (U.keeps_streaminfo FlacMeta.Blocks.block) edits ->
      U.run_edits FlacMeta.Blocks.block psize_r ser_r uclass_r (read_blocks_r u) edits (f_stream f) = (fn, rs) ->
      FlacCodec.Spec.spec_stream fn = Ok (FlacE2E.Bridge.conv_si (f_si f), blocks).
Proof.
  intros u Hu o L md5 Hmd5 Hmd5b p rate bps ch Hrate Hb1 Hb32 Hc1 Hc8 en wo total w chunks Hwf Hpl Hs0 Hnew Hbytes nb samples Hfits W HW Hlen Htot.
  destruct (FlacE2E.Transfer.byte_new_sample_new p en wo rate bps ch total w Hnew) as (ts & ws & Hs & Et).
  rewrite (byte_writer_is_sample_writer (FlacE2E.E2E.encB o L rate bps) md5 p en wo rate bps ch total ts w ws chunks Hwf Hnew Hs Et Hbytes).
  fold nb. fold samples.
  assert (Ec : concat [samples] = samples) by (cbn [concat]; apply app_nil_r).
  assert (Hnb : 1 <= nb).
  { unfold nb, bytes_per_sample_of. apply N.div_le_lower_bound; lia. }
  assert (Hts : match ts with Some T => T = ch * W | None => True end).
  { destruct ts as [T|]; [|exact I]. subst total. cbn [option_map] in Htot. fold nb in Htot. nia. }
  pose proof (written_then_edited_valid u Hu o L md5 Hmd5 Hmd5b p rate bps ch Hrate Hb1 Hb32 Hc1 Hc8 wo ts ws [samples] Hwf Hpl Hs0 Hs) as K.
  rewrite Ec in K. exact (K Hfits HW Hlen Hts).
Qed.

Theorem channel_written_then_edited_valid : forall (u : list N -> bool),
  (forall s, Forall (fun b => b < 128) s -> u s = true) ->
  forall o L md5, (forall l, length (md5 l) = 16%nat) -> (forall l, Forall (fun b => b < 256) (md5 l)) ->
  forall p rate bps ch, rate < 2 ^ 20 -> 1 <= bps -> bps <= 32 -> 1 <= ch -> ch <= 8 ->
  forall wo total w (chunks : list (list (list Z))),
  options_wf wo -> Forall plain (o_metadata wo) -> seektables (o_metadata wo) = 0%nat ->
  channel_new p [] wo rate bps ch total = Ok w ->
  Forall (chunk_ok (N.to_nat ch)) chunks ->
  let samples := concat (multizip (cconcat (N.to_nat ch) chunks)) in
  forallb (FlacCodec.Wf.fits bps) samples = true ->
  let W := N.of_nat (length samples) / ch in
  1 <= W -> N.of_nat (length samples) < 2 ^ 36 ->
  match total with Some T => T = W | None => True end ->
  exists f blocks,
    channel_run (FlacE2E.E2E.encB o L rate bps) md5 p w chunks = Ok f /\
    concat (map FlacCodec.Stream.interleave_frame blocks) =
      firstn (N.to_nat ch * (length samples / N.to_nat ch)) samples /\
    forall edits fn rs,
      Forall (typed_edit u) edits -> Forall (U.keeps_streaminfo FlacMeta.Blocks.block) edits ->
      U.run_edits FlacMeta.Blocks.block psize_r ser_r uclass_r (read_blocks_r u) edits (f_stream f) = (fn, rs) ->
      FlacCodec.Spec.spec_stream fn = Ok (FlacE2E.Bridge.conv_si (f_si f), blocks).
Proof.
  intros u Hu o L md5 Hmd5 Hmd5b p rate bps ch Hrate Hb1 Hb32 Hc1 Hc8 wo total w chunks Hwf Hpl Hs0 Hnew Hchunks samples Hfits W HW Hlen Htot.
  destruct (FlacE2E.Transfer.channel_new_sample_new p wo rate bps ch total w Hnew) as (ts & ws & Hs & Et).
  rewrite (channel_writer_is_sample_writer (FlacE2E.E2E.encB o L rate bps) md5 p wo rate bps ch total ts w ws chunks Hwf Hnew Hs Et Hchunks).
  fold samples.
  assert (Ec : concat [samples] = samples) by (cbn [concat]; apply app_nil_r).
  assert (Hts : match ts with Some T => T = ch * W | None => True end).
  { subst ts. destruct total as [T|]; cbn [option_map]; [|exact I]. subst T. reflexivity. }
  pose proof (written_then_edited_valid u Hu o L md5 Hmd5 Hmd5b p rate bps ch Hrate Hb1 Hb32 Hc1 Hc8 wo ts ws [samples] Hwf Hpl Hs0 Hs) as K.
  rewrite Ec in K. exact (K Hfits HW Hlen Hts).
Qed.
