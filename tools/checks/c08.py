"""C08 — the encoded file depends only on PCM and options, not on how it was written.

Proof: coq/writers Writers_proofs.v (chunking invariance of the three front-ends by induction on
the chunk list with the invariant "buffer = unencoded tail"; front-end equivalence; no Panic).
Tie: extracted model vs implementation (blocks actually in the file, MD5, recorded total) on
generated chunk scripts; vm_compute sample.
Search: byte-equality of finished files over every split point of small inputs (mid-sample and
mid-PCM-frame included), random chunkings of larger ones, the four front-ends, repeated runs,
trailing partial PCM frames."""
import hashlib
import re

from checks import writers_common as wc

LEVEL = "proof"
THEOREMS = ["C08_chunking_sample", "C08_chunking_byte", "C08_chunking_channel"]
try:
    from checks.writers_theorems import C08 as _T
    THEOREMS = _T
except Exception:
    pass


def vm_sample(chk, res, n=12):
    picked = []
    for c in res["cases"]:
        d = wc.parse_m(c["m"])
        if d["w"] == "c" or not c["obs"].startswith("ok "):
            continue
        size = len(d.get("pcm", "")) + len(d.get("data", ""))
        if size > 1500:
            continue
        picked.append((c, d))
    step = max(1, len(picked) // n)
    picked = picked[::step][:n]
    if not picked:
        return 0
    terms = []
    for c, d in picked:
        opts = "match options_block_size options_default %s with Ok o => options_no_seektable (options_no_padding o) | _ => options_default end" % d["bs"]
        total = "None" if d["total"] == "none" else "(Some %s)" % d["total"]
        sizes = "[" + "; ".join(d["chunks"].split(",")) + "]" if d["chunks"] != "-" else "[]"
        if d["w"] == "s":
            pcm = "[" + "; ".join("(%s)%%Z" % x for x in d["pcm"].split(",")) + "]"
            terms.append("run_c08_sample Release (%s) %s %s %s %s %s" % (opts, d["bps"], d["ch"], total, sizes, pcm))
        else:
            h = d["data"]
            data = "[" + "; ".join(str(int(h[i:i + 2], 16)) for i in range(0, len(h), 2)) + "]"
            terms.append("run_c08_byte Release %s (%s) %s %s %s %s %s" % ("LE" if d["w"] == "bl" else "BE", opts, d["bps"], d["ch"], total, sizes, data))
    body = ("From FlacWriters Require Import Writers Cases.\nOpen Scope N_scope.\n" +
            "\n".join('Goal True. idtac "@@CASE %d". Abort.\nEval vm_compute in (%s).' % (i, t) for i, t in enumerate(terms)) + "\n")
    rc, out = wc.run_vm(chk, "C08Cases", body)
    if rc != 0:
        chk.broken_tie("vm-sample", out[-2000:])
        return 0
    parts = re.split(r"@@CASE \d+", out)[1:]
    for (c, d), part in zip(picked, parts):
        flat = " ".join(part.split())
        m = re.search(r"= Ok \((None|Some \d+), \[(.*?)\], \[(.*)\]\) :", flat)
        if not m:
            chk.broken_tie("vm-sample", "cannot parse coqc output: " + flat[:400])
            return 0
        total = "0" if m.group(1) == "None" else m.group(1).split()[1]
        md5in = bytes(int(x) for x in m.group(2).replace(" ", "").split(";") if x)
        digest = hashlib.md5(md5in).hexdigest()
        # blocks: [[c0; c1]; [..]] with Z literals
        blk = m.group(3)
        blocks = []
        for b in re.findall(r"\[((?:\[[^\[\]]*\](?:; )?)+)\]", blk):
            chans = re.findall(r"\[([^\[\]]*)\]", b)
            blocks.append("|".join(",".join(x.strip().replace("%Z", "").replace("(", "").replace(")", "") for x in ch.split(";") if x.strip()) for ch in chans))
        got = "ok total=%s md5=%s blocks=%s" % (total, digest, ";".join(blocks))
        if got != c["obs"]:
            chk.violation("correspondence:vm-sample", "vm_compute evaluation of the model disagrees with the implementation: case `%s`" % c["m"][:300],
                          {"case": c["m"], "implementation": c["obs"], "coq": got})
            break
    return len(picked)


def run(chk):
    chk.assumptions = list(wc.ASSUMPTIONS)
    proof_ok = wc.proof_stage(chk, THEOREMS, e2e_theorems=["C08_no_panic_byte_debug", "C08_no_panic_channel_debug", "C08_partial_dropped_byte"])
    runs = []
    for profile in ("release",) + (("debug",) if chk.tier == "thorough" else ()):
        r = wc.run_harness(chk, "c08", profile)
        if r is not None:
            runs.append(r)
    exe = wc.build_driver(chk) if proof_ok else None
    disagreements = 0
    vm_n = 0
    for r in runs:
        if exe:
            outs = wc.run_model(chk, exe, [c["m"] + " profile=" + r["profile"] for c in r["cases"]])
            if outs is not None:
                disagreements += wc.diff_cases(chk, "c08", r, outs, set())
            if r["profile"] == "release":
                vm_n = vm_sample(chk, r)
        wc.report_viols(chk, r)
    n_runs = sum(int(r["stat"].get("runs", 0)) for r in runs)
    wc.finish_coverage(
        chk, runs, n_runs + sum(len(r["cases"]) for r in runs), n_runs,
        "every run is one (configuration, front-end, chunk script) whose finished file is byte-compared with the single-write reference; all are non-trivial (at least one frame encoded); split points are exhaustive for the small inputs",
        disagreements, {"vm_compute_sample": vm_n, "exhaustive": True})
