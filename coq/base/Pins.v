(* Statement pins: each property theorem is checked against its full statement written out,
   so a theorem cannot be weakened without this file failing to compile. *)
From FlacBase Require Import Bits Crc.
Open Scope N_scope.

Check (crc16_valid_single_bit_detected :
  forall (m : list N) (i : nat) (k : N), Forall byte m -> (i < length m)%nat -> k < 8 ->
    crc16 m = 0 -> crc16 (flip_bit m i k) <> 0).
Check (crc8_valid_single_bit_detected :
  forall (m : list N) (i : nat) (k : N), Forall byte m -> (i < length m)%nat -> k < 8 ->
    crc8 m = 0 -> crc8 (flip_bit m i k) <> 0).
Check (crc16_single_bit :
  forall m i k, Forall byte m -> (i < length m)%nat -> k < 8 -> crc16 (flip_bit m i k) <> crc16 m).
Check (crc16_append : forall m, Forall byte m ->
  crc16 (m ++ [N.shiftr (crc16 m) 8; N.land (crc16 m) 255]) = 0).
Check (crc8_append : forall m, Forall byte m -> crc8 (m ++ [crc8 m]) = 0).
Check (rd_wr : forall n v r, v < 2 ^ N.of_nat n -> rd n (wr n v ++ r) = Some (v, r)).
Check (rd_s_wr_s : forall n z r, (0 < n)%nat ->
  (- 2 ^ Z.of_nat (n - 1) <= z < 2 ^ Z.of_nat (n - 1))%Z -> rd_s n (wr_s n z ++ r) = Some (z, r)).
(* non-vacuity: a concrete checksum-valid message and a flip *)
Example crc16_nonvacuous :
  crc16 [1; 2; 3; 12; 30] = 0 /\ crc16 (flip_bit [1; 2; 3; 12; 30] 1 3) <> 0.
Proof. vm_compute. split; [reflexivity|discriminate]. Qed.
