(* e2eupd/WrittenFaults.v — C01, C10 and C13 composed: a file written by the FlacSampleWriter model, put through any
   history of typed STREAMINFO-preserving edits, and then updated once more over FAULTY devices (short / failing
   writes, flushes, seeks, interrupted reads, a BufWriter of any capacity, any chunking: update_file_io of
   coq/updateio/IoFault.v run with the metadata area's reader and writer).  Whenever that call returns Ok, the file
   it leaves (the first device for Ok(false), the second for Ok(true)) decodes to exactly the samples written.
   `Forall byte fn` is the typing fact that a device holds u8 values (the model's bytes are N). *)
From FlacBase Require Import Res Bits.
From FlacMeta Require Import Bytes Bytes_proofs Blocks BlockList Blocks_proofs Blocks_level BlockList_proofs.
From FlacUpdIo Require GenUpd Update Update_proofs Update_cond IoFault IoFault_proofs.
From FlacCodec Require Ast Stream Spec Wf.
From FlacWriters Require Import Params Params_proofs Finalize Writers Encoder_proofs C09_proofs.
From FlacE2E Require Bridge E2E Success.
From FlacE2EMeta Require Import MetaBridge FinishedBlocks.
From FlacE2EUpd Require Import RealCodec CodecView UpdateE2E FaultsE2E WrittenEdited WrittenBytes.
Open Scope N_scope.

Lemma run_edits_snoc (u : list N -> bool) edit : forall edits file fn rs fn' r,
  U.run_edits FlacMeta.Blocks.block psize_r ser_r uclass_r (read_blocks_r u) edits file = (fn, rs) ->
  U.update FlacMeta.Blocks.block psize_r ser_r uclass_r (read_blocks_r u) edit fn = (fn', r) ->
  U.run_edits FlacMeta.Blocks.block psize_r ser_r uclass_r (read_blocks_r u) (edits ++ [edit]) file = (fn', rs ++ [r]).
Proof.
  induction edits as [|e es IH]; intros file fn rs fn' r H1 H2; cbn [U.run_edits app] in *.
  - inversion H1; subst. rewrite H2. reflexivity.
  - destruct (U.update FlacMeta.Blocks.block psize_r ser_r uclass_r (read_blocks_r u) e file) as [f1 r1].
    destruct (U.run_edits FlacMeta.Blocks.block psize_r ser_r uclass_r (read_blocks_r u) es f1) as [f2 rs2] eqn:RE.
    inversion H1; subst. rewrite (IH f1 fn rs2 fn' r RE H2). reflexivity.
Qed.

Theorem written_edited_then_faulty_update : forall (u : list N -> bool),
  (forall s, Forall (fun b => b < 128) s -> u s = true) ->
  forall o L md5, (forall l, length (md5 l) = 16%nat) -> (forall l, Forall (fun b => b < 256) (md5 l)) ->
  forall p rate bps ch, rate < 2 ^ 20 -> 1 <= bps -> bps <= 32 -> 1 <= ch -> ch <= 8 ->
  forall wo total w chunks,
  options_wf wo -> Forall plain (o_metadata wo) -> seektables (o_metadata wo) = 0%nat ->
  sample_new p [] wo rate bps ch total = Ok w ->
  forallb (FlacCodec.Wf.fits bps) (concat chunks) = true ->
  let W := N.of_nat (length (concat chunks)) / ch in
  1 <= W -> N.of_nat (length (concat chunks)) < 2 ^ 36 ->
  match total with Some T => T = ch * W | None => True end ->
  exists f blocks,
    sample_run (FlacE2E.E2E.encB o L rate bps) md5 p w chunks = Ok f /\
    concat (map FlacCodec.Stream.interleave_frame blocks) =
      firstn (N.to_nat ch * (length (concat chunks) / N.to_nat ch)) (concat chunks) /\
    forall edits fn rs,
      Forall (typed_edit u) edits -> Forall (U.keeps_streaminfo FlacMeta.Blocks.block) edits ->
      U.run_edits FlacMeta.Blocks.block psize_r ser_r uclass_r (read_blocks_r u) edits (f_stream f) = (fn, rs) ->
      forall (cap : nat) (ck : list N -> list (list N)) (edit : U.blocklist FlacMeta.Blocks.block -> res (U.blocklist FlacMeta.Blocks.block)) (rbf : bool)
             (w1 w2 : IO.world) (b : bool) (w1' w2' : IO.world),
      (0 < cap)%nat -> IO.ck_ok ck -> FlacUpdIo.IoFault_proofs.honest (IO.sr (IO.wsched w1)) ->
      IO.wdev w1 = {| IO.data := fn; IO.pos := 0 |} -> IO.wdev w2 = {| IO.data := []; IO.pos := 0 |} ->
      Forall byte fn ->
      typed_edit u edit -> U.keeps_streaminfo FlacMeta.Blocks.block edit ->
      IO.update_file_io FlacMeta.Blocks.block psize_r ser_r uclass_r (read_blocks_b u) true cap ck edit rbf w1 w2 = (Ok b, w1', w2') ->
      let out := if b then IO.data (IO.wdev w2') else IO.data (IO.wdev w1') in
      FlacCodec.Stream.dec_stream out =
        Some (FlacE2E.Bridge.conv_si (f_si f), map FlacCodec.Stream.interleave_frame blocks, FlacCodec.Stream.EndEof) /\
      FlacCodec.Spec.spec_stream out = FlacCodec.Spec.spec_stream (f_stream f) /\
      exists meta_n, out = meta_n ++ frames_bytes (f_enc f).
Proof.
  intros u Hu o L md5 Hmd5 Hmd5b p rate bps ch Hrate Hb1 Hb32 Hc1 Hc8 wo total w chunks Hwf Hpl Hs0 Hnew Hfits W HW Hlen Htot.
  destruct (written_then_edited u Hu o L md5 Hmd5 Hmd5b p rate bps ch Hrate Hb1 Hb32 Hc1 Hc8 wo total w chunks
              Hwf Hpl Hs0 Hnew Hfits HW Hlen Htot) as (f & blocks & Hrun & Hcat & K).
  exists f, blocks. split; [exact Hrun|]. split; [exact Hcat|].
  intros edits fn rs T KS Hre cap ck edit rbf w1 w2 b w1' w2' Hcap Hck Hh Hw1 Hw2 Hbytes Te Ke Hio out.
  assert (Hp : (IO.pos (IO.wdev w1) <= length (IO.data (IO.wdev w1)))%nat) by (rewrite Hw1; cbn [IO.pos]; lia).
  assert (Hb : Forall byte (IO.data (IO.wdev w1))) by (rewrite Hw1; exact Hbytes).
  pose proof (real_update_under_faults u cap ck edit rbf w1 w2 b w1' w2' Hcap Hck Hh Hp Hw2 Hb Hio) as E.
  rewrite Hw1 in E. cbn [IO.pos IO.data] in E.
  assert (Eu : U.update FlacMeta.Blocks.block psize_r ser_r uclass_r (read_blocks_r u) edit fn = (out, Ok b)).
  { unfold U.update. rewrite E. cbn [U.rebuilt U.orig]. unfold out. destruct b; reflexivity. }
  pose proof (run_edits_snoc u edit edits (f_stream f) fn rs out (Ok b) Hre Eu) as Hre2.
  apply (K (edits ++ [edit]) out (rs ++ [Ok b])); [| |exact Hre2].
  - apply Forall_app. split; [exact T|]. constructor; [exact Te|constructor].
  - apply Forall_app. split; [exact KS|]. constructor; [exact Ke|constructor].
Qed.

(* ... and with no typing hypothesis at all when the device holds the file as written (empty edit history): the written
   file is a byte string (WrittenBytes.v) *)
Theorem written_then_faulty_update : forall (u : list N -> bool),
  (forall s, Forall (fun b => b < 128) s -> u s = true) ->
  forall o L md5, (forall l, length (md5 l) = 16%nat) -> (forall l, Forall (fun b => b < 256) (md5 l)) ->
  forall p rate bps ch, rate < 2 ^ 20 -> 1 <= bps -> bps <= 32 -> 1 <= ch -> ch <= 8 ->
  forall wo total w chunks,
  options_wf wo -> Forall plain (o_metadata wo) -> seektables (o_metadata wo) = 0%nat ->
  sample_new p [] wo rate bps ch total = Ok w ->
  forallb (FlacCodec.Wf.fits bps) (concat chunks) = true ->
  let W := N.of_nat (length (concat chunks)) / ch in
  1 <= W -> N.of_nat (length (concat chunks)) < 2 ^ 36 ->
  match total with Some T => T = ch * W | None => True end ->
  exists f blocks,
    sample_run (FlacE2E.E2E.encB o L rate bps) md5 p w chunks = Ok f /\
    concat (map FlacCodec.Stream.interleave_frame blocks) =
      firstn (N.to_nat ch * (length (concat chunks) / N.to_nat ch)) (concat chunks) /\
    Forall byte (f_stream f) /\
    forall (cap : nat) (ck : list N -> list (list N)) (edit : U.blocklist FlacMeta.Blocks.block -> res (U.blocklist FlacMeta.Blocks.block)) (rbf : bool)
           (w1 w2 : IO.world) (b : bool) (w1' w2' : IO.world),
      (0 < cap)%nat -> IO.ck_ok ck -> FlacUpdIo.IoFault_proofs.honest (IO.sr (IO.wsched w1)) ->
      IO.wdev w1 = {| IO.data := f_stream f; IO.pos := 0 |} -> IO.wdev w2 = {| IO.data := []; IO.pos := 0 |} ->
      typed_edit u edit -> U.keeps_streaminfo FlacMeta.Blocks.block edit ->
      IO.update_file_io FlacMeta.Blocks.block psize_r ser_r uclass_r (read_blocks_b u) true cap ck edit rbf w1 w2 = (Ok b, w1', w2') ->
      let out := if b then IO.data (IO.wdev w2') else IO.data (IO.wdev w1') in
      FlacCodec.Stream.dec_stream out =
        Some (FlacE2E.Bridge.conv_si (f_si f), map FlacCodec.Stream.interleave_frame blocks, FlacCodec.Stream.EndEof) /\
      FlacCodec.Spec.spec_stream out = FlacCodec.Spec.spec_stream (f_stream f) /\
      exists meta_n, out = meta_n ++ frames_bytes (f_enc f).
Proof.
  intros u Hu o L md5 Hmd5 Hmd5b p rate bps ch Hrate Hb1 Hb32 Hc1 Hc8 wo total w chunks Hwf Hpl Hs0 Hnew Hfits W HW Hlen Htot.
  destruct (written_edited_then_faulty_update u Hu o L md5 Hmd5 Hmd5b p rate bps ch Hrate Hb1 Hb32 Hc1 Hc8 wo total w chunks
              Hwf Hpl Hs0 Hnew Hfits HW Hlen Htot) as (f & blocks & Hrun & Hcat & K).
  destruct (FlacE2E.Success.sample_run_succeeds o L md5 Hmd5 p rate bps ch Hrate Hb1 Hb32 Hc1 Hc8 wo total w chunks
              Hwf Hnew Hfits HW Hlen Htot) as (f' & Hrun' & Hfit).
  assert (Ef : f' = f) by (rewrite Hrun in Hrun'; inversion Hrun'; reflexivity). subst f'.
  pose proof (sample_written_file_is_bytes o L md5 Hmd5 Hmd5b p wo rate bps ch total w chunks f Hwf Hpl Hs0 Hnew Hrun Hfit) as Hbytes.
  exists f, blocks. split; [exact Hrun|]. split; [exact Hcat|]. split; [exact Hbytes|].
  intros cap ck edit rbf w1 w2 b w1' w2' Hcap Hck Hh Hw1 Hw2 Te Ke Hio.
  exact (K [] (f_stream f) [] (Forall_nil _) (Forall_nil _) eq_refl cap ck edit rbf w1 w2 b w1' w2' Hcap Hck Hh Hw1 Hw2 Hbytes Te Ke Hio).
Qed.
