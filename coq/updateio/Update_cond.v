(* updateio/Update_cond.v — the file-level theorems of Update_proofs.v under a CONDITIONAL read/write
   hypothesis: reading inverts writing for the block lists in a class `good` (for the real codec:
   lists of typed, canonical blocks — coq/e2eupd instantiates it with the metadata area's reader and
   writer, for which the unconditional hypothesis of Update_proofs.v is false because of the known
   aliasing class STREAMINFO md5 = Some(16 zero bytes)).  `good` must be kept by whatever update_file
   itself does to a list (resizing the first PADDING of a list that is then written successfully) and by
   the edits considered. *)
From FlacBase Require Import Res Bits.
From FlacUpdIo Require Import GenUpd Update Update_proofs.
Open Scope N_scope.

Section Cond.
  Variable payload : Type.
  Variable psize : payload -> N.
  Variable ser : payload -> list N.
  Variable uclass : okind -> payload -> option N.
  Variable read_blocks : list N -> res (blocklist payload * list N).
  Hypothesis ser_len : forall p, lenN (ser p) = psize p.

  Notation blocklist := (blocklist payload).
  Notation write_blocks := (write_blocks payload psize ser uclass).
  Notation update_plan := (update_plan payload).
  Notation update_file := (update_file payload psize ser uclass read_blocks).
  Notation update := (update payload psize ser uclass read_blocks).
  Notation run_edits := (run_edits payload psize ser uclass read_blocks).
  Notation first_padding := (first_padding payload).
  Notation with_first_padding := (with_first_padding payload).
  Notation first_padding_only := (first_padding_only payload).

  Variable good : blocklist -> Prop.
  Hypothesis read_write_good : forall bl bytes rest, good bl ->
    write_blocks bl = Ok bytes -> read_blocks (bytes ++ rest) = Ok (bl, rest).
  Hypothesis good_first_padding : forall bl1 bl2 bytes, good bl1 -> first_padding_only bl1 bl2 ->
    write_blocks bl2 = Ok bytes -> good bl2.

  (* an edit that maps good lists to good lists *)
  Definition keeps_good (e : blocklist -> res blocklist) : Prop :=
    forall bl bl1, good bl -> e bl = Ok bl1 -> good bl1.

  Ltac file_cases H :=
    unfold Update.update_file in H; rewrite skipn_pre in H;
    match type of H with context [read_blocks ?s] =>
      match goal with R : read_blocks s = _ |- _ => rewrite R in H end end;
    rewrite old_size_meta in H.

  Theorem update_file_inplace_good edit pre meta audio bl st :
    keeps_good edit -> good bl ->
    read_blocks (meta ++ audio) = Ok (bl, audio) ->
    update_file edit (length pre) (pre ++ meta ++ audio) = (st, Ok false) ->
    exists bl1 bl2 meta',
      edit bl = Ok bl1 /\
      st = {| orig := pre ++ meta' ++ audio; rebuilt := None |} /\
      length meta' = length meta /\
      write_blocks bl2 = Ok meta' /\
      read_blocks (meta' ++ audio) = Ok (bl2, audio) /\
      good bl2 /\
      (bl2 = bl1 \/ exists n n', first_padding (bl_blocks payload bl1) = Some n /\ bl2 = with_first_padding n' bl1).
  Proof.
    intros K G R H. file_cases H.
    destruct (edit bl) as [bl1|e|k] eqn:E; try (inversion H; fail).
    destruct (write_blocks bl1) as [dry|e|k] eqn:W1; cbn [rmap bind] in H; try (inversion H; fail).
    destruct (update_plan (lenN meta) (lenN dry) bl1) as [bl2|bl2] eqn:P.
    - apply (write_blocks_ok_size payload psize ser uclass ser_len) in W1.
      destruct (update_plan_inplace payload psize uclass _ _ _ _ W1 P) as [S2 F].
      destruct (size_ok_write_ok payload psize ser uclass ser_len _ _ S2) as (bytes & W2 & L2).
      rewrite W2 in H. inversion H; subst; clear H.
      apply lenN_eq in L2.
      assert (G2 : good bl2) by (eapply good_first_padding; [eapply K; eauto|exact F|exact W2]).
      exists bl1, bl2, bytes. split; [reflexivity|]. split; [now rewrite overwrite_mid|].
      split; [exact L2|]. split; [exact W2|]. split; [apply read_write_good; assumption|]. split; [exact G2|].
      now apply first_padding_only_set.
    - destruct (write_blocks bl2); inversion H.
  Qed.

  Theorem update_file_rebuilt_good edit pre meta audio bl st :
    keeps_good edit -> good bl ->
    read_blocks (meta ++ audio) = Ok (bl, audio) ->
    update_file edit (length pre) (pre ++ meta ++ audio) = (st, Ok true) ->
    exists bl1 bytes,
      edit bl = Ok bl1 /\ write_blocks bl1 = Ok bytes /\
      st = {| orig := pre ++ meta ++ audio; rebuilt := Some (bytes ++ audio) |} /\
      read_blocks (bytes ++ audio) = Ok (bl1, audio) /\ good bl1.
  Proof.
    intros K G R H. file_cases H.
    destruct (edit bl) as [bl1|e|k] eqn:E; try (inversion H; fail).
    destruct (write_blocks bl1) as [dry|e|k] eqn:W1; cbn [rmap bind] in H; try (inversion H; fail).
    destruct (update_plan (lenN meta) (lenN dry) bl1) as [bl2|bl2] eqn:P.
    - destruct (write_blocks bl2); inversion H.
    - apply update_plan_rebuild in P. subst bl2. rewrite W1 in H. inversion H; subst; clear H.
      assert (G1 : good bl1) by (eapply K; eauto).
      exists bl1, dry. repeat split; auto.
  Qed.

  (* ---- histories: the file stays (metadata ++ audio), reads as a good list followed by exactly audio,
     and STREAMINFO is the same when the edits leave it alone *)
  Definition file_inv_good (si : payload) (audio file : list N) : Prop :=
    exists meta bl, file = meta ++ audio /\ read_blocks (meta ++ audio) = Ok (bl, audio) /\ good bl /\
                    bl_si payload bl = si.

  Lemma update_step_good edit si audio file file' r : keeps_good edit -> keeps_streaminfo payload edit ->
    file_inv_good si audio file -> update edit file = (file', r) -> file_inv_good si audio file'.
  Proof.
    intros K KS (meta & bl & -> & R & G & S) H. unfold Update.update in H.
    destruct (update_file edit 0 (meta ++ audio)) as [st r0] eqn:U. inversion H; subst; clear H.
    change 0%nat with (length (@nil N)) in U. change (meta ++ audio) with ([] ++ meta ++ audio) in U.
    destruct r as [[|]|e|k].
    - destruct (update_file_rebuilt_good _ _ _ _ _ _ K G R U) as (bl1 & bytes & E & _ & -> & R1 & G1). cbn.
      exists bytes, bl1. split; [reflexivity|]. split; [exact R1|]. split; [exact G1|]. now apply KS in E.
    - destruct (update_file_inplace_good _ _ _ _ _ _ K G R U) as (bl1 & bl2 & meta' & E & -> & _ & _ & R2 & G2 & F). cbn.
      exists meta', bl2. split; [reflexivity|]. split; [exact R2|]. split; [exact G2|]. apply KS in E.
      destruct F as [->|(n & n' & _ & ->)]; [exact E|]. cbn [Update.with_first_padding bl_si]. exact E.
    - apply (update_file_failure_untouched payload psize ser uclass read_blocks) in U; [|reflexivity]. subst. cbn.
      exists meta, bl. auto.
    - apply (update_file_failure_untouched payload psize ser uclass read_blocks) in U; [|reflexivity]. subst. cbn.
      exists meta, bl. auto.
  Qed.

  Theorem run_edits_good edits : Forall keeps_good edits -> Forall (keeps_streaminfo payload) edits ->
    forall si audio file fn rs,
    file_inv_good si audio file -> run_edits edits file = (fn, rs) -> file_inv_good si audio fn.
  Proof.
    induction edits as [|e es IH]; intros K KS si audio file fn rs I H; cbn [Update.run_edits] in H.
    - inversion H; subst; auto.
    - inversion K; inversion KS; subst.
      destruct (update e file) as [f1 r] eqn:U. destruct (run_edits es f1) as [f2 rs2] eqn:RE.
      inversion H; subst. eapply IH; [assumption|assumption| |exact RE]. eapply update_step_good; eauto.
  Qed.
End Cond.
