//! Shared by c11.rs / c12.rs / c20.rs (area `metadata`): canonical dumps of metadata
//! blocks (the same text is produced by ocaml/metadata_driver.ml from the Coq model),
//! value generators through the public constructors, and byte-level helpers.
#![allow(dead_code)]

use flac_codec::Error;
use flac_codec::metadata::contiguous::Contiguous;
use flac_codec::metadata::cuesheet::{
    CDDAOffset, Digit, ISRC, Index, IndexVec, LeadOut, LeadOutCDDA, LeadOutNonCDDA, TrackCDDA, TrackNonCDDA,
};
use flac_codec::metadata::{
    Application, Block, BlockSize, Cuesheet, MetadataBlock, Padding, Picture, PictureType, SeekPoint, SeekTable,
    Streaminfo, VorbisComment, read_blocks, write_blocks,
};
use std::num::NonZero;
use vharness::*;

// ------------------------------------------------------------------ canonical dump
// numbers in lower-case hex without prefix, byte strings as hex ("" when empty -> "."),
pub fn hx(b: &[u8]) -> String {
    if b.is_empty() { ".".to_string() } else { hex(b) }
}

fn isrc_s(i: &ISRC) -> String {
    match i {
        ISRC::None => "-".into(),
        ISRC::String(s) => hx(s.as_ref().as_bytes()),
    }
}

pub const PICTURE_TYPES: [PictureType; 21] = [
    PictureType::Other,
    PictureType::Png32x32,
    PictureType::GeneralFileIcon,
    PictureType::FrontCover,
    PictureType::BackCover,
    PictureType::LinerNotes,
    PictureType::MediaLabel,
    PictureType::LeadArtist,
    PictureType::Artist,
    PictureType::Conductor,
    PictureType::Band,
    PictureType::Composer,
    PictureType::Lyricist,
    PictureType::RecordingLocation,
    PictureType::DuringRecording,
    PictureType::DuringPerformance,
    PictureType::ScreenCapture,
    PictureType::Fish,
    PictureType::Illustration,
    PictureType::BandLogo,
    PictureType::PublisherLogo,
];

pub fn dump_cuesheet(c: &Cuesheet) -> String {
    match c {
        Cuesheet::CDDA { catalog_number, lead_in_samples, tracks, lead_out } => {
            let cat = match catalog_number {
                Some(d) => hx(&d.iter().map(|x| u8::from(*x)).collect::<Vec<u8>>()),
                None => "-".into(),
            };
            let ts: Vec<String> = tracks
                .iter()
                .map(|t| {
                    let ix: Vec<String> =
                        t.index_points.iter().map(|i| format!("{:x}:{:x}", u64::from(i.offset), i.number)).collect();
                    format!(
                        "{:x}.{:x}.{}.{}.{}.{}",
                        u64::from(t.offset),
                        t.number.get(),
                        isrc_s(&t.isrc),
                        t.non_audio as u8,
                        t.pre_emphasis as u8,
                        ix.join("+")
                    )
                })
                .collect();
            format!(
                "CUE:C;{};{:x};{};{:x}.{}.{}.{}",
                cat,
                lead_in_samples,
                if ts.is_empty() { "-".to_string() } else { ts.join("/") },
                u64::from(lead_out.offset),
                isrc_s(&lead_out.isrc),
                lead_out.non_audio as u8,
                lead_out.pre_emphasis as u8
            )
        }
        Cuesheet::NonCDDA { catalog_number, tracks, lead_out } => {
            let cat = hx(&catalog_number.iter().map(|x| u8::from(*x)).collect::<Vec<u8>>());
            let ts: Vec<String> = tracks
                .iter()
                .map(|t| {
                    let ix: Vec<String> = t.index_points.iter().map(|i| format!("{:x}:{:x}", i.offset, i.number)).collect();
                    format!(
                        "{:x}.{:x}.{}.{}.{}.{}",
                        t.offset,
                        t.number.get(),
                        isrc_s(&t.isrc),
                        t.non_audio as u8,
                        t.pre_emphasis as u8,
                        ix.join("+")
                    )
                })
                .collect();
            format!(
                "CUE:N;{};{};{:x}.{}.{}.{}",
                cat,
                if ts.is_empty() { "-".to_string() } else { ts.join("/") },
                lead_out.offset,
                isrc_s(&lead_out.isrc),
                lead_out.non_audio as u8,
                lead_out.pre_emphasis as u8
            )
        }
    }
}

pub fn dump_block(b: &Block) -> String {
    match b {
        Block::Streaminfo(s) => format!(
            "SI:{:x},{:x},{:x},{:x},{:x},{:x},{:x},{:x},{}",
            s.minimum_block_size,
            s.maximum_block_size,
            s.minimum_frame_size.map(|x| x.get()).unwrap_or(0),
            s.maximum_frame_size.map(|x| x.get()).unwrap_or(0),
            s.sample_rate,
            s.channels.get(),
            u32::from(s.bits_per_sample),
            s.total_samples.map(|x| x.get()).unwrap_or(0),
            match &s.md5 {
                Some(m) => hex(m),
                None => "-".into(),
            }
        ),
        Block::Padding(p) => format!("PAD:{:x}", u32::from(p.size)),
        Block::Application(a) => format!("APP:{:x},{}", a.id, hx(&a.data)),
        Block::SeekTable(t) => {
            let v: Vec<String> = t
                .points
                .iter()
                .map(|p| match p {
                    SeekPoint::Defined { sample_offset, byte_offset, frame_samples } => {
                        format!("{:x}/{:x}/{:x}", sample_offset, byte_offset, frame_samples)
                    }
                    SeekPoint::Placeholder => "P".into(),
                })
                .collect();
            format!("SEEK:{}", if v.is_empty() { "-".to_string() } else { v.join(";") })
        }
        Block::VorbisComment(v) => {
            let f: Vec<String> = v.fields.iter().map(|s| hx(s.as_bytes())).collect();
            format!("VC:{};{:x};{}", hx(v.vendor_string.as_bytes()), v.fields.len(), f.join(","))
        }
        Block::Cuesheet(c) => dump_cuesheet(c),
        Block::Picture(p) => format!(
            "PIC:{:x},{},{},{:x},{:x},{:x},{:x},{}",
            p.picture_type as u32,
            hx(p.media_type.as_bytes()),
            hx(p.description.as_bytes()),
            p.width,
            p.height,
            p.color_depth,
            p.colors_used.map(|x| x.get()).unwrap_or(0),
            hx(&p.data)
        ),
    }
}

pub fn dump_blocks(l: &[Block]) -> String {
    l.iter().map(dump_block).collect::<Vec<_>>().join("|")
}

/// MetadataBlock::bytes() of a block, as hex or "-"
pub fn block_bytes(b: &Block) -> Option<u32> {
    match b {
        Block::Streaminfo(x) => x.bytes().map(u32::from),
        Block::Padding(x) => x.bytes().map(u32::from),
        Block::Application(x) => x.bytes().map(u32::from),
        Block::SeekTable(x) => x.bytes().map(u32::from),
        Block::VorbisComment(x) => x.bytes().map(u32::from),
        Block::Cuesheet(x) => x.bytes().map(u32::from),
        Block::Picture(x) => x.bytes().map(u32::from),
    }
}
pub fn sizes_s(l: &[Block]) -> Result<String, String> {
    let r = catch(|| l.iter().map(|b| block_bytes(b).map(|n| format!("{:x}", n)).unwrap_or("-".into())).collect::<Vec<_>>().join(","));
    r
}

// ------------------------------------------------------------------ implementation runners
#[derive(Clone, Debug, PartialEq)]
pub enum Out<T> {
    Ok(T),
    Err(String),
    Panic(String),
}
impl<T> Out<T> {
    pub fn class(&self) -> &'static str {
        match self {
            Out::Ok(_) => "ok",
            Out::Err(_) => "err",
            Out::Panic(_) => "panic",
        }
    }
    pub fn tag(&self) -> String {
        match self {
            Out::Ok(_) => "ok".into(),
            Out::Err(e) => format!("err:{}", e),
            Out::Panic(_) => "panic".into(),
        }
    }
}

pub fn run_read(bytes: &[u8]) -> Out<Vec<Block>> {
    match catch(|| read_blocks(std::io::Cursor::new(bytes)).collect::<Result<Vec<Block>, Error>>()) {
        Ok(Ok(v)) => Out::Ok(v),
        Ok(Err(e)) => Out::Err(err_class(&e)),
        Err(p) => Out::Panic(p),
    }
}
pub fn run_write(blocks: &[Block]) -> Out<Vec<u8>> {
    match catch(|| {
        let mut out = Vec::new();
        write_blocks(&mut out, blocks.iter()).map(|()| out)
    }) {
        Ok(Ok(v)) => Out::Ok(v),
        Ok(Err(e)) => Out::Err(err_class(&e)),
        Err(p) => Out::Panic(p),
    }
}

/// Walk the block headers of a written metadata section: (type, size field, body offset)
pub fn walk_headers(bytes: &[u8]) -> Option<Vec<(u8, usize, usize, bool)>> {
    let mut v = vec![];
    if bytes.len() < 4 || &bytes[0..4] != b"fLaC" {
        return None;
    }
    let mut pos = 4;
    loop {
        if pos + 4 > bytes.len() {
            return None;
        }
        let last = bytes[pos] & 0x80 != 0;
        let ty = bytes[pos] & 0x7f;
        let size = ((bytes[pos + 1] as usize) << 16) | ((bytes[pos + 2] as usize) << 8) | bytes[pos + 3] as usize;
        v.push((ty, size, pos + 4, last));
        pos += 4 + size;
        if pos > bytes.len() {
            return None;
        }
        if last {
            return if pos == bytes.len() { Some(v) } else { None };
        }
    }
}

// ------------------------------------------------------------------ generators (public constructors)
pub fn pick_u64_extreme(rng: &mut Rng, max: u64) -> u64 {
    match rng.below(8) {
        0 => 0,
        1 => max,
        2 => 1.min(max),
        3 => max - 1.min(max),
        4 => max / 2,
        _ => {
            if max == u64::MAX { rng.next() } else { rng.below(max + 1) }
        }
    }
}

pub fn gen_streaminfo(rng: &mut Rng, in_range: bool) -> Streaminfo {
    let f24 = |rng: &mut Rng| -> u32 {
        if in_range || rng.chance(9, 10) { pick_u64_extreme(rng, (1 << 24) - 1) as u32 } else { pick_u64_extreme(rng, u32::MAX as u64) as u32 }
    };
    let minf = f24(rng);
    let maxf = f24(rng);
    let rate = if in_range || rng.chance(9, 10) { pick_u64_extreme(rng, (1 << 20) - 1) as u32 } else { pick_u64_extreme(rng, u32::MAX as u64) as u32 };
    let ch = if in_range || rng.chance(9, 10) { rng.range(1, 8) as u8 } else { rng.range(1, 255) as u8 };
    // 1-bit depth is excluded here: it is F-C11a (owned by area `writers`); see c11.rs for the separate probe
    let bps = match rng.below(6) {
        0 => 32,
        1 => 2,
        2 => 4,
        _ => rng.range(2, 32) as u32,
    };
    let total = if in_range || rng.chance(9, 10) { pick_u64_extreme(rng, (1 << 36) - 1) } else { pick_u64_extreme(rng, u64::MAX) };
    let md5 = match rng.below(4) {
        0 => None,
        1 => {
            let mut m = [0u8; 16];
            m[rng.below(16) as usize] = 1 + rng.below(255) as u8;
            Some(m)
        }
        _ => {
            let b = rng.bytes(16);
            let mut m = [0u8; 16];
            m.copy_from_slice(&b);
            if m.iter().all(|x| *x == 0) { None } else { Some(m) }
        }
    };
    Streaminfo {
        minimum_block_size: pick_u64_extreme(rng, 65535) as u16,
        maximum_block_size: pick_u64_extreme(rng, 65535) as u16,
        minimum_frame_size: NonZero::new(minf),
        maximum_frame_size: NonZero::new(maxf),
        sample_rate: rate,
        channels: NonZero::new(ch).unwrap(),
        bits_per_sample: bps.try_into().unwrap(),
        total_samples: NonZero::new(total),
        md5,
    }
}

pub fn gen_utf8(rng: &mut Rng, max_chars: usize) -> String {
    let n = match rng.below(5) {
        0 => 0,
        1 => 1,
        _ => rng.below(max_chars as u64 + 1) as usize,
    };
    let mut s = String::new();
    for _ in 0..n {
        let c = match rng.below(8) {
            0 => char::from_u32(rng.below(0x80) as u32).unwrap(),
            1 => char::from_u32(0x80 + rng.below(0x780) as u32).unwrap(),
            2 => {
                // 3-byte, avoiding surrogates
                let mut v = 0x800 + rng.below(0xF800) as u32;
                if (0xD800..0xE000).contains(&v) {
                    v = 0xE000;
                }
                char::from_u32(v).unwrap()
            }
            3 => char::from_u32(0x10000 + rng.below(0x100000) as u32).unwrap(),
            4 => *rng.pick(&['=', '\0', '\u{7f}', '\u{80}', '\u{7ff}', '\u{800}', '\u{ffff}', '\u{10000}', '\u{10ffff}', '\u{d7ff}', '\u{e000}']),
            _ => (b'A' + rng.below(26) as u8) as char,
        };
        s.push(c);
    }
    s
}

pub fn gen_vorbis(rng: &mut Rng) -> VorbisComment {
    let nf = match rng.below(4) {
        0 => 0,
        1 => 1,
        _ => rng.below(12) as usize,
    };
    VorbisComment { vendor_string: gen_utf8(rng, 40), fields: (0..nf).map(|_| gen_utf8(rng, 30)).collect() }
}

pub fn gen_application(rng: &mut Rng) -> Application {
    let n = match rng.below(4) {
        0 => 0,
        1 => 1,
        _ => rng.below(200) as usize,
    };
    Application { id: pick_u64_extreme(rng, u32::MAX as u64) as u32, data: rng.bytes(n) }
}

pub fn gen_padding(rng: &mut Rng) -> Padding {
    let n: u32 = match rng.below(4) {
        0 => 0,
        1 => 1,
        _ => rng.below(300) as u32,
    };
    Padding { size: BlockSize::try_from(n).unwrap() }
}

pub fn gen_seektable(rng: &mut Rng) -> SeekTable {
    let n = match rng.below(4) {
        0 => 0,
        1 => 1,
        _ => rng.below(20) as usize,
    };
    let nplace = rng.below(n as u64 + 1) as usize;
    let mut pts = vec![];
    let mut off: u64 = pick_u64_extreme(rng, 1000);
    for i in 0..n {
        if i >= n - nplace {
            pts.push(SeekPoint::Placeholder);
        } else {
            pts.push(SeekPoint::Defined {
                sample_offset: off,
                byte_offset: pick_u64_extreme(rng, u64::MAX),
                frame_samples: pick_u64_extreme(rng, 65535) as u16,
            });
            let step = match rng.below(4) {
                0 => 1,
                1 => 1 << 40,
                _ => 1 + rng.below(1 << 20),
            };
            // keep strictly below u64::MAX (that value is the placeholder marker)
            off = off.saturating_add(step).min(u64::MAX - 2 - (n as u64 - i as u64));
            if let Some(SeekPoint::Defined { sample_offset, .. }) = pts.last() {
                if off <= *sample_offset {
                    off = *sample_offset + 1;
                }
            }
        }
    }
    SeekTable { points: Contiguous::try_from(pts).expect("generated seek points are contiguous") }
}

pub fn gen_picture(rng: &mut Rng, ty: Option<PictureType>) -> Picture {
    let n = match rng.below(4) {
        0 => 0,
        _ => rng.below(300) as usize,
    };
    Picture {
        picture_type: ty.unwrap_or_else(|| PICTURE_TYPES[rng.below(21) as usize]),
        media_type: if rng.chance(1, 2) { "image/png".into() } else { gen_utf8(rng, 12) },
        description: gen_utf8(rng, 30),
        width: pick_u64_extreme(rng, u32::MAX as u64) as u32,
        height: pick_u64_extreme(rng, u32::MAX as u64) as u32,
        color_depth: pick_u64_extreme(rng, u32::MAX as u64) as u32,
        colors_used: NonZero::new(pick_u64_extreme(rng, u32::MAX as u64) as u32),
        data: rng.bytes(n),
    }
}

pub fn gen_isrc(rng: &mut Rng) -> ISRC {
    if rng.chance(1, 2) {
        return ISRC::None;
    }
    let mut s = String::new();
    for _ in 0..2 {
        s.push(if rng.chance(1, 2) { (b'A' + rng.below(26) as u8) as char } else { (b'a' + rng.below(26) as u8) as char });
    }
    for _ in 0..3 {
        s.push(match rng.below(3) {
            0 => (b'0' + rng.below(10) as u8) as char,
            1 => (b'A' + rng.below(26) as u8) as char,
            _ => (b'a' + rng.below(26) as u8) as char,
        });
    }
    for _ in 0..7 {
        s.push((b'0' + rng.below(10) as u8) as char);
    }
    let with_dashes = rng.chance(1, 3);
    let txt = if with_dashes { format!("{}-{}-{}-{}", &s[0..2], &s[2..5], &s[5..7], &s[7..12]) } else { s };
    txt.parse().expect("well-formed ISRC")
}

fn digits(rng: &mut Rng, n: usize) -> Vec<Digit> {
    (0..n).map(|_| Digit::try_from(b'0' + rng.below(10) as u8).unwrap()).collect()
}

/// CD-DA cue sheet: `nt` tracks, track k has `ni(k)` index points; offsets in CD frames.
pub fn gen_cuesheet_cdda(rng: &mut Rng, nt: usize, max_index: usize) -> Cuesheet {
    let mut tracks: Vec<TrackCDDA> = vec![];
    let mut pos: u64 = 0; // absolute frames
    let big = rng.chance(1, 6);
    for k in 0..nt {
        let ni = match rng.below(4) {
            0 => 1,
            1 => max_index,
            _ => 1 + rng.below(max_index.min(6) as u64) as usize,
        };
        let pregap = ni >= 2 && rng.chance(1, 2);
        let track_off = pos;
        let mut ixs: Vec<Index<CDDAOffset>> = vec![];
        let mut rel: u64 = 0;
        let mut number: u8 = if pregap { 0 } else { 1 };
        for j in 0..ni {
            if j > 0 {
                rel += 1 + if big { rng.below(1 << 30) } else { rng.below(5000) };
            }
            ixs.push(Index { offset: CDDAOffset::try_from(rel * 588).unwrap(), number });
            number += 1;
        }
        pos = track_off + rel + 1 + if big { rng.below(1 << 30) } else { rng.below(20000) };
        tracks.push(TrackCDDA {
            offset: CDDAOffset::try_from(track_off * 588).unwrap(),
            number: NonZero::new((k + 1) as u8).unwrap(),
            isrc: gen_isrc(rng),
            non_audio: rng.chance(1, 4),
            pre_emphasis: rng.chance(1, 4),
            index_points: IndexVec::try_from(Contiguous::try_from(ixs).expect("contiguous index points")).expect("index vec"),
        });
    }
    Cuesheet::CDDA {
        catalog_number: if rng.chance(1, 2) {
            let d = digits(rng, 13);
            Some(<[Digit; 13]>::try_from(d).unwrap())
        } else {
            None
        },
        lead_in_samples: pick_u64_extreme(rng, u64::MAX),
        tracks: Contiguous::try_from(tracks).expect("contiguous tracks"),
        lead_out: LeadOutCDDA {
            offset: CDDAOffset::try_from(pos * 588).unwrap(),
            number: LeadOut,
            isrc: gen_isrc(rng),
            non_audio: rng.chance(1, 4),
            pre_emphasis: rng.chance(1, 4),
            index_points: (),
        },
    }
}

pub fn gen_cuesheet_noncdda(rng: &mut Rng, nt: usize, max_index: usize) -> Result<Cuesheet, String> {
    let mut tracks: Vec<TrackNonCDDA> = vec![];
    let mut pos: u64 = 0;
    let big = rng.chance(1, 6);
    for k in 0..nt {
        let ni = match rng.below(4) {
            0 => 1,
            1 => max_index,
            _ => 1 + rng.below(max_index.min(6) as u64) as usize,
        };
        let pregap = ni >= 2 && rng.chance(1, 2);
        let track_off = pos;
        let mut ixs: Vec<Index<u64>> = vec![];
        let mut rel: u64 = 0;
        let mut number: u32 = if pregap { 0 } else { 1 };
        for j in 0..ni {
            if j > 0 {
                rel += 1 + if big { rng.below(1 << 40) } else { rng.below(5000) };
            }
            if number > 255 {
                break;
            }
            ixs.push(Index { offset: rel, number: number as u8 });
            number += 1;
        }
        pos = track_off + rel + 1 + if big { rng.below(1 << 40) } else { rng.below(20000) };
        let c = Contiguous::try_from(ixs).map_err(|_| "non-contiguous index points".to_string())?;
        tracks.push(TrackNonCDDA {
            offset: track_off,
            number: NonZero::new((k + 1) as u8).unwrap(),
            isrc: gen_isrc(rng),
            non_audio: rng.chance(1, 4),
            pre_emphasis: rng.chance(1, 4),
            index_points: IndexVec::try_from(c).map_err(|e| format!("{:?}", e))?,
        });
    }
    let ncat = match rng.below(4) {
        0 => 0,
        1 => 128,
        _ => rng.below(129) as usize,
    };
    Ok(Cuesheet::NonCDDA {
        catalog_number: digits(rng, ncat),
        tracks: Contiguous::try_from(tracks).map_err(|_| "non-contiguous tracks".to_string())?,
        lead_out: LeadOutNonCDDA {
            offset: pos,
            number: LeadOut,
            isrc: gen_isrc(rng),
            non_audio: rng.chance(1, 4),
            pre_emphasis: rng.chance(1, 4),
            index_points: (),
        },
    })
}

pub fn gen_cuesheet(rng: &mut Rng, at_limits: bool) -> Cuesheet {
    if rng.chance(1, 2) {
        let nt = if at_limits { *rng.pick(&[0usize, 1, 99]) } else { rng.below(5) as usize };
        gen_cuesheet_cdda(rng, nt, if at_limits { 100 } else { 4 })
    } else {
        let nt = if at_limits { *rng.pick(&[0usize, 1, 254]) } else { rng.below(5) as usize };
        // 255 is the largest index-point count the format can store (u8)
        gen_cuesheet_noncdda(rng, nt, if at_limits { 255 } else { 4 }).expect("generated non-CD-DA cue sheet is well formed")
    }
}

/// A block list that respects the single-instance rules (STREAMINFO first).
pub fn gen_block_list(rng: &mut Rng, types: &[u8], at_limits: bool) -> Vec<Block> {
    let mut l: Vec<Block> = vec![Block::Streaminfo(gen_streaminfo(rng, true))];
    let n = rng.below(6) as usize;
    let (mut sk, mut vc, mut png, mut icon) = (false, false, false, false);
    for _ in 0..n {
        match *rng.pick(types) {
            1 => l.push(Block::Padding(gen_padding(rng))),
            2 => l.push(Block::Application(gen_application(rng))),
            3 => {
                if !sk {
                    sk = true;
                    l.push(Block::SeekTable(gen_seektable(rng)))
                }
            }
            4 => {
                if !vc {
                    vc = true;
                    l.push(Block::VorbisComment(gen_vorbis(rng)))
                }
            }
            5 => {
                let lim = at_limits && rng.chance(1, 3);
                l.push(Block::Cuesheet(gen_cuesheet(rng, lim)))
            }
            6 => {
                let p = gen_picture(rng, None);
                match p.picture_type {
                    PictureType::Png32x32 => {
                        if !png {
                            png = true;
                            l.push(Block::Picture(p))
                        }
                    }
                    PictureType::GeneralFileIcon => {
                        if !icon {
                            icon = true;
                            l.push(Block::Picture(p))
                        }
                    }
                    _ => l.push(Block::Picture(p)),
                }
            }
            _ => {}
        }
    }
    l
}
