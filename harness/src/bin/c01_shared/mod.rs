//! Shared pieces of the codec-property harness binaries (C01, C02, C03, C04, C14, C16, C17, C19).
//! Included by each bin with `#[path = "c01_shared/mod.rs"] mod shared;` (it is a directory
//! below src/bin, so tools/vlib.py does not register it as a binary of its own).
#![allow(dead_code)]

pub mod fgen;
pub mod io;
pub mod mutate;
pub mod refdec;
pub mod space;

use vharness::json::{esc, obj};

/// Largest number of samples in a case handed to the extracted Coq model (its integers are
/// binary inductives: a 65535-sample constant block of a few bytes would cost it minutes).
pub const MODEL_MAX_SAMPLES: usize = 12000;

pub fn profile() -> &'static str {
    if cfg!(debug_assertions) { "debug" } else { "release" }
}

pub fn allow_known() -> bool {
    std::env::var("VERIF_ALLOW_KNOWN").map(|v| v == "1").unwrap_or(false)
}

/// Optional scale factor for case counts (`VERIF_SCALE`, percent; used by the checks to keep
/// the debug-profile run inside the budget).
pub fn scale(n: usize) -> usize {
    let pct: usize = std::env::var("VERIF_SCALE").ok().and_then(|s| s.parse().ok()).unwrap_or(100);
    (n * pct / 100).max(1)
}

// ---------------------------------------------------------------- panic location capture
thread_local! {
    static PANIC_LOC: std::cell::RefCell<String> = const { std::cell::RefCell::new(String::new()) };
}

/// Installs a silent panic hook that remembers `file:line` of the last panic of this thread.
pub fn hook_panics() {
    std::panic::set_hook(Box::new(|info| {
        let loc = info.location().map(|l| format!("{}:{}", l.file(), l.line())).unwrap_or_default();
        if std::env::var("VERIF_LOUD").is_ok() { eprintln!("panic at {}: {}", loc, info); }
        PANIC_LOC.with(|p| *p.borrow_mut() = loc);
    }));
}
pub fn last_panic_loc() -> String {
    PANIC_LOC.with(|p| p.borrow().clone())
}
pub fn clear_panic_loc() {
    PANIC_LOC.with(|p| p.borrow_mut().clear());
}

/// Rough class of a panic message, used (with the location) to build a stable key.
pub fn panic_class(msg: &str) -> &'static str {
    if msg.contains("attempt to add with overflow") { "add-overflow" }
    else if msg.contains("attempt to subtract with overflow") { "sub-overflow" }
    else if msg.contains("attempt to multiply with overflow") { "mul-overflow" }
    else if msg.contains("attempt to negate with overflow") { "neg-overflow" }
    else if msg.contains("attempt to shift left with overflow") { "shl-overflow" }
    else if msg.contains("attempt to shift right with overflow") { "shr-overflow" }
    else if msg.contains("attempt to divide by zero") || msg.contains("remainder with a divisor of zero") { "div-zero" }
    else if msg.contains("chunk size must be non-zero") { "chunk-zero" }
    else if msg.contains("capacity") || msg.contains("CapacityError") { "capacity" }
    else if msg.contains("unwrap") { "unwrap" }
    else if msg.contains("out of range") || msg.contains("out of bounds") || msg.contains("index") { "slice-range" }
    else if msg.contains("assertion") { "assert" }
    else if msg.contains("abs") { "abs-overflow" }
    else { "other" }
}

pub struct Out {
    pub viols: usize,
    pub cases: usize,
    seen: std::collections::BTreeMap<String, usize>,
    pub per_key_limit: usize,
}
impl Out {
    pub fn new() -> Self {
        Out { viols: 0, cases: 0, seen: Default::default(), per_key_limit: 3 }
    }
    /// Emit a violation line (at most `per_key_limit` lines per key; the rest only counted).
    pub fn viol(&mut self, key: &str, desc: &str, extra: &[(&str, String)]) {
        self.viols += 1;
        let n = self.seen.entry(key.to_string()).or_insert(0);
        *n += 1;
        if *n > self.per_key_limit {
            return;
        }
        let mut f: Vec<(&str, String)> = vec![("t", esc("viol")), ("key", esc(key)), ("desc", esc(desc)), ("profile", esc(profile()))];
        f.extend(extra.iter().cloned());
        println!("{}", obj(&f));
    }
    /// A violation caused by a panic: carries message, class and location so that the check
    /// can derive a call-site key.
    pub fn viol_panic(&mut self, prefix: &str, msg: &str, desc: &str, extra: &[(&str, String)]) {
        let loc = last_panic_loc();
        let key = format!("{}:{}@{}", prefix, panic_class(msg), short_loc(&loc));
        let mut e: Vec<(&str, String)> = vec![("panic_msg", esc(msg)), ("panic_loc", esc(&loc)), ("panic_prefix", esc(prefix)), ("panic_class", esc(panic_class(msg)))];
        e.extend(extra.iter().cloned());
        self.viol(&key, desc, &e);
    }
    pub fn case(&mut self, line: String) {
        self.cases += 1;
        println!("{}", line);
    }
    pub fn counts(&self) -> String {
        let items: Vec<String> = self.seen.iter().map(|(k, v)| format!("{}:{}", esc(k), v)).collect();
        format!("{{{}}}", items.join(","))
    }
}

/// `…/src/decode.rs:1749` -> `decode.rs:1749`; a dependency path keeps crate dir + file.
pub fn short_loc(loc: &str) -> String {
    if let Some(i) = loc.rfind("/src/") {
        let tail = &loc[i + 5..];
        if loc.contains("/registry/") || loc.contains("/rustc/") || loc.contains("/rustlib/") {
            let head = &loc[..i];
            let krate = head.rsplit('/').next().unwrap_or("");
            return format!("{}/{}", krate, tail);
        }
        return tail.to_string();
    }
    loc.to_string()
}

pub fn note(msg: &str) {
    println!("{}", obj(&[("t", esc("note")), ("msg", esc(msg))]));
}
