//! C06 harness — seeking lands exactly.
//!
//! Files are encoded by the real encoder (1-8 channels, every byte width incl. odd depths, small
//! blocks => many frames, every seek-table shape: none / every frame / every n frames / every second /
//! trailing placeholders / first points missing / total unknown) from non-periodic PCM.  Boundary and
//! random histories over {read, fill, consume, next, seek} are run against the three real readers
//! (byte reader in both byte orders).  Each observation is judged by an abstract cursor over the PCM
//! that was *encoded* (the searcher: "viol" lines); the whole history with the implementation's
//! observations is printed as a "case" line for the model diff.
//!
//! Output: JSON lines, field "t" in {"file","case","viol","stat","note"}.
include!("readers_common.inc");

use std::collections::BTreeMap;

struct Gen<'a> {
    f: &'a TestFile,
    kind: Kind,
    rng: Rng,
    /// interesting positions in PCM frames
    marks: Vec<u64>,
}

impl<'a> Gen<'a> {
    fn new(f: &'a TestFile, kind: Kind, rng: Rng) -> Self {
        let mut marks = vec![0u64, 1];
        let starts = f.frame_starts();
        for (i, b) in starts.iter().enumerate() {
            marks.push(b.saturating_sub(1));
            marks.push(*b);
            marks.push(*b + 1);
            if i + 1 < starts.len() {
                marks.push((*b + starts[i + 1]) / 2);
            }
        }
        let total = f.pcm_frames();
        marks.push(total.saturating_sub(1));
        marks.push(total);
        marks.push(total + 1);
        marks.sort();
        marks.dedup();
        Gen { f, kind, rng, marks }
    }
    fn upf(&self) -> u64 {
        match self.kind {
            Kind::BytesLe | Kind::BytesBe => (self.f.bytes_per_sample() * self.f.ch) as u64,
            Kind::Samples => self.f.ch as u64,
            Kind::Channels => 1,
        }
    }
    fn len_units(&self) -> u64 {
        self.f.pcm_frames() * self.upf()
    }
    /// a seek to PCM frame `t` (byte readers: plus `jit` bytes), expressed by `mode` 0 start / 1 current / 2 end
    fn seek_to(&self, t: u64, jit: u64, mode: u64, pos: u64) -> Op {
        match self.kind {
            Kind::Samples | Kind::Channels => Op::Seek(t),
            _ => {
                let tb = t.saturating_mul(self.upf()).saturating_add(jit);
                match mode {
                    1 => {
                        let d = tb as i128 - pos as i128;
                        if d >= i64::MIN as i128 && d <= i64::MAX as i128 { Op::SeekCur(d as i64) } else { Op::SeekStart(tb) }
                    }
                    2 => {
                        let d = tb as i128 - self.len_units() as i128;
                        if d >= i64::MIN as i128 && d <= i64::MAX as i128 { Op::SeekEnd(d as i64) } else { Op::SeekStart(tb) }
                    }
                    _ => Op::SeekStart(tb),
                }
            }
        }
    }
    fn extreme_seek(&mut self, pos: u64) -> Op {
        let len = self.len_units();
        match self.kind {
            Kind::Samples | Kind::Channels => Op::Seek(*self.rng.pick(&[u64::MAX, u64::MAX - 1, 1u64 << 63, 1u64 << 36, u64::MAX / 2, self.f.pcm_frames() + 1, self.f.pcm_frames() + 1000])),
            _ => match self.rng.below(16) {
                0 => Op::SeekStart(u64::MAX),
                1 => Op::SeekStart(1u64 << 63),
                2 => Op::SeekStart(len + 1),
                3 => Op::SeekStart(len + self.upf()),
                4 => Op::SeekCur(i64::MIN),
                5 => Op::SeekCur(i64::MAX),
                6 => Op::SeekCur(-(pos as i64) - 1),
                7 => Op::SeekCur((len - pos.min(len)) as i64 + 1),
                8 => Op::SeekEnd(i64::MIN),
                9 => Op::SeekEnd(1),
                10 => Op::SeekEnd(i64::MAX),
                11 => Op::SeekEnd(-(len as i64) - 1),
                12 => Op::SeekEnd(-(len as i64)),
                13 => Op::SeekCur(0),
                14 => Op::SeekEnd(0),
                _ => Op::SeekCur(-(pos as i64)),
            },
        }
    }
    fn random_seek(&mut self, pos: u64) -> Op {
        if self.rng.chance(1, 6) {
            return self.extreme_seek(pos);
        }
        let t = if self.rng.chance(2, 3) { *self.rng.pick(&self.marks.clone()) } else { self.rng.below(self.f.pcm_frames() + 2) };
        let jit = match self.rng.below(4) {
            0 => 1,
            1 => self.upf() - 1,
            _ => 0,
        };
        let mode = self.rng.below(3);
        self.seek_to(t, jit, mode, pos)
    }
    fn read_size(&mut self) -> usize {
        let upf = self.upf() as usize;
        let frame = self.f.frame_lens[0] * upf;
        match self.rng.below(9) {
            0 => 0,
            1 => 1,
            2 => upf.saturating_sub(1),
            3 => upf,
            4 => frame.saturating_sub(1),
            5 => frame + 1,
            6 => 3 * frame + 5,
            _ => 1 + self.rng.below(2 * frame as u64 + 2) as usize,
        }
    }
}

struct Run<'a> {
    f: &'a TestFile,
    kind: Kind,
    drv: Drv,
    rc: RefCursor,
    ops: Vec<Op>,
    obs: Vec<Obs>,
    avail: usize,
    iter_mode: bool,
    dead: bool,
    viol: String,
}

impl<'a> Run<'a> {
    fn new(f: &'a TestFile, kind: Kind, seekable: bool) -> Option<Self> {
        Self::new_at(f, kind, seekable, 0)
    }
    /// the same file behind `prefix` foreign bytes, the source positioned at the stream start
    fn new_at(f: &'a TestFile, kind: Kind, seekable: bool, prefix: usize) -> Option<Self> {
        match Drv::open_at(kind, &f.bytes, prefix, Chunking::Whole, seekable) {
            Ok(drv) => Some(Run { f, kind, drv, rc: RefCursor::new(f, kind, seekable), ops: vec![], obs: vec![], avail: 0, iter_mode: false, dead: false, viol: String::new() }),
            Err(e) => {
                note(&format!("cannot open {} on file {}: {}", kind.tag(), f.id, e));
                None
            }
        }
    }
    /// returns false when the history must stop (violation or panic)
    fn go(&mut self, op: Op, viols: &mut usize, seekable: bool) -> bool {
        if self.dead {
            return false;
        }
        let obs = self.drv.apply(&op);
        let avail_before = self.avail;
        match (&op, &obs) {
            (Op::Fill, Obs::Bytes(b)) => self.avail = b.len(),
            (Op::Fill, Obs::Samples(s)) => self.avail = s.len(),
            (Op::Fill, Obs::Chans(c)) => self.avail = c.first().map(|x| x.len()).unwrap_or(0),
            (Op::Consume(k), _) => self.avail = self.avail.saturating_sub(*k),
            _ => self.avail = 0,
        }
        if let Op::Next = op {
            self.iter_mode = true;
        }
        self.ops.push(op.clone());
        self.obs.push(obs.clone());
        let over_consume = matches!(op, Op::Consume(k) if k > avail_before);
        if over_consume {
            // outside the property's domain (k <= available): kept for the model diff only
            self.dead = true;
            return false;
        }
        if let Some(v) = self.rc.step(&op, &obs, avail_before) {
            emit_viol(self.f, self.kind, seekable, "whole", &self.ops, &self.obs, self.ops.len() - 1, &v);
            *viols += 1;
            self.viol = v.key.clone();
            self.dead = true;
            return false;
        }
        if matches!(obs, Obs::Panic(_)) {
            self.dead = true;
            return false;
        }
        true
    }
    fn data_op(&mut self, g: &mut Gen) -> Op {
        match self.kind {
            Kind::Channels => {
                if self.avail > 0 && g.rng.chance(2, 3) {
                    Op::Consume(match g.rng.below(4) {
                        0 => self.avail,
                        1 => 1.min(self.avail),
                        2 => 0,
                        _ => g.rng.below(self.avail as u64 + 1) as usize,
                    })
                } else {
                    Op::Fill
                }
            }
            _ => {
                if self.iter_mode {
                    return Op::Next;
                }
                if self.avail > 0 && g.rng.chance(1, 2) {
                    return Op::Consume(match g.rng.below(4) {
                        0 => self.avail,
                        1 => 1.min(self.avail),
                        2 => 0,
                        _ => g.rng.below(self.avail as u64 + 1) as usize,
                    });
                }
                match g.rng.below(5) {
                    0 | 1 => Op::Fill,
                    _ => Op::Read(g.read_size()),
                }
            }
        }
    }
}

fn main() {
    quiet_panics();
    let seed = env_seed();
    let thorough = env_tier_thorough();
    let nfiles = if thorough { 192 } else { 24 };
    let files = corpus(seed, 0xC06, nfiles, false, "f");
    let mut stat: BTreeMap<String, u64> = BTreeMap::new();
    let mut bump = |k: &str, n: u64| *stat.entry(k.to_string()).or_insert(0) += n;
    let mut viols = 0usize;
    let mut rng = Rng::new(seed, 0xC06_0001);
    for f in &files {
        f.emit();
        bump(&format!("files.policy.{}", f.policy), 1);
        bump(&format!("files.channels.{}", f.ch), 1);
        bump(&format!("files.bytes_per_sample.{}", f.bytes_per_sample()), 1);
        for &kind in KINDS {
            let mut g = Gen::new(f, kind, Rng::new(rng.next(), 7));
            // ---- boundary histories: [prefix] ; seek(mark) ; fill ; consume ; read/next ; seek(other) ; fill
            let marks = g.marks.clone();
            let mut hist = 0u64;
            for (mi, &t) in marks.iter().enumerate() {
                let modes: &[u64] = match kind {
                    Kind::BytesLe => &[0, 1, 2],
                    Kind::BytesBe => &[(mi % 3) as u64],
                    _ => &[0],
                };
                for &mode in modes {
                    // every third history: the stream sits behind foreign bytes (the source is positioned at its start)
                    let lead = if (mi as u64 + mode) % 3 == 2 { 37 + 11 * (mi % 4) } else { 0 };
                    let Some(mut run) = Run::new_at(f, kind, true, lead) else { continue };
                    if lead > 0 { bump("histories.behind-a-prefix", 1); }
                    hist += 1;
                    // prefix: leave the reader in a different buffer state each time
                    match (mi as u64 + mode) % 4 {
                        0 => {}
                        1 => {
                            run.go(Op::Fill, &mut viols, true);
                            let k = run.avail / 2;
                            run.go(Op::Consume(k), &mut viols, true);
                        }
                        2 => {
                            if kind != Kind::Channels {
                                let n = g.read_size();
                                run.go(Op::Read(n), &mut viols, true);
                            } else {
                                run.go(Op::Fill, &mut viols, true);
                                let k = run.avail;
                                run.go(Op::Consume(k), &mut viols, true);
                                run.go(Op::Fill, &mut viols, true);
                            }
                        }
                        _ => {
                            // run to the end first
                            for _ in 0..(f.frame_lens.len() + 2) {
                                if !run.go(Op::Fill, &mut viols, true) {
                                    break;
                                }
                                let k = run.avail;
                                run.go(Op::Consume(k), &mut viols, true);
                            }
                        }
                    }
                    let jit = match (mi + hist as usize) % 3 {
                        0 => 0,
                        1 => 1,
                        _ => g.upf() - 1,
                    };
                    let pos = run.rc.pos();
                    let op = g.seek_to(t, if matches!(kind, Kind::BytesLe | Kind::BytesBe) { jit } else { 0 }, mode, pos);
                    run.go(op, &mut viols, true);
                    run.go(Op::Fill, &mut viols, true);
                    let k = if mi % 2 == 0 { run.avail.min(3) } else { run.avail };
                    run.go(Op::Consume(k), &mut viols, true);
                    if kind != Kind::Channels {
                        if mi % 5 == 4 && kind == Kind::Samples {
                            for _ in 0..3 {
                                run.go(Op::Next, &mut viols, true);
                            }
                        } else {
                            let n = g.read_size();
                            run.go(Op::Read(n), &mut viols, true);
                            let t2 = marks[(mi * 7 + 3) % marks.len()];
                            let pos = run.rc.pos();
                            let op = g.seek_to(t2, 0, (mode + 1) % 3, pos);
                            run.go(op, &mut viols, true);
                            run.go(Op::Fill, &mut viols, true);
                        }
                    } else {
                        let t2 = marks[(mi * 7 + 3) % marks.len()];
                        run.go(Op::Seek(t2), &mut viols, true);
                        run.go(Op::Fill, &mut viols, true);
                    }
                    // some histories run on to the end and poll past it
                    if mi % 4 == 1 {
                        for _ in 0..(f.frame_lens.len() + 3) {
                            let op = if run.iter_mode { Op::Next } else { Op::Fill };
                            if !run.go(op, &mut viols, true) {
                                break;
                            }
                            if !run.iter_mode {
                                let k = run.avail;
                                run.go(Op::Consume(k), &mut viols, true);
                            }
                        }
                    }
                    bump(&format!("histories.boundary.{}", kind.tag()), 1);
                    bump("ops", run.ops.len() as u64);
                    emit_case(f, kind, true, "whole", &run.ops, &run.obs, "boundary", &run.viol);
                }
            }
            // ---- back-to-back seeks: [decode something] ; seek(t) ; seek(t - d) ; fill ; consume ; fill  (t a frame start /
            //      seek point, d small): the second seek must not be answered from whatever the first one left behind
            for (mi, &t) in marks.iter().enumerate() {
                if t == 0 || t > f.pcm_frames() { continue; }
                for d in [1u64, 2, 5] {
                    if d > t || (!thorough && (mi as u64 + d) % 2 == 1) { continue; }
                    let lead = if (mi as u64 + d) % 4 == 3 { 41 } else { 0 };
                    let Some(mut run) = Run::new_at(f, kind, true, lead) else { continue };
                    if (mi as u64 + d) % 3 != 0 {
                        // something decoded first (a reader that never decoded holds no stale frame)
                        run.go(Op::Fill, &mut viols, true);
                        let k = run.avail.min(1 + mi % 3);
                        run.go(Op::Consume(k), &mut viols, true);
                    }
                    let pos = run.rc.pos();
                    let op = g.seek_to(t, 0, 0, pos);
                    run.go(op, &mut viols, true);
                    let pos = run.rc.pos();
                    let op = g.seek_to(t - d, 0, (mi as u64) % 3, pos);
                    run.go(op, &mut viols, true);
                    run.go(Op::Fill, &mut viols, true);
                    let k = run.avail.min(7);
                    run.go(Op::Consume(k), &mut viols, true);
                    run.go(Op::Fill, &mut viols, true);
                    bump(&format!("histories.double-seek.{}", kind.tag()), 1);
                    bump("ops", run.ops.len() as u64);
                    emit_case(f, kind, true, "whole", &run.ops, &run.obs, "double-seek", &run.viol);
                }
            }
            // ---- extreme targets from assorted states
            for e in 0..(if thorough { 24 } else { 10 }) {
                let Some(mut run) = Run::new(f, kind, true) else { continue };
                if e % 2 == 1 {
                    let op = run.data_op(&mut g);
                    run.go(op, &mut viols, true);
                }
                let pos = run.rc.pos();
                let op = g.extreme_seek(pos);
                run.go(op, &mut viols, true);
                run.go(Op::Fill, &mut viols, true);
                let pos = run.rc.pos();
                let op = g.random_seek(pos);
                run.go(op, &mut viols, true);
                let op = run.data_op(&mut g);
                run.go(op, &mut viols, true);
                bump(&format!("histories.extreme.{}", kind.tag()), 1);
                bump("ops", run.ops.len() as u64);
                emit_case(f, kind, true, "whole", &run.ops, &run.obs, "extreme", &run.viol);
            }
            // ---- random histories
            let nrand = if thorough { 60 } else { 8 };
            for h in 0..nrand {
                let seekable = !(h == 0);
                let Some(mut run) = Run::new(f, kind, seekable) else { continue };
                let len = 6 + g.rng.below(if thorough { 40 } else { 20 });
                for _ in 0..len {
                    let op = if !run.iter_mode && g.rng.chance(1, 3) {
                        let pos = run.rc.pos();
                        g.random_seek(pos)
                    } else if kind == Kind::Samples && !run.iter_mode && g.rng.chance(1, 25) {
                        Op::Next
                    } else if g.rng.chance(1, 60) && run.avail > 0 && kind != Kind::Channels {
                        Op::Consume(run.avail + 1 + g.rng.below(3) as usize)
                    } else {
                        run.data_op(&mut g)
                    };
                    if !run.go(op, &mut viols, seekable) {
                        break;
                    }
                }
                bump(&format!("histories.random.{}", kind.tag()), 1);
                if !seekable {
                    bump("histories.not-seekable", 1);
                }
                bump("ops", run.ops.len() as u64);
                emit_case(f, kind, seekable, "whole", &run.ops, &run.obs, "random", &run.viol);
            }
        }
    }
    bump("files", files.len() as u64);
    bump("violations", viols as u64);
    for (k, n) in viol_counts() {
        bump(&format!("viol.{}", k), n as u64);
    }
    let mut fields: Vec<(&str, String)> = vec![("t", esc("stat")), ("profile", esc(profile_tag()))];
    let owned: Vec<(String, String)> = stat.iter().map(|(k, v)| (k.clone(), v.to_string())).collect();
    for (k, v) in &owned {
        fields.push((k.as_str(), v.clone()));
    }
    println!("{}", obj(&fields));
}
