(* E2E/ByteE2E.v — C01 for FlacByteWriter (either byte order) on the bytes themselves: the finished file decodes
   to exactly the samples the written bytes spell out (whole PCM frames), for any chunking of the writes —
   including writes that end in the middle of a sample. *)
From Coq Require Import List NArith ZArith Lia.
From FlacBase Require Import Res.
From FlacCodec Require Ast Stream Header Wf Enc Enc_proofs.
From FlacWriters Require Import Meta Params Params_proofs Finalize Writers Lists_proofs Writers_proofs New_proofs Bytes_proofs Frontend_proofs.
From FlacWriters Require Props_C08.
From FlacE2E Require Import Bridge E2E Sample SampleE2E.
Import ListNotations.
Open Scope N_scope.
Local Arguments N.add : simpl never.
Local Arguments N.mul : simpl never.
Local Arguments N.div : simpl never.
Local Arguments N.modulo : simpl never.
Local Arguments N.sub : simpl never.

Module EP := FlacCodec.Enc_proofs.
Module CS := FlacCodec.Stream.

(* the samples a run of bytes spells out: whole samples of n bytes, in the writer's byte order *)
Definition decode_bytes (en : endian) (n : nat) (buf : list N) : list Z :=
  map (fun c => bytes_to_int_le (match en with LE => c | BE => rev c end)) (fst (drain n buf)).

Lemma decode_bytes_app en n (a b : list N) m : (0 < n)%nat -> length a = (n * m)%nat ->
  decode_bytes en n (a ++ b) = decode_bytes en n a ++ decode_bytes en n b.
Proof.
  intros Hn La. unfold decode_bytes.
  destruct (drain n a) as [ca ra] eqn:Da. destruct (drain n b) as [cb rb] eqn:Db.
  pose proof (drain_spec n Hn a ca ra Da) as (Ea & Fa & Lra).
  pose proof (drain_spec n Hn b cb rb Db) as (Eb & Fb & Lrb).
  pose proof (drain_length n Hn a ca ra Da) as Lda.
  assert (Hra : ra = []).
  { rewrite La in Lda. assert (length ra = 0)%nat; [|destruct ra; [reflexivity|discriminate]].
    destruct (Nat.lt_trichotomy (length ca) m) as [Hl|[E|Hg]].
    - assert (n * (length ca + 1) <= n * m)%nat by (apply Nat.mul_le_mono_l; lia). lia.
    - subst m. lia.
    - assert (n * (m + 1) <= n * length ca)%nat by (apply Nat.mul_le_mono_l; lia). lia. }
  subst ra. rewrite app_nil_r in Ea.
  assert (E : drain n (a ++ b) = (ca ++ cb, rb)).
  { rewrite Ea, Eb, app_assoc, <- concat_app. apply drain_unique; [exact Hn|apply Forall_app; auto|exact Lrb]. }
  rewrite E. cbn [fst]. apply map_app.
Qed.

Lemma decode_bytes_length en n buf : (0 < n)%nat -> length (decode_bytes en n buf) = (length buf / n)%nat.
Proof.
  intros Hn. unfold decode_bytes. rewrite map_length.
  destruct (drain n buf) as [cs r] eqn:D. cbn [fst].
  pose proof (drain_spec n Hn buf cs r D) as (_ & _ & Lr). pose proof (drain_length n Hn buf cs r D) as L.
  rewrite L. rewrite Nat.mul_comm, Nat.div_add_l by lia. rewrite Nat.div_small by lia. lia.
Qed.

Section ByteE2E.
Variable o : FlacCodec.Enc.eopts.
Variable L : FlacCodec.Enc.oracle.
Variable md5 : list N -> list N.
Hypothesis md5_length : forall l, length (md5 l) = 16%nat.
Variable p : profile.
Variable rate bps : N.

(* one chunk of whole samples: the byte writer's Encoder call is the sample writer's on the decoded samples *)
Lemma byte_chunk_as_samples en ch n e (buf : list N) m :
  1 <= n <= 4 -> N.of_nat (length buf) = n * m -> Forall byte_ok buf ->
  byte_encode_chunk (encB o L rate bps) p en ch n e buf =
  sample_encode_chunk (encB o L rate bps) p ch n e (decode_bytes en (N.to_nat n) buf).
Proof.
  intros Hn Hl Hb. unfold decode_bytes. destruct en.
  - rewrite (Props_C08.C08_frontends_byte_le_block _ p ch n e buf m Hn Hl Hb). f_equal.
  - rewrite (Props_C08.C08_frontends_byte_be_block _ p ch n e buf m Hn Hl Hb). f_equal.
Qed.

Lemma byte_chunks_reach en ch n : 1 <= n <= 4 -> forall chunks e e',
  Forall (fun c => exists m, N.of_nat (length c) = n * m) chunks -> Forall (Forall byte_ok) chunks ->
  fold_res (byte_encode_chunk (encB o L rate bps) p en ch n) e chunks = Ok e' ->
  exists bl, Forall2 (fun c b => fill_from_samples ch (decode_bytes en (N.to_nat n) c) = Ok b) chunks bl /\
             reach o L p rate bps e bl e'.
Proof.
  intros Hn. induction chunks as [|c r IH]; intros e e' Hm Hb H; cbn [fold_res] in H.
  - injection H as <-. exists []. split; [constructor|apply reach_refl].
  - apply Forall_cons_iff in Hm. destruct Hm as [[m Hm] Hmr]. apply Forall_cons_iff in Hb. destruct Hb as [Hbc Hbr].
    apply bind_ok in H. destruct H as (e1 & H1 & H2).
    rewrite (byte_chunk_as_samples en ch n e c m Hn Hm Hbc) in H1.
    destruct (chunk_reach_block o L p rate bps _ _ _ _ _ H1) as (b & Hfb & Hrb).
    destruct (IH _ _ Hmr Hbr H2) as (bl & Hf2 & Hbl).
    exists (b :: bl). split; [constructor; assumption|]. change (b :: bl) with ([b] ++ bl). eapply reach_trans; eauto.
Qed.

Theorem e2e_byte_pcm en wo ch total w chunks f :
  options_wf wo ->
  byte_new p en [] wo rate bps ch total = Ok w ->
  byte_run (encB o L rate bps) md5 p w chunks = Ok f ->
  Forall byte_ok (concat chunks) ->
  let n := N.to_nat (bytes_per_sample_of bps) in
  let samples := decode_bytes en n (concat chunks) in
  forallb (FlacCodec.Wf.fits bps) samples = true ->
  N.of_nat (length samples) < 2 ^ 36 ->
  exists blocks,
    CS.dec_stream (f_stream f) = Some (conv_si (f_si f), map CS.interleave_frame blocks, CS.EndEof) /\
    concat (map CS.interleave_frame blocks) = firstn (N.to_nat ch * (length samples / N.to_nat ch)) samples /\
    (* the blocks themselves, for the readers area *)
    Forall (EP.block_ok (conv_si (f_si f)) bps) blocks /\ EP.short_only_last (conv_si (f_si f)) blocks /\
    FlacCodec.Ast.si_total (conv_si (f_si f)) = EP.blocks_samples blocks /\
    FlacCodec.Ast.si_channels (conv_si (f_si f)) = ch /\ EP.blocks_samples blocks < 2 ^ 36 /\
    (* C02: the strict stream validator accepts the finished file and yields the same blocks *)
    FlacCodec.Spec.spec_stream (f_stream f) = Ok (conv_si (f_si f), blocks).
Proof.
  intros Hwf Hnew Hrun Hbytes n samples Hfits Hlen36.
  pose proof (byte_new_wf p en [] wo rate bps ch total w Hwf Hnew) as Hbw.
  rewrite (byte_chunking (encB o L rate bps) md5 p w chunks Hbw) in Hrun.
  set (all := concat chunks) in *.
  destruct Hwf as ((Hbs16 & Hbs64k) & _).
  unfold byte_new in Hnew. apply bind_ok in Hnew. destruct Hnew as (bps' & Hbps' & Hnew).
  apply bind_ok in Hnew. destruct Hnew as (t & Ht & Hnew). apply bind_ok in Hnew. destruct Hnew as (e0 & He0 & Hnew).
  injection Hnew as <-.
  assert (Eb : bps' = bps /\ 1 <= bps /\ bps <= 32).
  { unfold signed_bit_count_32 in Hbps'. destruct ((1 <=? bps) && (bps <=? 32)) eqn:Eq; [|discriminate]. injection Hbps' as <-.
    apply andb_prop in Eq. destruct Eq as [A B]. apply N.leb_le in A, B. auto. }
  destruct Eb as (-> & Hb1 & Hb32).
  assert (Hch : 1 <= ch /\ ch <= 8).
  { unfold encoder_new in He0. apply bind_ok in He0. destruct He0 as ([] & Hv & _). unfold encoder_new_validate in Hv.
    destruct (rate <? 1048576); [|discriminate]. destruct ((1 <=? ch) && (ch <=? 8)) eqn:Eq; [|discriminate].
    apply andb_prop in Eq. destruct Eq as [A B]. apply N.leb_le in A, B. auto. }
  destruct Hch as [Hc1 Hc8].
  set (bs := o_block_size wo) in *. set (nb := bytes_per_sample_of bps) in *.
  assert (Hnb : 1 <= nb <= 4).
  { unfold nb, bytes_per_sample_of. split; [apply N.div_le_lower_bound; lia|]. apply N.lt_succ_r. apply N.div_lt_upper_bound; lia. }
  assert (Hn : (1 <= n <= 4)%nat) by (unfold n; lia).
  destruct (encoder_new_fresh p rate bps wo ch t e0 He0) as (P0 & F0 & K0 & W0 & Sr & Sb & Sc & Smax & Smin & St).
  (* one write of everything, then finalize *)
  unfold byte_run in Hrun. cbn [fold_res] in Hrun. apply bind_ok in Hrun. destruct Hrun as (w1 & Hw1 & Hfin).
  apply bind_ok in Hw1. destruct Hw1 as (w1' & Hw1 & Hw1'). injection Hw1' as <-.
  unfold byte_write in Hw1. cbn [bw_buf bw_frame_byte_size bw_enc bw_endian bw_channels bw_bytes_per_sample bw_pcm_frame_size app] in Hw1.
  destruct (N.eqb_spec (nb * ch * bs) 0) as [|Hk0]; [nia|].
  set (k := N.to_nat (nb * ch * bs)) in *.
  assert (Hk : (0 < k)%nat) by (unfold k; lia).
  destruct (drain k all) as [cs rest] eqn:Ed.
  apply bind_ok in Hw1. destruct Hw1 as (e1 & He1 & Hw1). injection Hw1 as <-.
  pose proof (drain_spec k Hk all cs rest Ed) as (Eall & Fcs & Lrest).
  set (c := N.to_nat ch) in *. set (b := N.to_nat bs) in *.
  assert (Hkk : k = (n * (c * b))%nat) by (unfold k, n, c, b, nb; rewrite !N2Nat.inj_mul; lia).
  assert (Hc : (1 <= c <= 8)%nat) by (unfold c; lia). assert (Hb : (16 <= b)%nat /\ N.of_nat b < 65536) by (unfold b; lia).
  assert (Hbyte_sub : forall x, (exists a z, all = a ++ x ++ z) -> Forall byte_ok x).
  { intros x (a & z & E). rewrite E in Hbytes. apply Forall_app in Hbytes. destruct Hbytes as [_ H]. apply Forall_app in H. tauto. }
  assert (Hcs_in : forall x, In x cs -> exists a z, all = a ++ x ++ z).
  { intros x Hx. apply in_split in Hx. destruct Hx as (l1 & l2 & ->). exists (concat l1), (concat l2 ++ rest).
    rewrite Eall, concat_app. cbn [concat]. rewrite <- !app_assoc. reflexivity. }
  destruct (byte_chunks_reach en ch nb Hnb cs e0 e1) as (bl1 & Hf1 & Hr1); [| |exact He1|].
  { apply Forall_forall. intros x Hx. rewrite Forall_forall in Fcs. exists (ch * bs). rewrite (Fcs _ Hx). unfold k. lia. }
  { apply Forall_forall. intros x Hx. apply Hbyte_sub. apply Hcs_in. exact Hx. }
  (* the final partial block *)
  unfold byte_finalize in Hfin. cbn [bw_buf bw_pcm_frame_size bw_endian bw_channels bw_bytes_per_sample bw_enc] in Hfin.
  apply bind_ok in Hfin. destruct Hfin as (e2 & He2 & Hfin).
  set (len := N.of_nat (length rest)) in *. set (pf := nb * ch) in *.
  set (whole := firstn (N.to_nat (len - len mod pf)) rest) in *.
  assert (Hpf : N.to_nat pf = (n * c)%nat) by (unfold pf, n, c, nb; rewrite N2Nat.inj_mul; reflexivity).
  assert (Hpf0 : pf <> 0) by (unfold pf; nia).
  assert (Ew : N.to_nat (len - len mod pf) = (n * c * (length rest / (n * c)))%nat).
  { pose proof (N.div_mod len pf Hpf0) as D.
    assert (E : len - len mod pf = pf * (len / pf)).
    { set (dq := len / pf) in *. set (dm := len mod pf) in *. clearbody dq dm. lia. }
    rewrite E.
    rewrite N2Nat.inj_mul, N2Nat.inj_div, Hpf. unfold len. rewrite Nat2N.id. reflexivity. }
  set (q := (length rest / (n * c))%nat) in *.
  assert (Lw : length whole = (n * c * q)%nat).
  { unfold whole. rewrite firstn_length, Ew. pose proof (Nat.mul_div_le (length rest) (n * c) ltac:(nia)). fold q in H. lia. }
  assert (Hq2 : (q < b)%nat) by (unfold q; apply Nat.div_lt_upper_bound; [nia|rewrite Hkk in Lrest; nia]).
  assert (Hlast : exists wholes lastbl,
             Forall2 (fun x bk => fill_from_samples ch (decode_bytes en n x) = Ok bk) wholes lastbl /\
             reach o L p rate bps e1 lastbl e2 /\ wholes = (if pf <=? len then [whole] else []) /\ (length lastbl <= 1)%nat).
  { destruct (pf <=? len) eqn:Ecl.
    - destruct (pf =? 0); [discriminate|].
      rewrite (byte_chunk_as_samples en ch nb e1 whole (ch * N.of_nat q) Hnb) in He2.
      + destruct (chunk_reach_block o L p rate bps _ _ _ _ _ He2) as (bk & Hfb & Hrb).
        exists [whole], [bk]. split; [repeat constructor; exact Hfb|]. split; [exact Hrb|]. split; [reflexivity|cbn; lia].
      + rewrite Lw. unfold n, c. lia.
      + apply Hbyte_sub. exists (concat cs), (skipn (N.to_nat (len - len mod pf)) rest). unfold whole. rewrite firstn_skipn. exact Eall.
    - injection He2 as <-. exists (@nil (list N)), (@nil block). split; [constructor|]. split; [apply reach_refl|]. split; [reflexivity|cbn; lia]. }
  destruct Hlast as (wholes & lastbl & Hf2 & Hr2 & Ewh & Llast).
  pose proof (reach_trans o L p rate bps _ _ _ _ _ Hr1 Hr2) as Hr.
  destruct (finalize_si md5 p e2 f Hfin) as (Ef & Fr & Fc & Fb & Fmax & Fmin).
  destruct (reach_inv o L md5 md5_length p rate bps e0 _ e2 Hr) as (_ & R1 & R2 & R3 & R4 & R5 & _).
  set (si := conv_si (f_si f)).
  assert (Ssb : FlacCodec.Ast.si_bps si = bps) by (unfold si, conv_si; cbn [FlacCodec.Ast.si_bps]; rewrite Fb, R3, Sb; reflexivity).
  assert (Ssc : FlacCodec.Ast.si_channels si = ch) by (unfold si, conv_si; cbn [FlacCodec.Ast.si_channels]; rewrite Fc, R2, Sc; reflexivity).
  assert (Ssm : FlacCodec.Ast.si_max_bs si = bs) by (unfold si, conv_si; cbn [FlacCodec.Ast.si_max_bs]; rewrite Fmax, R5, Smax; reflexivity).
  (* samples = decoded full chunks ++ decoded whole tail ++ decoded leftover *)
  assert (Lcs : length (concat cs) = (k * length cs)%nat).
  { clear - Fcs. induction Fcs as [|x l Hx _ IH]; cbn [concat length]; [lia|]. rewrite app_length, IH, Hx. lia. }
  assert (Dcs : decode_bytes en n (concat cs) = concat (map (decode_bytes en n) cs)).
  { clear - Fcs Hkk Hn. induction Fcs as [|x l Hx _ IH]; cbn [concat map]; [reflexivity|].
    rewrite (decode_bytes_app en n x (concat l) (c * b)) by (lia || (rewrite Hx; lia)). rewrite IH. reflexivity. }
  assert (Erest : rest = whole ++ skipn (N.to_nat (len - len mod pf)) rest) by (unfold whole; symmetry; apply firstn_skipn).
  set (left := skipn (N.to_nat (len - len mod pf)) rest) in *.
  assert (Lleft : (length left < n * c)%nat).
  { unfold left. rewrite skipn_length, Ew. fold q. pose proof (Nat.div_mod (length rest) (n * c) ltac:(nia)) as D. fold q in D.
    pose proof (Nat.mod_upper_bound (length rest) (n * c) ltac:(nia)). lia. }
  assert (Esamples : samples = concat (map (decode_bytes en n) cs) ++ decode_bytes en n whole ++ decode_bytes en n left).
  { unfold samples. rewrite Eall, Erest.
    rewrite (decode_bytes_app en n (concat cs) (whole ++ left) (c * b * length cs)) by (lia || (rewrite Lcs, Hkk; lia)).
    rewrite (decode_bytes_app en n whole left (c * q)) by (lia || (rewrite Lw; lia)). rewrite Dcs. reflexivity. }
  assert (Ldw : length (decode_bytes en n whole) = (c * q)%nat).
  { rewrite decode_bytes_length, Lw by lia. replace (n * c * q)%nat with (c * q * n)%nat by lia. apply Nat.div_mul. lia. }
  assert (Ldl : (length (decode_bytes en n left) < c)%nat).
  { rewrite decode_bytes_length by lia. apply Nat.div_lt_upper_bound; lia. }
  assert (Hfit_sub : forall x, (exists a z, samples = a ++ x ++ z) -> forallb (FlacCodec.Wf.fits bps) x = true).
  { intros x (a & z & E). apply forallb_forall. intros y Hy. rewrite forallb_forall in Hfits. apply Hfits. rewrite E.
    apply in_or_app. right. apply in_or_app. left. exact Hy. }
  (* chunk conditions on the decoded samples *)
  assert (Hcs : Forall (chunk_cond bps ch bs) (map (decode_bytes en n) cs)).
  { apply Forall_forall. intros x Hx. apply in_map_iff in Hx. destruct Hx as (y & <- & Hy). exists b.
    split; [lia|]. split; [unfold b; lia|]. split.
    - rewrite decode_bytes_length by lia. rewrite Forall_forall in Fcs. rewrite (Fcs _ Hy), Hkk. fold c.
      replace (n * (c * b))%nat with (c * b * n)%nat by lia. apply Nat.div_mul. lia.
    - apply Hfit_sub. apply in_split in Hy. destruct Hy as (l1 & l2 & ->).
      exists (concat (map (decode_bytes en n) l1)), (concat (map (decode_bytes en n) l2) ++ decode_bytes en n whole ++ decode_bytes en n left).
      rewrite Esamples, map_app, concat_app. cbn [map concat]. rewrite <- !app_assoc. reflexivity. }
  assert (Hwh : Forall (chunk_cond bps ch bs) (map (decode_bytes en n) wholes) /\
                concat (map (decode_bytes en n) wholes) = (if pf <=? len then decode_bytes en n whole else [])).
  { rewrite Ewh. destruct (N.leb_spec pf len) as [Hle|Hgt]; cbn [map concat]; [|split; [constructor|reflexivity]].
    rewrite app_nil_r. split; [|reflexivity]. constructor; [|constructor]. exists q.
    assert (Hq1 : (1 <= q)%nat) by (unfold q; apply Nat.div_le_lower_bound; [nia|unfold len, pf in Hle; lia]).
    split; [exact Hq1|]. split; [unfold b in Hq2; lia|]. split; [fold c; exact Ldw|].
    apply Hfit_sub. exists (concat (map (decode_bytes en n) cs)), (decode_bytes en n left). rewrite Esamples. reflexivity. }
  destruct Hwh as [Hwh Hwc].
  assert (Hf12 : Forall2 (fun x bk => fill_from_samples ch x = Ok bk) (map (decode_bytes en n) cs ++ map (decode_bytes en n) wholes) (bl1 ++ lastbl)).
  { apply Forall2_app.
    - clear - Hf1. induction Hf1; constructor; auto.
    - clear - Hf2. induction Hf2; constructor; auto. }
  destruct (chunks_blocks_ok bps si ch bs Hc1 Hc8 Hb1 Hb32 ltac:(lia) Ssb Ssc Ssm _ _ Hf12 ltac:(apply Forall_app; split; assumption))
    as (Hok & Hcat & Hsum & Hcount & Hlens).
  assert (Hwq : (if pf <=? len then decode_bytes en n whole else []) = decode_bytes en n whole).
  { destruct (N.leb_spec pf len); [reflexivity|]. symmetry. apply length_zero_iff_nil. rewrite Ldw.
    assert (q = 0)%nat by (unfold q; apply Nat.div_small; unfold len, pf in *; lia). lia. }
  rewrite concat_app, Hwc, Hwq in Hcat, Hsum.
  assert (Hsub : (length (concat (map (decode_bytes en n) cs) ++ decode_bytes en n whole) <= length samples)%nat).
  { rewrite Esamples, !app_length. lia. }
  assert (H3664 : 2 ^ 36 < 2 ^ 64) by (apply N.pow_lt_mono_r; lia).
  assert (Hfullbl : Forall (fun bk => FlacCodec.Enc.block_len bk = bs) bl1).
  { destruct (chunks_blocks_ok bps si ch bs Hc1 Hc8 Hb1 Hb32 ltac:(lia) Ssb Ssc Ssm (map (decode_bytes en n) cs) bl1) as (_ & _ & _ & _ & Hl1).
    { clear - Hf1. induction Hf1; constructor; auto. } { exact Hcs. }
    assert (Fl : Forall (fun x => length x = (c * b)%nat) (map (decode_bytes en n) cs)).
    { apply Forall_forall. intros x Hx. rewrite Forall_forall in Hcs. destruct (Hcs x Hx) as (m & _ & _ & Hl & _).
      apply in_map_iff in Hx. destruct Hx as (y & <- & Hy). rewrite decode_bytes_length by lia. rewrite Forall_forall in Fcs.
      rewrite (Fcs _ Hy), Hkk. replace (n * (c * b))%nat with (c * b * n)%nat by lia. apply Nat.div_mul. lia. }
    clear - Hl1 Fl Hb Hc. induction Hl1 as [|x bk cl bl Hcb _ IH]; constructor.
    * apply Forall_cons_iff in Fl. destruct Fl as [Lx _]. rewrite Lx in Hcb. fold c in Hcb.
      assert (N.to_nat (FlacCodec.Enc.block_len bk) = b) by nia. unfold b in *. lia.
    * apply IH. apply Forall_cons_iff in Fl. tauto. }
  assert (Hshape : EP.short_only_last si (bl1 ++ lastbl)).
  { apply short_only_last_app; [|exact Llast]. eapply Forall_impl; [|exact Hfullbl]. intros bk Hbk. cbn beta in Hbk. rewrite Hbk. lia. }
  assert (Hfull : FlacCodec.File.full_but_last si (bl1 ++ lastbl)).
  { apply full_but_last_app; [|exact Llast]. rewrite Ssm. exact Hfullbl. }
  destruct (e2e_encoder o L md5 md5_length p rate bps wo ch t e0 (bl1 ++ lastbl) e2 f He0 Hr Hfin Hok Hshape) as [Hdec Htot].
  { (* at most one block per sample *)
    assert (Hcnt : (length (bl1 ++ lastbl) <= length (concat (map (decode_bytes en n) cs ++ map (decode_bytes en n) wholes)))%nat).
    { rewrite Hcount. assert (F : Forall (chunk_cond bps ch bs) (map (decode_bytes en n) cs ++ map (decode_bytes en n) wholes)) by (apply Forall_app; split; assumption).
      clear - F Hc. induction F as [|x l (m & Hm & _ & Hl & _) _ IH]; cbn [concat length]; [lia|]. rewrite app_length. fold c in Hl. nia. }
    rewrite concat_app, Hwc, Hwq in Hcnt.
    unfold FlacCodec.Header.MAX_FRAME_NUMBER. change (2 ^ 36 - 1 + 1) with (2 ^ 36). lia. }
  { lia. }
  assert (Hspec : FlacCodec.Spec.spec_stream (f_stream f) = Ok (si, bl1 ++ lastbl)).
  { apply (e2e_encoder_spec o L md5 md5_length p rate bps wo ch t e0 (bl1 ++ lastbl) e2 f He0 Hr Hfin Hok Hfull).
    - unfold FlacCodec.Header.MAX_FRAME_NUMBER. change (2 ^ 36 - 1 + 1) with (2 ^ 36).
      assert (Hcnt : (length (bl1 ++ lastbl) <= length (concat (map (decode_bytes en n) cs ++ map (decode_bytes en n) wholes)))%nat).
      { rewrite Hcount. assert (F : Forall (chunk_cond bps ch bs) (map (decode_bytes en n) cs ++ map (decode_bytes en n) wholes)) by (apply Forall_app; split; assumption).
        clear - F Hc. induction F as [|x l (m & Hm & _ & Hl & _) _ IH]; cbn [concat length]; [lia|]. rewrite app_length. fold c in Hl. nia. }
      rewrite concat_app, Hwc, Hwq in Hcnt. lia.
    - lia.
    - fold bs. lia. }
  exists (bl1 ++ lastbl). split; [exact Hdec|].
  split; [|split; [exact Hok|split; [exact Hshape|split; [exact Htot|split; [exact Ssc|split; [lia|exact Hspec]]]]]].
  rewrite Hcat.
  (* the whole PCM frames of all samples *)
  rewrite Esamples, app_assoc.
  set (A := concat (map (decode_bytes en n) cs) ++ decode_bytes en n whole).
  assert (LA : length A = (c * (b * length cs + q))%nat).
  { unfold A. rewrite app_length, Ldw. rewrite <- Dcs, decode_bytes_length, Lcs, Hkk by lia.
    replace (n * (c * b) * length cs)%nat with (c * b * length cs * n)%nat by lia. rewrite Nat.div_mul by lia. lia. }
  rewrite (firstn_whole c (b * length cs + q) A (decode_bytes en n left)) by (lia || exact LA).
  rewrite (Nat.div_small (length (decode_bytes en n left)) c) by exact Ldl. rewrite Nat.mul_0_r. cbn [firstn]. rewrite app_nil_r. reflexivity.
Qed.

End ByteE2E.
