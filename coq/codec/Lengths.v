(* Codec/Lengths.v — C17: every well-formed subframe expands to exactly block-size samples
   (and a decoded frame therefore has assign_channels x block_size samples: C04's size bound). *)
From FlacCodec Require Import Struct Dec Wf Roundtrip_sub Agree_layout Agree_arith.
Open Scope N_scope.

Lemma predict_z_length coeffs shift : forall todo done_rev,
  length (predict_z coeffs shift done_rev todo) = (length done_rev + length todo)%nat.
Proof.
  induction todo as [|r rest IH]; intros l; cbn [predict_z length].
  - rewrite rev_length. lia.
  - rewrite IH. cbn [length]. lia.
Qed.

Lemma flat_map_length_sum {A B} (f : A -> list B) l :
  length (flat_map f l) = fold_right (fun a s => (length (f a) + s)%nat) 0%nat l.
Proof. induction l as [|a l IH]; cbn [flat_map fold_right]; auto. rewrite app_length, IH. reflexivity. Qed.

Lemma sum_repeat k c : fold_right (fun a s => (a + s)%nat) 0%nat (repeat k c) = (k * c)%nat.
Proof. induction c as [|c IH]; cbn [repeat fold_right]; [lia|]. rewrite IH. lia. Qed.

Lemma residual_values_length bs order r : wf_residual bs order r = true ->
  length (residual_values r) = (N.to_nat bs - N.to_nat order)%nat /\ (N.to_nat order <= N.to_nat bs)%nat.
Proof.
  unfold wf_residual. intros H.
  apply andb_prop in H. destruct H as [H _]. apply andb_prop in H. destruct H as [H Hlens].
  apply andb_prop in H. destruct H as [_ Hdiv]. apply N.eqb_eq in Hdiv.
  apply lens_eqb_spec in Hlens.
  set (po := N.log2 (N.of_nat (length (r_parts r)))) in *.
  (* order < size is enforced by the structural lengths themselves *)
  assert (Hord : order < bs / 2 ^ po).
  { unfold struct_part_lens in Hlens.
    assert (Hc : (1 <= N.to_nat (2 ^ po))%nat).
    { assert (2 ^ po <> 0) by (apply N.pow_nonzero; discriminate). lia. }
    destruct (N.to_nat (2 ^ po)) as [|c]; [lia|]. cbn [seq map] in Hlens. rewrite Nat.eqb_refl in Hlens.
    destruct (N.ltb_spec order (bs / 2 ^ po)) as [Hlt|Hge]; [exact Hlt|].
    exfalso. destruct (map part_len (r_parts r)) as [|x l]; cbn [map] in Hlens; discriminate Hlens. }
  destruct (layout_agree bs order po _ Hdiv Hord Hlens) as (L1 & L2 & L3). cbv zeta in L1, L2, L3.
  unfold residual_values. rewrite flat_map_length_sum.
  assert (Esum : fold_right (fun a s => (length (part_residuals a) + s)%nat) 0%nat (r_parts r)
               = fold_right (fun a s => (a + s)%nat) 0%nat (map part_len (r_parts r))).
  { clear. induction (r_parts r) as [|p l IH]; cbn [map fold_right]; [reflexivity|]. rewrite IH. reflexivity. }
  rewrite Esum, <- L2.
  (* sum of rchunk_lens len k = len *)
  assert (Hk : (N.to_nat order < N.to_nat bs / 2 ^ N.to_nat po)%nat).
  { assert (E : N.to_nat (bs / 2 ^ po) = (N.to_nat bs / 2 ^ N.to_nat po)%nat).
    { rewrite N2Nat.inj_div, N2Nat.inj_pow. reflexivity. }
    lia. }
  set (k := (N.to_nat bs / 2 ^ N.to_nat po)%nat) in *.
  assert (Hle : (N.to_nat order <= N.to_nat bs)%nat).
  { assert (k <= N.to_nat bs)%nat; [|lia]. unfold k. apply Nat.div_le_upper_bound.
    - apply Nat.pow_nonzero. lia.
    - pose proof (Nat.pow_nonzero 2 (N.to_nat po) ltac:(lia)).
      assert (1 <= 2 ^ N.to_nat po)%nat by lia. nia. }
  split; [|exact Hle].
  unfold rchunk_lens. set (len := (N.to_nat bs - N.to_nat order)%nat).
  rewrite fold_right_app, sum_repeat.
  pose proof (Nat.div_mod len k ltac:(lia)) as D.
  destruct (Nat.eqb_spec (len mod k) 0) as [E0|N0]; cbn [fold_right]; lia.
Qed.

Theorem sem_subframe_length bs bps sf : wf_subframe bs bps sf = true ->
  length (sem_subframe bs sf) = N.to_nat bs.
Proof.
  unfold wf_subframe, sem_subframe. intros H. rewrite map_length.
  apply andb_prop in H. destruct H as [_ Hbody].
  destruct (sf_body sf) as [v|xs|o warm r|o warm prec shift coefs r]; cbn [wf_body sem_body] in *.
  - apply repeat_length.
  - apply andb_prop in Hbody. destruct Hbody as [HL _]. apply Nat.eqb_eq in HL. exact HL.
  - apply andb_prop in Hbody. destruct Hbody as [Hbody Hres].
    apply andb_prop in Hbody. destruct Hbody as [Hbody _].
    apply andb_prop in Hbody. destruct Hbody as [_ HL]. apply Nat.eqb_eq in HL.
    rewrite predict_z_length, rev_length, HL.
    destruct (residual_values_length _ _ _ Hres) as [-> Hle]. lia.
  - repeat (apply andb_prop in Hbody; destruct Hbody as [Hbody ?]).
    match goal with Hr : wf_residual _ _ _ = true |- _ => destruct (residual_values_length _ _ _ Hr) as [E Hle] end.
    match goal with HL : (length warm =? N.to_nat o)%nat = true |- _ => apply Nat.eqb_eq in HL; rewrite predict_z_length, rev_length, HL, E end.
    lia.
Qed.
