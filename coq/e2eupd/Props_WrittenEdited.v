(* Properties C01 + C10 composed — statement only (proof: WrittenEdited.v).  Hypotheses are about the options,
   the data handed to the writer and the edits; nothing is assumed about the file. *)
From FlacBase Require Import Res Bits.
From FlacMeta Require Import Bytes Bytes_proofs Blocks BlockList Blocks_proofs Blocks_level BlockList_proofs.
From FlacUpdIo Require GenUpd Update Update_proofs Update_cond.
From FlacCodec Require Ast Stream Spec Wf.
From FlacWriters Require Import Params Params_proofs Finalize Writers Encoder_proofs C09_proofs.
From FlacE2E Require Bridge E2E Success.
From FlacE2EMeta Require Import MetaBridge FinishedBlocks.
From FlacE2EUpd Require Import RealCodec CodecView UpdateE2E WrittenEdited.
Open Scope N_scope.

Theorem C10_written_then_edited_lossless : forall (u : list N -> bool),
  (forall s, Forall (fun b => b < 128) s -> u s = true) ->
  forall o L md5, (forall l, length (md5 l) = 16%nat) -> (forall l, Forall (fun b => b < 256) (md5 l)) ->
  forall p rate bps ch, rate < 2 ^ 20 -> 1 <= bps -> bps <= 32 -> 1 <= ch -> ch <= 8 ->
  forall wo total w chunks,
  options_wf wo -> Forall plain (o_metadata wo) -> seektables (o_metadata wo) = 0%nat ->
  sample_new p [] wo rate bps ch total = Ok w ->
  forallb (FlacCodec.Wf.fits bps) (concat chunks) = true ->
  let W := N.of_nat (length (concat chunks)) / ch in
  1 <= W -> N.of_nat (length (concat chunks)) < 2 ^ 36 ->
  match total with Some T => T = ch * W | None => True end ->
  exists f blocks,
    sample_run (FlacE2E.E2E.encB o L rate bps) md5 p w chunks = Ok f /\
    concat (map FlacCodec.Stream.interleave_frame blocks) =
      firstn (N.to_nat ch * (length (concat chunks) / N.to_nat ch)) (concat chunks) /\
    forall edits fn rs,
      Forall (typed_edit u) edits -> Forall (U.keeps_streaminfo FlacMeta.Blocks.block) edits ->
      U.run_edits FlacMeta.Blocks.block psize_r ser_r uclass_r (read_blocks_r u) edits (f_stream f) = (fn, rs) ->
      FlacCodec.Stream.dec_stream fn =
        Some (FlacE2E.Bridge.conv_si (f_si f), map FlacCodec.Stream.interleave_frame blocks, FlacCodec.Stream.EndEof) /\
      FlacCodec.Spec.spec_stream fn = FlacCodec.Spec.spec_stream (f_stream f) /\
      exists meta_n, fn = meta_n ++ frames_bytes (f_enc f).
Proof. exact written_then_edited. Qed.

Print Assumptions C10_written_then_edited_lossless.
