//! Field-level view of a frame: `fields_of_frame` flattens a `stream::Frame` into the list of
//! bit fields the format defines (own tables, independent of the crate's writer);
//! `serialise` turns a (possibly mutated) field list back into bytes, recomputing CRC-8 and
//! CRC-16 with the crate's own CRC code (`verif_hooks`) so that mutated frames pass the
//! checksum gates and reach the parsers.  Used by C04 (a), C17 and the C03 self-check.
use flac_codec::stream::{BitsPerSample, BlockSize, ChannelAssignment, Frame, ResidualPartition, Residuals, SampleRate, Subframe, SubframeWidth};
use flac_codec::verif_hooks::{crc16, crc8};
use vharness::Rng;

#[derive(Clone, Debug, PartialEq)]
pub enum FKind {
    /// `n` bits, value in the low bits
    Bits(u32),
    /// `count` zero bits followed by a one bit
    Unary,
    /// CRC-8 of everything before (must be byte aligned)
    Crc8,
    /// zero bits up to the next byte boundary
    Pad,
    /// CRC-16 of everything before
    Crc16,
}

#[derive(Clone, Debug)]
pub struct Field {
    pub name: String,
    pub kind: FKind,
    pub value: u64,
    /// structural fields (codes, orders, widths) as opposed to bulk sample data
    pub structural: bool,
}

fn f(name: &str, n: u32, value: u64, structural: bool) -> Field {
    let v = if n >= 64 { value } else { value & ((1u64 << n) - 1) };
    Field { name: name.to_string(), kind: FKind::Bits(n), value: v, structural }
}

fn number_bytes(v: u64) -> Vec<u8> {
    let cont = |k: u32| -> u8 { 0x80 | ((v >> (6 * k)) & 0x3F) as u8 };
    match v {
        0..=0x7F => vec![v as u8],
        0x80..=0x7FF => vec![0xC0 | (v >> 6) as u8, cont(0)],
        0x800..=0xFFFF => vec![0xE0 | (v >> 12) as u8, cont(1), cont(0)],
        0x1_0000..=0x1F_FFFF => vec![0xF0 | (v >> 18) as u8, cont(2), cont(1), cont(0)],
        0x20_0000..=0x3FF_FFFF => vec![0xF8 | (v >> 24) as u8, cont(3), cont(2), cont(1), cont(0)],
        0x400_0000..=0x7FFF_FFFF => vec![0xFC | (v >> 30) as u8, cont(4), cont(3), cont(2), cont(1), cont(0)],
        _ => vec![0xFE, cont(5), cont(4), cont(3), cont(2), cont(1), cont(0)],
    }
}

fn zigzag(r: i64) -> u64 {
    if r >= 0 { (r as u64) << 1 } else { (((-(r as i128)) as u64).wrapping_sub(1) << 1) + 1 }
}

fn parts_fields<const M: u32, I: Copy + Into<i64>>(out: &mut Vec<Field>, pre: &str, parts: &[ResidualPartition<M, I>], pbits: u32) {
    for (pi, p) in parts.iter().enumerate() {
        match p {
            ResidualPartition::Standard { rice, residuals } => {
                let k: u32 = (*rice).into();
                out.push(f(&format!("{}.p{}.param", pre, pi), pbits, k as u64, true));
                for (ri, r) in residuals.iter().enumerate() {
                    let u = zigzag((*r).into());
                    out.push(Field { name: format!("{}.p{}.r{}.q", pre, pi, ri), kind: FKind::Unary, value: u >> k, structural: false });
                    if k > 0 { out.push(f(&format!("{}.p{}.r{}.lsb", pre, pi, ri), k, u, false)); }
                }
            }
            ResidualPartition::Escaped { escape_size, residuals } => {
                let w: u32 = (*escape_size).into();
                out.push(f(&format!("{}.p{}.param", pre, pi), pbits, (1u64 << pbits) - 1, true));
                out.push(f(&format!("{}.p{}.escw", pre, pi), 5, w as u64, true));
                for (ri, r) in residuals.iter().enumerate() {
                    let v: i64 = (*r).into();
                    out.push(f(&format!("{}.p{}.e{}", pre, pi, ri), w, v as u64, false));
                }
            }
            ResidualPartition::Constant { .. } => {
                out.push(f(&format!("{}.p{}.param", pre, pi), pbits, (1u64 << pbits) - 1, true));
                out.push(f(&format!("{}.p{}.escw", pre, pi), 5, 0, true));
            }
        }
    }
}

fn residual_fields<I: Copy + Into<i64>>(out: &mut Vec<Field>, pre: &str, r: &Residuals<I>) {
    match r {
        Residuals::Method0 { partitions } => {
            out.push(f(&format!("{}.method", pre), 2, 0, true));
            out.push(f(&format!("{}.po", pre), 4, partitions.len().max(1).ilog2() as u64, true));
            parts_fields(out, pre, partitions, 4);
        }
        Residuals::Method1 { partitions } => {
            out.push(f(&format!("{}.method", pre), 2, 1, true));
            out.push(f(&format!("{}.po", pre), 4, partitions.len().max(1).ilog2() as u64, true));
            parts_fields(out, pre, partitions, 5);
        }
    }
}

fn sub_fields<I: Copy + Into<i64>>(out: &mut Vec<Field>, idx: usize, s: &Subframe<I>, depth: u32) {
    let pre = format!("sub{}", idx);
    let (code, wasted): (u64, u32) = match s {
        Subframe::Constant { wasted_bps, .. } => (0, *wasted_bps),
        Subframe::Verbatim { wasted_bps, .. } => (1, *wasted_bps),
        Subframe::Fixed { order, wasted_bps, .. } => (8 + *order as u64, *wasted_bps),
        Subframe::Lpc { order, wasted_bps, .. } => (31 + order.get() as u64, *wasted_bps),
    };
    out.push(f(&format!("{}.pad", pre), 1, 0, true));
    out.push(f(&format!("{}.type", pre), 6, code, true));
    out.push(f(&format!("{}.wflag", pre), 1, (wasted > 0) as u64, true));
    if wasted > 0 { out.push(Field { name: format!("{}.wunary", pre), kind: FKind::Unary, value: (wasted - 1) as u64, structural: true }); }
    let d = depth.saturating_sub(wasted).max(1);
    match s {
        Subframe::Constant { sample, .. } => { let v: i64 = (*sample).into(); out.push(f(&format!("{}.const", pre), d, v as u64, false)); }
        Subframe::Verbatim { samples, .. } => { for (i, v) in samples.iter().enumerate() { let v: i64 = (*v).into(); out.push(f(&format!("{}.v{}", pre, i), d, v as u64, false)); } }
        Subframe::Fixed { warm_up, residuals, .. } => {
            for (i, v) in warm_up.iter().enumerate() { let v: i64 = (*v).into(); out.push(f(&format!("{}.warm{}", pre, i), d, v as u64, false)); }
            residual_fields(out, &pre, residuals);
        }
        Subframe::Lpc { warm_up, precision, shift, coefficients, residuals, .. } => {
            for (i, v) in warm_up.iter().enumerate() { let v: i64 = (*v).into(); out.push(f(&format!("{}.warm{}", pre, i), d, v as u64, false)); }
            let p: u32 = (*precision).into();
            out.push(f(&format!("{}.prec", pre), 4, (p - 1) as u64, true));
            out.push(f(&format!("{}.shift", pre), 5, *shift as u64, true));
            for (i, c) in coefficients.iter().enumerate() { out.push(f(&format!("{}.coef{}", pre, i), p, *c as i64 as u64, true)); }
            residual_fields(out, &pre, residuals);
        }
    }
}

pub fn fields_of_frame(fr: &Frame) -> Vec<Field> {
    let h = &fr.header;
    let mut out = vec![];
    out.push(f("hdr.sync", 14, 0b11111111111110, true));
    out.push(f("hdr.reserved1", 1, 0, true));
    out.push(f("hdr.strategy", 1, h.blocking_strategy as u64, true));
    let (bs_code, bs_extra): (u64, Option<(u32, u64)>) = match h.block_size {
        BlockSize::Samples192 => (1, None), BlockSize::Samples576 => (2, None), BlockSize::Samples1152 => (3, None), BlockSize::Samples2304 => (4, None),
        BlockSize::Samples4608 => (5, None), BlockSize::Uncommon8(n) => (6, Some((8, n as u64 - 1))), BlockSize::Uncommon16(n) => (7, Some((16, n as u64 - 1))),
        BlockSize::Samples256 => (8, None), BlockSize::Samples512 => (9, None), BlockSize::Samples1024 => (10, None), BlockSize::Samples2048 => (11, None),
        BlockSize::Samples4096 => (12, None), BlockSize::Samples8192 => (13, None), BlockSize::Samples16384 => (14, None), BlockSize::Samples32768 => (15, None),
    };
    out.push(f("hdr.bs_code", 4, bs_code, true));
    let (rate_code, rate_extra): (u64, Option<(u32, u64)>) = match h.sample_rate {
        SampleRate::Streaminfo(_) => (0, None), SampleRate::Hz88200 => (1, None), SampleRate::Hz176400 => (2, None), SampleRate::Hz192000 => (3, None),
        SampleRate::Hz8000 => (4, None), SampleRate::Hz16000 => (5, None), SampleRate::Hz22050 => (6, None), SampleRate::Hz24000 => (7, None),
        SampleRate::Hz32000 => (8, None), SampleRate::Hz44100 => (9, None), SampleRate::Hz48000 => (10, None), SampleRate::Hz96000 => (11, None),
        SampleRate::KHz(r) => (12, Some((8, r as u64 / 1000))), SampleRate::Hz(r) => (13, Some((16, r as u64))), SampleRate::DHz(r) => (14, Some((16, r as u64 / 10))),
    };
    out.push(f("hdr.rate_code", 4, rate_code, true));
    let ch_code: u64 = match h.channel_assignment {
        ChannelAssignment::Independent(i) => i as u64 - 1,
        ChannelAssignment::LeftSide => 8,
        ChannelAssignment::SideRight => 9,
        ChannelAssignment::MidSide => 10,
    };
    out.push(f("hdr.ch_code", 4, ch_code, true));
    let bps_code: u64 = match h.bits_per_sample {
        BitsPerSample::Streaminfo(_) => 0, BitsPerSample::Bps8 => 1, BitsPerSample::Bps12 => 2, BitsPerSample::Bps16 => 4,
        BitsPerSample::Bps20 => 5, BitsPerSample::Bps24 => 6, BitsPerSample::Bps32 => 7,
    };
    out.push(f("hdr.bps_code", 3, bps_code, true));
    out.push(f("hdr.reserved2", 1, 0, true));
    for (i, b) in number_bytes(h.frame_number.0).iter().enumerate() { out.push(f(&format!("hdr.num{}", i), 8, *b as u64, true)); }
    if let Some((n, v)) = bs_extra { out.push(f("hdr.bs_extra", n, v, true)); }
    if let Some((n, v)) = rate_extra { out.push(f("hdr.rate_extra", n, v, true)); }
    out.push(Field { name: "hdr.crc8".into(), kind: FKind::Crc8, value: 0, structural: true });
    let bps: u32 = h.bits_per_sample.into();
    for (i, s) in fr.subframes.iter().enumerate() {
        let side = match h.channel_assignment {
            ChannelAssignment::LeftSide | ChannelAssignment::MidSide => i == 1,
            ChannelAssignment::SideRight => i == 0,
            _ => false,
        };
        let depth = bps + side as u32;
        match s {
            SubframeWidth::Common(s) => sub_fields(&mut out, i, s, depth),
            SubframeWidth::Wide(s) => sub_fields(&mut out, i, s, depth),
        }
    }
    out.push(Field { name: "pad".into(), kind: FKind::Pad, value: 0, structural: true });
    out.push(Field { name: "crc16".into(), kind: FKind::Crc16, value: 0, structural: true });
    out
}

pub struct BitW {
    pub bytes: Vec<u8>,
    pub nbits: usize,
}
impl BitW {
    pub fn new() -> Self { BitW { bytes: vec![], nbits: 0 } }
    pub fn bit(&mut self, b: bool) {
        if self.nbits % 8 == 0 { self.bytes.push(0); }
        if b { let i = self.bytes.len() - 1; self.bytes[i] |= 1 << (7 - self.nbits % 8); }
        self.nbits += 1;
    }
    pub fn bits(&mut self, n: u32, v: u64) {
        for k in (0..n).rev() { self.bit(k < 64 && (v >> k) & 1 == 1); }
    }
}

/// Serialise fields; CRC fields are computed; `Pad` writes `value`'s low bits as the padding
/// (0 = conforming). A hard cap keeps absurd unary values from exhausting memory.
pub fn serialise(fields: &[Field]) -> Vec<u8> {
    let mut w = BitW::new();
    for fl in fields {
        if w.bytes.len() > (8 << 20) { break; }
        match fl.kind {
            FKind::Bits(n) => w.bits(n, fl.value),
            FKind::Unary => { for _ in 0..fl.value.min(1 << 22) { w.bit(false); } w.bit(true); }
            FKind::Crc8 => {
                while w.nbits % 8 != 0 { w.bit(false); }
                let c = crc8(&w.bytes);
                w.bits(8, c as u64);
            }
            FKind::Pad => { let mut k = 0; while w.nbits % 8 != 0 { w.bit((fl.value >> k) & 1 == 1); k += 1; } }
            FKind::Crc16 => {
                while w.nbits % 8 != 0 { w.bit(false); }
                let c = crc16(&w.bytes);
                w.bits(16, c as u64);
            }
        }
    }
    w.bytes
}

/// One single-field mutation: returns the description of what was changed.
pub fn mutate_one(rng: &mut Rng, fields: &mut Vec<Field>) -> String {
    // choose a field: structural fields are few, data fields many -> pick the class first
    let structural: Vec<usize> = fields.iter().enumerate().filter(|(_, f)| f.structural && !matches!(f.kind, FKind::Crc8 | FKind::Crc16)).map(|(i, _)| i).collect();
    let data: Vec<usize> = fields.iter().enumerate().filter(|(_, f)| !f.structural).map(|(i, _)| i).collect();
    let idx = if data.is_empty() || rng.chance(3, 5) { *rng.pick(&structural) } else { *rng.pick(&data) };
    let fl = &mut fields[idx];
    let old = fl.value;
    match fl.kind {
        FKind::Bits(n) => {
            let mask = if n >= 64 { u64::MAX } else { (1u64 << n) - 1 };
            let sign = if n == 0 { 0 } else { 1u64 << (n - 1) };
            let cands = [0u64, mask, sign, sign.wrapping_sub(1) & mask, (old + 1) & mask, old.wrapping_sub(1) & mask, rng.next() & mask, old ^ (1 << rng.below(n.max(1) as u64))];
            let mut v = *rng.pick(&cands) & mask;
            if v == old { v = (old ^ 1) & mask; }
            fl.value = v;
        }
        FKind::Unary => {
            let cands = [0u64, 1, old + 1, old.saturating_sub(1), 31, 32, 33, 40, 1000, 70000];
            let mut v = *rng.pick(&cands);
            if v == old { v = old + 2; }
            fl.value = v;
        }
        FKind::Pad => fl.value = 0x7F,
        _ => {}
    }
    format!("{}:{}->{}", fl.name, old, fl.value)
}

/// Set a named field (exact name) to a value; returns false if absent.
pub fn set_field(fields: &mut [Field], name: &str, value: u64) -> bool {
    for fl in fields.iter_mut() {
        if fl.name == name {
            fl.value = match fl.kind { FKind::Bits(n) if n < 64 => value & ((1u64 << n) - 1), _ => value };
            return true;
        }
    }
    false
}

/// Length in bytes of the frame header that starts at `d[0]` (sync .. CRC-8), from the codes only.
pub fn header_len(d: &[u8]) -> Option<usize> {
    if d.len() < 5 { return None; }
    let bs_code = d[2] >> 4;
    let rate_code = d[2] & 0x0F;
    let lead = d[4];
    let num_len = if lead & 0x80 == 0 { 1 } else { (lead.leading_ones() as usize).clamp(2, 7) };
    Some(4 + num_len + match bs_code { 6 => 1, 7 => 2, _ => 0 } + match rate_code { 12 => 1, 13 | 14 => 2, _ => 0 } + 1)
}

/// Repair CRC-8 and CRC-16 of the frame occupying `f[f0..f1]`.
pub fn repair(f: &mut [u8], f0: usize, f1: usize) {
    if let Some(h) = header_len(&f[f0..f1]) {
        if f0 + h <= f1 {
            let c8 = crc8(&f[f0..f0 + h - 1]);
            f[f0 + h - 1] = c8;
        }
    }
    if f1 >= f0 + 2 {
        let c16 = crc16(&f[f0..f1 - 2]);
        f[f1 - 2] = (c16 >> 8) as u8;
        f[f1 - 1] = (c16 & 0xFF) as u8;
    }
}
