"""C19 — encoding never expands audio beyond verbatim size plus a fixed frame overhead.

Search (harness/src/bin/c19.rs, release): per-frame encoded size against
  frame_bytes <= 16 + ceil((ch*(8 + n*bps) + [ch==2]*n) / 8) + 2
(16-byte maximal header, one subframe header byte per channel, samples verbatim at the declared
depth, one extra bit per sample for one channel of a stereo pair, padding, CRC-16); per subframe
bits <= 8 + n*depth; constant blocks <= 18 + 16*ch bytes at any length.  Inputs: full-scale white
noise, alternating extremes, Rice-mis-estimate shapes, steps, i32::MIN-adjacent values, hand-made
shapes x option sets; constant blocks 1..65535 samples.  Emits enc_size cases."""
from checks import codech_util as cu


def run(chk):
    cu.simple_check(
        chk, "C19", "c19", ["release"], kinds=["enc_size", "struct"],
        rule="one evaluation = one encoded frame measured against the bound (plus its subframes against the per-subframe bound); distinct by (shape x configuration x block length); non-trivial = a frame produced by the real encoder from a non-empty block",
        assumptions=["sizes are measured on the release build only (the size of the output does not depend on overflow checks)"],
        evaluations=lambda s: cu.total(s, "frames") + cu.total(s, "subframes"),
        nontrivial=lambda s: cu.total(s, "frames"),
        extra=lambda c, by_prof: __import__("checks.codec_common", fromlist=["x"]).encoder_model_tie(chk, c.cases))
