(* readers/Main_proofs.v — the C06 / C07 theorems: reader refinement (Run_proofs) composed with the
   cursor facts (Cursor_proofs), the invariants in the form DESIGN states them, and Ser facts. *)
From FlacReaders Require Import Spec Lists_proofs Cursor_proofs Frame_proofs Core_proofs
  Byte_proofs Sample_proofs Chan_proofs Run_proofs.
Open Scope N_scope.

Lemma refines_exactly_once {A} (data : list A) atr pend :
  Forall (cur_ok data) atr -> chained 0 atr pend -> seek_free atr -> exactly_once data atr.
Proof. intros H1 H2 H3 pre e post E. eapply cursor_exactly_once; eauto. Qed.

Lemma refines_seeks_land {A} (data : list A) atr p0 pend :
  Forall (cur_ok data) atr -> chained p0 atr pend -> seeks_land data atr.
Proof. intros H1 H2 pre e post t E Ho Hs. eapply cursor_seek_lands; eauto. Qed.

Lemma refines_failed_seeks_safe {A} (data : list A) atr p0 pend :
  Forall (cur_ok data) atr -> chained p0 atr pend -> failed_seeks_safe data atr.
Proof. intros H1 H2 pre e post E Ho. eapply cursor_seek_fails; eauto. Qed.

Section Main.
  Variable F : file.
  Hypothesis V : valid_file F.

  (* ================= C07 ================= *)
  Theorem c07_bytes ops :
    no_bseek ops -> Forall bop_ok (snd (byte_run F ops)) ->
    let atr := map (abs_b F) (snd (byte_run F ops)) in
    Forall (cur_ok (pcm_bytes F)) atr /\ chained 0 atr (bpos F (fst (byte_run F ops))) /\
    exactly_once (pcm_bytes F) atr.
  Proof.
    intros Hns Hok atr. destruct (byte_refines F V ops Hok) as (_ & H1 & H2).
    split; [exact H1|]. split; [exact H2|].
    eapply refines_exactly_once; eauto. now apply byte_seek_free.
  Qed.

  Theorem c07_samples ops :
    no_sseek ops -> Forall sop_ok (snd (sample_run F ops)) ->
    let atr := map (abs_s F) (snd (sample_run F ops)) in
    Forall (cur_ok (pcm F)) atr /\ chained 0 atr (spos F (fst (sample_run F ops))) /\
    exactly_once (pcm F) atr.
  Proof.
    intros Hns Hok atr. destruct (sample_refines F V ops Hok) as (_ & H1 & H2).
    split; [exact H1|]. split; [exact H2|].
    eapply refines_exactly_once; eauto. now apply sample_seek_free.
  Qed.

  Lemma chan_shapes ops : Forall cop_ok (snd (chan_run F ops)) -> Forall (chan_shape F) (snd (chan_run F ops)).
  Proof.
    (* every fill_buf answer has one slice per channel, all of one length (channel 0 exists) *)
    intros Hok. pose proof (v_channels F V) as Hch.
    assert (H0 : (0 < N.to_nat (f_channels F))%nat) by lia.
    unfold chan_run in *. rewrite run_is_run_from in *.
    assert (G : forall ops s, CInv F s -> Forall cop_ok (snd (run_from (chan_step F) s ops)) ->
                              Forall (chan_shape F) (snd (run_from (chan_step F) s ops))).
    { clear ops Hok. induction ops as [|o r IH]; intros s I Hok; cbn [run_from] in *; [constructor|].
      pose proof (chan_step_ok F V 0%nat H0 s o I) as Hs.
      assert (Hsh : cop_ok (s, o, snd (chan_step F s o)) -> chan_shape F (s, o, snd (chan_step F s o))).
      { intros Ho. destruct o as [|k|sk]; cbn [chan_step] in *.
        - now destruct (chan_fill_ok F V 0%nat H0 s I) as (_ & _ & ? & _).
        - destruct (chan_consume_ok F V 0%nat H0 s k I Ho) as (_ & _ & _ & ->). exact Logic.I.
        - (* a seek never answers with channel slices *)
          destruct (chan_seek_ok F V 0%nat H0 s sk I Ho) as (_ & (_ & _ & C) & _).
          cbn [abs_c e_op e_out] in C. unfold chan_shape. cbn [snd].
          destruct (snd (chan_seek F s sk)); try exact Logic.I.
          cbn [abs_out_data chan_of] in C. destruct (sample_target F 1 sk); contradiction. }
      destruct (chan_step F s o) as [s' x]. specialize (IH s'). destruct (run_from (chan_step F) s' r) as [sf tr].
      cbn [fst snd] in *. inversion Hok as [|? ? Ho Hr]; subst. destruct (Hs Ho) as (I' & _).
      constructor; [now apply Hsh | now apply IH]. }
    apply G; [apply (cinv_new F 0%nat H0) | exact Hok].
  Qed.

  Theorem c07_channels ops c :
    (c < N.to_nat (f_channels F))%nat ->
    no_cseek ops -> Forall cop_ok (snd (chan_run F ops)) ->
    let atr := map (abs_c F c) (snd (chan_run F ops)) in
    Forall (cur_ok (chan_pcm F c)) atr /\ chained 0 atr (cpos (fst (chan_run F ops))) /\
    exactly_once (chan_pcm F c) atr /\ Forall (chan_shape F) (snd (chan_run F ops)).
  Proof.
    intros Hc Hns Hok atr. destruct (chan_refines F V c Hc ops Hok) as (_ & H1 & H2).
    split; [exact H1|]. split; [exact H2|]. split; [|now apply chan_shapes].
    eapply refines_exactly_once; eauto. now apply chan_seek_free.
  Qed.

  (* ================= C06 ================= *)
  Theorem c06_bytes ops :
    Forall bop_ok (snd (byte_run F ops)) ->
    let atr := map (abs_b F) (snd (byte_run F ops)) in
    Forall (cur_ok (pcm_bytes F)) atr /\ chained 0 atr (bpos F (fst (byte_run F ops))) /\
    seeks_land (pcm_bytes F) atr /\ failed_seeks_safe (pcm_bytes F) atr.
  Proof.
    intros Hok atr. destruct (byte_refines F V ops Hok) as (_ & H1 & H2).
    split; [exact H1|]. split; [exact H2|]. split.
    - eapply refines_seeks_land; eauto.
    - eapply refines_failed_seeks_safe; eauto.
  Qed.

  Theorem c06_samples ops :
    Forall sop_ok (snd (sample_run F ops)) ->
    let atr := map (abs_s F) (snd (sample_run F ops)) in
    Forall (cur_ok (pcm F)) atr /\ chained 0 atr (spos F (fst (sample_run F ops))) /\
    seeks_land (pcm F) atr /\ failed_seeks_safe (pcm F) atr.
  Proof.
    intros Hok atr. destruct (sample_refines F V ops Hok) as (_ & H1 & H2).
    split; [exact H1|]. split; [exact H2|]. split.
    - eapply refines_seeks_land; eauto.
    - eapply refines_failed_seeks_safe; eauto.
  Qed.

  Theorem c06_channels ops c :
    (c < N.to_nat (f_channels F))%nat ->
    Forall cop_ok (snd (chan_run F ops)) ->
    let atr := map (abs_c F c) (snd (chan_run F ops)) in
    Forall (cur_ok (chan_pcm F c)) atr /\ chained 0 atr (cpos (fst (chan_run F ops))) /\
    seeks_land (chan_pcm F c) atr /\ failed_seeks_safe (chan_pcm F c) atr.
  Proof.
    intros Hc Hok atr. destruct (chan_refines F V c Hc ops Hok) as (_ & H1 & H2).
    split; [exact H1|]. split; [exact H2|]. split.
    - eapply refines_seeks_land; eauto.
    - eapply refines_failed_seeks_safe; eauto.
  Qed.

  (* a sample-based seek beyond the end of a seekable stream fails and leaves the reader at the end:
     no data is delivered and every polling call signals end of stream until the next seek *)
  Theorem c06_samples_beyond_end ops :
    Forall sop_ok (snd (sample_run F ops)) -> f_seekable F = true ->
    forall pre r s o post, snd (sample_run F ops) = pre ++ (r, SSeek s, o) :: post ->
      total_frames F < s ->
      (exists e, o = OErr e) /\
      (seek_free (map (abs_s F) post) ->
         delivered (pcm F) (map (abs_s F) post) = [] /\
         Forall (fun x => polls x = true -> eos x = true) (map (abs_s F) post)).
  Proof.
    intros Hok Hsk pre r s o post E Hgt.
    destruct (c06_samples ops Hok) as (Hc & Hch & _ & Hfs).
    pose proof (run_invs (sample_step F) (SInv F) sop_ok (abs_s F) (pcm F) (sample_step_ok F V) ops
                  (sample_new F) (sinv_new F) Hok) as Hinv.
    unfold sample_run in *. rewrite E in *. apply Forall_app in Hinv as (_ & Hinv).
    inversion Hinv as [|? ? (I & Eo) _]; subst. cbn [fst snd sample_step] in I, Eo.
    apply Forall_app in Hok as (_ & Hok). inversion Hok as [|? ? Hs _]; subst. cbn [sop_ok] in Hs.
    destruct (sample_seek_ok F V r s I Hs) as (_ & _ & Hend). specialize (Hend Hsk Hgt).
    rewrite map_app in Hfs. cbn [map] in Hfs.
    assert (Hop : e_op (abs_s F (r, SSeek s, snd (sample_seek F r s))) = ASeek None).
    { cbn [abs_s e_op]. unfold sample_target. rewrite Hsk.
      replace (s <=? total_frames F) with false by (symmetry; apply N.leb_gt; lia). reflexivity. }
    destruct (Hfs _ _ _ eq_refl Hop) as (Hout & _ & Hafter).
    split.
    - cbn [abs_s e_out] in Hout. destruct (snd (sample_seek F r s)); try discriminate Hout. eauto.
    - apply Hafter. cbn [abs_s e_pos' sample_step]. exact Hend.
  Qed.

  Theorem c06_channels_beyond_end ops c :
    (c < N.to_nat (f_channels F))%nat ->
    Forall cop_ok (snd (chan_run F ops)) -> f_seekable F = true ->
    forall pre r s o post, snd (chan_run F ops) = pre ++ (r, CSeek s, o) :: post ->
      total_frames F < s ->
      (exists e, o = OErr e) /\
      (seek_free (map (abs_c F c) post) ->
         delivered (chan_pcm F c) (map (abs_c F c) post) = [] /\
         Forall (fun x => polls x = true -> eos x = true) (map (abs_c F c) post)).
  Proof.
    intros Hc Hok Hsk pre r s o post E Hgt.
    destruct (c06_channels ops c Hc Hok) as (Hcu & Hch & _ & Hfs).
    pose proof (run_invs (chan_step F) (CInv F) cop_ok (abs_c F c) (chan_pcm F c) (chan_step_ok F V c Hc) ops
                  (chan_new F) (cinv_new F c Hc) Hok) as Hinv.
    unfold chan_run in *. rewrite E in *. apply Forall_app in Hinv as (_ & Hinv).
    inversion Hinv as [|? ? (I & Eo) _]; subst. cbn [fst snd chan_step] in I, Eo.
    apply Forall_app in Hok as (_ & Hok). inversion Hok as [|? ? Hs _]; subst. cbn [cop_ok] in Hs.
    destruct (chan_seek_ok F V c Hc r s I Hs) as (_ & _ & Hend). specialize (Hend Hsk Hgt).
    rewrite map_app in Hfs. cbn [map] in Hfs.
    assert (Hop : e_op (abs_c F c (r, CSeek s, snd (chan_seek F r s))) = ASeek None).
    { cbn [abs_c e_op]. unfold sample_target. rewrite Hsk.
      replace (s <=? total_frames F) with false by (symmetry; apply N.leb_gt; lia). reflexivity. }
    destruct (Hfs _ _ _ eq_refl Hop) as (Hout & _ & Hafter).
    split.
    - cbn [abs_c e_out] in Hout. destruct (snd (chan_seek F r s)); try discriminate Hout. eauto.
    - apply Hafter. cbn [abs_c e_pos' chan_step]. exact Hend.
  Qed.

  (* the invariants, as DESIGN states them: buffered data ++ data from the decoder position on
     = data from the logical position on *)
  Theorem c06_byte_invariant ops : Forall bop_ok (snd (byte_run F ops)) ->
    let r := fst (byte_run F ops) in
    br_buf r ++ bdata F (d_rest (br_dec r)) = dropN (bpos F r) (pcm_bytes F) /\
    bdata F (d_rest (br_dec r)) = dropN (d_cur (br_dec r) * bytes_per_pcm_frame F) (pcm_bytes F).
  Proof.
    intros Hok r. destruct (byte_refines F V ops Hok) as (I & _). fold r in I.
    destruct (binv_facts F V r I) as (done & Hd & P & L). split.
    - now rewrite P, Hd, dropN_app_len.
    - rewrite <- L, Hd, app_assoc, <- lenN_app. now rewrite dropN_app_len.
  Qed.

  Theorem c06_sample_invariant ops : Forall sop_ok (snd (sample_run F ops)) ->
    let r := fst (sample_run F ops) in
    sr_buf r ++ sdata (d_rest (sr_dec r)) = dropN (spos F r) (pcm F) /\
    sdata (d_rest (sr_dec r)) = dropN (d_cur (sr_dec r) * f_channels F) (pcm F).
  Proof.
    intros Hok r. destruct (sample_refines F V ops Hok) as (I & _). fold r in I.
    destruct (sinv_facts F V r I) as (done & Hd & P & L). split.
    - now rewrite P, Hd, dropN_app_len.
    - rewrite <- L, Hd, app_assoc, <- lenN_app. now rewrite dropN_app_len.
  Qed.

  Theorem c06_chan_invariant ops c : (c < N.to_nat (f_channels F))%nat ->
    Forall cop_ok (snd (chan_run F ops)) ->
    let r := fst (chan_run F ops) in
    dropN (cr_consumed r) (nth c (d_buf (cr_dec r)) []) ++ cdata c (d_rest (cr_dec r)) =
      dropN (cpos r) (chan_pcm F c).
  Proof.
    intros Hc Hok r. destruct (chan_refines F V c Hc ops Hok) as (I & _). fold r in I.
    destruct (cinv_facts F V c Hc r I) as (_ & Hd & _). now rewrite Hd.
  Qed.
End Main.
