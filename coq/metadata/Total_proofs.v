(* metadata/Total_proofs.v — C12: the readers, the cue text parser, the accessors and the
   image sniffers never reach a Panic outcome; fuel-based loops never run out of fuel. *)
From FlacMeta Require Import Bytes Bytes_proofs Blocks BlockList Blocks_proofs Cue Accessors Sniff.
Open Scope N_scope.

(* a parser is well behaved at an input: no panic, and the rest is no longer than the input *)
Definition okp_at {A} (p : parser A) (s : list N) : Prop :=
  match p s with
  | Ok (_, s') => (length s' <= length s)%nat
  | Err _ => True
  | Panic _ => False
  end.
Definition okp {A} (p : parser A) : Prop := forall s, okp_at p s.
(* ... and consumes at least one element when it succeeds *)
Definition eats {A} (p : parser A) : Prop :=
  forall s x s', p s = Ok (x, s') -> (length s' < length s)%nat.

Lemma okp_at_bind {A B} (p : parser A) (f : A -> parser B) s :
  okp_at p s -> (forall a s', p s = Ok (a, s') -> (length s' <= length s)%nat -> okp_at (f a) s') ->
  okp_at (pbind p f) s.
Proof.
  unfold okp_at, pbind. destruct (p s) as [[a s']| |]; intros H G; auto.
  specialize (G a s' eq_refl H). destruct (f a s') as [[b s'']| |]; auto. lia.
Qed.
Lemma okp_bind {A B} (p : parser A) (f : A -> parser B) : okp p -> (forall a, okp (f a)) -> okp (pbind p f).
Proof. intros Hp Hf s. apply okp_at_bind; [apply Hp|]. intros a s' _ _. apply Hf. Qed.
Lemma okp_pret {A} (a : A) : okp (pret a).
Proof. intros s. unfold okp_at, pret. lia. Qed.
Lemma okp_pfail {A} e : okp (@pfail A e).
Proof. intros s. exact I. Qed.
Lemma okp_plift {A} (r : res A) : is_panic r = false -> okp (plift r).
Proof. intros H s. unfold okp_at, plift. destruct r; try discriminate; auto. Qed.

Lemma splitN_lengths {A} n (l a r : list A) : splitN n l = Some (a, r) ->
  length l = (length a + length r)%nat /\ N.of_nat (length a) = n.
Proof.
  intros H. apply splitN_some in H. destruct H as [-> L]. rewrite app_length. rewrite lenN_length in L. auto.
Qed.
Lemma okp_take n : okp (take n).
Proof.
  intros s. unfold okp_at, take. destruct (splitN n s) as [[a r]|] eqn:E; [|exact I].
  apply splitN_lengths in E. lia.
Qed.
Lemma okp_skip n : okp (skip n).
Proof.
  intros s. unfold okp_at, skip. destruct (splitN n s) as [[a r]|] eqn:E; [|exact I].
  apply splitN_lengths in E. lia.
Qed.
Lemma okp_read_be k : okp (read_be k).
Proof. unfold read_be. apply okp_bind; [apply okp_take|intros; apply okp_pret]. Qed.
Lemma okp_read_le k : okp (read_le k).
Proof. unfold read_le. apply okp_bind; [apply okp_take|intros; apply okp_pret]. Qed.

Lemma eats_take n : 0 < n -> eats (take n).
Proof.
  intros Hn s x s' H. unfold take in H. destruct (splitN n s) as [[a r]|] eqn:E; [|discriminate].
  apply Ok_inj in H. injection H as <- <-. apply splitN_lengths in E. lia.
Qed.
Lemma eats_bind_l {A B} (p : parser A) (f : A -> parser B) : eats p -> (forall a, okp (f a)) -> eats (pbind p f).
Proof.
  intros Hp Hf s x s'' H. unfold pbind in H. destruct (p s) as [[a s']| |] eqn:E; try discriminate.
  apply Hp in E. specialize (Hf a s'). unfold okp_at in Hf. rewrite H in Hf. lia.
Qed.
Lemma eats_read_be k : (0 < k)%nat -> eats (read_be k).
Proof. intros Hk. unfold read_be. apply eats_bind_l; [apply eats_take; lia|intros; apply okp_pret]. Qed.

Ltac okp_step :=
  first [ apply okp_pret | apply okp_pfail | apply okp_take | apply okp_skip | apply okp_read_be | apply okp_read_le
        | apply okp_bind; [|intros] ].

(* ---- collects never run out of fuel *)
Section Collect.
  Context {T : Type}.
  Variable valid_first : T -> bool.
  Variable is_next : T -> T -> res bool.
  Variable MAX : N.
  Variable p : parser T.
  Hypothesis is_next_np : forall a b, is_panic (is_next a b) = false.
  Hypothesis p_ok : okp p.
  Hypothesis p_eats : eats p.

  Lemma try_collect_ok : forall fuel n rev_items len s, (length s <= length fuel)%nat ->
    match try_collect valid_first is_next MAX p fuel n rev_items len s with
    | Ok (_, s') => (length s' <= length s)%nat
    | Err _ => True
    | Panic _ => False
    end.
  Proof.
    induction fuel as [|f0 fuel IH]; intros n rev_items len s F; cbn [try_collect].
    - destruct (n =? 0); [lia|]. pose proof (p_ok s) as H. unfold okp_at in H.
      destruct (p s) as [[x s']| |] eqn:E; auto. apply p_eats in E. cbn in F. lia.
    - destruct (n =? 0); [lia|]. pose proof (p_ok s) as H. unfold okp_at in H.
      destruct (p s) as [[x s']| |] eqn:E; auto. apply p_eats in E.
      unfold try_push. destruct (len <? MAX); [|exact I].
      assert (Q : is_panic (match rev_items with [] => Ok (valid_first x) | last :: _ => is_next x last end) = false).
      { destruct rev_items; [reflexivity|apply is_next_np]. }
      destruct (match rev_items with [] => Ok (valid_first x) | last :: _ => is_next x last end) as [[|]| |];
        cbn [bind]; try discriminate; auto.
      specialize (IH (N.pred n) (x :: rev_items) (N.succ len) s').
      cbn [length] in F. assert (F' : (length s' <= length fuel)%nat) by lia. specialize (IH F').
      destruct (try_collect valid_first is_next MAX p fuel (N.pred n) (x :: rev_items) (N.succ len) s') as [[? ?]| |]; auto. lia.
  Qed.

  Lemma parse_n_ok : forall fuel n s, (length s <= length fuel)%nat ->
    match parse_n p fuel n s with
    | Ok (_, s') => (length s' <= length s)%nat
    | Err _ => True
    | Panic _ => False
    end.
  Proof.
    induction fuel as [|f0 fuel IH]; intros n s F; cbn [parse_n].
    - destruct (n =? 0); [lia|]. pose proof (p_ok s) as H. unfold okp_at in H.
      destruct (p s) as [[x s']| |] eqn:E; auto. apply p_eats in E. cbn in F. lia.
    - destruct (n =? 0); [lia|]. pose proof (p_ok s) as H. unfold okp_at in H.
      destruct (p s) as [[x s']| |] eqn:E; auto. apply p_eats in E.
      specialize (IH (N.pred n) s'). cbn [length] in F. assert (F' : (length s' <= length fuel)%nat) by lia.
      specialize (IH F'). destruct (parse_n p fuel (N.pred n) s') as [[? ?]| |]; auto. lia.
  Qed.
End Collect.

Ltac okp_auto :=
  repeat first
    [ okp_step
    | match goal with
      | |- okp (if ?c then _ else _) => destruct c
      | |- okp (match ?x with _ => _ end) => destruct x
      | |- okp (let '(_, _) := ?x in _) => destruct x
      end ].

(* ---- the block readers *)
Lemma okp_read_header : okp read_header.
Proof.
  unfold read_header. okp_auto. apply okp_plift. unfold btype_of_code.
  repeat match goal with |- context [match ?x with _ => _ end] => destruct x end; reflexivity.
Qed.

Lemma read_header_eats s h s1 : read_header s = Ok (h, s1) -> length s = (4 + length s1)%nat.
Proof.
  unfold read_header. intros H. inv_bind H. apply take_ok in E. destruct E as [-> L1].
  destruct (rd 1 (bits_of_bytes a)) as [[l x]|]; [|discriminate].
  destruct (rd 7 x) as [[c y]|]; [|discriminate].
  inv_bind H. unfold plift in E. destruct (btype_of_code c); try discriminate. apply Ok_inj in E. injection E as <- <-.
  inv_bind H. unfold read_be in E. inv_bind E. apply take_ok in E0. destruct E0 as [-> L3].
  unfold pret in E, H. apply Ok_inj in E. apply Ok_inj in H. injection E as <- <-. injection H as <- <-.
  rewrite !app_length. rewrite lenN_length in L1, L3. lia.
Qed.

Lemma okp_read_streaminfo : okp read_streaminfo.
Proof.
  unfold read_streaminfo.
  apply okp_bind; [apply okp_read_be|intros minb]. apply okp_bind; [apply okp_read_be|intros maxb].
  apply okp_bind; [apply okp_read_be|intros minf]. apply okp_bind; [apply okp_read_be|intros maxf].
  apply okp_bind; [apply okp_take|intros a3].
  destruct (rd 20 (bits_of_bytes a3)) as [[rate s1]|]; [|apply okp_pfail].
  destruct (rd 3 s1) as [[c s2]|]; [|apply okp_pfail].
  destruct (rd 5 s2) as [[cnt s3]|] eqn:R; [|apply okp_pfail].
  destruct (rd 36 s3) as [[total s4]|]; [|apply okp_pfail].
  apply rd_bound in R. change (2 ^ N.of_nat 5) with 32 in R.
  unfold bitcount_checked_add, signed_count.
  destruct (N.ltb_spec (cnt + 1) (2 ^ 32)) as [_|Hx]; [|change (2 ^ 32) with 4294967296 in Hx; lia].
  destruct (N.leb_spec (cnt + 1) 32) as [_|Hx]; [|lia].
  destruct (N.eqb_spec (cnt + 1) 0) as [Hx|_]; [lia|].
  okp_auto.
Qed.

Lemma okp_read_padding n : okp (read_padding n).
Proof. unfold read_padding. okp_auto. Qed.
Lemma okp_read_application n : okp (read_application n).
Proof. unfold read_application. okp_auto. Qed.

Lemma okp_read_seekpoint : okp read_seekpoint.
Proof. unfold read_seekpoint. okp_auto. Qed.
Lemma eats_read_seekpoint : eats read_seekpoint.
Proof. unfold read_seekpoint. apply eats_bind_l; [apply eats_read_be; lia|]. intros. okp_auto. Qed.

Lemma okp_read_seektable n : okp (read_seektable n).
Proof.
  intros s. unfold okp_at, read_seektable. destruct (n mod 18 =? 0); [|exact I].
  apply try_collect_ok; auto using okp_read_seekpoint, eats_read_seekpoint; try lia.
Qed.

Section WithUtf8.
Variable utf8_valid : list N -> bool.

Lemma okp_read_vc_string : okp (read_vc_string utf8_valid).
Proof. unfold read_vc_string. okp_auto. Qed.
Lemma eats_read_vc_string : eats (read_vc_string utf8_valid).
Proof.
  unfold read_vc_string. apply eats_bind_l.
  - unfold read_le. apply eats_bind_l; [apply eats_take; lia|intros; apply okp_pret].
  - intros. okp_auto.
Qed.

Lemma okp_read_vorbis : okp (read_vorbis utf8_valid).
Proof.
  intros s. unfold read_vorbis.
  apply okp_at_bind; [apply okp_read_vc_string|]. intros vendor s1 _ L1.
  apply okp_at_bind; [apply okp_read_le|]. intros count s2 _ L2.
  apply okp_at_bind; [|intros; apply okp_pret].
  unfold okp_at. pose proof (parse_n_ok (read_vc_string utf8_valid) okp_read_vc_string eats_read_vc_string s count s2) as H.
  apply H. lia.
Qed.

Lemma okp_read_prefixed : okp read_prefixed.
Proof. unfold read_prefixed. okp_auto. Qed.
Lemma okp_read_picture : okp (read_picture utf8_valid).
Proof. unfold read_picture. okp_auto; apply okp_read_prefixed. Qed.

Lemma okp_read_isrc : okp (read_isrc utf8_valid).
Proof. unfold read_isrc. okp_auto. Qed.
Lemma okp_read_offset c : okp (read_offset c).
Proof. unfold read_offset. okp_auto. Qed.
Lemma okp_read_index c : okp (read_index c).
Proof. unfold read_index. okp_auto; apply okp_read_offset. Qed.
Lemma eats_read_offset c : eats (read_offset c).
Proof. unfold read_offset. apply eats_bind_l; [apply eats_read_be; lia|]. intros. okp_auto. Qed.
Lemma eats_read_index c : eats (read_index c).
Proof. unfold read_index. apply eats_bind_l; [apply eats_read_offset|]. intros. okp_auto. Qed.
Lemma okp_read_flags : okp read_flags.
Proof. unfold read_flags. okp_auto. Qed.

Lemma index_is_next_np a b : is_panic (index_is_next a b) = false.
Proof. reflexivity. Qed.
Lemma track_is_next_np a b : is_panic (track_is_next a b) = false.
Proof. reflexivity. Qed.
Lemma seekpoint_is_next_np a b : is_panic (seekpoint_is_next a b) = false.
Proof. reflexivity. Qed.

Lemma indexvec_try_from_np l : is_panic (indexvec_try_from l) = false.
Proof.
  unfold indexvec_try_from. destruct l as [|i0 rest]; [reflexivity|].
  destruct (ix_num i0 =? 0); [destruct rest as [|i1 r]; [reflexivity|destruct (ix_num i1 =? 1); reflexivity]|].
  destruct (ix_num i0 =? 1); reflexivity.
Qed.

Lemma okp_read_track c : okp (read_track utf8_valid c).
Proof.
  intros s. unfold read_track.
  apply okp_at_bind; [apply okp_read_offset|]. intros offset s1 _ L1.
  apply okp_at_bind; [apply okp_read_be|]. intros number s2 _ L2.
  destruct (number =? 0); [exact I|].
  apply okp_at_bind; [apply okp_read_isrc|]. intros i s3 _ L3.
  apply okp_at_bind; [apply okp_read_flags|]. intros [na pre] s4 _ L4.
  apply okp_at_bind; [apply okp_skip|]. intros _ s5 _ L5.
  apply okp_at_bind; [apply okp_read_be|]. intros count s6 _ L6.
  apply okp_at_bind.
  - unfold okp_at. apply try_collect_ok; auto using okp_read_index, eats_read_index, index_is_next_np; try lia.
  - intros ixs s7 _ L7. apply okp_at_bind; [apply okp_plift, indexvec_try_from_np|]. intros. apply okp_pret.
Qed.
Lemma eats_read_track c : eats (read_track utf8_valid c).
Proof.
  intros s x s' H. unfold read_track in H. unfold pbind at 1 in H.
  destruct (read_offset c s) as [[o s1]| |] eqn:E; try discriminate.
  apply eats_read_offset in E.
  match type of H with ?f s1 = _ => pose proof (fun HH : okp_at (fun t => f t) s1 => HH) as K end.
  assert (G : (length s' <= length s1)%nat).
  { clear K. revert H.
    match goal with |- ?f s1 = _ -> _ => assert (Q : okp_at (fun t => f t) s1) end.
    { apply okp_at_bind; [apply okp_read_be|]. intros number s2 _ L2.
      destruct (number =? 0); [exact I|].
      apply okp_at_bind; [apply okp_read_isrc|]. intros i s3 _ L3.
      apply okp_at_bind; [apply okp_read_flags|]. intros [na pre] s4 _ L4.
      apply okp_at_bind; [apply okp_skip|]. intros _ s5 _ L5.
      apply okp_at_bind; [apply okp_read_be|]. intros count s6 _ L6.
      apply okp_at_bind.
      - unfold okp_at. apply try_collect_ok; auto using okp_read_index, eats_read_index, index_is_next_np; try lia.
      - intros ixs s7 _ L7. apply okp_at_bind; [apply okp_plift, indexvec_try_from_np|]. intros. apply okp_pret. }
    unfold okp_at in Q. intros H. rewrite H in Q. exact Q. }
  lia.
Qed.

Lemma okp_read_leadout c : okp (read_leadout utf8_valid c).
Proof. unfold read_leadout. okp_auto; first [apply okp_read_offset|apply okp_read_isrc|apply okp_read_flags]. Qed.

Lemma okp_read_cuesheet : okp (read_cuesheet utf8_valid).
Proof.
  intros s. unfold read_cuesheet.
  apply okp_at_bind; [apply okp_take|]. intros catalog s1 _ L1.
  apply okp_at_bind; [apply okp_read_be|]. intros lead_in s2 _ L2.
  apply okp_at_bind; [apply okp_take|]. intros fl s3 _ L3.
  destruct (rd 1 (bits_of_bytes fl)) as [[is_cdda x]|]; [|exact I].
  apply okp_at_bind; [apply okp_skip|]. intros _ s4 _ L4.
  apply okp_at_bind; [apply okp_read_be|]. intros track_count s5 _ L5.
  destruct (is_cdda =? 1).
  - apply okp_at_bind.
    { apply okp_plift. destruct (trim_nulls catalog); [reflexivity|].
      destruct (forallb is_digit _); [destruct (lenN _ =? 13)|]; reflexivity. }
    intros cat s6 _ L6. destruct ((track_count =? 0) || (99 <? track_count - 1)); [exact I|].
    apply okp_at_bind.
    { unfold okp_at. apply try_collect_ok; auto using okp_read_track, eats_read_track, track_is_next_np; try lia. }
    intros tracks s7 _ L7. apply okp_at_bind; [apply okp_read_leadout|]. intros. apply okp_pret.
  - destruct (negb (forallb is_digit (trim_nulls catalog))); [exact I|].
    destruct (track_count =? 0); [exact I|].
    apply okp_at_bind.
    { unfold okp_at. apply try_collect_ok; auto using okp_read_track, eats_read_track, track_is_next_np; try lia. }
    intros tracks s7 _ L7. apply okp_at_bind; [apply okp_read_leadout|]. intros. apply okp_pret.
Qed.

Lemma okp_read_body ty size : okp (read_body utf8_valid ty size).
Proof.
  destruct ty; cbn [read_body]; (apply okp_bind; [|intros; apply okp_pret]).
  - apply okp_read_streaminfo.
  - apply okp_read_padding.
  - apply okp_read_application.
  - apply okp_read_seektable.
  - apply okp_read_vorbis.
  - apply okp_read_cuesheet.
  - apply okp_read_picture.
Qed.

(* ---- the iterator *)
Lemma read_block_spec s :
  match read_block utf8_valid s with
  | Ok (_, _, rest) => (length rest + 4 <= length s)%nat
  | Err _ => True
  | Panic _ => False
  end.
Proof.
  unfold read_block. pose proof (okp_read_header s) as H. unfold okp_at in H.
  destruct (read_header s) as [[h s1]| |] eqn:RH; auto.
  apply read_header_eats in RH.
  pose proof (okp_read_body (h_type h) (h_size h) (takeN (h_size h) s1)) as B. unfold okp_at in B.
  destruct (read_body utf8_valid (h_type h) (h_size h) (takeN (h_size h) s1)) as [[b lo]| |]; auto.
  destruct (_ =? 0); [|exact I].
  rewrite dropN_spec, skipn_length. lia.
Qed.

Lemma iter_next_spec it :
  match iter_next utf8_valid it with
  | (Some (Panic _), _) => False
  | (Some (Ok _), it') => (length (it_reader it') < length (it_reader it))%nat
  | _ => True
  end.
Proof.
  assert (NT : forall it0, match next_tagged utf8_valid it0 with
                           | (Some (Panic _), _) => False
                           | (Some (Ok _), it') => (length (it_reader it') < length (it_reader it0))%nat
                           | _ => True
                           end).
  { intros it0. unfold next_tagged, it_read_block.
    pose proof (read_block_spec (it_reader it0)) as RB.
    destruct (negb (it_streaminfo_read it0)); destruct (it_finished it0); cbn [fst snd]; auto;
      destruct (read_block utf8_valid (it_reader it0)) as [[[last b] rest]| |]; auto;
      destruct b; cbn [it_reader it_seektable_read it_vorbiscomment_read it_png_read it_icon_read]; auto;
      repeat match goal with
             | |- context [if ?c then _ else _] => destruct c
             end; cbn [it_reader]; auto; lia. }
  unfold iter_next. destruct (it_failed it); [exact I|].
  destruct (negb (it_tag_read it)); [|apply NT].
  pose proof (okp_take 4 (it_reader it)) as TK. unfold okp_at in TK.
  destruct (take 4 (it_reader it)) as [[tag rest]| |]; auto.
  destruct (forallb _ _); [|exact I].
  match goal with |- match next_tagged utf8_valid ?x with _ => _ end => specialize (NT x) end.
  cbn [it_reader] in NT.
  destruct (next_tagged utf8_valid _) as [[[b|e|k]|] it']; auto. lia.
Qed.

Lemma collect_np : forall fuel it acc, (length (it_reader it) < length fuel)%nat ->
  is_panic (collect utf8_valid fuel it acc) = false.
Proof.
  induction fuel as [|f0 fuel IH]; intros it acc F; [cbn in F; lia|].
  cbn [collect]. pose proof (iter_next_spec it) as S.
  destruct (iter_next utf8_valid it) as [[[b|e|k]|] it']; try reflexivity; [|contradiction].
  apply IH. cbn [length] in F. lia.
Qed.

Theorem read_metadata_total p s : is_panic (read_metadata utf8_valid p s) = false.
Proof. unfold read_metadata, read_blocks. apply collect_np. cbn. lia. Qed.
End WithUtf8.

(* ================================================================================== *)
(* cue sheet text                                                                      *)
(* ================================================================================== *)
Lemma bind_np {A B} (x : res A) (f : A -> res B) :
  is_panic x = false -> (forall a, is_panic (f a) = false) -> is_panic (bind x f) = false.
Proof. destruct x; cbn; intros; auto. Qed.

Lemma try_push_np {T} (vf : T -> bool) (nx : T -> T -> res bool) MAX items len item :
  (forall a b, is_panic (nx a b) = false) -> is_panic (try_push vf nx MAX items len item) = false.
Proof.
  intros H. unfold try_push. destruct (len <? MAX); [|reflexivity].
  apply bind_np; [destruct items; [reflexivity|apply H]|]. intros []; reflexivity.
Qed.

Lemma finish_track_np w : is_panic (finish_track w) = false.
Proof.
  unfold finish_track. destruct (w_offset w); [|reflexivity].
  apply bind_np; [apply indexvec_try_from_np|reflexivity].
Qed.
Lemma push_track_np cdda st t : is_panic (push_track cdda st t) = false.
Proof.
  unfold push_track. apply bind_np; [apply try_push_np, track_is_next_np|]. intros [x|]; reflexivity.
Qed.

Lemma cdda_catalog_np s : is_panic (cdda_catalog s) = false.
Proof. unfold cdda_catalog. destruct (forallb _ _); [destruct (_ =? _)|]; reflexivity. Qed.
Lemma non_cdda_catalog_np s : is_panic (non_cdda_catalog s) = false.
Proof. unfold non_cdda_catalog. destruct (forallb _ _); [destruct (_ <=? _)|]; reflexivity. Qed.

Lemma parse_line_np cdda st raw : is_panic (parse_line cdda st raw) = false.
Proof.
  unfold parse_line, parse_trimmed.
  destruct (match split_once 32 (trim raw) with Some p => p | None => (trim raw, []) end) as [kw rest].
  destruct (list_eqb kw kw_CATALOG).
  { destruct rest; [reflexivity|]. destruct (ps_catalog st); [reflexivity|].
    apply bind_np; [|reflexivity]. destruct cdda.
    - apply bind_np; [apply cdda_catalog_np|reflexivity].
    - apply non_cdda_catalog_np. }
  destruct (list_eqb kw kw_TRACK).
  { destruct (split_once 32 rest) as [[num x]|]; [|reflexivity].
    destruct (parse_nonzero_u8 num); [|reflexivity].
    destruct (ps_wip st); [|reflexivity].
    apply bind_np; [apply finish_track_np|]. intros t.
    apply bind_np; [apply push_track_np|reflexivity]. }
  destruct (list_eqb kw kw_INDEX).
  { destruct (split_once 32 rest) as [[num off]|]; [|reflexivity].
    destruct (parse_u8 num); [|reflexivity]. destruct (parse_offset cdda off); [|reflexivity].
    destruct (ps_wip st) as [w|]; [|reflexivity].
    apply bind_np.
    - destruct (w_offset w); [destruct (_ <? _); reflexivity|].
      destruct ((ps_ntracks st =? 0) && negb (n0 =? 0)); reflexivity.
    - intros [ix w1]. apply bind_np; [apply try_push_np, index_is_next_np|]. intros [x|]; reflexivity. }
  destruct (list_eqb kw kw_ISRC).
  { destruct (ps_wip st) as [w|]; [|reflexivity]. destruct (w_ix_rev w); [|reflexivity].
    destruct (w_isrc w); [|reflexivity]. destruct (isrc_from_str _); reflexivity. }
  destruct (list_eqb kw kw_FLAGS && list_eqb rest kw_PRE).
  { destruct (ps_wip st) as [w|]; [|reflexivity]. destruct (w_ix_rev w); reflexivity. }
  reflexivity.
Qed.

Lemma parse_lines_np cdda : forall ls st, is_panic (parse_lines cdda st ls) = false.
Proof.
  induction ls as [|l r IH]; intros st; [reflexivity|]. cbn [parse_lines].
  apply bind_np; [apply parse_line_np|]. intros st'. apply IH.
Qed.

Lemma parsed_cuesheet_np cdda text : is_panic (parsed_cuesheet cdda text) = false.
Proof.
  unfold parsed_cuesheet. apply bind_np; [apply parse_lines_np|]. intros st.
  destruct (ps_wip st); [|reflexivity].
  apply bind_np; [apply finish_track_np|]. intros t.
  apply bind_np; [apply push_track_np|reflexivity].
Qed.

Lemma leadout_new_np last off : is_panic (leadout_new last off) = false.
Proof. unfold leadout_new. destruct last; [destruct (_ <=? _)|]; reflexivity. Qed.

Theorem cue_parse_total p total text : is_panic (cue_parse p total text) = false.
Proof.
  unfold cue_parse. destruct (total mod SAMPLES_PER_SECTOR =? 0).
  - apply bind_np; [apply parsed_cuesheet_np|]. intros [cat tracks].
    apply bind_np; [apply leadout_new_np|reflexivity].
  - apply bind_np; [apply parsed_cuesheet_np|]. intros [cat tracks].
    apply bind_np; [apply leadout_new_np|reflexivity].
Qed.

(* ================================================================================== *)
(* image sniffers                                                                      *)
(* ================================================================================== *)
Lemma read_be_shorter k s v s' : (0 < k)%nat -> read_be k s = Ok (v, s') -> (length s' < length s)%nat.
Proof. intros Hk H. eapply eats_read_be; eauto. Qed.
Lemma take_shorter n s v s' : take n s = Ok (v, s') -> (length s' <= length s)%nat.
Proof. intros H. pose proof (okp_take n s) as K. unfold okp_at in K. rewrite H in K. exact K. Qed.
Lemma skip_shorter n s v s' : skip n s = Ok (v, s') -> (length s' <= length s)%nat.
Proof. intros H. pose proof (okp_skip n s) as K. unfold okp_at in K. rewrite H in K. exact K. Qed.
Lemma read_be_np k s : is_panic (read_be k s) = false.
Proof. apply read_be_not_panic. Qed.

Lemma plte_colors_np : forall fuel s, (length s <= length fuel)%nat -> is_panic (plte_colors fuel s) = false.
Proof.
  induction fuel as [|f0 fuel IH]; intros s F; cbn [plte_colors].
  - destruct (read_be 4 s) as [[len s1]| |] eqn:E1; try reflexivity; [|pose proof (read_be_np 4 s) as K; rewrite E1 in K; discriminate].
    apply read_be_shorter in E1; [|lia]. cbn in F. lia.
  - destruct (read_be 4 s) as [[len s1]| |] eqn:E1; try reflexivity; [|pose proof (read_be_np 4 s) as K; rewrite E1 in K; discriminate].
    apply read_be_shorter in E1; [|lia].
    destruct (take 4 s1) as [[name s2]| |] eqn:E2; try reflexivity; [|pose proof (take_not_panic 4 s1) as K; rewrite E2 in K; discriminate].
    apply take_shorter in E2.
    destruct (bytes_eqb name PLTE); [destruct (_ =? 0); reflexivity|].
    destruct (skip len s2) as [[u s3]| |] eqn:E3; try reflexivity; [|pose proof (skip_not_panic len s2) as K; rewrite E3 in K; discriminate].
    apply skip_shorter in E3.
    destruct (read_be 4 s3) as [[crc s4]| |] eqn:E4; try reflexivity; [|pose proof (read_be_np 4 s3) as K; rewrite E4 in K; discriminate].
    apply read_be_shorter in E4; [|lia]. apply IH. cbn [length] in F. lia.
Qed.

Lemma parser_res_np {A B} (p : parser A) (f : A * list N -> res B) s :
  okp p -> (forall x, is_panic (f x) = false) ->
  is_panic (match p s with Ok x => f x | Err e => Err e | Panic k => Panic k end) = false.
Proof.
  intros Hp Hf. pose proof (Hp s) as K. unfold okp_at in K. destruct (p s) as [x| |]; auto. contradiction.
Qed.

Lemma try_png_np data : is_panic (try_png data) = false.
Proof.
  unfold try_png.
  match goal with |- is_panic (match ?p data with _ => _ end) = false =>
    assert (Hp : okp p) by okp_auto; pose proof (Hp data) as K; unfold okp_at in K;
    destruct (p data) as [[[[[w h] d] c] rest]| |]; [|reflexivity|contradiction] end.
  destruct c as [|c]; [reflexivity|].
  pose proof (plte_colors_np rest rest (le_n _)) as Q.
  repeat (destruct c as [c|c|]; try reflexivity); destruct (plte_colors rest rest); try reflexivity; discriminate.
Qed.

Lemma jpeg_loop_np : forall fuel s, (length s <= length fuel)%nat -> is_panic (jpeg_loop fuel s) = false.
Proof.
  induction fuel as [|f0 fuel IH]; intros s F; cbn [jpeg_loop].
  - destruct (read_be 1 s) as [[ff s1]| |] eqn:E1; try reflexivity; [|pose proof (read_be_np 1 s) as K; rewrite E1 in K; discriminate].
    apply read_be_shorter in E1; [|lia]. cbn in F. lia.
  - destruct (read_be 1 s) as [[ff s1]| |] eqn:E1; try reflexivity; [|pose proof (read_be_np 1 s) as K; rewrite E1 in K; discriminate].
    apply read_be_shorter in E1; [|lia].
    destruct (negb (ff =? 255)); [reflexivity|].
    destruct (read_be 1 s1) as [[marker s2]| |] eqn:E2; try reflexivity; [|pose proof (read_be_np 1 s1) as K; rewrite E2 in K; discriminate].
    apply read_be_shorter in E2; [|lia].
    destruct (is_sof marker).
    + match goal with |- is_panic (match ?p s2 with _ => _ end) = false =>
        assert (Hp : okp p) by okp_auto; pose proof (Hp s2) as K; unfold okp_at in K;
        destruct (p s2) as [[m r]| |]; [reflexivity|reflexivity|contradiction] end.
    + destruct (read_be 2 s2) as [[seg s3]| |] eqn:E3; try reflexivity; [|pose proof (read_be_np 2 s2) as K; rewrite E3 in K; discriminate].
      apply read_be_shorter in E3; [|lia]. destruct (seg <? 2); [reflexivity|].
      destruct (skip (seg - 2) s3) as [[u s4]| |] eqn:E4; try reflexivity; [|pose proof (skip_not_panic (seg - 2) s3) as K; rewrite E4 in K; discriminate].
      apply skip_shorter in E4. apply IH. cbn [length] in F. lia.
Qed.

Lemma try_jpeg_np data : is_panic (try_jpeg data) = false.
Proof.
  unfold try_jpeg.
  destruct (read_be 1 data) as [[a s1]| |] eqn:E1; try reflexivity; [|pose proof (read_be_np 1 data) as K; rewrite E1 in K; discriminate].
  destruct (negb (a =? 255)); [reflexivity|].
  destruct (read_be 1 s1) as [[b s2]| |] eqn:E2; try reflexivity; [|pose proof (read_be_np 1 s1) as K; rewrite E2 in K; discriminate].
  destruct (negb (b =? 216)); [reflexivity|]. apply jpeg_loop_np. lia.
Qed.

Lemma try_gif_np data : is_panic (try_gif data) = false.
Proof.
  unfold try_gif.
  match goal with |- is_panic (match ?p data with _ => _ end) = false =>
    assert (Hp : okp p) by okp_auto; pose proof (Hp data) as K; unfold okp_at in K;
    destruct (p data) as [[m r]| |]; [reflexivity|reflexivity|contradiction] end.
Qed.

Theorem sniff_total p data : is_panic (sniff p data) = false.
Proof.
  unfold sniff. destruct (starts_with data PNG_SIG); [apply try_png_np|].
  destruct (starts_with data JPEG_SIG); [apply try_jpeg_np|].
  destruct (starts_with data GIF_SIG); [apply try_gif_np|reflexivity].
Qed.

(* ================================================================================== *)
(* accessors on parsed block lists                                                     *)
(* ================================================================================== *)
(* what the STREAMINFO reader guarantees about the fields the accessors compute with *)
Definition si_ranges (si : streaminfo) : Prop :=
  si_rate si < 1048576 /\ (1 <= si_ch si /\ si_ch si <= 8) /\ (1 <= si_bps si /\ si_bps si <= 32) /\
  si_total si < 68719476736.

Lemma read_streaminfo_ranges s si r : read_streaminfo s = Ok (si, r) -> si_ranges si.
Proof.
  intros H. unfold read_streaminfo in H. do 5 inv_bind H.
  destruct (rd 20 (bits_of_bytes a3)) as [[rate t1]|] eqn:R1; [|discriminate].
  destruct (rd 3 t1) as [[c t2]|] eqn:R2; [|discriminate].
  destruct (rd 5 t2) as [[cnt t3]|] eqn:R3; [|discriminate].
  destruct (rd 36 t3) as [[total t4]|] eqn:R4; [|discriminate].
  apply rd_bound in R1, R2, R3, R4.
  change (2 ^ N.of_nat 20) with 1048576 in R1. change (2 ^ N.of_nat 3) with 8 in R2.
  change (2 ^ N.of_nat 5) with 32 in R3. change (2 ^ N.of_nat 36) with 68719476736 in R4.
  unfold bitcount_checked_add, signed_count in H.
  destruct (N.ltb_spec (cnt + 1) (2 ^ 32)) as [_|Hx]; [|change (2 ^ 32) with 4294967296 in Hx; lia].
  destruct (N.leb_spec (cnt + 1) 32) as [_|Hx]; [|lia].
  destruct (N.eqb_spec (cnt + 1) 0) as [Hx|_]; [lia|].
  inv_bind H. unfold pret in H. apply Ok_inj in H. injection H as <- <-.
  unfold si_ranges. cbn [si_rate si_ch si_bps si_total]. lia.
Qed.

Section Acc.
Variable utf8_valid : list N -> bool.

Lemma collect_prefix : forall fuel it acc out, collect utf8_valid fuel it acc = Ok out ->
  exists l, out = rev acc ++ l.
Proof.
  induction fuel as [|f0 fuel IH]; intros it acc out H; cbn [collect] in H;
    destruct (iter_next utf8_valid it) as [[[b|e|k]|] it']; try discriminate.
  - apply Ok_inj in H. exists []. rewrite app_nil_r. auto.
  - apply IH in H. destruct H as [l ->]. exists (b :: l). cbn [rev]. rewrite <- app_assoc. reflexivity.
  - apply Ok_inj in H. exists []. rewrite app_nil_r. auto.
Qed.

Lemma read_blocks_head s l : read_blocks utf8_valid s = Ok l ->
  exists si rest, l = BStreaminfo si :: rest /\ si_ranges si.
Proof.
  unfold read_blocks. cbn [collect]. unfold iter_next, iter_new. cbn [it_failed it_tag_read it_reader negb].
  destruct (take 4 s) as [[tag r0]| |]; try discriminate.
  destruct (forallb _ _); [|discriminate].
  unfold next_tagged. cbn [it_streaminfo_read negb]. unfold it_read_block. cbn [it_finished it_reader].
  destruct (read_block utf8_valid r0) as [[[last b] rest]| |] eqn:RB; try discriminate.
  destruct b as [si| | | | | |]; try discriminate.
  cbn [it_failed it_tag_read it_streaminfo_read it_seektable_read it_vorbiscomment_read it_png_read it_icon_read it_finished it_reader].
  intros H. apply collect_prefix in H. destruct H as [l' ->]. cbn [rev app].
  exists si, l'. split; [reflexivity|].
  unfold read_block in RB. destruct (read_header r0) as [[h s1]| |]; try discriminate.
  destruct (read_body utf8_valid (h_type h) (h_size h) (takeN (h_size h) s1)) as [[b lo]| |] eqn:B; try discriminate.
  destruct (_ =? 0); [|discriminate]. apply Ok_inj in RB. injection RB as _ -> _.
  destruct (h_type h); cbn [read_body] in B; inv_bind B; unfold pret in B; apply Ok_inj in B; try discriminate.
  injection B as <- _. eapply read_streaminfo_ranges; eauto.
Qed.

Lemma mul_w_ok p bits a b : a * b < 2 ^ bits -> mul_w p bits a b = Ok (a * b).
Proof. intros H. unfold mul_w. destruct (N.ltb_spec (a * b) (2 ^ bits)); [reflexivity|lia]. Qed.

Lemma div_ceil_le bps : bps <= 32 -> div_ceil bps 8 <= 4.
Proof.
  intros H. unfold div_ceil. apply N.lt_succ_r. apply N.div_lt_upper_bound; [discriminate|]. lia.
Qed.

Lemma decoded_len_np p si : si_ranges si -> is_panic (decoded_len p si) = false.
Proof.
  intros (R & [C1 C2] & [B1 B2] & T). unfold decoded_len. destruct (si_total si =? 0); [reflexivity|].
  unfold mul64. pose proof (div_ceil_le (si_bps si) B2) as D.
  assert (P1 : si_total si * si_ch si <= 68719476736 * 8) by (apply N.mul_le_mono; lia).
  assert (P2 : si_total si * si_ch si * div_ceil (si_bps si) 8 <= 68719476736 * 8 * 4) by (apply N.mul_le_mono; lia).
  rewrite mul_w_ok by (change (2 ^ 64) with 18446744073709551616; lia). cbn [bind].
  rewrite mul_w_ok by (change (2 ^ 64) with 18446744073709551616; lia). reflexivity.
Qed.

Lemma duration_np p si : si_ranges si -> is_panic (duration p si) = false.
Proof.
  intros (R & _ & _ & T). unfold duration. destruct (si_total si =? 0); [reflexivity|].
  destruct (N.ltb_spec 0 (si_rate si)) as [Hr|]; [|reflexivity]. cbn [negb].
  unfold div_w, rem_w. destruct (N.eqb_spec (si_rate si) 0) as [Hz|_]; [lia|]. cbn [bind].
  unfold mul64. assert (Hm : si_total si mod si_rate si < si_rate si) by (apply N.mod_upper_bound; lia).
  rewrite mul_w_ok by (change (2 ^ 64) with 18446744073709551616; nia). reflexivity.
Qed.

Lemma from_channels_np ch : 1 <= ch -> ch <= 8 -> is_panic (from_channels ch) = false.
Proof.
  intros H1 H2. unfold from_channels.
  destruct ch as [|q]; [lia|]. do 4 (destruct q as [q|q|]; try reflexivity); lia.
Qed.
Lemma channel_mask_np si rest : si_ranges si -> is_panic (channel_mask si rest) = false.
Proof.
  intros (_ & [C1 C2] & _). unfold channel_mask. apply bind_np; [apply from_channels_np; assumption|reflexivity].
Qed.

Lemma track_byte_ranges_np c ch bps : 1 <= ch -> 1 <= bps -> is_panic (track_byte_ranges c ch bps) = false.
Proof.
  intros H1 H2. unfold track_byte_ranges.
  destruct (N.eqb_spec ch 0); [lia|]. destruct (N.eqb_spec bps 0); [lia|]. reflexivity.
Qed.

(* every accessor on every list that parsed *)
Theorem accessors_total p s l : read_metadata utf8_valid p s = Ok l ->
  exists si rest, l = BStreaminfo si :: rest /\
    is_panic (decoded_len p si) = false /\ is_panic (duration p si) = false /\
    is_panic (channel_mask si rest) = false /\
    (forall c, In (BCuesheet c) l -> is_panic (track_byte_ranges c (si_ch si) (si_bps si)) = false).
Proof.
  unfold read_metadata. intros H. apply read_blocks_head in H. destruct H as (si & rest & -> & R).
  exists si, rest. split; [reflexivity|].
  split; [apply decoded_len_np, R|]. split; [apply duration_np, R|]. split; [apply channel_mask_np, R|].
  intros c _. destruct R as (_ & [C1 _] & [B1 _] & _). apply track_byte_ranges_np; assumption.
Qed.
End Acc.

(* ---- `<> Panic` forms *)
Lemma np_neq {A} (x : res A) : is_panic x = false -> forall k, x <> Panic k.
Proof. intros H k E. rewrite E in H. discriminate. Qed.

Lemma read_metadata_never_panics (utf8_valid : list N -> bool) p bytes k :
  read_metadata utf8_valid p bytes <> Panic k.
Proof. apply np_neq, read_metadata_total. Qed.
Lemma cue_parse_never_panics p total text k : cue_parse p total text <> Panic k.
Proof. apply np_neq, cue_parse_total. Qed.
Lemma sniff_never_panics p bytes k : sniff p bytes <> Panic k.
Proof. apply np_neq, sniff_total. Qed.

Lemma accessors_never_panic (utf8_valid : list N -> bool) p bytes l :
  read_metadata utf8_valid p bytes = Ok l ->
  exists si rest, l = BStreaminfo si :: rest /\
    (forall k, decoded_len p si <> Panic k) /\ (forall k, duration p si <> Panic k) /\
    (forall k, channel_mask si rest <> Panic k) /\
    (forall c k, In (BCuesheet c) l -> track_byte_ranges c (si_ch si) (si_bps si) <> Panic k).
Proof.
  intros H. destruct (accessors_total utf8_valid p bytes l H) as (si & rest & E & A & B & C & D).
  exists si, rest. split; [exact E|]. split; [apply np_neq, A|]. split; [apply np_neq, B|]. split; [apply np_neq, C|].
  intros c k Hin. apply np_neq, D, Hin.
Qed.

(* cue sheets imported from text: the accessors on the result (the byte ranges need a
   channel count and a depth; any non-zero pair, e.g. those of the stream) *)
Lemma cue_accessors_never_panic p total text c ch bps k :
  cue_parse p total text = Ok c -> 1 <= ch -> 1 <= bps -> track_byte_ranges c ch bps <> Panic k.
Proof. intros _ H1 H2. apply np_neq, track_byte_ranges_np; assumption. Qed.
