#!/usr/bin/env python3
"""Warm-up build: translators, every Coq directory, every harness binary (release + debug)."""
import glob
import os
import sys

sys.path.insert(0, os.path.dirname(os.path.abspath(__file__)))
import vlib

ok_all = True
rc, out = vlib.sh("python3 %s/tools/gen_crc.py %s %s/coq/base/GenCrc.v" % (vlib.VERIF, vlib.REPO, vlib.VERIF))
print(out.strip())
rc, out = vlib.sh("python3 %s/tools/gen_stream.py %s %s/coq/codec/GenStream.v" % (vlib.VERIF, vlib.REPO, vlib.VERIF))
print(out.strip())
# Coq directories in dependency order: base first, then every other directory with a _CoqProject
dirs = [os.path.join(vlib.VERIF, "coq", "base")]
for cp in sorted(glob.glob(os.path.join(vlib.VERIF, "coq", "*", "_CoqProject"))):
    d = os.path.dirname(cp)
    if d not in dirs:
        dirs.append(d)
order_file = os.path.join(vlib.VERIF, "coq", "ORDER")
if os.path.exists(order_file):
    want = [os.path.join(vlib.VERIF, "coq", l.strip()) for l in open(order_file) if l.strip() and not l.startswith("#")]
    dirs = [d for d in want if d in dirs] + [d for d in dirs if d not in want]
for d in dirs:
    pre = os.path.join(d, "pre_build.sh")
    if os.path.exists(pre):
        rc, out = vlib.sh("bash %s" % pre, cwd=d, timeout=600)
        print(out.strip()[-500:])
    ok, out = vlib.coq_make(d)
    print("coq %s: %s" % (os.path.relpath(d, vlib.VERIF), "ok" if ok else "FAILED"))
    if not ok:
        ok_all = False
        print(out[-3000:])
# harness binaries
hdir = os.path.join(vlib.VERIF, "harness")
for src in sorted(glob.glob(os.path.join(hdir, "src", "bin", "*.rs"))):
    name = os.path.splitext(os.path.basename(src))[0]
    for prof in ("release", "debug"):
        ok, binp, out = vlib.cargo_build(hdir, name, prof)
        print("harness %s (%s): %s" % (name, prof, "ok" if ok else "FAILED"))
        if not ok:
            ok_all = False
            print(out[-3000:])
# the checks rebuild what they need themselves; a warm-up failure is reported but is not fatal
print("setup: %s" % ("all ok" if ok_all else "some components failed to build (see above)"))
sys.exit(0)
