(* Codec/Props_codec.v — property theorems of the codec area (statement + `exact lemma` only). *)
From FlacCodec Require Import Parser_proofs Wf Spec Roundtrip_sub Roundtrip_hdr Roundtrip_frame Agree_frame Totality Progress Stream EncChoice Damage Prefix Interrupted Inverse Inverse_frame StreamRd StreamRd_proofs Lengths ParseWf Admissible DecLengths MustReject Enc Enc_proofs File.
From FlacBase Require Import Crc.
Open Scope N_scope.

(* C17 / C03 / C01 core: the structural parser (stream.rs Frame::read) inverts the writer on every
   well-formed syntax tree, whatever bytes follow the frame. *)
Theorem C17_parse_inverts_write : forall si f bytes rest,
  wf_frame si f = true -> write_frame f = Some bytes -> struct_frame si (bytes ++ rest) = Ok (f, rest).
Proof. exact frame_roundtrip. Qed.

(* C03 / C01 core : for EVERY well-formed, RFC-valid syntax tree — every syntactic
   alternative of the frame grammar, chosen independently — the streaming decoder (decode.rs) applied
   to the serialised frame returns exactly the samples the format defines, and leaves exactly the
   bytes that follow the frame. *)
Theorem C03_decoder_follows_format : forall si chk f bytes rest,
  wf_frame si f = true -> spec_frame f = true -> write_frame f = Some bytes ->
  chk (f_hdr f) = Ok tt ->
  dec_frame si chk (bytes ++ rest) = Ok (f_hdr f, sem_frame f, rest).
Proof. exact dec_frame_agree. Qed.

(* C02 core: the strict reference decoder accepts every such frame with the same samples *)
Lemma spec_decode_write si f bytes rest :
  wf_frame si f = true -> spec_frame f = true -> write_frame f = Some bytes ->
  spec_decode si (bytes ++ rest) = Ok (sem_frame f, rest).
Proof.
  intros Hwf Hsp Hw. unfold spec_decode. rewrite (frame_roundtrip si f bytes rest Hwf Hw). cbn [bind].
  rewrite Hwf, Hsp. reflexivity.
Qed.
Theorem C02_reference_decoder_accepts : forall si f bytes rest,
  wf_frame si f = true -> spec_frame f = true -> write_frame f = Some bytes ->
  spec_decode si (bytes ++ rest) = Ok (sem_frame f, rest).
Proof. exact spec_decode_write. Qed.

(* C01 core: the crate's decoder and the reference decoder agree on every valid frame *)
Theorem C01_decoders_agree : forall si f bytes rest,
  wf_frame si f = true -> spec_frame f = true -> write_frame f = Some bytes ->
  exists h, dec_frame si (fun _ => Ok tt) (bytes ++ rest) = Ok (h, sem_frame f, rest) /\
            spec_decode si (bytes ++ rest) = Ok (sem_frame f, rest).
Proof.
  intros si f bytes rest Hwf Hsp Hw. exists (f_hdr f). split.
  - apply dec_frame_agree; auto.
  - apply spec_decode_write; auto.
Qed.

(* C17, the other direction: for every frame the structural parser accepts, writing the parsed tree
   back yields the original bytes, provided what the tree does not record is canonical (reserved header
   bit 0, minimal-length frame number, zero padding bits) — the hypothesis of the property *)
Theorem C17_write_inverts_parse : forall si bytes f rest,
  Forall byte bytes -> struct_frame si bytes = Ok (f, rest) -> frame_canonical si bytes = true ->
  exists b, write_frame f = Some b /\ bytes = b ++ rest.
Proof. exact frame_inv. Qed.
(* at subframe level no side condition is needed: the tree records every bit *)
Theorem C17_subframe_write_inverts_parse : forall bs bps s sf r,
  struct_subframe bs bps s = Ok (sf, r) -> s = write_subframe bps sf ++ r.
Proof. exact struct_subframe_inv. Qed.

(* C16 on the scanning model of FlacStreamReader::read.
   (a) no fabricated frame: every frame returned starts at a sync code somewhere in the source and
       passed CRC-8 and CRC-16 there (dec_frame = Ok), `rest` being what follows it;
   (b) bytes that do not contain the sync pattern FF F8|F9 cost no frame;
   (c) a frame with a self-describing header decodes from its own header alone (C03 with si = None). *)
Theorem C16_no_fabricated_frame : forall fuel bytes h chans rest,
  scan fuel bytes = Ok (h, chans, rest) ->
  exists pre b2 tl, bytes = pre ++ 255 :: b2 :: tl /\ b2 / 2 = 124 /\
                    dec_frame None no_check (255 :: b2 :: tl) = Ok (h, chans, rest).
Proof. exact scan_gate. Qed.
Theorem C16_syncless_garbage_costs_no_frame : forall g b2 tl x fuel,
  syncless g = true -> b2 / 2 = 124 ->
  dec_frame None no_check (255 :: b2 :: tl) = Ok x ->
  (length (g ++ 255%N :: b2 :: tl) < fuel)%nat ->
  scan fuel (g ++ 255 :: b2 :: tl) = Ok x.
Proof. exact scan_skips_syncless. Qed.
Theorem C16_self_describing : forall f bytes rest,
  wf_frame None f = true -> spec_frame f = true -> write_frame f = Some bytes ->
  dec_frame None no_check (bytes ++ rest) = Ok (f_hdr f, sem_frame f, rest).
Proof. intros. apply dec_frame_agree; auto. Qed.

(* C16 for the frames the encoder model writes (FlacStreamWriter insists on header codes that do not refer to
   STREAMINFO): each decodes from its own bytes alone to the block encoded, and the scan finds it behind any bytes
   that do not contain the sync pattern *)
Theorem C16_encoder_frames_self_describing : forall o L rate bps number chans bytes rest rc,
  enc_frame_bytes o L rate bps number chans = Some bytes ->
  block_shape bps chans -> number <= MAX_FRAME_NUMBER ->
  code_of_rate rate = Some rc -> rc <> 0 -> code_of_bps bps <> 0 ->
  exists h, dec_frame None no_check (bytes ++ rest) = Ok (h, chans, rest) /\
            h_rate h = rate /\ h_bps h = bps /\ h_number h = number /\ h_bs h = block_len chans.
Proof. exact enc_frame_self_describing. Qed.
Theorem C16_encoder_frames_scanned : forall o L rate bps number chans bytes rest rc g fuel,
  enc_frame_bytes o L rate bps number chans = Some bytes ->
  block_shape bps chans -> number <= MAX_FRAME_NUMBER ->
  code_of_rate rate = Some rc -> rc <> 0 -> code_of_bps bps <> 0 ->
  syncless g = true -> (length (g ++ bytes ++ rest) < fuel)%nat ->
  exists h, scan fuel (g ++ bytes ++ rest) = Ok (h, chans, rest) /\
            h_rate h = rate /\ h_bps h = bps /\ h_number h = number /\ h_bs h = block_len chans.
Proof. exact enc_frame_scanned. Qed.

(* C16, whole raw streams: frames of the encoder model with independently varying rate / depth / channels / length /
   number, sync-free bytes before, between and after them: FlacStreamReader's loop (the scanning model) returns every
   frame with its own parameters and samples, in order, and then reports the end of the source *)
Theorem C16_encoder_stream_read_back : forall o L items trailer bytes fuel,
  subset_stream o L items trailer = Some bytes -> Forall item_ok items -> syncless trailer = true ->
  (length items < fuel)%nat ->
  exists out, stream_read_all fuel bytes [] = (out, EndErr EEof) /\ Forall2 item_hdr_ok items out.
Proof. exact subset_stream_read_back. Qed.

(* C17: every well-formed subframe expands to exactly block-size samples *)
Theorem C17_subframe_expands_to_block_size : forall bs bps sf,
  wf_subframe bs bps sf = true -> length (sem_subframe bs sf) = N.to_nat bs.
Proof. exact sem_subframe_length. Qed.

(* C17: whatever the structural parser accepts is a well-formed tree, so for EVERY accepted frame each
   subframe expands to exactly block-size samples *)
Theorem C17_parsed_frames_are_well_formed : forall si bytes f rest,
  struct_frame si bytes = Ok (f, rest) -> wf_frame si f = true.
Proof. exact struct_frame_wf. Qed.
Lemma wf_subframes_lengths h : forall subs i, wf_subframes h i subs = true ->
  Forall (fun sf => length (sem_subframe (h_bs h) sf) = N.to_nat (h_bs h)) subs.
Proof.
  induction subs as [|sf subs IH]; intros i H; [constructor|]. cbn [wf_subframes] in H.
  apply andb_prop in H. destruct H as [H1 H2]. constructor; [eapply sem_subframe_length; eauto|eapply IH; eauto].
Qed.
Theorem C17_parsed_subframes_expand_to_block_size : forall si bytes f rest,
  struct_frame si bytes = Ok (f, rest) ->
  Forall (fun sf => length (sem_subframe (h_bs (f_hdr f)) sf) = N.to_nat (h_bs (f_hdr f))) (f_subs f).
Proof.
  intros si bytes f rest H. apply struct_frame_wf in H. unfold wf_frame in H.
  repeat (apply andb_prop in H; destruct H as [H ?]).
  eapply wf_subframes_lengths; eauto.
Qed.

(* C01, existence half: every PCM block that fits the depth has an admissible frame standing for it
   (all-VERBATIM), so encoding can always succeed; by C03 it decodes back to the block *)
Theorem C01_every_block_has_an_admissible_frame : forall si h chans,
  wf_header si h = true ->
  match si with Some i => is_ok (header_checks i h) | None => true end = true ->
  h_assign h <? 8 = true -> 1 <= h_bps h -> h_bps h <= 32 ->
  length chans = N.to_nat (h_assign h + 1) ->
  Forall (fun c => length c = N.to_nat (h_bs h) /\ forallb (fits (h_bps h)) c = true) chans ->
  wf_frame si (verbatim_frame h chans) = true /\ spec_frame (verbatim_frame h chans) = true /\
  sem_frame (verbatim_frame h chans) = chans.
Proof. exact verbatim_frame_admissible. Qed.

(* C01/C03 at stream level: a stream made of valid frames decodes to all of their PCM, in order, and
   ends cleanly (total unknown, or known and exactly reached) *)
Theorem C03_complete_stream : forall si fs allb fuel cur acc,
  Forall (frame_ok si) fs -> frames_bytes fs = Some allb ->
  (si_total si = 0 \/ cur + total_samples fs = si_total si) ->
  (length allb < fuel)%nat ->
  dec_frames fuel si cur allb acc =
    (rev acc ++ map (fun f => interleave_frame (sem_frame f)) fs, EndEof).
Proof. exact complete_stream. Qed.

(* C04: no byte string makes the frame decoder panic ... *)
Theorem C04_frame_total : forall si chk bytes,
  (forall h, is_panic (chk h) = false) -> is_panic (dec_frame si chk bytes) = false.
Proof. exact dec_frame_total. Qed.
(* ... nor the whole-stream decoder, whose loop also cannot run out of fuel (termination) *)
Theorem C04_stream_total : forall file,
  match dec_stream file with Some (_, _, e) => is_end_panic e = false | None => True end.
Proof. exact dec_stream_total. Qed.
(* size half of C04 on the model: a decoded frame is at most 8 channels of h_bs <= 65535 samples *)
Theorem C04_decoded_frame_size : forall si chk bytes h chans rest,
  dec_frame si chk bytes = Ok (h, chans, rest) ->
  (length chans <= 8)%nat /\ Forall (fun c => length c = N.to_nat (h_bs h)) chans /\ h_bs h <= 65535.
Proof. exact dec_frame_size. Qed.
(* every decoded frame consumes at least two bytes of input *)
Theorem C04_frame_progress : forall si chk bytes h chans rest,
  dec_frame si chk bytes = Ok (h, chans, rest) -> (length rest + 2 <= length bytes)%nat.
Proof. exact dec_frame_progress. Qed.

(* C19: whatever candidates the (float) heuristics hand to encode_subframe's decision structure, the
   subframe it picks is no larger than 8 bits + the samples verbatim at the subframe's bit depth ... *)
Theorem C19_subframe_bound : forall bps xs fixed lpc,
  (1 <= length xs)%nat -> 1 <= bps -> (forall w, common_wasted xs = Some w -> w < bps) ->
  sf_bits bps (enc_subframe bps xs fixed lpc) <= 8 + N.of_nat (length xs) * bps.
Proof. exact enc_subframe_bound. Qed.
(* ... and a frame is at most 16 header bytes + its subframes rounded up to bytes + 2 CRC bytes *)
Theorem C19_frame_bound : forall f bytes (body_bits : nat),
  write_frame f = Some bytes ->
  (length (write_subframes (h_assign (f_hdr f)) (h_bps (f_hdr f)) 0 (f_subs f)) <= body_bits)%nat ->
  (length bytes <= 16 + (body_bits + 7) / 8 + 2)%nat.
Proof. exact frame_bytes_bound. Qed.

(* C05 at frame level: a single flipped bit inside a frame is never decoded as a frame of the same length *)
Theorem C05_flipped_frame_rejected : forall si chk bytes h c rest i k h' c' rest',
  Forall byte bytes -> dec_frame si chk bytes = Ok (h, c, rest) ->
  (i < length bytes - length rest)%nat -> k < 8 ->
  dec_frame si chk (flip16 bytes i k) = Ok (h', c', rest') -> length rest' <> length rest.
Proof. exact flipped_frame_not_same_length. Qed.

(* C05(e): must-reject classes — reserved / illegal codes are refused whatever else the frame contains *)
Theorem C05_reject_block_size_code_0 : forall si strategy r,
  parse_header_fields si (wr 15 SYNC_CODE ++ [strategy] ++ wr 4 0 ++ r) = Err EBlockSize.
Proof. exact reject_block_size_code_0. Qed.
Theorem C05_reject_rate_code_15 : forall si strategy bs_code r, bs_code < 16 -> bs_code <> 0 ->
  parse_header_fields si (wr 15 SYNC_CODE ++ [strategy] ++ wr 4 bs_code ++ wr 4 15 ++ r) = Err ESampleRate.
Proof. exact reject_rate_code_15. Qed.
Theorem C05_reject_reserved_subframe_type : forall t r, t < 64 -> t <> 0 -> t <> 1 -> (t < 8 \/ (12 < t /\ t < 32)) ->
  p_subframe_header (false :: wr 6 t ++ r) = Err ESubframeType.
Proof. exact reject_reserved_subframe_type. Qed.
Theorem C05_reject_coding_method : forall order nres m r, 2 <= m -> m < 4 ->
  dec_residuals order nres (wr 2 m ++ r) = Err ECodingMethod.
Proof. exact reject_coding_method. Qed.
Theorem C05_reject_negative_shift : forall v r, 16 <= v -> v < 32 -> p_qlp_shift (wr 5 v ++ r) = Err ENegativeShift.
Proof. exact reject_negative_shift. Qed.

(* C05(d): a frame the decoder accepts, cut anywhere before its last byte, is an error (end of input),
   never a shorter frame *)
Theorem C05_truncated_frame_is_error : forall si chk bytes h c rest m,
  dec_frame si chk bytes = Ok (h, c, rest) -> (m < length bytes - length rest)%nat ->
  dec_frame si chk (firstn m bytes) = Err EEof.
Proof. exact truncated_frame_is_eof. Qed.

(* C14: complete valid frames followed by a proper prefix of one more valid frame (an encode interrupted at
   any byte) decode to exactly the PCM of the complete frames; then end-of-stream or an error, no panic *)
Theorem C14_interrupted_stream : forall si fs allb g gb m fuel cur acc,
  Forall (frame_ok si) fs -> frames_bytes fs = Some allb ->
  frame_ok si g -> write_frame g = Some gb -> (m < length gb)%nat ->
  (si_total si = 0 \/ cur + total_samples fs + h_bs (f_hdr g) <= si_total si) ->
  (length allb + m < fuel)%nat ->
  let '(out, e) := dec_frames fuel si cur (allb ++ firstn m gb) acc in
  out = rev acc ++ map (fun f => interleave_frame (sem_frame f)) fs /\ is_end_panic e = false.
Proof. exact interrupted_stream. Qed.

(* ---- the encoder as written (Enc.v: integer path of encode.rs, LPC parameters from any oracle) ----
   C02 for the encoder: every frame tree it builds from a block in range is well-formed and RFC-valid,
   stands for exactly the block, and carries the requested number and block size *)
Theorem C02_encoder_frame_valid : forall o L si rate bps number chans f,
  enc_frame o L rate bps number chans = Some f ->
  block_ok si bps chans -> si_rate si = rate -> number <= MAX_FRAME_NUMBER ->
  wf_frame (Some si) f = true /\ spec_frame f = true /\ sem_frame f = chans /\ h_number (f_hdr f) = number /\
  h_bs (f_hdr f) = block_len chans.
Proof. exact enc_frame_ok. Qed.
(* C01 for the encoder, one frame: the decoder model (and the strict reference decoder) return the block
   from the encoder's bytes, for every option set, every LPC oracle and whatever bytes follow *)
Theorem C01_encoder_frame_lossless : forall o L si rate bps number chans bytes rest chk,
  enc_frame_bytes o L rate bps number chans = Some bytes ->
  block_ok si bps chans -> si_rate si = rate -> number <= MAX_FRAME_NUMBER ->
  (forall h, h_bs h = block_len chans -> chk h = Ok tt) ->
  exists h, dec_frame (Some si) chk (bytes ++ rest) = Ok (h, chans, rest) /\ h_number h = number /\
            h_bs h = block_len chans /\
            spec_decode (Some si) (bytes ++ rest) = Ok (chans, rest).
Proof. exact enc_frame_roundtrip. Qed.
(* ... and encoding a block in range never fails *)
Theorem C01_encoder_never_fails : forall o L si rate bps number chans rc,
  block_ok si bps chans -> code_of_rate rate = Some rc -> number <= MAX_FRAME_NUMBER ->
  exists bytes, enc_frame_bytes o L rate bps number chans = Some bytes.
Proof. exact enc_frame_bytes_total. Qed.
(* C01 for the encoder, whole streams: the frames of consecutive blocks (only the last may be shorter
   than 15 samples when the total is known) decode to the blocks, in order, and the stream ends cleanly *)
Theorem C01_encoder_stream_lossless : forall o L si rate bps blocks k bytes fuel cur acc,
  enc_blocks o L rate bps k blocks = Some bytes ->
  Forall (block_ok si bps) blocks -> si_rate si = rate ->
  k + N.of_nat (length blocks) <= MAX_FRAME_NUMBER + 1 ->
  short_only_last si blocks ->
  (si_total si = 0 \/ cur + blocks_samples blocks = si_total si) ->
  (length bytes < fuel)%nat ->
  dec_frames fuel si cur bytes acc = (rev acc ++ map interleave_frame blocks, EndEof).
Proof. exact enc_stream_roundtrip. Qed.
(* C01 for the encoder, whole FILES: "fLaC", STREAMINFO, any further metadata blocks, then the frames of the
   blocks — the stream decoder returns the STREAMINFO, the blocks in order, and ends cleanly *)
Theorem C01_encoder_file_lossless : forall o L si others blocks bytes,
  enc_blocks o L (si_rate si) (si_bps si) 0 blocks = Some bytes ->
  si_ok si -> blocks_ok others ->
  Forall (block_ok si (si_bps si)) blocks ->
  N.of_nat (length blocks) <= MAX_FRAME_NUMBER + 1 ->
  short_only_last si blocks ->
  (si_total si = 0 \/ blocks_samples blocks = si_total si) ->
  dec_stream (file_of si others bytes) = Some (si, map interleave_frame blocks, EndEof).
Proof. exact enc_file_roundtrip. Qed.
(* C19 for the encoder as written: no side condition on the wasted bits is left *)
Theorem C19_encoder_subframe_bound : forall o L bps xs,
  xs <> [] -> forallb (fits bps) xs = true -> 1 <= bps ->
  sf_bits bps (enc_sub o L bps xs) <= 8 + N.of_nat (length xs) * bps.
Proof. exact enc_sub_bits. Qed.

(* ... and per frame: at most 16 header bytes + the channels verbatim (8 bits + n x depth each, one more bit
   per sample for the side channel of a stereo pair) rounded up to bytes + 2 CRC bytes *)
Theorem C19_encoder_frame_bound : forall o L si rate bps number chans bytes,
  enc_frame_bytes o L rate bps number chans = Some bytes -> block_ok si bps chans ->
  let ch := N.of_nat (length chans) in let n := block_len chans in
  N.of_nat (length bytes) <= 16 + (ch * (8 + n * bps) + (if ch =? 2 then n else 0) + 7) / 8 + 2.
Proof. exact enc_frame_size. Qed.

(* C19, second clause: a run of n equal samples costs at most 96 bits per channel, whatever n is *)
Theorem C19_encoder_constant_block : forall o L bps c n,
  (1 <= n)%nat -> fits bps c = true -> 1 <= bps -> bps <= 32 ->
  sf_bits bps (enc_sub o L bps (repeat c n)) <= 96.
Proof. exact enc_sub_constant. Qed.

(* non-vacuity: a 16-bit stereo block of 6 samples satisfies block_ok and the model encoder turns it into
   a side/right frame with FIXED predictors, which decodes back *)
Definition ex_si : streaminfo := {| si_min_bs := 16; si_max_bs := 16; si_min_fs := 0; si_max_fs := 0; si_rate := 44100;
  si_channels := 2; si_bps := 16; si_total := 0; si_md5 := [0; 0; 0; 0; 0; 0; 0; 0; 0; 0; 0; 0; 0; 0; 0; 0] |}.
Definition ex_block : list (list Z) := [[10; 12; 15; 19; 24; 30]%Z; [9; 12; 14; 19; 23; 30]%Z].
Definition ex_opts : eopts := {| eo_max_po := 5; eo_mid_side := true; eo_exhaustive := true; eo_rice2 := false |}.
Example ex_block_ok : block_ok ex_si 16 ex_block.
Proof.
  unfold block_ok, ex_block, ex_si. cbn [length si_bps si_channels si_max_bs]. repeat split; try lia.
  exists 6. repeat split; try lia. repeat constructor.
Qed.
Example ex_encoder_roundtrip :
  match enc_frame_bytes ex_opts None 44100 16 0 ex_block with
  | Some b => dec_frame (Some ex_si) (fun _ => Ok tt) (b ++ [7]) = Ok (
      {| h_variable := false; h_bs_code := 6; h_bs := 6; h_rate_code := 9; h_rate := 44100; h_assign := 9;
         h_bps_code := 4; h_bps := 16; h_number := 0 |}, ex_block, [7])
  | None => False end.
Proof. vm_compute. reflexivity. Qed.

Example ex_encoder_scanned :
  block_shape 16 ex_block /\ code_of_rate 44100 = Some 9 /\ code_of_bps 16 = 4 /\ syncless [1; 255; 3; 248] = true /\
  match enc_frame_bytes ex_opts None 44100 16 5 ex_block with
  | Some b => exists h, stream_read ([1; 255; 3; 248] ++ b ++ [7]) = Ok (h, ex_block, [7]) /\ h_number h = 5
  | None => False end.
Proof.
  split. { unfold block_shape, ex_block. cbn [length]. repeat split; try lia. exists 6. repeat split; try lia. repeat constructor. }
  split; [reflexivity|]. split; [reflexivity|]. split; [reflexivity|]. vm_compute. eexists. split; reflexivity.
Qed.

Definition ex_items : list sitem :=
  [ {| it_garbage := [1; 255; 3; 248]; it_rate := 44100; it_bps := 16; it_number := 5; it_block := ex_block |};
    {| it_garbage := []; it_rate := 8000; it_bps := 8; it_number := 0; it_block := [[1; -2; 3; -4]%Z] |};
    {| it_garbage := [255; 255; 0]; it_rate := 96000; it_bps := 24; it_number := 300; it_block := [[70000; -70000]%Z; [5; 6]%Z; [0; 0]%Z] |} ].
Example ex_stream_read_back :
  Forall item_ok ex_items /\
  match subset_stream ex_opts None ex_items [9; 255] with
  | Some b => snd (stream_read_all 10 b []) = EndErr EEof /\
              map snd (fst (stream_read_all 10 b [])) = map (fun it => interleave_frame (it_block it)) ex_items /\
              map (fun x => (h_rate (fst x), h_bps (fst x), h_number (fst x))) (fst (stream_read_all 10 b [])) =
                [(44100, 16, 5); (8000, 8, 0); (96000, 24, 300)]
  | None => False end.
Proof.
  assert (Hi : forall it n, syncless (it_garbage it) = true -> (1 <= length (it_block it) <= 8)%nat ->
            1 <= it_bps it -> it_bps it <= 32 -> 1 <= n -> n <= 65535 ->
            Forall (fun c => N.of_nat (length c) = n /\ forallb (fits (it_bps it)) c = true) (it_block it) ->
            it_number it <= MAX_FRAME_NUMBER -> (exists rc, code_of_rate (it_rate it) = Some rc /\ rc <> 0) ->
            code_of_bps (it_bps it) <> 0 -> item_ok it).
  { intros it n A B C D E F G H I J. split; [exact A|]. split; [|split; [exact H|split; [exact I|exact J]]].
    split; [exact B|]. split; [exact C|]. split; [exact D|]. exists n. auto. }
  split.
  - unfold ex_items, ex_block. constructor; [|constructor; [|constructor; [|constructor]]].
    + apply (Hi _ 6); [reflexivity | cbn; lia | cbn; lia | cbn; lia | lia | lia | repeat constructor | vm_compute; discriminate
      | exists 9; split; [reflexivity|discriminate] | vm_compute; discriminate].
    + apply (Hi _ 4); [reflexivity | cbn; lia | cbn; lia | cbn; lia | lia | lia | repeat constructor | vm_compute; discriminate
      | exists 4; split; [reflexivity|discriminate] | vm_compute; discriminate].
    + apply (Hi _ 2); [reflexivity | cbn; lia | cbn; lia | cbn; lia | lia | lia | repeat constructor | vm_compute; discriminate
      | exists 11; split; [reflexivity|discriminate] | vm_compute; discriminate].
  - vm_compute. repeat split; reflexivity.
Qed.

Example ex_encoder_file :
  match enc_blocks ex_opts None 44100 16 0 [ex_block] with
  | Some b => dec_stream (file_of ex_si [(4, [0; 0; 0; 0; 0; 0; 0; 0])] b) =
              Some (ex_si, [[10; 9; 12; 12; 15; 14; 19; 19; 24; 23; 30; 30]%Z], EndEof)
  | None => False end.
Proof. vm_compute. reflexivity. Qed.

(* C02 at file level: the strict stream validator — tag, STREAMINFO, every frame parses with valid CRCs, is well-formed
   and RFC-valid, RE-SERIALISES TO THE VERY BYTES IT WAS PARSED FROM (zero padding, minimal number coding), fixed-blocksize
   strategy with frame numbers 0,1,2,..., the advertised block size on every frame but the last, no block under 16 samples
   except the last, total consistent with STREAMINFO — accepts every file the encoder model writes and yields the blocks *)
Theorem C02_encoder_file_valid : forall o L si others blocks bytes,
  enc_blocks o L (si_rate si) (si_bps si) 0 blocks = Some bytes ->
  si_ok si -> blocks_ok others ->
  Forall (block_ok si (si_bps si)) blocks ->
  N.of_nat (length blocks) <= MAX_FRAME_NUMBER + 1 ->
  full_but_last si blocks ->
  16 <= si_min_bs si -> si_min_bs si <= si_max_bs si ->
  (si_total si = 0 \/ blocks_samples blocks = si_total si) ->
  spec_stream (file_of si others bytes) = Ok (si, blocks).
Proof. exact enc_file_spec_valid. Qed.
Example ex_encoder_file_valid :
  match enc_blocks ex_opts None 44100 16 0 [ex_block] with
  | Some b => spec_stream (file_of ex_si [(4, [0; 0; 0; 0; 0; 0; 0; 0])] b) = Ok (ex_si, [ex_block])
  | None => False end.
Proof. vm_compute. reflexivity. Qed.

(* C14 at file level: provisional header (STREAMINFO with the declared or zero total, any further blocks), complete
   frames, then a frame cut at any byte: the file still opens and yields exactly the complete frames *)
Theorem C14_interrupted_file : forall si others fs allb g gb m,
  si_ok si -> blocks_ok others ->
  Forall (frame_ok si) fs -> frames_bytes fs = Some allb ->
  frame_ok si g -> write_frame g = Some gb -> (m < length gb)%nat ->
  (si_total si = 0 \/ total_samples fs + h_bs (f_hdr g) <= si_total si) ->
  match dec_stream (file_of si others (allb ++ firstn m gb)) with
  | Some (si', out, e) => si' = si /\ out = map (fun f => interleave_frame (sem_frame f)) fs /\ is_end_panic e = false
  | None => False
  end.
Proof. exact interrupted_file. Qed.

(* C14 for the encoder as written: provisional header, the encoder model's frames of the blocks encoded so far, the
   frame of the next block cut at any byte *)
Theorem C14_encoder_interrupted_file : forall o L si others blocks bytes b gb m,
  enc_blocks o L (si_rate si) (si_bps si) 0 blocks = Some bytes ->
  enc_frame_bytes o L (si_rate si) (si_bps si) (N.of_nat (length blocks)) b = Some gb ->
  si_ok si -> blocks_ok others ->
  Forall (fun x => block_ok si (si_bps si) x /\ 14 < block_len x) (blocks ++ [b]) ->
  N.of_nat (length blocks) + 1 <= MAX_FRAME_NUMBER + 1 ->
  (m < length gb)%nat ->
  (si_total si = 0 \/ blocks_samples blocks + block_len b <= si_total si) ->
  match dec_stream (file_of si others (bytes ++ firstn m gb)) with
  | Some (si', out, e) => si' = si /\ out = map interleave_frame blocks /\ is_end_panic e = false
  | None => False
  end.
Proof. exact enc_interrupted_file. Qed.

(* non-vacuity: a concrete well-formed frame (16-bit mono, 4 samples, FIXED order 1, one Rice partition) *)
Definition ex_hdr : header := {| h_variable := false; h_bs_code := 6; h_bs := 4; h_rate_code := 9; h_rate := 44100;
  h_assign := 0; h_bps_code := 4; h_bps := 16; h_number := 0 |}.
Definition ex_frame : frame := {| f_hdr := ex_hdr; f_subs :=
  [{| sf_wasted := 0; sf_body := BFixed 1 [-6%Z] {| r_method := 0; r_parts := [PRice 2 [3; 5; 5]%Z] |} |}] |}.
Example ex_frame_wf : wf_frame None ex_frame = true.
Proof. vm_compute. reflexivity. Qed.
Example ex_frame_spec : spec_frame ex_frame = true.
Proof. vm_compute. reflexivity. Qed.
Example ex_frame_roundtrip :
  match write_frame ex_frame with
  | Some b => struct_frame None (b ++ [1; 2; 3]) = Ok (ex_frame, [1; 2; 3]) /\ sem_frame ex_frame = [[-6; -3; 2; 7]%Z]
  | None => False end.
Proof. vm_compute. split; reflexivity. Qed.
