(* E2E/DecodedFile.v — codec decoder x readers for EVERY file, not only those this crate wrote: whenever the stream
   decoder model reads a file to a clean end, the readers area's abstract file of the decoded blocks is a valid file
   (the hypothesis of all C06/C07 theorems: channel counts, block shapes, the declared total, the short-block rule the
   decoder enforces), and its PCM is what the decoder returned.  Hence every seek-free history of the reader
   front-end models delivers exactly the decoded samples. *)
From Coq Require Import List NArith ZArith Lia.
From FlacBase Require Import Res.
From FlacCodec Require Ast Stream Header Wf Enc Enc_proofs Dec DecLengths.
From FlacReaders Require Readers Spec Ser RNum Seek Props_C07.
From FlacE2E Require Import Sample ReadBridge.
Import ListNotations.
Open Scope N_scope.

Module CS := FlacCodec.Stream.
Module A := FlacCodec.Ast.

(* dec_frames, keeping the channels of every frame *)
Fixpoint dec_blocks (fuel : nat) (si : A.streaminfo) (current : N) (bytes : list N) (acc : list (list (list Z)))
  : list (list (list Z)) * CS.stream_end :=
  match fuel with
  | O => (rev acc, CS.EndPanic PFuel)
  | S f => match CS.read_frame si current bytes with
           | Ok None => (rev acc, CS.EndEof)
           | Ok (Some (chans, cur', rest)) => dec_blocks f si cur' rest (chans :: acc)
           | Err e => (rev acc, CS.EndErr e)
           | Panic k => (rev acc, CS.EndPanic k)
           end
  end.

Lemma dec_frames_of_blocks : forall fuel si cur bytes acc,
  CS.dec_frames fuel si cur bytes (map CS.interleave_frame acc) =
  (map CS.interleave_frame (fst (dec_blocks fuel si cur bytes acc)), snd (dec_blocks fuel si cur bytes acc)).
Proof.
  induction fuel as [|f IH]; intros si cur bytes acc; cbn [CS.dec_frames dec_blocks fst snd].
  - rewrite map_rev. reflexivity.
  - destruct (CS.read_frame si cur bytes) as [[[[chans cur'] rest]|]| |]; cbn [fst snd]; try (rewrite map_rev; reflexivity).
    rewrite <- (IH si cur' rest (chans :: acc)). reflexivity.
Qed.

Definition good_block (ch : N) (b : list (list Z)) : Prop :=
  length b = N.to_nat ch /\ exists n, 1 <= n <= 65535 /\ Forall (fun c => length c = N.to_nat n) b.
Definition samples_of (bl : list (list (list Z))) : N := FlacCodec.Enc_proofs.blocks_samples bl.
Fixpoint short_ok (bl : list (list (list Z))) : Prop :=
  match bl with [] => True | b :: r => (r = [] \/ 14 < FlacCodec.Enc.block_len b) /\ short_ok r end.

Lemma block_len_good ch b n : good_block ch b -> 1 <= ch -> Forall (fun c => length c = N.to_nat n) b -> FlacCodec.Enc.block_len b = n.
Proof. intros [L _] Hc F. destruct b as [|c0 r]; [cbn in L; lia|]. apply Forall_cons_iff in F. destruct F as [E _]. cbn. lia. Qed.

Lemma dec_blocks_inv si : 1 <= A.si_channels si -> forall fuel cur bytes acc blocks,
  dec_blocks fuel si cur bytes acc = (blocks, CS.EndEof) ->
  exists new, blocks = rev acc ++ new /\ Forall (good_block (A.si_channels si)) new /\
              (A.si_total si <> 0 -> cur + samples_of new = A.si_total si /\ short_ok new).
Proof.
  intros Hch. induction fuel as [|f IH]; intros cur bytes acc blocks H; cbn [dec_blocks] in H; [discriminate|].
  destruct (CS.read_frame si cur bytes) as [[[[chans cur'] rest]|]| |] eqn:Er; try discriminate.
  - (* one more frame *)
    destruct (IH cur' rest (chans :: acc) blocks H) as (new' & Eb & Gn & Ht).
    exists (chans :: new'). cbn [rev] in Eb. rewrite <- app_assoc in Eb. split; [exact Eb|].
    unfold CS.read_frame in Er.
    assert (Hshape : exists h chk, FlacCodec.Dec.dec_frame (Some si) chk bytes = Ok (h, chans, rest) /\ cur' = cur + A.h_bs h /\
                      (A.si_total si <> 0 -> chk = (fun h => if (Z.of_N (A.h_bs h) =? Z.of_N (A.si_total si) - Z.of_N cur)%Z || (14 <? A.h_bs h) then Ok tt else Err EShortBlock) /\ cur <= A.si_total si)).
    { destruct (N.eqb_spec (A.si_total si) 0) as [E0|N0].
      - destruct bytes as [|b0 bt]; [discriminate|].
        destruct (FlacCodec.Dec.dec_frame (Some si) (fun _ => Ok tt) (b0 :: bt)) as [[[h ch'] r']| |] eqn:Ed; try discriminate.
        cbn [bind] in Er. injection Er as <- <- <-. exists h, (fun _ => Ok tt). split; [exact Ed|]. split; [reflexivity|]. intros X; congruence.
      - destruct (N.ltb_spec (A.si_total si) cur); [discriminate|]. cbv zeta in Er.
        destruct (Z.eqb_spec (Z.of_N (A.si_total si) - Z.of_N cur) 0); [discriminate|].
        match type of Er with bind (FlacCodec.Dec.dec_frame _ ?c _) _ = _ => set (chk := c) in * end.
        destruct (FlacCodec.Dec.dec_frame (Some si) chk bytes) as [[[h ch'] r']| |] eqn:Ed; try discriminate.
        cbn [bind] in Er. injection Er as <- <- <-. exists h, chk. split; [exact Ed|]. split; [reflexivity|]. intros _. split; [reflexivity|assumption]. }
    destruct Hshape as (h & chk & Hd & Ecur & Hdecl).
    destruct (FlacCodec.DecLengths.dec_frame_shape si chk bytes h chans rest Hd) as (Lc & Fc & B1 & B2 & _ & Hchk & _ & _ & C8).
    assert (Gc : good_block (A.si_channels si) chans) by (split; [exact Lc|exists (A.h_bs h); split; [lia|exact Fc]]).
    split; [constructor; assumption|]. intros N0.
    destruct (Ht N0) as [Hsum Hshort]. destruct (Hdecl N0) as [Echk Hle].
    assert (Ebl : FlacCodec.Enc.block_len chans = A.h_bs h) by (eapply block_len_good; eauto).
    split.
    + unfold samples_of, FlacCodec.Enc_proofs.blocks_samples in *. cbn [fold_right]. rewrite Ebl. lia.
    + cbn [short_ok]. split; [|exact Hshort]. rewrite Ebl.
      rewrite Echk in Hchk. destruct (Z.eqb_spec (Z.of_N (A.h_bs h)) (Z.of_N (A.si_total si) - Z.of_N cur)) as [Eq|_].
      * (* this frame exhausts the declared total: nothing follows *)
        left. assert (Ec' : cur' = A.si_total si) by lia.
        destruct f as [|f']; [cbn in H; discriminate|]. cbn [dec_blocks] in H. unfold CS.read_frame in H.
        destruct (N.eqb_spec (A.si_total si) 0); [contradiction|]. rewrite Ec' in H.
        destruct (N.ltb_spec (A.si_total si) (A.si_total si)); [lia|]. cbv zeta in H. rewrite Z.sub_diag in H. cbn [Z.eqb] in H.
        injection H as <-. cbn [rev] in Eb. apply app_inv_head in Eb. cbn [app] in Eb. injection Eb as <-. reflexivity.
      * cbn [orb] in Hchk. destruct (N.ltb_spec 14 (A.h_bs h)); [right; assumption|discriminate].
  - (* the end *)
    injection H as <-. exists []. rewrite app_nil_r. split; [reflexivity|]. split; [constructor|]. intros N0.
    unfold CS.read_frame in Er. destruct (N.eqb_spec (A.si_total si) 0); [contradiction|].
    destruct (N.ltb_spec (A.si_total si) cur); [discriminate|]. cbv zeta in Er.
    destruct (Z.eqb_spec (Z.of_N (A.si_total si) - Z.of_N cur) 0) as [E|]; [|destruct (FlacCodec.Dec.dec_frame _ _ _) as [[[? ?] ?]| |]; discriminate].
    unfold samples_of. cbn. split; [lia|exact I].
Qed.

Lemma good_block_wf ch b : 1 <= ch -> good_block ch b ->
  RS.wf_frame ch b /\ Ser.pcm_frames b = FlacCodec.Enc.block_len b /\ 1 <= FlacCodec.Enc.block_len b <= 65535 /\
  exists n, b <> [] /\ Forall (fun c => length c = n) b.
Proof.
  intros Hc (L & n & Hn & F). destruct b as [|c0 r]; [cbn in L; lia|].
  assert (L0 : length c0 = N.to_nat n) by (apply Forall_cons_iff in F; tauto).
  assert (Hpf : Ser.pcm_frames (c0 :: r) = n) by (cbn [Ser.pcm_frames]; unfold FlacReaders.RNum.lenN; lia).
  split; [|split; [|split]].
  - unfold RS.wf_frame. rewrite Hpf. unfold FlacReaders.RNum.lenN. split; [lia|]. split; [lia|].
    eapply Forall_impl; [|exact F]. intros c Hl. cbn beta in Hl. lia.
  - rewrite Hpf. cbn [FlacCodec.Enc.block_len]. lia.
  - cbn [FlacCodec.Enc.block_len]. lia.
  - exists (N.to_nat n). split; [discriminate|exact F].
Qed.

Lemma sumlen_good ch blocks : 1 <= ch -> Forall (good_block ch) blocks -> RS.sumlen (map R.SFrame blocks) = samples_of blocks.
Proof.
  intros Hc. induction 1 as [|b l Hb _ IH]; [reflexivity|]. unfold samples_of, FlacCodec.Enc_proofs.blocks_samples in *.
  cbn [map RS.sumlen fold_right RS.slot_frame]. rewrite IH. destruct (good_block_wf ch b Hc Hb) as (_ & E & _). rewrite E. reflexivity.
Qed.

Theorem decoded_file_valid si audio blocks e p :
  1 <= A.si_channels si -> 1 <= A.si_bps si <= 32 ->
  dec_blocks (S (length audio)) si 0 audio [] = (blocks, CS.EndEof) ->
  samples_of blocks < 2 ^ 36 ->
  let F := file_of_blocks blocks (A.si_channels si) (A.si_bps si) (if A.si_total si =? 0 then None else Some (A.si_total si)) e p in
  RS.valid_file F /\ RS.pcm F = concat (map CS.interleave_frame blocks).
Proof.
  intros Hch Hbps Hdec Hlt F. subst F.
  destruct (dec_blocks_inv si Hch _ _ _ _ _ Hdec) as (new & Eb & Gn & Ht). cbn [rev app] in Eb. subst new.
  assert (C8 : A.si_channels si <= 8 \/ blocks = []).
  { destruct blocks as [|b bl]; [right; reflexivity|left]. apply Forall_cons_iff in Gn. destruct Gn as [(L & n & _ & F0) _].
    (* the count is a channel assignment's: at most 8 — from the decoder; here: length b = channels and b came from dec_frame *)
    cbn [dec_blocks] in Hdec. destruct (CS.read_frame si 0 audio) as [[[[chans cur'] rest]|]| |] eqn:Er; try discriminate.
    + unfold CS.read_frame in Er.
      assert (exists h chk, FlacCodec.Dec.dec_frame (Some si) chk audio = Ok (h, chans, rest)) as (h & chk & Hd).
      { destruct (A.si_total si =? 0).
        - destruct audio; [discriminate|]. destruct (FlacCodec.Dec.dec_frame _ _ _) as [[[h c'] r']| |] eqn:Ed; try discriminate.
          cbn [bind] in Er. injection Er as <- <- <-. eauto.
        - destruct (A.si_total si <? 0); [discriminate|]. cbv zeta in Er. destruct (_ =? 0)%Z; [discriminate|].
          destruct (FlacCodec.Dec.dec_frame _ _ _) as [[[h c'] r']| |] eqn:Ed; try discriminate.
          cbn [bind] in Er. injection Er as <- <- <-. eauto. }
      destruct (FlacCodec.DecLengths.dec_frame_shape si chk audio h chans rest Hd) as (_ & _ & _ & _ & _ & _ & _ & _ & C). exact C. }
  split.
  - constructor; cbn [file_of_blocks R.f_channels R.f_bps R.f_slots R.f_total R.f_table R.f_usize_bits R.f_rev].
    + exact Hch.
    + unfold Ser.bytes_per_sample. split; [apply N.div_le_lower_bound; lia|]. apply N.lt_succ_r. apply N.div_lt_upper_bound; lia.
    + apply Forall_forall. intros s Hs. apply in_map_iff in Hs. destruct Hs as (b & <- & Hb). exists b. split; [reflexivity|].
      rewrite Forall_forall in Gn. apply (good_block_wf _ _ Hch (Gn b Hb)).
    + destruct (N.eqb_spec (A.si_total si) 0) as [|N0]; [exact I|]. destruct (Ht N0) as [Hs _].
      unfold RS.total_frames. cbn [R.f_slots file_of_blocks]. rewrite (sumlen_good _ _ Hch Gn). lia.
    + intros Hdecl pre s post Esl Hpost. destruct (N.eqb_spec (A.si_total si) 0) as [|N0]; [congruence|].
      destruct (Ht N0) as [_ Hshort].
      assert (Hex : exists pre' b post', blocks = pre' ++ b :: post' /\ s = R.SFrame b /\ post' <> []).
      { clear - Esl Hpost. revert pre Esl. induction blocks as [|b0 bl IH]; intros pre Esl; [destruct pre; discriminate|].
        destruct pre as [|p0 pre]; cbn [map app] in Esl.
        - injection Esl as <- E. exists [], b0, bl. repeat split. intros ->. cbn in E. congruence.
        - injection Esl as _ E. destruct (IH pre E) as (pre' & b & post' & -> & Hs & Hp). exists (b0 :: pre'), b, post'. auto. }
      destruct Hex as (pre' & b & post' & -> & -> & Hp). cbn [RS.slot_frame].
      assert (Hb : good_block (A.si_channels si) b) by (rewrite Forall_forall in Gn; apply Gn; apply in_or_app; right; left; reflexivity).
      destruct (good_block_wf _ _ Hch Hb) as (_ & -> & _).
      clear - Hshort Hp. induction pre' as [|a l IH]; cbn [app short_ok] in Hshort.
      * destruct Hshort as [[E|H] _]; [congruence|exact H].
      * apply IH. destruct Hshort as [_ H]. exact H.
    + exact I.
    + unfold RS.total_frames, FlacReaders.Seek.bytes_per_pcm_frame. cbn [R.f_slots R.f_bps R.f_channels file_of_blocks].
      rewrite (sumlen_good _ _ Hch Gn). unfold FlacReaders.RNum.U64, Ser.bytes_per_sample.
      assert (Hq : (A.si_bps si + 7) / 8 <= 4) by (apply N.lt_succ_r; apply N.div_lt_upper_bound; lia).
      set (bp := (A.si_bps si + 7) / 8) in *. clearbody bp. change (2 ^ 36) with 68719476736 in Hlt.
      destruct C8 as [C8| ->]; [|cbn; lia].
      assert (bp * A.si_channels si <= 4 * 8) by (apply N.mul_le_mono; lia).
      assert (samples_of blocks * (bp * A.si_channels si) <= 68719476736 * 32) by (apply N.mul_le_mono; lia). lia.
    + reflexivity.
    + reflexivity.
  - unfold RS.pcm, RS.sdata. cbn [file_of_blocks R.f_slots]. rewrite slot_frames. f_equal.
    apply map_ext_in. intros b Hb. rewrite Forall_forall in Gn. destruct (good_block_wf _ _ Hch (Gn b Hb)) as (_ & _ & _ & n & Hne & Hf).
    eapply interleave_frame_agree; eauto.
Qed.

Lemma il_length : forall n (cs : list (list Z)), Forall (fun c => length c = n) cs -> length (il n cs) = (n * length cs)%nat.
Proof.
  induction n as [|k IH]; intros cs F; cbn [il]; [reflexivity|].
  destruct (heads_tails_uniform k cs F) as (_ & B & C). rewrite B. rewrite app_length, map_length, (IH _ C), map_length. lia.
Qed.

(* C07 on every file the stream decoder model reads to a clean end *)
Theorem decoded_file_is_read : forall file si frames e rp,
  CS.dec_stream file = Some (si, frames, CS.EndEof) ->
  1 <= A.si_channels si -> 1 <= A.si_bps si <= 32 ->
  N.of_nat (length (concat frames)) < 2 ^ 36 ->
  exists blocks, frames = map CS.interleave_frame blocks /\
    let F := file_of_blocks blocks (A.si_channels si) (A.si_bps si) (if A.si_total si =? 0 then None else Some (A.si_total si)) e rp in
    RS.valid_file F /\ RS.pcm F = concat frames /\
    forall ops, RS.no_sseek ops -> Forall RS.sop_ok (snd (FlacReaders.Seek.sample_run F ops)) ->
      let atr := map (RS.abs_s F) (snd (FlacReaders.Seek.sample_run F ops)) in
      Forall (RS.cur_ok (concat frames)) atr /\ RS.chained 0 atr (RS.spos F (fst (FlacReaders.Seek.sample_run F ops))) /\
      RS.exactly_once (concat frames) atr.
Proof.
  intros file si frames e rp Hd Hch Hbps Hlen.
  unfold CS.dec_stream in Hd. destruct (CS.read_metadata_min file) as [[si' audio]|]; [|discriminate].
  pose proof (dec_frames_of_blocks (S (length audio)) si' 0 audio []) as Hfb. cbn [map] in Hfb.
  destruct (CS.dec_frames (S (length audio)) si' 0 audio []) as [fr en] eqn:Ef. injection Hd as -> -> ->.
  destruct (dec_blocks (S (length audio)) si 0 audio []) as [blocks en'] eqn:Eb. cbn [fst snd] in Hfb. injection Hfb as Efr Een. subst en'.
  exists blocks. split; [exact Efr|]. cbv zeta.
  assert (Hlt : samples_of blocks < 2 ^ 36).
  { (* every block holds at least as many interleaved samples as PCM frames *)
    destruct (dec_blocks_inv si Hch _ _ _ _ _ Eb) as (new & Enew & Gn & _). cbn [rev app] in Enew. subst new.
    assert (Hle : samples_of blocks <= N.of_nat (length (concat (map CS.interleave_frame blocks)))).
    { clear - Gn Hch. induction Gn as [|b l Hb _ IH]; [cbn; lia|]. unfold samples_of, FlacCodec.Enc_proofs.blocks_samples in *.
      cbn [fold_right map concat]. rewrite app_length.
      destruct (good_block_wf _ _ Hch Hb) as (_ & _ & _ & n & Hne & Hf).
      rewrite interleave_frame_il. destruct b as [|c0 r]; [congruence|]. cbn [hd FlacCodec.Enc.block_len].
      apply Forall_cons_iff in Hf as Hf'. destruct Hf' as [L0 _].
      rewrite L0, (il_length n (c0 :: r) Hf). cbn [length]. destruct (good_block_wf _ _ Hch Hb) as (_ & _ & Hbl & _). cbn [FlacCodec.Enc.block_len] in Hbl. nia. }
    rewrite <- Efr in Hle. lia. }
  destruct (decoded_file_valid si audio blocks e rp Hch Hbps Eb Hlt) as [Hvalid Hpcm].
  rewrite Efr. split; [exact Hvalid|]. split; [exact Hpcm|].
  intros ops Hns Hops. rewrite <- Hpcm. apply FlacReaders.Props_C07.C07_sample_reader; assumption.
Qed.

(* C03 + C07: a file made of ANY valid frame trees (every legal syntactic alternative, not only this encoder's) behind a
   STREAMINFO and any further metadata blocks: the reader front-end model delivers the RFC semantics of the frames *)
From FlacCodec Require File Interrupted Spec Struct.
Theorem valid_file_is_read : forall si others fs allb (e : Ser.endian) (rp : FlacReaders.RNum.profile),
  FlacCodec.File.si_ok si -> FlacCodec.File.blocks_ok others ->
  Forall (FlacCodec.Interrupted.frame_ok si) fs -> FlacCodec.Interrupted.frames_bytes fs = Some allb ->
  (A.si_total si = 0 \/ FlacCodec.Interrupted.total_samples fs = A.si_total si) ->
  let pcm := concat (map (fun f => CS.interleave_frame (FlacCodec.Struct.sem_frame f)) fs) in
  N.of_nat (length pcm) < 2 ^ 36 ->
  exists F, RS.valid_file F /\ RS.pcm F = pcm /\
    forall ops, RS.no_sseek ops -> Forall RS.sop_ok (snd (FlacReaders.Seek.sample_run F ops)) ->
      let atr := map (RS.abs_s F) (snd (FlacReaders.Seek.sample_run F ops)) in
      Forall (RS.cur_ok pcm) atr /\ RS.chained 0 atr (RS.spos F (fst (FlacReaders.Seek.sample_run F ops))) /\
      RS.exactly_once pcm atr.
Proof.
  intros si others fs allb e rp Hsi Hok Hfs Hb Ht pcm Hlen.
  assert (Hdec : CS.dec_stream (FlacCodec.File.file_of si others allb) =
                 Some (si, map (fun f => CS.interleave_frame (FlacCodec.Struct.sem_frame f)) fs, CS.EndEof)).
  { unfold CS.dec_stream. rewrite (FlacCodec.File.read_file_metadata si others allb Hsi Hok).
    rewrite (FlacCodec.Interrupted.complete_stream si fs allb (S (length allb)) 0 [] Hfs Hb); [reflexivity| |lia].
    destruct Ht as [Ht|Ht]; [left; exact Ht|right; lia]. }
  destruct Hsi as (_ & _ & _ & _ & _ & C1 & _ & B1 & B32 & _).
  destruct (decoded_file_is_read _ si _ e rp Hdec C1 (conj B1 B32) Hlen) as (blocks & _ & Hv & Hp & H).
  eexists. split; [exact Hv|]. split; [exact Hp|exact H].
Qed.

(* the byte reader (either byte order) and the channel reader over the same decoded file *)
Theorem decoded_file_is_read_bytes_channels : forall file si frames e rp,
  CS.dec_stream file = Some (si, frames, CS.EndEof) ->
  1 <= A.si_channels si -> 1 <= A.si_bps si <= 32 ->
  N.of_nat (length (concat frames)) < 2 ^ 36 ->
  exists blocks, frames = map CS.interleave_frame blocks /\
    let F := file_of_blocks blocks (A.si_channels si) (A.si_bps si) (if A.si_total si =? 0 then None else Some (A.si_total si)) e rp in
    RS.pcm_bytes F = Ser.ser e (Ser.bytes_per_sample (A.si_bps si)) (concat frames) /\
    (forall ops, RS.no_bseek ops -> Forall RS.bop_ok (snd (FlacReaders.Seek.byte_run F ops)) ->
      let atr := map (RS.abs_b F) (snd (FlacReaders.Seek.byte_run F ops)) in
      Forall (RS.cur_ok (RS.pcm_bytes F)) atr /\ RS.chained 0 atr (RS.bpos F (fst (FlacReaders.Seek.byte_run F ops))) /\
      RS.exactly_once (RS.pcm_bytes F) atr) /\
    (forall ops c, (c < N.to_nat (A.si_channels si))%nat -> RS.no_cseek ops -> Forall RS.cop_ok (snd (FlacReaders.Seek.chan_run F ops)) ->
      let atr := map (RS.abs_c F c) (snd (FlacReaders.Seek.chan_run F ops)) in
      Forall (RS.cur_ok (RS.chan_pcm F c)) atr /\ RS.chained 0 atr (RS.cpos (fst (FlacReaders.Seek.chan_run F ops))) /\
      RS.exactly_once (RS.chan_pcm F c) atr /\ Forall (RS.chan_shape F) (snd (FlacReaders.Seek.chan_run F ops))) /\
    (forall c, (c < N.to_nat (A.si_channels si))%nat -> forall i, (i < N.to_nat (RS.total_frames F))%nat ->
      nth_error (RS.chan_pcm F c) i = nth_error (concat frames) (i * N.to_nat (A.si_channels si) + c)).
Proof.
  intros file si frames e rp Hd Hch Hbps Hlen.
  destruct (decoded_file_is_read file si frames e rp Hd Hch Hbps Hlen) as (blocks & Efr & Hv & Hp & _).
  exists blocks. split; [exact Efr|]. cbv zeta in *.
  set (F := file_of_blocks blocks (A.si_channels si) (A.si_bps si) (if A.si_total si =? 0 then None else Some (A.si_total si)) e rp) in *.
  split; [rewrite FlacReaders.Props_C07.C07_bytes_vs_samples, Hp; reflexivity|].
  split; [intros ops Hns Hops; apply FlacReaders.Props_C07.C07_byte_reader; assumption|].
  split; [intros ops c Hc Hns Hops; apply FlacReaders.Props_C07.C07_channel_reader; assumption|].
  intros c Hc i Hi. destruct (FlacReaders.Props_C07.C07_channels_deinterleaved F c Hv Hc) as (_ & _ & Hn).
  rewrite <- Hp. apply Hn. exact Hi.
Qed.
