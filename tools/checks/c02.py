"""C02 — encoder output is conforming RFC 9639 FLAC that an independent decoder accepts.

Search (harness/src/bin/c02.rs): every file the encoder produces over the C01 space (and raw
frames from FlacStreamWriter) is (a) emitted as a dec_stream case with "expect" for the
integrator's Coq-extracted RFC decoder, (b) judged in the harness by `refdec`, an independent
strict RFC 9639 decoder sharing no code with the crate (own bit reader, bitwise CRC-8/16, tables,
i128 arithmetic; stream rules: numbering, block sizes, totals, MD5), which must accept it and
reconstruct the input PCM, (c) checked directly through stream::FrameIterator: consecutive frame
numbers from 0, fixed strategy bit, every non-final block of the advertised size, CRCs (crate
hooks and independent), no residual outside (-2^31, 2^31), canonical re-serialisation."""
from checks import codech_util as cu


def run(chk):
    from checks import codec_common

    def extra(c, by_prof):
        # the integrator's strict RFC validator (Coq Spec, extracted) judges every encoded file
        cases = [x for x in c.cases if x.get("kind") == "dec_stream" and x.get("src") == "encoder" and "expect" in x]
        out = {"spec_stream_judged": 0, "spec_stream_failures": 0}
        if not cases:
            return out
        res = codec_common.run_model(chk, "spec_stream", cases)
        if res is None:
            chk.notes.append("model kind spec_stream not available: %d encoded files were judged by the harness's independent decoder only" % len(cases))
            return out
        bad = 0
        for x, r in zip(cases, res):
            out["spec_stream_judged"] += 1
            if r is None or r.get("end") != "ok":
                bad += 1
                if bad <= 3:
                    chk.violation("spec-stream-rejects", "the model's strict RFC 9639 validator rejects a file the encoder produced: %s" % (r or {}).get("end"),
                                  {"file_hex": x["bytes"], "expect": x["expect"], "cfg": x.get("cfg"), "model": r})
            elif r.get("samples") != x["expect"]:
                bad += 1
                if bad <= 3:
                    chk.violation("spec-stream-pcm", "the model's RFC 9639 decoder reconstructs different PCM from a file the encoder produced",
                                  {"file_hex": x["bytes"], "expect": x["expect"], "model_samples": r.get("samples"), "cfg": x.get("cfg")})
        out["spec_stream_failures"] = bad
        out.update(codec_common.encoder_model_tie(chk, c.cases))
        out.update(codec_common.composed_model_tie(chk, c.cases))
        return out

    cu.simple_check(
        chk, "C02", "c02", ["release"], kinds=["dec_stream", "dec_subset"],
        rule="one evaluation = one encoded file (or raw frame) judged by the independent decoder and the direct structural checks; distinct by (PCM shape x length x configuration x writer); non-trivial = the file holds at least one audio frame",
        assumptions=[
            "refdec (harness/src/bin/c01_shared/refdec.rs) is written from the format description without the RFC text at hand; its one known deviation is accepting 1..=32 bits per sample",
            "the Coq Spec validator (extracted) and refdec both judge every encoded file; the encoder model (Enc.enc_frame) must reproduce the frame bytes, its LPC parameters being read from the file (oracle)",
        ],
        evaluations=lambda s: cu.total(s, "files") + cu.total(s, "frames") + cu.total(s, "raw_stream_frames"),
        nontrivial=lambda s: cu.total(s, "files") + cu.total(s, "raw_stream_frames"),
        extra=extra)
