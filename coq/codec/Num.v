(* Codec/Num.v — Rust fixed-width integer semantics made explicit.
   profile = Debug (overflow checks + debug assertions on) | Release (wrapping). *)
From FlacBase Require Export Bits.
Open Scope Z_scope.

Inductive profile := Debug | Release.

(* two's-complement wrap of z to a signed integer of width w bits *)
Definition wrap_s (w : Z) (z : Z) : Z :=
  let m := 2 ^ w in
  let r := z mod m in
  if r <? 2 ^ (w - 1) then r else r - m.
Definition wrap_u (w : Z) (z : Z) : Z := z mod 2 ^ w.

Definition in_s (w z : Z) : bool := (- 2 ^ (w - 1) <=? z) && (z <? 2 ^ (w - 1)).
Definition in_u (w z : Z) : bool := (0 <=? z) && (z <? 2 ^ w).

(* result of a checked-in-debug signed arithmetic operation whose exact value is z *)
Definition arith_s (p : profile) (w z : Z) : res Z :=
  if in_s w z then Ok z else match p with Debug => Panic POverflow | Release => Ok (wrap_s w z) end.
Definition arith_u (p : profile) (w z : Z) : res Z :=
  if in_u w z then Ok z else match p with Debug => Panic POverflow | Release => Ok (wrap_u w z) end.

(* `x as i32`, `x as u32`, ... never trap *)
Definition as_i32 (z : Z) : Z := wrap_s 32 z.
Definition as_i64 (z : Z) : Z := wrap_s 64 z.
Definition as_u32 (z : Z) : Z := wrap_u 32 z.

(* i32::abs / i64::abs: MIN traps in debug, stays MIN in release *)
Definition abs_s (p : profile) (w z : Z) : res Z := arith_s p w (Z.abs z).

(* `x << k` on a signed integer of width w: the shift amount must be < w (else panic in debug;
   masked in release); bits shifted out are lost silently in both profiles *)
Definition shl_s (p : profile) (w z k : Z) : res Z :=
  if k <? w then Ok (wrap_s w (z * 2 ^ k))
  else match p with Debug => Panic POverflow | Release => Ok (wrap_s w (z * 2 ^ (k mod w))) end.
(* arithmetic `x >> k` *)
Definition shr_s (p : profile) (w z k : Z) : res Z :=
  if k <? w then Ok (z / 2 ^ k)
  else match p with Debug => Panic POverflow | Release => Ok (z / 2 ^ (k mod w)) end.

Lemma wrap_s_id w z : 0 < w -> in_s w z = true -> wrap_s w z = z.
Proof.
  intros Hw H. unfold in_s in H. apply andb_prop in H. destruct H as [H1 H2].
  apply Z.leb_le in H1. apply Z.ltb_lt in H2. unfold wrap_s.
  assert (E : 2 ^ w = 2 * 2 ^ (w - 1)).
  { replace w with (Z.succ (w - 1)) at 1 by lia. rewrite Z.pow_succ_r by lia. reflexivity. }
  assert (0 < 2 ^ (w - 1)) by (apply Z.pow_pos_nonneg; lia).
  destruct (Z_lt_le_dec z 0) as [Neg|Pos].
  - assert (z mod 2 ^ w = z + 2 ^ w) as -> by (symmetry; apply (Z.mod_unique_pos z _ (-1)); lia).
    destruct (Z.ltb_spec (z + 2 ^ w) (2 ^ (w - 1))); lia.
  - rewrite Z.mod_small by lia. destruct (Z.ltb_spec z (2 ^ (w - 1))); lia.
Qed.

Lemma wrap_s_range w z : 0 < w -> in_s w (wrap_s w z) = true.
Proof.
  intros Hw. unfold in_s, wrap_s.
  assert (E : 2 ^ w = 2 * 2 ^ (w - 1)).
  { replace w with (Z.succ (w - 1)) at 1 by lia. rewrite Z.pow_succ_r by lia. reflexivity. }
  assert (0 < 2 ^ (w - 1)) by (apply Z.pow_pos_nonneg; lia).
  pose proof (Z.mod_pos_bound z (2 ^ w) ltac:(lia)) as Hm.
  remember (z mod 2 ^ w) as r. clear Heqr.
  destruct (Z.ltb_spec r (2 ^ (w - 1))); apply andb_true_intro; split;
    try (apply Z.leb_le; lia); try (apply Z.ltb_lt; lia).
Qed.

Lemma arith_s_not_panic_release w z : is_panic (arith_s Release w z) = false.
Proof. unfold arith_s. destruct (in_s w z); reflexivity. Qed.
