(* readers/Seek.v — Decoder::seek, the seek of each reader front-end, and the step / run functions
   of the three state machines.  No proofs here. *)
From FlacReaders Require Export Readers.
Open Scope N_scope.

(* decode.rs:1455 Decoder::seek(frames_start, sample):
   the last seek point (in table order) whose sample_offset is defined and <= sample; the reader is
   positioned at that frame and current_sample set to its offset; with no such point (or no table)
   rewind to the first frame.  decoder.buf is left as it is.  `byte_offset` is represented by the
   index of the frame that starts there. *)
Definition point_le (sample : N) (p : seekpoint) : bool :=
  match p with Defined o _ => o <=? sample | Placeholder => false end.

Definition dec_rewind (F : file) (d : dec) : dec * res N :=
  ({| d_rest := f_slots F; d_cur := 0; d_buf := d_buf d |}, Ok 0).

Definition dec_seek (F : file) (d : dec) (sample : N) : dec * res N :=
  match f_table F with
  | Some points =>
      match last_matching (point_le sample) points with
      | Some (Defined o i) =>
          if o <=? sample                                  (* assert!( *sample_offset <= sample ) *)
          then ({| d_rest := dropN i (f_slots F); d_cur := o; d_buf := d_buf d |}, Ok o)
          else (d, Panic PAssert)
      | _ => dec_rewind F d
      end
  | None => dec_rewind F d
  end.

(* ------------------------------------------------------------------ byte reader: std::io::Seek *)
Inductive seekfrom := Start (p : N) | Current (d : Z) | End_ (d : Z).

(* decode.rs:719 bytes_per_pcm_frame: u32 product of bits.div_ceil(8) (<= 32) and channels (u8) *)
Definition bytes_per_pcm_frame (F : file) : N := bytes_per_sample (f_bps F) * f_channels F.

(* decode.rs:724-777: Ok (inl desired_pos) | Ok (inr p) = `return Ok(p)` | Err _ *)
Definition desired_pos (F : file) (r : byte_reader) (pos : seekfrom) : res (N + N) :=
  let p := f_profile F in
  let bpf := bytes_per_pcm_frame F in
  match pos with
  | Start q => Ok (inl q)
  | Current q =>
      (* original_pos = (decoder.current_sample * bytes_per_pcm_frame) - (buf.len() as u64) *)
      m <- u64_mul p (d_cur (br_dec r)) bpf ;;
      original_pos <- u64_sub p m (lenN (br_buf r)) ;;
      match (q ?= 0)%Z with
      | Lt => match checked_sub original_pos (unsigned_abs q) with
              | Some v => Ok (inl v) | None => Err EIo end       (* InvalidInput: below byte 0 *)
      | Eq => Ok (inr original_pos)
      | Gt => match checked_add original_pos (unsigned_abs q) with
              | Some v => Ok (inl v) | None => Err EIo end       (* InvalidInput: offset too large *)
      end
  | End_ q =>
      match f_total F with
      | None => Err EIo                                          (* NotSeekable: total unknown *)
      | Some total =>
          (* Orig: max_pos = total (a sample count, F-C06a); Repaired: total * bytes_per_pcm_frame *)
          max_pos <- match f_rev F with Orig => Ok total | Repaired => u64_mul p total bpf end ;;
          match (q ?= 0)%Z with
          | Lt => match checked_sub max_pos (unsigned_abs q) with
                  | Some v => Ok (inl v) | None => Err EIo end   (* InvalidInput: below byte 0 *)
          | Eq => Ok (inl max_pos)
          | Gt => Err EIo                                        (* InvalidInput: beyond end *)
          end
      end
  end.

(* decode.rs:791-807 `while new_pos < desired_pos { fill_buf; skip }`.
   Every round that does not return pops a frame, so fuel = frames left + 2 is never exhausted. *)
Fixpoint byte_skip (F : file) (fuel : nat) (r : byte_reader) (new_pos desired : N) : byte_reader * out :=
  if new_pos <? desired then
    match fuel with
    | O => (r, OPanic PFuel)
    | S fuel' =>
        let (r1, o) := byte_fill_buf F r in
        match o with
        | OBytes [] => (r1, OErr EEof)                 (* UnexpectedEof: stream exhausted *)
        | OBytes b =>
            match (diff <- u64_sub (f_profile F) desired new_pos ;;
                   usize_try_from_unwrap (f_usize_bits F) diff) with
            | Ok want =>
                let to_skip := N.min want (lenN b) in
                let (r2, o2) := byte_consume r1 to_skip in
                match o2 with
                | OUnit =>
                    match u64_add (f_profile F) new_pos to_skip with
                    | Ok np => byte_skip F fuel' r2 np desired
                    | Err e => (r2, OErr e)
                    | Panic k => (r2, OPanic k)
                    end
                | other => (r2, other)
                end
            | Err e => (r1, OErr e)
            | Panic k => (r1, OPanic k)
            end
        | other => (r1, other)
        end
    end
  else (r, OPos desired).

(* decode.rs:712 <FlacByteReader as Seek>::seek *)
Definition byte_seek (F : file) (r : byte_reader) (pos : seekfrom) : byte_reader * out :=
  match desired_pos F r pos with
  | Err e => (r, OErr e)
  | Panic k => (r, OPanic k)
  | Ok (inr p) => (r, OPos p)
  | Ok (inl desired) =>
      if negb (f_seekable F) then (r, OErr EIo) else              (* frames_start: NotSeekable *)
      match div_u desired (bytes_per_pcm_frame F) with
      | Ok sample =>
          let (d1, sr) := dec_seek F (br_dec r) sample in
          match sr with
          | Ok s =>
              match u64_mul (f_profile F) s (bytes_per_pcm_frame F) with
              | Ok new_pos =>
                  (* buf.clear() *)
                  byte_skip F (S (S (length (d_rest d1)))) {| br_dec := d1; br_buf := [] |} new_pos desired
              | Err e => ({| br_dec := d1; br_buf := br_buf r |}, OErr e)
              | Panic k => ({| br_dec := d1; br_buf := br_buf r |}, OPanic k)
              end
          | Err e => ({| br_dec := d1; br_buf := br_buf r |}, OErr e)
          | Panic k => ({| br_dec := d1; br_buf := br_buf r |}, OPanic k)
          end
      | Err e => (r, OErr e)
      | Panic k => (r, OPanic k)
      end
  end.

(* ------------------------------------------------------------------ sample reader seek *)
(* decode.rs:831-851 *)
Fixpoint sample_skip (F : file) (fuel : nat) (r : sample_reader) (pos sample : N) : sample_reader * out :=
  if pos <? sample then                                             (* while sample > pos *)
    match fuel with
    | O => (r, OPanic PFuel)
    | S fuel' =>
        let (r1, o) := sample_fill_buf F r in
        match o with
        | OSamples b =>
            match div_u (lenN b) (f_channels F) with                (* buf.len() / usize::from(channels) *)
            | Ok 0 => (r1, OErr EOther)                             (* Error::InvalidSeek *)
            | Ok buf_samples =>
                match (diff <- u64_sub (f_profile F) sample pos ;;
                       want <- usize_try_from_unwrap (f_usize_bits F) diff ;;
                       let to_consume := N.min buf_samples want in
                       amt <- u64_mul (f_profile F) to_consume (f_channels F) ;;
                       Ok (to_consume, amt)) with
                | Ok (to_consume, amt) =>
                    let (r2, o2) := sample_consume r1 amt in
                    match o2 with
                    | OUnit =>
                        match u64_add (f_profile F) pos to_consume with
                        | Ok np => sample_skip F fuel' r2 np sample
                        | Err e => (r2, OErr e)
                        | Panic k => (r2, OPanic k)
                        end
                    | other => (r2, other)
                    end
                | Err e => (r1, OErr e)
                | Panic k => (r1, OPanic k)
                end
            | Err e => (r1, OErr e)
            | Panic k => (r1, OPanic k)
            end
        | other => (r1, other)
        end
    end
  else (r, OUnit).

(* decode.rs:817 FlacSampleReader::seek *)
Definition sample_seek (F : file) (r : sample_reader) (sample : N) : sample_reader * out :=
  if negb (f_seekable F) then (r, OErr EIo) else
  let (d1, sr) := dec_seek F (sr_dec r) sample in
  match sr with
  | Ok pos => sample_skip F (S (S (length (d_rest d1)))) {| sr_dec := d1; sr_buf := [] |} pos sample
  | Err e => ({| sr_dec := d1; sr_buf := sr_buf r |}, OErr e)
  | Panic k => ({| sr_dec := d1; sr_buf := sr_buf r |}, OPanic k)
  end.

(* ------------------------------------------------------------------ channel reader seek *)
(* decode.rs:1035-1055 *)
Fixpoint chan_skip (F : file) (fuel : nat) (r : chan_reader) (pos sample : N) : chan_reader * out :=
  if pos <? sample then
    match fuel with
    | O => (r, OPanic PFuel)
    | S fuel' =>
        let (r1, o) := chan_fill_buf F r in
        match o with
        | OChans [] => (r1, OPanic PSlice)                          (* buf[0] on an empty Vec *)
        | OChans (c0 :: _) =>
            match lenN c0 with
            | 0 => (r1, OErr EOther)                                (* Error::InvalidSeek *)
            | buf_samples =>
                match (diff <- u64_sub (f_profile F) sample pos ;;
                       usize_try_from_unwrap (f_usize_bits F) diff) with
                | Ok want =>
                    let to_consume := N.min buf_samples want in
                    let (r2, o2) := chan_consume F r1 to_consume in
                    match o2 with
                    | OUnit =>
                        match u64_add (f_profile F) pos to_consume with
                        | Ok np => chan_skip F fuel' r2 np sample
                        | Err e => (r2, OErr e)
                        | Panic k => (r2, OPanic k)
                        end
                    | other => (r2, other)
                    end
                | Err e => (r1, OErr e)
                | Panic k => (r1, OPanic k)
                end
            end
        | other => (r1, other)
        end
    end
  else (r, OUnit).

(* decode.rs:1023 FlacChannelReader::seek.
   Orig: `self.consumed = 0` with the frame decoded before the seek still in decoder.buf (F-C06b);
   Repaired: `self.consumed = self.decoder.buf.pcm_frames()`. *)
Definition chan_seek (F : file) (r : chan_reader) (sample : N) : chan_reader * out :=
  if negb (f_seekable F) then (r, OErr EIo) else
  let (d1, sr) := dec_seek F (cr_dec r) sample in
  match sr with
  | Ok pos =>
      let c := match f_rev F with Orig => 0 | Repaired => pcm_frames (d_buf d1) end in
      (* Orig may spend one extra round on the stale frame *)
      chan_skip F (S (S (S (length (d_rest d1))))) {| cr_dec := d1; cr_consumed := c |} pos sample
  | Err e => ({| cr_dec := d1; cr_consumed := cr_consumed r |}, OErr e)
  | Panic k => ({| cr_dec := d1; cr_consumed := cr_consumed r |}, OPanic k)
  end.

(* ------------------------------------------------------------------ the three machines *)
Inductive bop := BRead (n : N) | BFill | BConsume (k : N) | BSeek (pos : seekfrom).
Inductive sop := SRead (n : N) | SFill | SConsume (k : N) | SNext | SSeek (sample : N).
Inductive cop := CFill | CConsume (k : N) | CSeek (sample : N).

Definition byte_step (F : file) (r : byte_reader) (o : bop) : byte_reader * out :=
  match o with
  | BRead n => byte_read F r n
  | BFill => byte_fill_buf F r
  | BConsume k => byte_consume r k
  | BSeek pos => byte_seek F r pos
  end.

Definition sample_step (F : file) (r : sample_reader) (o : sop) : sample_reader * out :=
  match o with
  | SRead n => sample_read F r n
  | SFill => sample_fill_buf F r
  | SConsume k => sample_consume r k
  | SNext => sample_next F r
  | SSeek s => sample_seek F r s
  end.

Definition chan_step (F : file) (r : chan_reader) (o : cop) : chan_reader * out :=
  match o with
  | CFill => chan_fill_buf F r
  | CConsume k => chan_consume F r k
  | CSeek s => chan_seek F r s
  end.

(* A history: the state before each call, the call, what it returned. *)
Definition trace (S O : Type) := list (S * O * out).

Definition run {S O : Type} (step : S -> O -> S * out) (s0 : S) (ops : list O) : S * trace S O :=
  fold_left (fun (acc : S * trace S O) o =>
               let (s, tr) := acc in
               let (s', x) := step s o in (s', tr ++ [(s, o, x)]))
            ops (s0, []).

Definition byte_run (F : file) := run (byte_step F) (byte_new F).
Definition sample_run (F : file) := run (sample_step F) (sample_new F).
Definition chan_run (F : file) := run (chan_step F) (chan_new F).

(* what the drivers print: the observations only *)
Definition outs {S O : Type} (t : trace S O) : list out := map snd t.
