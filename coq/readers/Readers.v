(* readers/Readers.v — the three reader front-ends of decode.rs (FlacByteReader, FlacSampleReader
   with FlacSampleIterator, FlacChannelReader) as state machines over an ABSTRACT decoder core:
   the stream is a list of frame slots that `read_frame` hands out in order, then end-of-stream
   for ever.  read / fill_buf / consume / next here; seeking in Seek.v.  No proofs here. *)
From FlacReaders Require Export Ser.
Open Scope N_scope.

(* What Decoder::read_frame does with the next frame of the stream.
   SFrame f : decodes to f (Ok(Some(&buf)), current_sample advanced by its block size).
   SBad g   : fails (Err) after having left g in the decoder's frame buffer; current_sample is
              not advanced (read_subframes writes into self.buf before the CRC-16 is checked). *)
Inductive slot := SFrame (f : frame) | SBad (g : frame).

Inductive seekpoint := Defined (sample_offset : N) (frame_index : N) | Placeholder.

(* Which source revision is modelled: Orig = the snapshot, Repaired = after the fix: commits of this
   area (F-C06a, F-C06b, F-C07a, and the channel reader's error path).  The theorems are about
   Repaired; Orig is kept to state the defects. *)
Inductive revision := Orig | Repaired.

(* Everything that does not change while reading: the stream and the build. *)
Record file := {
  f_slots : list slot;                 (* the frames of the stream, in order *)
  f_channels : N;                      (* streaminfo.channels (NonZero<u8>) *)
  f_bps : N;                           (* streaminfo.bits_per_sample *)
  f_total : option N;                  (* streaminfo.total_samples *)
  f_table : option (list seekpoint);   (* blocks.get::<SeekTable>(): byte offsets as frame indices *)
  f_seekable : bool;                   (* frames_start.is_some(): opened with new_seekable *)
  f_endian : endian;                   (* E of FlacByteReader<R, E> *)
  f_profile : profile;
  f_usize_bits : N;
  f_rev : revision }.

(* decode.rs:1307 struct Decoder: reader position (the slots still to come), current_sample, buf *)
Record dec := { d_rest : list slot; d_cur : N; d_buf : frame }.

Definition dec_new (F : file) : dec := {| d_rest := f_slots F; d_cur := 0; d_buf := [] |}.

(* decode.rs:1397-1438, the part of Decoder::read_frame after the end-of-stream decision:
   read the next frame.  `remaining` = Some (total - current_sample) when the total is known.
   - no frame left: with a known total FrameHeader::read hits EOF (error); with an unknown total an
     EOF before the first header byte is the end of the stream (decode.rs:1409-1418);
   - only the last block may have <= 14 samples: `block_size == remaining || block_size > 14`, else
     Error::ShortBlock -- the header is consumed by then, the source position is inside a frame and
     nothing sensible follows: the model drops the rest of the stream;
   - a bad slot fails after read_subframes has written into self.buf; current_sample stays. *)
Definition next_slot (F : file) (d : dec) (remaining : option N) : dec * res (option frame) :=
  match d_rest d with
  | [] => match remaining with
          | None => (d, Ok None)
          | Some _ => (d, Err EEof)
          end
  | SFrame f :: r =>
      let short := match remaining with
                   | Some rem => negb ((pcm_frames f =? rem) || (14 <? pcm_frames f))
                   | None => false
                   end in
      if short then ({| d_rest := []; d_cur := d_cur d; d_buf := d_buf d |}, Err EShortBlock)
      else
        (* self.current_sample += u64::from(u16::from(header.block_size)) *)
        match u64_add (f_profile F) (d_cur d) (pcm_frames f) with
        | Ok c => ({| d_rest := r; d_cur := c; d_buf := f |}, Ok (Some f))
        | Err e => (d, Err e)
        | Panic k => (d, Panic k)
        end
  | SBad g :: r => ({| d_rest := r; d_cur := d_cur d; d_buf := g |}, Err ECrc16)
  end.

(* decode.rs:1382 Decoder::read_frame over the abstract core.  The end-of-stream decision
   (decode.rs:1390-1396): with a known total, `total.checked_sub(current_sample)` -- None is
   Error::TooManySamples, Some(0) is the end of the stream. *)
Definition read_frame (F : file) (d : dec) : dec * res (option frame) :=
  match f_total F with
  | Some total =>
      match checked_sub total (d_cur d) with
      | None => (d, Err ETooManySamples)
      | Some 0 => (d, Ok None)
      | Some remaining => next_slot F d (Some remaining)
      end
  | None => next_slot F d None
  end.

(* observations *)
Inductive out :=
| OBytes (b : list N)
| OSamples (s : list Z)
| OChans (c : list (list Z))
| OItem (x : option Z)
| OUnit
| OPos (p : N)
| OErr (e : err)
| OPanic (k : panic_kind).

(* ------------------------------------------------------------------ FlacByteReader (decode.rs:104) *)
Record byte_reader := { br_dec : dec; br_buf : list N }.

Definition byte_new (F : file) : byte_reader := {| br_dec := dec_new F; br_buf := [] |}.

(* the refill both `read` (decode.rs:288-296) and `fill_buf` (314-322) perform when buf is empty:
   read_frame, buf.resize(bytes_len, 0), to_buf into it.  Ok true = a frame arrived. *)
Definition byte_refill (F : file) (r : byte_reader) : byte_reader * res bool :=
  let (d', fr) := read_frame F (br_dec r) in
  match fr with
  | Ok (Some f) =>
      match to_buf (f_endian F) (f_bps F) f with
      | Ok bs => ({| br_dec := d'; br_buf := bs |}, Ok true)
      | Err e => ({| br_dec := d'; br_buf := br_buf r |}, Err e)
      | Panic k => ({| br_dec := d'; br_buf := br_buf r |}, Panic k)
      end
  | Ok None => ({| br_dec := d'; br_buf := br_buf r |}, Ok false)
  | Err e => ({| br_dec := d'; br_buf := br_buf r |}, Err e)
  | Panic k => ({| br_dec := d'; br_buf := br_buf r |}, Panic k)
  end.

(* <VecDeque<u8> as Read>::read on a contiguous deque: copies min(n, len) bytes from the front *)
Definition vecdeque_read (r : byte_reader) (n : N) : byte_reader * out :=
  let (o, rest) := splitN n (br_buf r) in
  ({| br_dec := br_dec r; br_buf := rest |}, OBytes o).

(* decode.rs:287 <FlacByteReader as Read>::read(buf) with buf.len() = n *)
Definition byte_read (F : file) (r : byte_reader) (n : N) : byte_reader * out :=
  match br_buf r with
  | [] =>
      let (r1, got) := byte_refill F r in
      match got with
      | Ok true => vecdeque_read r1 n
      | Ok false => (r1, OBytes [])
      | Err e => (r1, OErr e)
      | Panic k => (r1, OPanic k)
      end
  | _ => vecdeque_read r n
  end.

(* decode.rs:313 <FlacByteReader as BufRead>::fill_buf *)
Definition byte_fill_buf (F : file) (r : byte_reader) : byte_reader * out :=
  match br_buf r with
  | [] =>
      let (r1, got) := byte_refill F r in
      match got with
      | Ok true => (r1, OBytes (br_buf r1))
      | Ok false => (r1, OBytes [])
      | Err e => (r1, OErr e)
      | Panic k => (r1, OPanic k)
      end
  | b => (r, OBytes b)
  end.

(* decode.rs:328 consume = VecDeque::consume = drain(..amt): panics when amt > len *)
Definition byte_consume (r : byte_reader) (amt : N) : byte_reader * out :=
  if amt <=? lenN (br_buf r)
  then ({| br_dec := br_dec r; br_buf := dropN amt (br_buf r) |}, OUnit)
  else (r, OPanic PSlice).

(* ------------------------------------------------------------------ FlacSampleReader (decode.rs:375) *)
Record sample_reader := { sr_dec : dec; sr_buf : list Z }.

Definition sample_new (F : file) : sample_reader := {| sr_dec := dec_new F; sr_buf := [] |}.

(* `self.buf.extend(frame.iter())` after read_frame (decode.rs:419-424, 468-473, 697-700) *)
Definition sample_refill (F : file) (r : sample_reader) : sample_reader * res bool :=
  let (d', fr) := read_frame F (sr_dec r) in
  match fr with
  | Ok (Some f) =>
      match iter f with
      | Ok xs => ({| sr_dec := d'; sr_buf := sr_buf r ++ xs |}, Ok true)
      | Err e => ({| sr_dec := d'; sr_buf := sr_buf r |}, Err e)
      | Panic k => ({| sr_dec := d'; sr_buf := sr_buf r |}, Panic k)
      end
  | Ok None => ({| sr_dec := d'; sr_buf := sr_buf r |}, Ok false)
  | Err e => ({| sr_dec := d'; sr_buf := sr_buf r |}, Err e)
  | Panic k => ({| sr_dec := d'; sr_buf := sr_buf r |}, Panic k)
  end.

(* decode.rs:427-431: to_consume = samples.len().min(buf.len()); copy buf.drain(0..to_consume) *)
Definition sample_drain (r : sample_reader) (n : N) : sample_reader * out :=
  let (o, rest) := splitN n (sr_buf r) in
  ({| sr_dec := sr_dec r; sr_buf := rest |}, OSamples o).

(* decode.rs:417 FlacSampleReader::read(samples) with samples.len() = n *)
Definition sample_read (F : file) (r : sample_reader) (n : N) : sample_reader * out :=
  match sr_buf r with
  | [] =>
      let (r1, got) := sample_refill F r in
      match got with
      | Ok true => sample_drain r1 n
      | Ok false => (r1, OSamples [])
      | Err e => (r1, OErr e)
      | Panic k => (r1, OPanic k)
      end
  | _ => sample_drain r n
  end.

(* decode.rs:466 FlacSampleReader::fill_buf *)
Definition sample_fill_buf (F : file) (r : sample_reader) : sample_reader * out :=
  match sr_buf r with
  | [] =>
      let (r1, got) := sample_refill F r in
      match got with
      | Ok true => (r1, OSamples (sr_buf r1))
      | Ok false => (r1, OSamples [])
      | Err e => (r1, OErr e)
      | Panic k => (r1, OPanic k)
      end
  | b => (r, OSamples b)
  end.

(* decode.rs:487 consume = buf.drain(0..amt): panics when amt > len *)
Definition sample_consume (r : sample_reader) (amt : N) : sample_reader * out :=
  if amt <=? lenN (sr_buf r)
  then ({| sr_dec := sr_dec r; sr_buf := dropN amt (sr_buf r) |}, OUnit)
  else (r, OPanic PSlice).

(* decode.rs:694 <FlacSampleIterator as Iterator>::next (the iterator owns the reader and works on
   its buf directly) *)
Definition sample_next (F : file) (r : sample_reader) : sample_reader * out :=
  match sr_buf r with
  | x :: rest => ({| sr_dec := sr_dec r; sr_buf := rest |}, OItem (Some x))
  | [] =>
      let (r1, got) := sample_refill F r in
      match got with
      | Ok true =>
          match sr_buf r1 with
          | x :: rest => ({| sr_dec := sr_dec r1; sr_buf := rest |}, OItem (Some x))
          | [] => (r1, OItem None)         (* pop_front().map(Ok) on an empty frame *)
          end
      | Ok false => (r1, OItem None)
      | Err e => (r1, OErr e)
      | Panic k => (r1, OPanic k)
      end
  end.

(* ------------------------------------------------------------------ FlacChannelReader (decode.rs:902) *)
Record chan_reader := { cr_dec : dec; cr_consumed : N }.

Definition chan_new (F : file) : chan_reader := {| cr_dec := dec_new F; cr_consumed := 0 |}.

(* decode.rs:952 FlacChannelReader::fill_buf.
   Orig resets `consumed` before read_frame (so after end-of-stream the last frame comes back:
   F-C07a, and after a decode error the frame that failed comes out on the next call); Repaired
   resets it only when a frame arrived and marks the buffer consumed when decoding failed. *)
Definition chan_fill_buf (F : file) (r : chan_reader) : chan_reader * out :=
  let d := cr_dec r in
  if cr_consumed r <? pcm_frames (d_buf d) then
    match channels (d_buf d) with
    | Ok cs => (r, OChans (map (dropN (cr_consumed r)) cs))      (* &c[self.consumed..] *)
    | Err e => (r, OErr e)
    | Panic k => (r, OPanic k)
    end
  else
    let kept := match f_rev F with Orig => 0 | Repaired => cr_consumed r end in
    let (d', fr) := read_frame F d in
    match fr with
    | Ok (Some f) =>
        match channels f with
        | Ok cs => ({| cr_dec := d'; cr_consumed := 0 |}, OChans cs)
        | Err e => ({| cr_dec := d'; cr_consumed := 0 |}, OErr e)
        | Panic k => ({| cr_dec := d'; cr_consumed := 0 |}, OPanic k)
        end
    | Ok None => ({| cr_dec := d'; cr_consumed := kept |}, OChans (repeatN [] (f_channels F)))
    | Err e =>
        (* Repaired: whatever a failed decode left in decoder.buf is marked consumed *)
        ({| cr_dec := d';
            cr_consumed := match f_rev F with Orig => 0 | Repaired => pcm_frames (d_buf d') end |}, OErr e)
    | Panic k => ({| cr_dec := d'; cr_consumed := kept |}, OPanic k)
    end.

(* decode.rs:979 consume: self.consumed += amt (usize) — no bound check *)
Definition chan_consume (F : file) (r : chan_reader) (amt : N) : chan_reader * out :=
  match u64_add (f_profile F) (cr_consumed r) amt with
  | Ok c => ({| cr_dec := cr_dec r; cr_consumed := c |}, OUnit)
  | Err e => (r, OErr e)
  | Panic k => (r, OPanic k)
  end.
