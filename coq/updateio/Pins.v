(* Statement pins for the updateio area: every property theorem re-stated in full. *)
From FlacBase Require Import Res Bits.
From FlacUpdIo Require Import GenUpd Update Update_proofs Instance Instance_proofs Props_C10 IoFault IoFault_proofs Props_C13 Par Par_proofs Props_C18.
Open Scope N_scope.

Check (C10_inplace :
  forall (payload : Type) (psize : payload -> N) (ser : payload -> list N)
         (uclass : okind -> payload -> option N)
         (read_blocks : list N -> res (blocklist payload * list N)),
    (forall p, lenN (ser p) = psize p) ->
    (forall bl bytes rest, write_blocks payload psize ser uclass bl = Ok bytes ->
                           read_blocks (bytes ++ rest) = Ok (bl, rest)) ->
    forall (edit : blocklist payload -> res (blocklist payload)) (pre meta audio : list N)
           (bl : blocklist payload) (st : fstate),
      read_blocks (meta ++ audio) = Ok (bl, audio) ->
      update_file payload psize ser uclass read_blocks edit (length pre) (pre ++ meta ++ audio) = (st, Ok false) ->
      exists (bl1 bl2 : blocklist payload) (meta' : list N),
        edit bl = Ok bl1 /\
        st = {| orig := pre ++ meta' ++ audio; rebuilt := None |} /\
        length meta' = length meta /\
        write_blocks payload psize ser uclass bl2 = Ok meta' /\
        read_blocks (meta' ++ audio) = Ok (bl2, audio) /\
        (bl2 = bl1 \/
         exists n n', first_padding payload (bl_blocks payload bl1) = Some n /\
                      bl2 = with_first_padding payload n' bl1)).
Check (C10_rebuilt :
  forall (payload : Type) (psize : payload -> N) (ser : payload -> list N)
         (uclass : okind -> payload -> option N)
         (read_blocks : list N -> res (blocklist payload * list N)),
    (forall bl bytes rest, write_blocks payload psize ser uclass bl = Ok bytes ->
                           read_blocks (bytes ++ rest) = Ok (bl, rest)) ->
    forall (edit : blocklist payload -> res (blocklist payload)) (pre meta audio : list N)
           (bl : blocklist payload) (st : fstate),
      read_blocks (meta ++ audio) = Ok (bl, audio) ->
      update_file payload psize ser uclass read_blocks edit (length pre) (pre ++ meta ++ audio) = (st, Ok true) ->
      exists (bl1 : blocklist payload) (bytes : list N),
        edit bl = Ok bl1 /\
        write_blocks payload psize ser uclass bl1 = Ok bytes /\
        st = {| orig := pre ++ meta ++ audio; rebuilt := Some (bytes ++ audio) |} /\
        read_blocks (bytes ++ audio) = Ok (bl1, audio)).
Check (C10_failure_untouched :
  forall (payload : Type) (psize : payload -> N) (ser : payload -> list N)
         (uclass : okind -> payload -> option N)
         (read_blocks : list N -> res (blocklist payload * list N))
         (edit : blocklist payload -> res (blocklist payload)) (start : nat) (file : list N)
         (st : fstate) (r : res bool),
    update_file payload psize ser uclass read_blocks edit start file = (st, r) ->
    is_ok r = false -> st = {| orig := file; rebuilt := None |}).
Check (C10_histories :
  forall (payload : Type) (psize : payload -> N) (ser : payload -> list N)
         (uclass : okind -> payload -> option N)
         (read_blocks : list N -> res (blocklist payload * list N)),
    (forall p, lenN (ser p) = psize p) ->
    (forall bl bytes rest, write_blocks payload psize ser uclass bl = Ok bytes ->
                           read_blocks (bytes ++ rest) = Ok (bl, rest)) ->
    forall (edits : list (blocklist payload -> res (blocklist payload))) (audio file fn : list N)
           (rs : list (res bool)),
      file_inv payload read_blocks audio file ->
      run_edits payload psize ser uclass read_blocks edits file = (fn, rs) ->
      file_inv payload read_blocks audio fn /\ skipn (length fn - length audio) fn = audio).
Check (C10_histories_same_pcm :
  forall (payload : Type) (psize : payload -> N) (ser : payload -> list N)
         (uclass : okind -> payload -> option N)
         (read_blocks : list N -> res (blocklist payload * list N)),
    (forall p, lenN (ser p) = psize p) ->
    (forall bl bytes rest, write_blocks payload psize ser uclass bl = Ok bytes ->
                           read_blocks (bytes ++ rest) = Ok (bl, rest)) ->
    forall (pcm : Type) (decode_frames : payload -> list N -> pcm)
           (edits : list (blocklist payload -> res (blocklist payload))),
      Forall (keeps_streaminfo payload) edits ->
      forall (audio meta : list N) (bl : blocklist payload) (fn : list N) (rs : list (res bool)),
        read_blocks (meta ++ audio) = Ok (bl, audio) ->
        run_edits payload psize ser uclass read_blocks edits (meta ++ audio) = (fn, rs) ->
        decode_file payload read_blocks pcm decode_frames fn =
        decode_file payload read_blocks pcm decode_frames (meta ++ audio)).
Check (C10_decision :
  forall (payload : Type) (old new : N) (bl : blocklist payload),
    update_plan payload old new bl =
    match new ?= old with
    | Eq => InPlace bl
    | Lt => match first_padding payload (bl_blocks payload bl) with
            | Some n => if (old - new <=? BLOCK_MAX) && (n + (old - new) <=? BLOCK_MAX)
                        then InPlace (with_first_padding payload (n + (old - new)) bl) else Rebuild bl
            | None => Rebuild bl
            end
    | Gt => match first_padding payload (bl_blocks payload bl) with
            | Some n => if (new - old <=? BLOCK_MAX) && (new - old <=? n)
                        then InPlace (with_first_padding payload (n - (new - old)) bl) else Rebuild bl
            | None => Rebuild bl
            end
    end).
Check (C10_no_panic :
  forall (payload : Type) (psize : payload -> N) (ser : payload -> list N)
         (uclass : okind -> payload -> option N)
         (read_blocks : list N -> res (blocklist payload * list N)),
    (forall p, lenN (ser p) = psize p) ->
    forall (edit : blocklist payload -> res (blocklist payload)) (start : nat) (file : list N),
      is_panic (read_blocks (skipn start file)) = false ->
      (forall bl, is_panic (edit bl) = false) ->
      is_panic (snd (update_file payload psize ser uclass read_blocks edit start file)) = false).
Check (C10_hypotheses_satisfiable :
  (forall p, lenN (i_ser p) = i_psize p) /\
  (forall bl bytes rest, write_blocks ipayload i_psize i_ser i_uclass bl = Ok bytes ->
                         i_read (bytes ++ rest) = Ok (bl, rest))).

(* ---- C13 *)
Check (C13_writer_ok_means_delivered :
  forall (st : stack) (p : list wop) (w w' : world),
    run_writer st p w = (Ok tt, w') ->
    (match st with SRaw => true | SBuf _ => ends_flushed p end) = true ->
    wdev w' = ideal p (wdev w)).
Check (C13_encode_finalize :
  forall (st : stack) (ck : list N -> list (list N)) (pre hdr0 : list N) (frames : list (list N)) (hdr1 : list N)
         (sc : sched) (w' : world),
    ck_ok ck -> length hdr1 = length hdr0 ->
    run_writer st (encode_prog ck (length pre) hdr0 frames hdr1)
               {| wdev := {| data := pre; pos := length pre |}; wsched := sc |} = (Ok tt, w') ->
    data (wdev w') = pre ++ hdr1 ++ concat frames).
Check (C13_write_blocks :
  forall (ck : list N -> list (list N)) (bytes : list N) (d : dev) (sc : sched) (w' : world),
    ck_ok ck ->
    run_writer SRaw (write_blocks_prog ck bytes) {| wdev := d; wsched := sc |} = (Ok tt, w') ->
    wdev w' = put bytes d).
Check (C13_update_file :
  forall (payload : Type) (psize : payload -> N) (ser : payload -> list N)
         (uclass : okind -> payload -> option N)
         (read_blocks : list N -> res (blocklist payload * list N)),
    (forall s bl rest, read_blocks s = Ok (bl, rest) -> exists m, s = m ++ rest) ->
    forall (cap : nat) (ck : list N -> list (list N)) (edit : blocklist payload -> res (blocklist payload))
           (rb : bool) (w1 w2 : world) (b : bool) (w1' w2' : world),
      (0 < cap)%nat -> ck_ok ck -> honest (sr (wsched w1)) ->
      (pos (wdev w1) <= length (data (wdev w1)))%nat ->
      wdev w2 = {| data := []; pos := 0 |} ->
      update_file_io payload psize ser uclass read_blocks true cap ck edit rb w1 w2 = (Ok b, w1', w2') ->
      update_file payload psize ser uclass read_blocks edit (pos (wdev w1)) (data (wdev w1)) =
        ({| orig := data (wdev w1'); rebuilt := if b then Some (data (wdev w2')) else None |}, Ok b)).
Check (C13_no_panic_writer :
  forall (st : stack) (p : list wop) (w : world), is_panic (fst (run_writer st p w)) = false).
Check (C13_no_panic_update :
  forall (payload : Type) (psize : payload -> N) (ser : payload -> list N)
         (uclass : okind -> payload -> option N)
         (read_blocks : list N -> res (blocklist payload * list N)),
    (forall p, lenN (ser p) = psize p) ->
    forall (fixed : bool) (cap : nat) (ck : list N -> list (list N))
           (edit : blocklist payload -> res (blocklist payload)) (rb : bool) (w1 w2 : world),
      (forall s, is_panic (read_blocks s) = false) -> (forall bl, is_panic (edit bl) = false) ->
      is_panic (fst (fst (update_file_io payload psize ser uclass read_blocks fixed cap ck edit rb w1 w2))) = false).
Check (C13_read_errors_propagate :
  (forall fuel cap need got w w1, (length got < need)%nat ->
     dev_read cap w = (IErr false, w1) -> fill_until (S fuel) cap need got w = (Err EIo, w1)) /\
  (forall fuel cap acc w w1,
     dev_read cap w = (IErr false, w1) -> read_to_end (S fuel) cap acc w = (Err EIo, w1))).

(* ---- C18 *)
Check (C18_fork_join_partial :
  forall (C : Type) (sched : list nat) (rem : nat -> list (step C)) (st : nat -> C),
    complete C sched rem st -> forall k, snd (exec C sched rem st) k = seq_result C rem st k).
Check (C18_join :
  forall (C : Type) (a b : list (step C)) (sched : list nat) (ca cb : C),
    complete C sched (tasks2 C a b) (st2 C ca cb) -> join_par C a b sched ca cb = join_seq C a b ca cb).
Check (C18_try_join :
  forall (C A B : Type) (ra : C -> res A) (rb : C -> res B) (a b : list (step C)) (sched : list nat) (ca cb : C),
    complete C sched (tasks2 C a b) (st2 C ca cb) ->
    try_join_par ra rb a b sched ca cb = try_join_seq ra rb a b ca cb).
Check (C18_vec_map :
  forall (C : Type) (fs : list (list (step C))) (sched : list nat) (d : C) (cs : list C),
    complete C sched (tasksn C fs) (stn C d cs) -> vec_map_par C fs sched d cs = vec_map_seq C fs d cs).
Check (C18_encode_tasks :
  forall (cache : Type) (written : cache -> N) (enc_fixed enc_lpc : list (step cache))
         (inner : chan cache -> list nat) (outer : list nat) (d : chan cache) (cs : list (chan cache)),
    (forall c, let '(cf, cl, _) := c in complete cache (inner c) (tasks2 cache enc_fixed enc_lpc) (st2 cache cf cl)) ->
    complete (chan cache) outer (tasksn _ (map (fun _ => [chan_step cache written enc_fixed enc_lpc inner]) cs)) (stn _ d cs) ->
    encode_channels_par cache written enc_fixed enc_lpc inner outer d cs = encode_channels_seq cache written enc_fixed enc_lpc d cs).
Check (C18_correlate :
  forall (cache : Type) (size : cache -> res N) (enc_l enc_r enc_a enc_d : list (step cache)) (s1 s2 : list nat)
         (cl cr ca cd : cache),
    complete cache s1 (tasks2 cache enc_l enc_r) (st2 cache cl cr) ->
    complete cache s2 (tasks2 cache enc_a enc_d) (st2 cache ca cd) ->
    correlate_par cache size enc_l enc_r enc_a enc_d s1 s2 cl cr ca cd = correlate_seq cache size enc_l enc_r enc_a enc_d cl cr ca cd).
Check (C18_modulo_assumptions :
  forall (input bytes cache : Type) (written : cache -> N) (enc_fixed enc_lpc : list (step cache))
         (caches_of : input -> list (chan cache)) (d : chan cache) (assemble : list (chan cache) -> bytes)
         (impl_seq : input -> bytes) (impl_par : nat -> nat -> input -> bytes),
    tasks_are_disjoint_steps input bytes cache written enc_fixed enc_lpc caches_of d assemble impl_seq ->
    rayon_is_fork_join input bytes cache written enc_fixed enc_lpc caches_of d assemble impl_par ->
    C18_statement input bytes impl_seq impl_par).
