(* metadata/Blocks_level.v — the seven block codecs put together: body round trip, the size a
   block reports, writer never panics. *)
From FlacMeta Require Import Bytes Bytes_proofs Blocks Blocks_proofs Cue CueRender Cue_proofs Blocks_proofs2.
Open Scope N_scope.

Section BlockLevel.
Variable utf8_valid : list N -> bool.
(* std: ASCII is valid UTF-8 (needed for the ISRC field of CUESHEET only) *)
Hypothesis utf8_ascii : forall s, Forall (fun b => b < 128) s -> utf8_valid s = true.

(* the invariants the Rust types give a value (field widths, NonZero, BlockSize,
   Contiguous, IndexVec, Digit, ISRCString, valid UTF-8 in a String) *)
Definition ty_block (b : block) : Prop :=
  match b with
  | BStreaminfo s => ty_streaminfo s
  | BPadding n => n <= BLOCKSIZE_MAX
  | BApplication a => ty_application a
  | BSeekTable l => ty_seektable l
  | BVorbis v => ty_vorbis utf8_valid v
  | BCuesheet c => ty_cuesheet c
  | BPicture x => ty_picture utf8_valid x
  end.
(* values the encoding can represent faithfully (excludes the one known aliasing class) *)
Definition canon_block (b : block) : Prop :=
  match b with BStreaminfo s => canon_streaminfo s | _ => True end.

Lemma body_write_read b bs r : ty_block b -> canon_block b -> write_body b = Ok bs ->
  read_body utf8_valid (block_type b) (lenN bs) (bs ++ r) = Ok (b, r).
Proof.
  intros T C W. destruct b as [si|n|a|l|v|c|x]; cbn [write_body block_type read_body ty_block canon_block] in *.
  - rewrite (pbind_eq read_streaminfo _ _ si r) by (apply streaminfo_write_read; assumption). reflexivity.
  - unfold write_padding in W. apply Ok_inj in W. subst bs. rewrite lenN_zerosN.
    rewrite (pbind_eq (read_padding n) _ _ n r) by apply padding_write_read. reflexivity.
  - unfold write_application in W. apply Ok_inj in W. subst bs. rewrite lenN_app, lenN_be_bytes.
    change (N.of_nat 4) with 4. rewrite <- app_assoc.
    rewrite (pbind_eq (read_application _) _ _ a r) by (apply application_write_read; apply T). reflexivity.
  - pose proof W as W'. unfold write_seektable in W'. apply write_seekpoints_ok in W'. destruct W' as [E _].
    rewrite E at 1. rewrite lenN_enc_all_seek.
    rewrite (pbind_eq (read_seektable _) _ _ l r) by (apply seektable_write_read; assumption). reflexivity.
  - rewrite (pbind_eq (read_vorbis utf8_valid) _ _ v r) by (apply vorbis_write_read; assumption). reflexivity.
  - rewrite (pbind_eq (read_cuesheet utf8_valid) _ _ c r) by (apply cuesheet_write_read; assumption). reflexivity.
  - rewrite (pbind_eq (read_picture utf8_valid) _ _ x r) by (apply picture_write_read; assumption). reflexivity.
Qed.

Lemma check_seekpoints_spec : forall l lo,
  match write_seekpoints lo l with
  | Ok _ => check_seekpoints lo l = Ok tt
  | Err _ => exists e, check_seekpoints lo l = Err e
  | Panic _ => False
  end.
Proof.
  induction l as [|x l IH]; intros lo; cbn [write_seekpoints check_seekpoints]; [reflexivity|].
  destruct x as [so bo fs|].
  - destruct (so =? U64_MAX); [eauto|].
    destruct lo as [lo|]; [destruct (lo <? so); [|eauto]|];
      specialize (IH (Some so)); destruct (write_seekpoints (Some so) l); cbn [bind]; auto.
  - specialize (IH lo). destruct (write_seekpoints lo l); cbn [bind]; auto.
Qed.

Lemma size_strings_spec : forall l,
  match write_vc_strings l with
  | Ok bs => size_strings l = Ok (lenN bs)
  | Err _ => exists e, size_strings l = Err e
  | Panic _ => False
  end.
Proof.
  induction l as [|x l IH]; cbn [write_vc_strings size_strings]; [reflexivity|].
  unfold write_vc_string, size_prefixed32. destruct (lenN x <? 2 ^ 32); cbn [bind]; [|eauto].
  destruct (write_vc_strings l) as [b| |]; cbn [bind].
  - rewrite IH. cbn [bind]. rewrite !lenN_app, lenN_le_bytes. reflexivity.
  - destruct IH as [e' ->]. cbn [bind]. eauto.
  - contradiction.
Qed.

Lemma size_tracks_spec cdda : forall l, Forall (ty_track cdda) l -> size_tracks l = Ok (lenN (enc_all track_bytes l)).
Proof.
  induction 1 as [|t l Ht Hl IH]; [reflexivity|]. cbn [size_tracks enc_all]. unfold size_track.
  destruct Ht as (A & B & C & Tiv). pose proof (ty_indexvec_len cdda _ Tiv) as L.
  destruct (N.ltb_spec 255 (lenN (indexvec_list (tr_ix t)))); [lia|]. cbn [bind]. rewrite IH. cbn [bind].
  rewrite lenN_app, (lenN_track_bytes cdda t (conj A (conj B (conj C Tiv)))). reflexivity.
Qed.

(* the size computed from the field widths is the number of bytes written *)
Lemma body_size_write b : ty_block b ->
  match write_body b with
  | Ok bs => body_size b = Ok (lenN bs)
  | Err _ => exists e, body_size b = Err e
  | Panic k => body_size b = Panic k
  end.
Proof.
  intros T. destruct b as [si|n|a|l|v|c|x]; cbn [write_body body_size ty_block] in *.
  - unfold write_streaminfo.
    destruct (negb (si_minf si <? 2 ^ 24)); [eauto|]. destruct (negb (si_maxf si <? 2 ^ 24)); [eauto|].
    destruct (negb (si_rate si <? 2 ^ 20)); [eauto|]. destruct (negb (si_ch si - 1 <? 8)); [eauto|].
    destruct (bitcount_checked_sub 31 (si_bps si) 1); [|reflexivity].
    destruct (negb (si_total si <? 2 ^ 36)); [eauto|].
    rewrite !lenN_app, !lenN_be_bytes.
    rewrite lenN_bytes_of_bits by (rewrite !app_length, !wr_length; reflexivity).
    destruct T as (_ & _ & _ & _ & _ & _ & _ & _ & T9).
    destruct (si_md5 si) as [m|]; [destruct T9 as [-> _]|rewrite lenN_zerosN]; reflexivity.
  - unfold write_padding. rewrite lenN_zerosN. reflexivity.
  - unfold write_application. rewrite lenN_app, lenN_be_bytes. reflexivity.
  - unfold write_seektable. pose proof (check_seekpoints_spec l None) as H.
    destruct (write_seekpoints None l) as [bs|e|k] eqn:W.
    + rewrite H. cbn [bind]. apply write_seekpoints_ok in W. destruct W as [-> _].
      rewrite lenN_enc_all_seek. reflexivity.
    + destruct H as [e' ->]. cbn [bind]. eauto.
    + contradiction.
  - unfold write_vorbis, write_vc_string, size_prefixed32.
    destruct (lenN (vc_vendor v) <? 2 ^ 32); cbn [bind]; [|eauto].
    destruct (lenN (vc_fields v) <? 2 ^ 32); [|eauto].
    pose proof (size_strings_spec (vc_fields v)) as H.
    destruct (write_vc_strings (vc_fields v)) as [b| |]; cbn [bind].
    + rewrite H. cbn [bind]. rewrite !lenN_app, !lenN_le_bytes. f_equal. change (N.of_nat 4) with 4. lia.
    + destruct H as [e' ->]. cbn [bind]. eauto.
    + contradiction.
  - destruct c as [cat lead_in tracks lo|cat tracks lo]; cbn [write_cuesheet ty_cuesheet] in *.
    + destruct T as (Tc & Tl & Ft & Ct & Lt & Tlo).
      destruct (255 <? lenN tracks + 1); [reflexivity|].
      rewrite (write_tracks_enc true tracks Ft), (size_tracks_spec true tracks Ft). cbn [bind].
      pose proof (lenN_cue_bytes (CueCDDA cat lead_in tracks lo) (conj Tc (conj Tl (conj Ft (conj Ct (conj Lt Tlo))))) I) as L.
      cbn [cue_bytes] in L. rewrite L. reflexivity.
    + destruct T as (Dc & Ft & Ct & Lt & Tlo).
      destruct (N.ltb_spec CATALOG_LEN (lenN cat)) as [|Lc]; [eauto|].
      destruct (255 <? lenN tracks + 1); [reflexivity|].
      rewrite (write_tracks_enc false tracks Ft), (size_tracks_spec false tracks Ft). cbn [bind].
      pose proof (lenN_cue_bytes (CueNonCDDA cat tracks lo) (conj Dc (conj Ft (conj Ct (conj Lt Tlo)))) Lc) as L.
      cbn [cue_bytes] in L. rewrite L. reflexivity.
  - unfold write_picture, write_prefixed, size_prefixed32.
    destruct (lenN (pic_mime x) <? 2 ^ 32); cbn [bind]; [|eauto].
    destruct (lenN (pic_desc x) <? 2 ^ 32); cbn [bind]; [|eauto].
    destruct (lenN (pic_data x) <? 2 ^ 32); cbn [bind]; [|eauto].
    rewrite !lenN_app, !lenN_be_bytes. f_equal. change (N.of_nat 4) with 4. lia.
Qed.

Lemma write_block_inv last b bs : ty_block b -> write_block last b = Ok bs ->
  exists body, write_body b = Ok body /\ lenN body <= BLOCKSIZE_MAX /\
               body_size b = Ok (lenN body) /\
               bs = write_header (mkHeader last (block_type b) (lenN body)) ++ body.
Proof.
  intros T W. unfold write_block in W. pose proof (body_size_write b T) as S.
  destruct (write_body b) as [body|e|k].
  - rewrite S in W. cbn [bind] in W. destruct (N.ltb_spec BLOCKSIZE_MAX (lenN body)) as [|Hle]; [discriminate|].
    apply Ok_inj in W. exists body. auto.
  - destruct S as [e' S]. rewrite S in W. discriminate.
  - rewrite S in W. discriminate.
Qed.

(* MetadataBlock::bytes() = header size field = number of body bytes written *)
Lemma block_bytes_spec last b bs : ty_block b -> write_block last b = Ok bs ->
  exists body, bs = write_header (mkHeader last (block_type b) (lenN body)) ++ body /\
               write_body b = Ok body /\ block_bytes b = Ok (Some (lenN body)).
Proof.
  intros T W. destruct (write_block_inv last b bs T W) as (body & Wb & Le & Sz & ->).
  exists body. split; [reflexivity|split; [exact Wb|]]. unfold block_bytes. rewrite Sz.
  destruct (N.leb_spec (lenN body) BLOCKSIZE_MAX); [reflexivity|lia].
Qed.

Lemma write_body_no_panic b : ty_block b -> is_panic (write_body b) = false.
Proof.
  intros T. destruct b as [si|n|a|l|v|c|x]; cbn [write_body ty_block] in *.
  - unfold write_streaminfo. destruct T as (_ & _ & _ & _ & _ & _ & [T7 T7'] & _).
    repeat match goal with |- context [if ?c then _ else _] => destruct c; [reflexivity|] end.
    unfold bitcount_checked_sub.
    destruct (N.leb_spec 1 (si_bps si)); [|lia]. destruct (N.leb_spec (si_bps si - 1) 31); [|lia].
    destruct (negb _); reflexivity.
  - reflexivity.
  - reflexivity.
  - unfold write_seektable. pose proof (check_seekpoints_spec l None) as H.
    destruct (write_seekpoints None l); [reflexivity|reflexivity|contradiction].
  - unfold write_vorbis, write_vc_string. destruct (_ <? _); cbn [bind]; [|reflexivity].
    destruct (_ <? _); [|reflexivity]. pose proof (size_strings_spec (vc_fields v)) as H.
    destruct (write_vc_strings (vc_fields v)); cbn [bind]; [reflexivity|reflexivity|contradiction].
  - destruct c as [cat lead_in tracks lo|cat tracks lo]; cbn [write_cuesheet ty_cuesheet] in *.
    + destruct T as (_ & _ & Ft & _ & Lt & _). unfold CDDA_MAX_TRACKS in Lt.
      destruct (N.ltb_spec 255 (lenN tracks + 1)); [lia|]. rewrite (write_tracks_enc true tracks Ft). reflexivity.
    + destruct T as (_ & Ft & _ & Lt & _). unfold NONCDDA_MAX_TRACKS in Lt.
      destruct (_ <? _); [reflexivity|].
      destruct (N.ltb_spec 255 (lenN tracks + 1)); [lia|]. rewrite (write_tracks_enc false tracks Ft). reflexivity.
  - unfold write_picture, write_prefixed.
    repeat (destruct (_ <? _); cbn [bind]; [|reflexivity]). reflexivity.
Qed.
End BlockLevel.
