(* e2eupd/UpdateE2E.v — property C10 for the REAL metadata codec and the REAL decoder front end.
   update_file / update / run_edits of coq/updateio/Update.v are run with the metadata area's reader and
   writer (RealCodec.v) instead of an abstract block codec; the conditional theorems of Update_cond.v
   apply because their hypotheses are proved there (read_write_real, good_fp_real).  The statements are
   in the metadata area's vocabulary (BlockList.write_blocks / read_blocks on typed block lists) and in
   the codec area's (Stream.read_metadata_min: the STREAMINFO and the first audio byte the decoder model
   of C01/C03 sees). *)
From FlacBase Require Import Res Bits.
From FlacMeta Require Import Bytes Bytes_proofs Blocks BlockList Blocks_proofs Blocks_level BlockList_proofs.
From FlacUpdIo Require GenUpd Update Update_proofs Update_cond.
From FlacCodec Require Ast Stream Spec.
From FlacE2EUpd Require Import RealCodec CodecView.
Open Scope N_scope.

Module UC := FlacUpdIo.Update_cond.

Section E2E.
Variable u : list N -> bool.
Hypothesis u_ascii : forall s, Forall (fun b => b < 128) s -> u s = true.

Notation rb := (read_blocks_r u).
Notation upd_file := (U.update_file block psize_r ser_r uclass_r rb).
Notation upd := (U.update block psize_r ser_r uclass_r rb).
Notation run := (U.run_edits block psize_r ser_r uclass_r rb).
Notation uwrite := (U.write_blocks block psize_r ser_r uclass_r).
(* an edit (the callback of update_file) that hands back typed, canonical blocks whenever it was given such *)
Definition typed_edit (e : blist -> res blist) : Prop := UC.keeps_good block (good u) e.

Lemma rb_read s bl rest : rb s = Ok (bl, rest) ->
  read_rest u s = Ok (of_upd bl, rest) /\ read_blocks u s = Ok (of_upd bl) /\ shape_ok bl.
Proof.
  unfold read_blocks_r. intros H. destruct (read_rest u s) as [[l r]| |] eqn:R; try discriminate.
  destruct (to_upd l) as [bl'|] eqn:E; [|discriminate]. inversion H; subst bl' r. clear H.
  apply of_to_upd in E. destruct E as [El S]. rewrite El.
  split; [reflexivity|]. split; [|exact S].
  rewrite <- (read_rest_fst u s), R. reflexivity.
Qed.

(* update_file returned Ok(false): in place *)
Theorem real_inplace edit pre meta audio bl st :
  typed_edit edit -> Forall byte (meta ++ audio) ->
  rb (meta ++ audio) = Ok (bl, audio) ->
  upd_file edit (length pre) (pre ++ meta ++ audio) = (st, Ok false) ->
  exists bl1 bl2 meta' si,
    edit bl = Ok bl1 /\
    st = {| U.orig := pre ++ meta' ++ audio; U.rebuilt := None |} /\
    length meta' = length meta /\
    write_blocks (of_upd bl2) = Ok meta' /\
    read_blocks u (meta' ++ audio) = Ok (of_upd bl2) /\
    U.bl_si block bl2 = BStreaminfo si /\
    FlacCodec.Stream.read_metadata_min (meta' ++ audio) = Some (convC si, audio) /\
    (bl2 = bl1 \/ exists n n', U.first_padding block (U.bl_blocks block bl1) = Some n /\
                               bl2 = U.with_first_padding block n' bl1).
Proof.
  intros K Hb R H. pose proof (read_good u u_ascii _ _ _ Hb R) as G.
  destruct (UC.update_file_inplace_good block psize_r ser_r uclass_r rb ser_len_real (good u)
              (read_write_real u u_ascii) (good_fp_real u) edit pre meta audio bl st K G R H)
    as (bl1 & bl2 & meta' & E & St & L & W & R2 & G2 & F).
  destruct G2 as (S2 & T2 & C2). pose proof S2 as [[si Esi] _].
  apply (write_equiv u bl2 meta' S2 T2) in W.
  exists bl1, bl2, meta', si. split; [exact E|]. split; [exact St|]. split; [exact L|]. split; [exact W|].
  split; [apply (rb_read _ _ _ R2)|]. split; [exact Esi|]. split; [|exact F].
  unfold of_upd in W, T2. rewrite Esi in W, T2. eapply writers_agree; eassumption.
Qed.

(* update_file returned Ok(true): rebuilt *)
Theorem real_rebuilt edit pre meta audio bl st :
  typed_edit edit -> Forall byte (meta ++ audio) ->
  rb (meta ++ audio) = Ok (bl, audio) ->
  upd_file edit (length pre) (pre ++ meta ++ audio) = (st, Ok true) ->
  exists bl1 bytes si,
    edit bl = Ok bl1 /\ write_blocks (of_upd bl1) = Ok bytes /\
    st = {| U.orig := pre ++ meta ++ audio; U.rebuilt := Some (bytes ++ audio) |} /\
    read_blocks u (bytes ++ audio) = Ok (of_upd bl1) /\
    U.bl_si block bl1 = BStreaminfo si /\
    FlacCodec.Stream.read_metadata_min (bytes ++ audio) = Some (convC si, audio).
Proof.
  intros K Hb R H. pose proof (read_good u u_ascii _ _ _ Hb R) as G.
  destruct (UC.update_file_rebuilt_good block psize_r ser_r uclass_r rb (good u)
              (read_write_real u u_ascii) edit pre meta audio bl st K G R H)
    as (bl1 & bytes & E & W & St & R1 & G1).
  destruct G1 as (S1 & T1 & C1). pose proof S1 as [[si Esi] _].
  apply (write_equiv u bl1 bytes S1 T1) in W.
  exists bl1, bytes, si. split; [exact E|]. split; [exact W|]. split; [exact St|].
  split; [apply (rb_read _ _ _ R1)|]. split; [exact Esi|].
  unfold of_upd in W, T1. rewrite Esi in W, T1. eapply writers_agree; eassumption.
Qed.

(* ---- histories of edits through `update` (the path front end) *)
(* the file is metadata ++ audio, both readers accept it, they stop at `audio`, STREAMINFO is si *)
Definition file_ok (si : streaminfo) (audio file : list N) : Prop :=
  (exists meta bl, file = meta ++ audio /\ rb (meta ++ audio) = Ok (bl, audio) /\ good u bl /\
                   U.bl_si block bl = BStreaminfo si) /\
  FlacCodec.Stream.read_metadata_min file = Some (convC si, audio).

Lemma file_ok_initial file bl audio : Forall byte file -> rb file = Ok (bl, audio) ->
  exists si, file_ok si audio file.
Proof.
  intros Hb R. pose proof (read_good u u_ascii _ _ _ Hb R) as G.
  destruct (rb_read _ _ _ R) as (RR & _ & [[si Esi] _]).
  destruct (read_rest_prefix u file _ _ Hb RR) as [meta ->].
  exists si. split; [exists meta, bl; auto|].
  destruct (readers_agree u _ _ _ Hb RR) as (si' & r & El & M).
  unfold of_upd in El. rewrite Esi in El. injection El as <- _. exact M.
Qed.

Lemma update_step edit si audio file file' r : typed_edit edit -> U.keeps_streaminfo block edit ->
  file_ok si audio file -> upd edit file = (file', r) -> file_ok si audio file'.
Proof.
  intros K KS [(meta & bl & -> & R & G & S) M] H. unfold U.update in H.
  destruct (upd_file edit 0 (meta ++ audio)) as [st r0] eqn:Up. inversion H; subst; clear H.
  change 0%nat with (length (@nil N)) in Up. change (meta ++ audio) with ([] ++ meta ++ audio) in Up.
  destruct r as [[|]|e|k].
  - destruct (UC.update_file_rebuilt_good block psize_r ser_r uclass_r rb (good u)
                (read_write_real u u_ascii) edit [] meta audio bl st K G R Up)
      as (bl1 & bytes & E & W & -> & R1 & G1). cbn [U.rebuilt U.orig].
    pose proof (KS _ _ E) as S1. rewrite S in S1.
    split; [exists bytes, bl1; auto|].
    destruct G1 as (Sh & T1 & _). apply (write_equiv u bl1 bytes Sh T1) in W.
    unfold of_upd in W, T1. rewrite S1 in W, T1. eapply writers_agree; eassumption.
  - destruct (UC.update_file_inplace_good block psize_r ser_r uclass_r rb ser_len_real (good u)
                (read_write_real u u_ascii) (good_fp_real u) edit [] meta audio bl st K G R Up)
      as (bl1 & bl2 & meta' & E & -> & _ & W & R2 & G2 & F). cbn [U.rebuilt U.orig app].
    pose proof (KS _ _ E) as S1. rewrite S in S1.
    assert (S2 : U.bl_si block bl2 = BStreaminfo si).
    { destruct F as [->|(n & n' & _ & ->)]; exact S1. }
    split; [exists meta', bl2; auto|].
    destruct G2 as (Sh & T2 & _). apply (write_equiv u bl2 meta' Sh T2) in W.
    unfold of_upd in W, T2. rewrite S2 in W, T2. eapply writers_agree; eassumption.
  - apply (UP.update_file_failure_untouched block psize_r ser_r uclass_r rb) in Up; [|reflexivity]. subst st.
    cbn [U.rebuilt U.orig app]. split; [exists meta, bl; auto|exact M].
  - apply (UP.update_file_failure_untouched block psize_r ser_r uclass_r rb) in Up; [|reflexivity]. subst st.
    cbn [U.rebuilt U.orig app]. split; [exists meta, bl; auto|exact M].
Qed.

Theorem run_edits_file_ok edits : Forall typed_edit edits -> Forall (U.keeps_streaminfo block) edits ->
  forall si audio file fn rs, file_ok si audio file -> run edits file = (fn, rs) -> file_ok si audio fn.
Proof.
  induction edits as [|e es IH]; intros K KS si audio file fn rs I H; cbn [U.run_edits] in H.
  - inversion H; subst; auto.
  - inversion K; inversion KS; subst.
    destruct (upd e file) as [f1 r] eqn:Up. destruct (run es f1) as [f2 rs2] eqn:RE.
    inversion H; subst. eapply IH; [assumption|assumption| |exact RE]. eapply update_step; eauto.
Qed.

(* any history of STREAMINFO-preserving edits of a file the reader accepts: the frames are the same
   bytes at the end of the file, both readers still accept it, and the decoder front end is handed the
   same STREAMINFO and the same audio bytes as before — so whatever is decoded from them is the same *)
Theorem real_history edits file bl audio fn rs :
  Forall typed_edit edits -> Forall (U.keeps_streaminfo block) edits ->
  Forall byte file -> rb file = Ok (bl, audio) ->
  run edits file = (fn, rs) ->
  exists si meta_n bl_n,
    U.bl_si block bl = BStreaminfo si /\
    fn = meta_n ++ audio /\
    read_blocks u fn = Ok (of_upd bl_n) /\ U.bl_si block bl_n = BStreaminfo si /\
    FlacCodec.Stream.read_metadata_min fn = Some (convC si, audio) /\
    FlacCodec.Stream.read_metadata_min file = Some (convC si, audio).
Proof.
  intros K KS Hb R H. destruct (file_ok_initial file bl audio Hb R) as [si I0].
  pose proof (run_edits_file_ok edits K KS si audio file fn rs I0 H) as [(mn & bn & -> & Rn & Gn & Sn) Mn].
  destruct I0 as [(m0 & b0 & E0 & R0 & _ & S0) M0].
  exists si, mn, bn.
  assert (Eb : b0 = bl) by (rewrite <- E0, R in R0; inversion R0; reflexivity). subst b0.
  split; [exact S0|]. split; [reflexivity|]. split; [apply (rb_read _ _ _ Rn)|]. split; [exact Sn|].
  split; [exact Mn|exact M0].
Qed.

(* hence the stream decoder model and the RFC-level semantics of the file are unchanged *)
Corollary real_history_same_decoding edits file bl audio fn rs :
  Forall typed_edit edits -> Forall (U.keeps_streaminfo block) edits ->
  Forall byte file -> rb file = Ok (bl, audio) ->
  run edits file = (fn, rs) ->
  FlacCodec.Stream.dec_stream fn = FlacCodec.Stream.dec_stream file /\
  FlacCodec.Spec.spec_stream fn = FlacCodec.Spec.spec_stream file /\
  skipn (length fn - length audio) fn = audio.
Proof.
  intros K KS Hb R H.
  destruct (real_history edits file bl audio fn rs K KS Hb R H) as (si & mn & bn & _ & -> & _ & _ & Mn & M0).
  unfold FlacCodec.Stream.dec_stream, FlacCodec.Spec.spec_stream. rewrite Mn, M0.
  split; [reflexivity|]. split; [reflexivity|].
  rewrite app_length. replace (length mn + length audio - length audio)%nat with (length mn) by lia.
  rewrite skipn_app, skipn_all, Nat.sub_diag. reflexivity.
Qed.

Lemma write_rest_to_oblocks : forall r sk vc png icon y,
  write_rest sk vc png icon r = Ok y -> exists bs, to_oblocks r = Some bs.
Proof.
  induction r as [|b r IH]; intros sk vc png icon y Wr; [exists []; reflexivity|].
  apply write_rest_cons in Wr. destruct Wr as (x & y' & sk' & vc' & png' & icon' & _ & Wr & _ & Fl).
  destruct (IH _ _ _ _ _ Wr) as [bs E]. cbn [to_oblocks]. rewrite E.
  destruct b; try contradiction; cbn [to_oblock]; eexists; reflexivity.
Qed.

(* a file whose metadata region the metadata writer produced from typed, canonical blocks is such a
   file (no assumption that its bytes are < 256) *)
Lemma file_ok_written si r meta audio : Forall (ty_block u) (BStreaminfo si :: r) ->
  Forall canon_block (BStreaminfo si :: r) -> write_blocks (BStreaminfo si :: r) = Ok meta ->
  file_ok si audio (meta ++ audio).
Proof.
  intros T C W.
  pose proof (write_blocks_read_rest u u_ascii _ _ audio T C W) as RR.
  assert (Sh : exists bs, to_oblocks r = Some bs).
  { unfold write_blocks in W.
    destruct (write_block _ (BStreaminfo si)) as [x| |]; cbn [bind] in W; try discriminate.
    destruct (write_rest false false false false r) as [y| |] eqn:Wr; cbn [bind] in W; try discriminate.
    eapply write_rest_to_oblocks; exact Wr. }
  destruct Sh as [bs E].
  set (bl := U.Build_blocklist block (BStreaminfo si) bs).
  assert (Eu : to_upd (BStreaminfo si :: r) = Some bl) by (unfold to_upd; rewrite E; reflexivity).
  destruct (of_to_upd _ _ Eu) as [Eo Sh].
  split.
  - exists meta, bl. split; [reflexivity|]. split.
    + unfold read_blocks_r. rewrite RR, Eu. reflexivity.
    + split; [|reflexivity]. split; [exact Sh|]. rewrite Eo. split; assumption.
  - eapply writers_agree; eassumption.
Qed.

End E2E.
