(* Codec/StreamRd_proofs.v — C16 on the scanning model of FlacStreamReader::read. *)
From FlacCodec Require Import Parser_proofs StreamRd Progress.
From FlacBase Require Import Crc.
Open Scope N_scope.

(* T1 — no fabricated frame: whatever read() returns is a frame that starts at a sync code somewhere
   in the source, passed its CRC-8 and its CRC-16 (dec_frame = Ok), and `rest` is what follows it *)
Theorem scan_gate : forall fuel bytes h chans rest,
  scan fuel bytes = Ok (h, chans, rest) ->
  exists pre b2 tl, bytes = pre ++ 255 :: b2 :: tl /\ b2 / 2 = 124 /\
                    dec_frame None no_check (255 :: b2 :: tl) = Ok (h, chans, rest).
Proof.
  induction fuel as [|fuel IH]; intros bytes h chans rest H; cbn [scan] in H; [discriminate|].
  destruct bytes as [|b r]; [discriminate|].
  assert (Hsuf : forall k x, skipn k (b :: r) = x -> exists p, b :: r = p ++ x).
  { intros k x <-. exists (firstn k (b :: r)). symmetry. apply firstn_skipn. }
  destruct (N.eqb_spec b 255) as [->|Nb]; cbn [negb] in H.
  - destruct r as [|b2 tl]; [discriminate|].
    destruct (N.eqb_spec (b2 / 2) 124) as [E2|N2]; cbn [negb] in H.
    + destruct (header_attempt (255 :: b2 :: tl)) as [|k] eqn:Ea.
      * exists [], b2, tl. auto.
      * destruct (IH _ _ _ _ H) as (p & b2' & tl' & E & Hs & Hd).
        destruct (Hsuf _ _ E) as [p0 E0]. exists (p0 ++ p), b2', tl'. rewrite <- app_assoc. rewrite E0. auto.
    + destruct (IH _ _ _ _ H) as (p & b2' & tl' & E & Hs & Hd).
      exists (255 :: p), b2', tl'. rewrite E. auto.
  - destruct (IH _ _ _ _ H) as (p & b2' & tl' & E & Hs & Hd).
    exists (b :: p), b2', tl'. rewrite E. auto.
Qed.

(* bytes without the sync pattern FF F8|F9 *)
Fixpoint syncless (g : list N) : bool :=
  match g with
  | a :: ((b :: _) as t) => negb ((a =? 255) && (b / 2 =? 124)) && syncless t
  | _ => true
  end.

Lemma dec_frame_header_attempt bytes x : dec_frame None no_check bytes = Ok x -> header_attempt bytes = HdrOk.
Proof.
  unfold dec_frame, header_attempt. intros H.
  destruct (parse_header_fields None (bits_of_bytes bytes)) as [[h0 s1]| |]; try discriminate.
  cbn [bind] in H. destruct (crc8 _ =? 0); [reflexivity|discriminate].
Qed.

(* T2 — bytes that do not contain the sync pattern cost no frame: the frame that follows is returned *)
Theorem scan_skips_syncless : forall g b2 tl x fuel,
  syncless g = true -> b2 / 2 = 124 ->
  dec_frame None no_check (255 :: b2 :: tl) = Ok x ->
  (length (g ++ 255%N :: b2 :: tl) < fuel)%nat ->
  scan fuel (g ++ 255 :: b2 :: tl) = Ok x.
Proof.
  induction g as [|a g IH]; intros b2 tl x fuel Hs Hb Hd Hf.
  - destruct fuel as [|fuel]; [cbn in Hf; lia|]. cbn [app scan]. cbn [N.eqb Pos.eqb negb].
    rewrite Hb. cbn [N.eqb Pos.eqb negb]. rewrite (dec_frame_header_attempt _ _ Hd). exact Hd.
  - destruct fuel as [|fuel]; [cbn in Hf; lia|]. cbn [app scan].
    assert (Hs' : syncless g = true).
    { destruct g; [reflexivity|]. cbn [syncless] in Hs. apply andb_prop in Hs. tauto. }
    assert (Hf' : (length (g ++ 255%N :: b2 :: tl) < fuel)%nat) by (cbn [app length] in Hf; lia).
    destruct (N.eqb_spec a 255) as [->|Na]; cbn [negb].
    + destruct g as [|b g'].
      * cbn [app]. change (255 / 2 =? 124) with false. cbn [negb]. apply (IH b2 tl x fuel Hs' Hb Hd Hf').
      * cbn [app]. cbn [syncless] in Hs. apply andb_prop in Hs. destruct Hs as [Hp _].
        cbn [N.eqb Pos.eqb andb] in Hp. rewrite Hp.
        apply (IH b2 tl x fuel Hs' Hb Hd Hf').
    + apply (IH b2 tl x fuel Hs' Hb Hd Hf').
Qed.

(* the scan never panics and always terminates (structural on fuel; fuel = bytes + 1 suffices by
   construction of stream_read) *)
Theorem scan_total : forall fuel bytes, is_panic (scan fuel bytes) = false.
Proof.
  induction fuel as [|fuel IH]; intros bytes; cbn [scan]; [reflexivity|].
  destruct bytes as [|b r]; [reflexivity|]. destruct (negb (b =? 255)); [apply IH|].
  destruct r as [|b2 tl]; [reflexivity|]. destruct (negb (b2 / 2 =? 124)); [apply IH|].
  destruct (header_attempt _); [|apply IH]. apply Totality.dec_frame_total. reflexivity.
Qed.
