(* writers/New_proofs.v — what the constructors establish: a writer that came out of
   FlacSampleWriter::new / FlacByteWriter::new / FlacChannelWriter::new satisfies the
   invariant the chunking theorems need. *)
From FlacWriters Require Import Writers Lists_proofs Params_proofs Writers_proofs.
Open Scope N_scope.

Section New.
Variable p : profile.

Lemma encoder_new_inv prefix o rate bps ch total e :
  encoder_new p prefix o rate bps ch total = Ok e ->
  1 <= ch <= 8 /\ rate < 1048576 /\ si_channels (e_si e) = ch /\ si_bps (e_si e) = bps /\
  si_rate (e_si e) = rate /\ si_total (e_si e) = total /\ e_prefix e = prefix /\
  e_frames_rev e = [] /\ e_samples_written e = 0 /\ e_seekpoints_rev e = [] /\ e_count e = 0 /\
  e_md5_rev e = [] /\ e_emitted_rev e = [] /\ e_frame_number e = 0 /\
  e_interval e = o_seektable_interval o /\ si_min_bs (e_si e) = o_block_size o /\
  si_max_bs (e_si e) = o_block_size o /\ si_min_fs (e_si e) = None /\ si_max_fs (e_si e) = None /\
  match total with Some t => t < MAX_SAMPLES | None => True end.
Proof.
  unfold encoder_new. intros H.
  apply bind_ok in H. destruct H as ([] & V & H).
  apply bind_ok in H. destruct H as (bl & _ & H).
  apply bind_ok in H. destruct H as (meta & _ & H). inversion H; subst; cbn.
  unfold encoder_new_validate in V.
  destruct (N.ltb_spec rate 1048576); [|discriminate].
  destruct (N.leb_spec 1 ch); cbn in V; [|discriminate].
  destruct (N.leb_spec ch 8); cbn in V; [|discriminate].
  repeat split; auto.
  destruct total as [t|]; auto. destruct (N.ltb_spec t MAX_SAMPLES); [auto|discriminate].
Qed.

Lemma sample_new_wf prefix o rate bps ch total w : options_wf o ->
  sample_new p prefix o rate bps ch total = Ok w -> sw_wf w.
Proof.
  intros (Hb & _) H. unfold sample_new in H.
  apply bind_ok in H. destruct H as (b & _ & H).
  apply bind_ok in H. destruct H as (t & _ & H).
  apply bind_ok in H. destruct H as (e & He & H). inversion H; subst.
  apply encoder_new_inv in He. destruct He as (Hc & _).
  unfold sw_wf; cbn. split; [|cbn]; lia.
Qed.

Lemma byte_new_wf en prefix o rate bps ch total w : options_wf o ->
  byte_new p en prefix o rate bps ch total = Ok w -> bw_wf w.
Proof.
  intros (Hb & _) H. unfold byte_new in H.
  apply bind_ok in H. destruct H as (b & Hbps & H).
  apply bind_ok in H. destruct H as (t & _ & H).
  apply bind_ok in H. destruct H as (e & He & H). inversion H; subst.
  apply encoder_new_inv in He. destruct He as (Hc & _).
  unfold signed_bit_count_32 in Hbps.
  destruct (N.leb_spec 1 bps); cbn in Hbps; [|discriminate].
  destruct (N.leb_spec bps 32); cbn in Hbps; [|discriminate]. inversion Hbps; subst.
  pose proof (bytes_per_sample_pos b ltac:(lia)).
  unfold bw_wf; cbn. remember (bytes_per_sample_of b) as n. split; [|cbn]; nia.
Qed.

Lemma channel_new_wf prefix o rate bps ch total w : options_wf o ->
  channel_new p prefix o rate bps ch total = Ok w -> cw_wf w.
Proof.
  intros (Hb & _) H. unfold channel_new in H.
  apply bind_ok in H. destruct H as (b & _ & H).
  apply bind_ok in H. destruct H as (t & _ & H).
  apply bind_ok in H. destruct H as (e & He & H). inversion H; subst.
  apply encoder_new_inv in He. destruct He as (Hc & _ & Hch & _).
  unfold cw_wf, cw_chan; cbn. rewrite Hch. rewrite repeat_length.
  repeat split; try lia.
  destruct (N.to_nat ch) as [|k] eqn:E; [lia|]. cbn.
  destruct (N.to_nat (o_block_size o)) eqn:E2; [lia|]. reflexivity.
Qed.

End New.
