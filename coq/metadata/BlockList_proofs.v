(* metadata/BlockList_proofs.v — BlockIterator / write_blocks theorems. *)
From FlacMeta Require Import Bytes Bytes_proofs Blocks BlockList Blocks_proofs.
Open Scope N_scope.

Section ListLevel.
Variable utf8_valid : list N -> bool.

Lemma lenN_write_header h : lenN (write_header h) = 4.
Proof.
  unfold write_header. rewrite lenN_app, lenN_be_bytes.
  rewrite lenN_bytes_of_bits by (rewrite app_length, !wr_length; reflexivity). reflexivity.
Qed.

(* one block: header + body is read back, the stream continues after it *)
Lemma block_write_read last b bs rest : covered b -> ty_block b -> canon_block b ->
  write_block last b = Ok bs ->
  read_block utf8_valid (bs ++ rest) = Ok (last, b, rest).
Proof.
  intros Cv T C W. destruct (write_block_inv last b bs Cv T W) as (body & Wb & Le & Sz & ->).
  unfold read_block. rewrite <- app_assoc.
  rewrite read_header_write by (cbn [h_size]; unfold BLOCKSIZE_MAX in Le; change (2 ^ 24) with 16777216; lia).
  cbn [h_size h_type h_last]. rewrite takeN_app, dropN_app.
  pose proof (body_write_read utf8_valid b body [] Cv T C Wb) as R. rewrite app_nil_r in R. rewrite R.
  cbn [lenN]. replace (lenN body - (lenN body - 0)) with 0 by lia. reflexivity.
Qed.

(* what read_block returns can be written again, and reads back the same *)
Lemma read_body_inv ty size body b leftover : Forall byte body ->
  read_body utf8_valid ty size body = Ok (b, leftover) -> covered b ->
  size <= BLOCKSIZE_MAX ->
  ty = block_type b /\ ty_block b /\ canon_block b /\
  exists bs', write_body b = Ok bs' /\ lenN body = lenN bs' + lenN leftover.
Proof.
  intros Hb H Cv Hsz. destruct ty; cbn [read_body] in H; inv_bind H; unfold pret in H; apply Ok_inj in H;
    injection H as H1 H2; subst b s; try contradiction; cbn [block_type ty_block canon_block write_body].
  - apply streaminfo_read_inv in E; [|exact Hb]. destruct E as (T & C & bs & W & ->).
    split; [reflexivity|]. split; [exact T|]. split; [exact C|]. exists bs. rewrite lenN_app. auto.
  - apply padding_read_inv in E. destruct E as (-> & c & -> & Lc).
    split; [reflexivity|]. split; [exact Hsz|]. split; [exact I|]. exists (zerosN size).
    split; [reflexivity|]. rewrite lenN_app, lenN_zerosN, Lc. reflexivity.
  - apply application_read_inv in E; [|exact Hb]. destruct E as (T & Hge & Ld & ->).
    split; [reflexivity|]. split; [exact T|]. split; [exact I|]. eexists. split; [reflexivity|].
    rewrite !lenN_app. lia.
  - apply seektable_read_inv in E; [|exact Hb]. destruct E as (T & Hs & W & Len & _).
    split; [reflexivity|]. split; [exact T|]. split; [exact I|]. eexists. split; [exact W|]. exact Len.
Qed.

Lemma read_block_inv s last b rest : Forall byte s ->
  read_block utf8_valid s = Ok (last, b, rest) -> covered b ->
  ty_block b /\ canon_block b /\ Forall byte rest /\ (lenN rest + 4 <= lenN s) /\
  exists bs', write_block last b = Ok bs' /\ lenN bs' + lenN rest = lenN s.
Proof.
  intros Hs H Cv. unfold read_block in H.
  destruct (read_header s) as [[h s1]| |] eqn:RH; try discriminate.
  apply read_header_inv in RH; [|exact Hs]. destruct RH as [-> Hsz].
  pose proof (Forall_app_r _ _ _ Hs) as Hs1.
  destruct (read_body utf8_valid (h_type h) (h_size h) (takeN (h_size h) s1)) as [[b' leftover]| |] eqn:RB; try discriminate.
  destruct (N.eqb_spec (h_size h - (lenN (takeN (h_size h) s1) - lenN leftover)) 0) as [Hz|]; [|discriminate].
  apply Ok_inj in H. injection H as <- <- <-.
  pose proof (lenN_takeN_le (h_size h) s1) as Hle.
  assert (Hb : Forall byte (takeN (h_size h) s1)).
  { rewrite <- (takeN_dropN (h_size h) s1) in Hs1. eapply Forall_app_l. exact Hs1. }
  change (2 ^ 24) with 16777216 in Hsz.
  apply read_body_inv in RB; [|exact Hb|exact Cv|unfold BLOCKSIZE_MAX; lia].
  destruct RB as (Ety & T & C & bs' & W & Lbs).
  assert (Lb : lenN (takeN (h_size h) s1) = h_size h /\ lenN bs' = h_size h) by lia.
  destruct Lb as [Lb Lbs'].
  assert (Hrest : Forall byte (dropN (h_size h) s1)).
  { rewrite <- (takeN_dropN (h_size h) s1) in Hs1. eapply Forall_app_r. exact Hs1. }
  assert (Ls1 : lenN s1 = h_size h + lenN (dropN (h_size h) s1)).
  { rewrite <- (takeN_dropN (h_size h) s1) at 1. rewrite lenN_app, Lb. reflexivity. }
  split; [exact T|]. split; [exact C|]. split; [exact Hrest|].
  split. { rewrite lenN_app, lenN_write_header. lia. }
  unfold write_block. pose proof (body_size_write b' Cv T) as S. rewrite W in S. rewrite S. cbn [bind].
  rewrite Lbs'. destruct (N.ltb_spec BLOCKSIZE_MAX (h_size h)) as [Hx|_]; [unfold BLOCKSIZE_MAX in Hx; lia|].
  rewrite W. cbn [bind]. eexists. split; [reflexivity|].
  rewrite !lenN_app, !lenN_write_header. lia.
Qed.

Lemma write_block_length last b bs : write_block last b = Ok bs -> (4 <= length bs)%nat.
Proof.
  unfold write_block. intros H. destruct (body_size b) as [n| |]; cbn [bind] in H; try discriminate.
  destruct (BLOCKSIZE_MAX <? n); [discriminate|].
  destruct (write_body b) as [body| |]; cbn [bind] in H; try discriminate.
  apply Ok_inj in H. subst bs. rewrite app_length.
  pose proof (lenN_write_header (mkHeader last (block_type b) n)) as L. rewrite lenN_length in L. lia.
Qed.

Lemma write_rest_cons sk vc png icon b l bs : write_rest sk vc png icon (b :: l) = Ok bs ->
  exists x y sk' vc' png' icon',
    write_block (match l with [] => true | _ => false end) b = Ok x /\
    write_rest sk' vc' png' icon' l = Ok y /\ bs = x ++ y /\
    match b with
    | BStreaminfo _ => False
    | BVorbis _ => vc = false /\ (sk', vc', png', icon') = (sk, true, png, icon)
    | BSeekTable _ => sk = false /\ (sk', vc', png', icon') = (true, vc, png, icon)
    | BPicture pic =>
      if pic_type pic =? 1 then png = false /\ (sk', vc', png', icon') = (sk, vc, true, icon)
      else if pic_type pic =? 2 then icon = false /\ (sk', vc', png', icon') = (sk, vc, png, true)
      else (sk', vc', png', icon') = (sk, vc, png, icon)
    | _ => (sk', vc', png', icon') = (sk, vc, png, icon)
    end.
Proof.
  intros H. cbn [write_rest] in H.
  set (last := match l with [] => true | _ => false end) in *.
  assert (G : forall sk' vc' png' icon',
    (x <- write_block last b ;; y <- write_rest sk' vc' png' icon' l ;; Ok (x ++ y))%res = Ok bs ->
    exists x y, write_block last b = Ok x /\ write_rest sk' vc' png' icon' l = Ok y /\ bs = x ++ y).
  { intros sk' vc' png' icon' G. destruct (write_block last b) as [x| |]; cbn [bind] in G; try discriminate.
    destruct (write_rest sk' vc' png' icon' l) as [y| |]; cbn [bind] in G; try discriminate.
    apply Ok_inj in G. eauto. }
  destruct b as [si|n|a|pts|v|c|pic].
  - discriminate.
  - apply G in H. destruct H as (x & y & ? & ? & ?). exists x, y, sk, vc, png, icon. auto.
  - apply G in H. destruct H as (x & y & ? & ? & ?). exists x, y, sk, vc, png, icon. auto.
  - destruct sk; [discriminate|]. apply G in H. destruct H as (x & y & ? & ? & ?). exists x, y, true, vc, png, icon. auto.
  - destruct vc; [discriminate|]. apply G in H. destruct H as (x & y & ? & ? & ?). exists x, y, sk, true, png, icon. auto.
  - apply G in H. destruct H as (x & y & ? & ? & ?). exists x, y, sk, vc, png, icon. auto.
  - destruct (pic_type pic =? 1).
    + destruct png; [discriminate|]. apply G in H. destruct H as (x & y & ? & ? & ?). exists x, y, sk, vc, true, icon. auto.
    + destruct (pic_type pic =? 2).
      * destruct icon; [discriminate|]. apply G in H. destruct H as (x & y & ? & ? & ?). exists x, y, sk, vc, png, true. auto.
      * apply G in H. destruct H as (x & y & ? & ? & ?). exists x, y, sk, vc, png, icon. auto.
Qed.

Lemma collect_write_rest : forall l sk vc png icon bs tail acc fuel,
  Forall covered l -> Forall ty_block l -> Forall canon_block l ->
  write_rest sk vc png icon l = Ok bs ->
  (length l <= length fuel)%nat ->
  collect utf8_valid fuel
    (mkIter (bs ++ tail) false true true sk vc png icon (match l with [] => true | _ => false end)) acc
  = Ok (rev acc ++ l).
Proof.
  induction l as [|b l IH]; intros sk vc png icon bs tail acc fuel Cv T C W F.
  - destruct fuel; cbn; rewrite app_nil_r; reflexivity.
  - apply write_rest_cons in W. destruct W as (x & y & sk' & vc' & png' & icon' & Wb & Wr & -> & Fl).
    inversion Cv as [|? ? Cb Cl]; inversion T as [|? ? Tb Tl]; inversion C as [|? ? Nb Nl]; subst.
    destruct fuel as [|f0 fuel]; [cbn in F; lia|].
    pose proof (block_write_read _ b x (y ++ tail) Cb Tb Nb Wb) as RB. rewrite app_assoc in RB.
    cbn [collect]. unfold iter_next. cbn [it_failed it_tag_read negb].
    unfold next_tagged. cbn [it_streaminfo_read negb]. unfold it_read_block. cbn [it_finished it_reader].
    rewrite RB.
    cbn [it_failed it_tag_read it_streaminfo_read it_seektable_read it_vorbiscomment_read it_png_read it_icon_read it_finished it_reader].
    assert (IH' : collect utf8_valid fuel
              (mkIter (y ++ tail) false true true sk' vc' png' icon' (match l with [] => true | _ => false end)) (b :: acc)
            = Ok (rev acc ++ b :: l)).
    { rewrite (IH sk' vc' png' icon' y tail (b :: acc) fuel Cl Tl Nl Wr); [|cbn in F; lia].
      cbn [rev]. rewrite <- app_assoc. reflexivity. }
    destruct b as [si|n|a|pts|v|c|pic]; try contradiction.
    + injection Fl as -> -> -> ->. exact IH'.
    + injection Fl as -> -> -> ->. exact IH'.
    + destruct Fl as [-> Fl]. injection Fl as -> -> -> ->. cbn [negb]. exact IH'.
    + destruct Fl as [-> Fl]. injection Fl as -> -> -> ->. cbn [negb]. exact IH'.
    + injection Fl as -> -> -> ->. exact IH'.
    + destruct (pic_type pic =? 1).
      * destruct Fl as [-> Fl]. injection Fl as -> -> -> ->. cbn [negb]. exact IH'.
      * destruct (pic_type pic =? 2).
        -- destruct Fl as [-> Fl]. injection Fl as -> -> -> ->. cbn [negb]. exact IH'.
        -- injection Fl as -> -> -> ->. exact IH'.
Qed.
End ListLevel.
