(* Codec/Agree_chan.v — channel level: decode.rs read_subframes (all four channel assignments,
   narrow and 33-bit side channel) computes RFC 9639's inter-channel reconstruction. *)
From FlacCodec Require Import Parser_proofs Dec Spec Roundtrip_sub Agree_arith Agree_layout Agree_sub.
Open Scope N_scope.

Lemma encodes_repeat_map {A B} (p : P B) (w : A -> bits) (g : A -> B) (xs : list A) :
  Forall (fun x => encodes p (w x) (g x)) xs -> encodes (p_repeat (length xs) p) (flat_map w xs) (map g xs).
Proof.
  induction 1 as [|x xs Hx _ IH]; cbn [length p_repeat flat_map map].
  - apply encodes_ret.
  - apply encodes_bind with (x := g x); [exact Hx|].
    rewrite <- (app_nil_r (flat_map w xs)).
    apply encodes_bind with (x := map g xs); [exact IH|]. apply encodes_ret.
Qed.

Lemma map2_res_ok (f : Z -> Z -> res Z) (g : Z -> Z -> Z) : forall a b,
  Forall (fun p => f (fst p) (snd p) = Ok (g (fst p) (snd p))) (combine a b) ->
  map2_res f a b = Ok (map (fun p => g (fst p) (snd p)) (combine a b)).
Proof.
  induction a as [|x a IH]; intros [|y b] H; cbn [map2_res combine map]; try reflexivity.
  inversion H as [|? ? Hxy Hrest]; subst. cbn [fst snd] in Hxy. rewrite Hxy. cbn [bind].
  rewrite (IH b Hrest). reflexivity.
Qed.
Lemma map2_res2_ok (f : Z -> Z -> res (Z * Z)) (g1 g2 : Z -> Z -> Z) : forall a b,
  Forall (fun p => f (fst p) (snd p) = Ok (g1 (fst p) (snd p), g2 (fst p) (snd p))) (combine a b) ->
  map2_res2 f a b = Ok (map (fun p => g1 (fst p) (snd p)) (combine a b), map (fun p => g2 (fst p) (snd p)) (combine a b)).
Proof.
  induction a as [|x a IH]; intros [|y b] H; cbn [map2_res2 combine map]; try reflexivity.
  inversion H as [|? ? Hxy Hrest]; subst. cbn [fst snd] in Hxy. rewrite Hxy. cbn [bind].
  rewrite (IH b Hrest). reflexivity.
Qed.

Lemma arith32 z : in_s 32 z = true -> arith_s Release 32 z = Ok z.
Proof. intros H. unfold arith_s. rewrite H. reflexivity. Qed.
Lemma arith64 z : in_s 64 z = true -> arith_s Release 64 z = Ok z.
Proof. intros H. unfold arith_s. rewrite H. reflexivity. Qed.

Lemma Forall_combine_map {A B} (P : A * B -> Prop) (Q : A -> Prop) (R : B -> Prop) (S : A * B -> Prop) :
  forall a b, Forall Q a -> Forall R b -> Forall S (combine a b) ->
  (forall x y, Q x -> R y -> S (x, y) -> P (x, y)) -> Forall P (combine a b).
Proof.
  induction a as [|x a IH]; intros [|y b] Ha Hb Hs H; cbn [combine] in *; try constructor.
  - inversion Ha; inversion Hb; inversion Hs; subst. apply H; auto.
  - inversion Ha; inversion Hb; inversion Hs; subst. apply IH; auto.
Qed.

Lemma Forall_map_iff {A B} (f : A -> B) (P : B -> Prop) l : Forall P (map f l) <-> Forall (fun x => P (f x)) l.
Proof. apply Forall_map. Qed.

(* ranges as integer inequalities *)
Lemma fits_Z n z : fits n z = true -> (- 2 ^ (Z.of_N n - 1) <= z < 2 ^ (Z.of_N n - 1))%Z /\ 1 <= n.
Proof. intros H. apply fits_range in H. tauto. Qed.

Lemma abs_parity s : (Z.abs s mod 2 = s mod 2)%Z.
Proof.
  destruct (Z_lt_le_dec s 0) as [Neg|Pos]; [|rewrite Z.abs_eq by lia; reflexivity].
  rewrite Z.abs_neq by lia.
  pose proof (Z.div_mod s 2 ltac:(lia)). pose proof (Z.mod_pos_bound s 2 ltac:(lia)).
  pose proof (Z.div_mod (- s) 2 ltac:(lia)). pose proof (Z.mod_pos_bound (- s) 2 ltac:(lia)). lia.
Qed.

Section Narrow.
  (* bps <= 31: side channel has bps+1 <= 32 bits, all arithmetic in i32 *)
  Variable bps : N.
  Hypothesis Hb1 : 1 <= bps.
  Hypothesis Hb31 : bps <= 31.
  Let B := (2 ^ (Z.of_N bps - 1))%Z.
  Lemma Bpos : (0 < B)%Z. Proof. apply Z.pow_pos_nonneg; lia. Qed.
  Lemma B30 : (B <= 2 ^ 30)%Z. Proof. apply Z.pow_le_mono_r; lia. Qed.
  Lemma B1 : (2 ^ (Z.of_N (bps + 1) - 1) = 2 * B)%Z.
  Proof. unfold B. replace (Z.of_N (bps + 1) - 1)%Z with (Z.succ (Z.of_N bps - 1)) by lia. rewrite Z.pow_succ_r by lia. reflexivity. Qed.

  Lemma ls_ok l s : fits bps l = true -> fits (bps + 1) s = true -> fits bps (l - s) = true ->
    arith_s Release 32 (l - s) = Ok (l - s)%Z.
  Proof.
    intros Hl Hs Hr. apply arith32, in_s_spec. apply fits_Z in Hr. destruct Hr as [Hr _]. fold B in Hr.
    pose proof B30. change (2 ^ (32 - 1))%Z with (2 * 2 ^ 30)%Z. lia.
  Qed.
  Lemma sr_ok s r : fits (bps + 1) s = true -> fits bps r = true -> fits bps (s + r) = true ->
    arith_s Release 32 (s + r) = Ok (s + r)%Z.
  Proof.
    intros Hs Hr Hl. apply arith32, in_s_spec. apply fits_Z in Hl. destruct Hl as [Hl _]. fold B in Hl.
    pose proof B30. change (2 ^ (32 - 1))%Z with (2 * 2 ^ 30)%Z. lia.
  Qed.
  Lemma ms_ok m s :
    fits bps m = true -> fits (bps + 1) s = true ->
    let sum := (m * 2 + Z.abs s mod 2)%Z in
    fits bps ((sum + s) / 2) = true -> fits bps ((sum - s) / 2) = true ->
    (m2 <- arith_s Release 32 (m * 2) ;;
     sm <- arith_s Release 32 (m2 + s mod 2) ;;
     a1 <- arith_s Release 32 (sm + s) ;; b1 <- arith_s Release 32 (sm - s) ;;
     Ok ((a1 / 2)%Z, (b1 / 2)%Z)) = Ok (((sum + s) / 2)%Z, ((sum - s) / 2)%Z).
  Proof.
    intros Hm Hs sum HL HR.
    apply fits_Z in Hm. destruct Hm as [Hm _]. apply fits_Z in Hs. destruct Hs as [Hs _].
    apply fits_Z in HL. destruct HL as [HL _]. apply fits_Z in HR. destruct HR as [HR _].
    fold B in Hm, HL, HR. rewrite B1 in Hs. pose proof B30 as HB. pose proof Bpos as HBp.
    assert (P31 : (2 ^ (32 - 1) = 2 * 2 ^ 30)%Z) by reflexivity.
    assert (Hpar : (0 <= Z.abs s mod 2 < 2)%Z) by (apply Z.mod_pos_bound; lia).
    pose proof (abs_parity s) as Epar.
    pose proof (Z.div_mod (sum + s) 2 ltac:(lia)) as D1. pose proof (Z.mod_pos_bound (sum + s) 2 ltac:(lia)) as M1.
    pose proof (Z.div_mod (sum - s) 2 ltac:(lia)) as D2. pose proof (Z.mod_pos_bound (sum - s) 2 ltac:(lia)) as M2.
    rewrite arith32 by (apply in_s_spec; rewrite P31; lia). cbn [bind].
    rewrite <- Epar. fold sum.
    rewrite arith32 by (apply in_s_spec; rewrite P31; unfold sum; lia). cbn [bind].
    rewrite arith32 by (apply in_s_spec; rewrite P31; lia). cbn [bind].
    rewrite arith32 by (apply in_s_spec; rewrite P31; lia). cbn [bind]. reflexivity.
  Qed.
End Narrow.

Section Wide.
  (* bps = 32: the side channel has 33 bits and is decoded as i64 *)
  Lemma as_i32_id z : fits 32 z = true -> as_i32 z = z.
  Proof. intros H. unfold as_i32. apply wrap_s_id; [lia|]. eapply fits_in_s; [exact H|]. lia. Qed.

  Lemma ls_ok_w l s : fits 32 l = true -> fits 33 s = true -> fits 32 (l - s) = true ->
    (v <- arith_s Release 64 (l - s) ;; Ok (as_i32 v)) = Ok (l - s)%Z.
  Proof.
    intros Hl Hs Hr. rewrite arith64; [cbn [bind]; rewrite as_i32_id; auto|].
    apply in_s_spec. apply fits_Z in Hr. destruct Hr as [Hr _].
    change (2 ^ (Z.of_N 32 - 1))%Z with 2147483648%Z in Hr. change (2 ^ (64 - 1))%Z with 9223372036854775808%Z. lia.
  Qed.
  Lemma sr_ok_w s r : fits 33 s = true -> fits 32 r = true -> fits 32 (s + r) = true ->
    (v <- arith_s Release 64 (s + r) ;; Ok (as_i32 v)) = Ok (s + r)%Z.
  Proof.
    intros Hs Hr Hl. rewrite arith64; [cbn [bind]; rewrite as_i32_id; auto|].
    apply in_s_spec. apply fits_Z in Hl. destruct Hl as [Hl _].
    change (2 ^ (Z.of_N 32 - 1))%Z with 2147483648%Z in Hl. change (2 ^ (64 - 1))%Z with 9223372036854775808%Z. lia.
  Qed.
  Lemma ms_ok_w m s :
    fits 32 m = true -> fits 33 s = true ->
    let sum := (m * 2 + Z.abs s mod 2)%Z in
    fits 32 ((sum + s) / 2) = true -> fits 32 ((sum - s) / 2) = true ->
    (m2 <- arith_s Release 64 (m * 2) ;;
     sm <- arith_s Release 64 (m2 + s mod 2) ;;
     a1 <- arith_s Release 64 (sm + s) ;; b1 <- arith_s Release 64 (sm - s) ;;
     Ok (as_i32 (a1 / 2), as_i32 (b1 / 2))%Z) = Ok (((sum + s) / 2)%Z, ((sum - s) / 2)%Z).
  Proof.
    intros Hm Hs sum HL HR.
    pose proof (as_i32_id _ HL) as EL. pose proof (as_i32_id _ HR) as ER.
    apply fits_Z in Hm. destruct Hm as [Hm _]. apply fits_Z in Hs. destruct Hs as [Hs _].
    change (2 ^ (Z.of_N 32 - 1))%Z with 2147483648%Z in *. change (2 ^ (Z.of_N 33 - 1))%Z with 4294967296%Z in *.
    assert (P63 : (2 ^ (64 - 1) = 9223372036854775808)%Z) by reflexivity.
    assert (Hpar : (0 <= Z.abs s mod 2 < 2)%Z) by (apply Z.mod_pos_bound; lia).
    pose proof (abs_parity s) as Epar.
    rewrite arith64 by (apply in_s_spec; rewrite P63; lia). cbn [bind].
    rewrite <- Epar. fold sum.
    rewrite arith64 by (apply in_s_spec; rewrite P63; unfold sum; lia). cbn [bind].
    rewrite arith64 by (apply in_s_spec; rewrite P63; unfold sum; lia). cbn [bind].
    rewrite arith64 by (apply in_s_spec; rewrite P63; unfold sum; lia). cbn [bind].
    rewrite EL, ER. reflexivity.
  Qed.
End Wide.

(* ---- the reconstructed subframe signal fits the subframe's bit depth ---- *)
Lemma fits_shift_fits eb k x : fits eb x = true -> fits (eb + k) (x * 2 ^ Z.of_N k) = true.
Proof.
  intros H. apply fits_Z in H. destruct H as [H H1]. unfold fits.
  assert (E : (2 ^ (Z.of_N (eb + k) - 1) = 2 ^ (Z.of_N eb - 1) * 2 ^ Z.of_N k)%Z).
  { rewrite <- Z.pow_add_r by lia. f_equal. lia. }
  assert (0 < 2 ^ Z.of_N k)%Z by (apply Z.pow_pos_nonneg; lia).
  apply andb_true_intro. split; [apply andb_true_intro; split|].
  - apply N.leb_le. lia.
  - apply Z.leb_le. rewrite E. nia.
  - apply Z.ltb_lt. rewrite E. nia.
Qed.

Lemma sem_subframe_fits bs bps sf : wf_subframe bs bps sf = true -> spec_subframe bs bps sf = true ->
  forallb (fits bps) (sem_subframe bs sf) = true.
Proof.
  unfold wf_subframe, spec_subframe, sem_subframe. intros Hwf Hsp.
  apply andb_prop in Hwf. destruct Hwf as [H _]. apply andb_prop in H. destruct H as [Hb Hw].
  apply N.leb_le in Hb. apply N.leb_le in Hw. apply andb_prop in Hsp. destruct Hsp as [Hfit _].
  rewrite forallb_forall in *. intros y Hy. apply in_map_iff in Hy. destruct Hy as (x & <- & Hx).
  replace bps with ((bps - sf_wasted sf) + sf_wasted sf) at 1 by lia.
  apply fits_shift_fits. auto.
Qed.

Lemma write_subframes_indep a bps : a <? 8 = true -> forall subs i,
  write_subframes a bps i subs = flat_map (write_subframe bps) subs.
Proof.
  intros Ha. induction subs as [|sf subs IH]; intros i; cbn [write_subframes flat_map]; [reflexivity|].
  rewrite IH. f_equal. f_equal. unfold subframe_bps. apply N.ltb_lt in Ha.
  assert (a =? 8 = false) as -> by (apply N.eqb_neq; lia).
  assert (a =? 9 = false) as -> by (apply N.eqb_neq; lia).
  assert (a =? 10 = false) as -> by (apply N.eqb_neq; lia). reflexivity.
Qed.

Lemma subs_indep_Forall h : h_assign h <? 8 = true -> forall subs i,
  wf_subframes h i subs = true -> spec_subframes h i subs = true ->
  Forall (fun sf => wf_subframe (h_bs h) (h_bps h) sf = true /\ spec_subframe (h_bs h) (h_bps h) sf = true) subs.
Proof.
  intros Ha. induction subs as [|sf subs IH]; intros i Hw Hs; [constructor|].
  cbn [wf_subframes spec_subframes] in *. apply andb_prop in Hw. destruct Hw as [Hw1 Hw2].
  apply andb_prop in Hs. destruct Hs as [Hs1 Hs2].
  assert (E : subframe_bps (h_assign h) (h_bps h) i = h_bps h).
  { unfold subframe_bps. apply N.ltb_lt in Ha.
    assert (h_assign h =? 8 = false) as -> by (apply N.eqb_neq; lia).
    assert (h_assign h =? 9 = false) as -> by (apply N.eqb_neq; lia).
    assert (h_assign h =? 10 = false) as -> by (apply N.eqb_neq; lia). reflexivity. }
  rewrite E in *. constructor; [auto|]. eapply IH; eauto.
Qed.

Lemma sem_channels_indep a chans : a <? 8 = true -> sem_channels a chans = chans.
Proof.
  intros Ha. apply N.ltb_lt in Ha. unfold sem_channels.
  assert (C : a = 0 \/ a = 1 \/ a = 2 \/ a = 3 \/ a = 4 \/ a = 5 \/ a = 6 \/ a = 7) by lia.
  destruct C as [->|[->|[->|[->|[->|[->|[->| ->]]]]]]]; reflexivity.
Qed.

Lemma combine_fits (P : Z * Z -> Prop) (n1 n2 : N) : forall a b,
  forallb (fits n1) a = true -> forallb (fits n2) b = true ->
  (forall x y, fits n1 x = true -> fits n2 y = true -> P (x, y)) -> Forall P (combine a b).
Proof.
  induction a as [|x a IH]; intros [|y b] Ha Hb H; cbn [combine forallb] in *; try constructor.
  - apply andb_prop in Ha. apply andb_prop in Hb. apply H; tauto.
  - apply andb_prop in Ha. apply andb_prop in Hb. apply IH; tauto.
Qed.

Theorem dec_subframes_agree h subs :
  h_assign h <? 11 = true -> 1 <= h_bps h -> h_bps h <= 32 ->
  length subs = N.to_nat (assign_channels (h_assign h)) ->
  wf_subframes h 0 subs = true -> spec_subframes h 0 subs = true ->
  forallb (forallb (fits (h_bps h))) (sem_channels (h_assign h) (map (sem_subframe (h_bs h)) subs)) = true ->
  encodes (dec_subframes h) (write_subframes (h_assign h) (h_bps h) 0 subs)
          (sem_channels (h_assign h) (map (sem_subframe (h_bs h)) subs)).
Proof.
  intros Ha Hb1 Hb32 Hlen Hwf Hsp Hout. unfold dec_subframes.
  remember (h_assign h) as a eqn:Eqa. remember (h_bps h) as bps eqn:Eqb. remember (h_bs h) as bs eqn:Eqs.
  destruct (a <? 8) eqn:Ea.
  - (* independent channels *)
    rewrite write_subframes_indep by exact Ea. rewrite sem_channels_indep by exact Ea.
    unfold assign_channels in Hlen. rewrite Ea in Hlen. rewrite <- Hlen.
    apply encodes_repeat_map.
    assert (Ea' : h_assign h <? 8 = true) by (rewrite <- Eqa; exact Ea).
    pose proof (subs_indep_Forall h Ea' subs 0 Hwf Hsp) as HF. rewrite <- Eqb, <- Eqs in HF.
    eapply Forall_impl; [|exact HF]. intros sf [H1 H2]. apply dec_subframe_agree; auto. left. split; [reflexivity|exact Hb32].
  - (* stereo decorrelation: exactly two subframes *)
    unfold assign_channels in Hlen. rewrite Ea in Hlen.
    destruct subs as [|s0 [|s1 [|]]]; try discriminate.
    cbn [wf_subframes spec_subframes write_subframes map] in *. rewrite <- ?Eqa, <- ?Eqb, <- ?Eqs in *.
    apply andb_prop in Hwf. destruct Hwf as [Hw0 Hw1]. apply andb_prop in Hw1. destruct Hw1 as [Hw1 _].
    apply andb_prop in Hsp. destruct Hsp as [Hs0 Hs1]. apply andb_prop in Hs1. destruct Hs1 as [Hs1 _].
    rewrite app_nil_r.
    pose proof (sem_subframe_fits _ _ _ Hw0 Hs0) as F0. pose proof (sem_subframe_fits _ _ _ Hw1 Hs1) as F1.
    apply N.ltb_ge in Ea. apply N.ltb_lt in Ha.
    assert (Hcase : a = 8 \/ a = 9 \/ a = 10) by lia.
    destruct (bps <? 32) eqn:E32.
    + apply N.ltb_lt in E32.
      destruct Hcase as [-> | [-> | ->]]; cbn [N.eqb Pos.eqb subframe_bps Nat.eqb andb sem_channels] in *.
      * (* left / side *)
        apply andb_prop in Hout. destruct Hout as [_ Hout]. apply andb_prop in Hout. destruct Hout as [HR _].
        eapply encodes_bind; [apply dec_subframe_agree; [left; split; [reflexivity|lia]|exact Hw0|exact Hs0]|].
        eapply encodes_bind_r; [apply dec_subframe_agree; [left; split; [reflexivity|lia]|exact Hw1|exact Hs1]|].
        eapply encodes_bind_nil; [|apply encodes_ret].
        apply encodes_lift. apply (map2_res_ok _ (fun l s => (l - s)%Z)).
        rewrite forallb_forall in HR.
        assert (HRF : Forall (fun p => fits bps (fst p - snd p) = true) (combine (sem_subframe bs s0) (sem_subframe bs s1))).
        { apply Forall_forall. intros p Hp. apply HR. apply in_map_iff. exists p. auto. }
        clear HR. revert HRF. generalize (sem_subframe bs s0) (sem_subframe bs s1) F0 F1.
        induction l as [|x l IH]; intros [|y l'] G0 G1 HRF; cbn [combine forallb] in *; try constructor.
        -- apply Forall_cons_iff in HRF; destruct HRF as [HRF1 HRF2]; cbn [fst snd] in HRF1. apply andb_prop in G0. apply andb_prop in G1. apply (ls_ok bps); try lia; tauto.
        -- apply Forall_cons_iff in HRF; destruct HRF as [HRF1 HRF2]; cbn [fst snd] in HRF1. apply andb_prop in G0. apply andb_prop in G1. apply IH; tauto.
      * (* side / right *)
        apply andb_prop in Hout. destruct Hout as [HL _].
        eapply encodes_bind; [apply dec_subframe_agree; [left; split; [reflexivity|lia]|exact Hw0|exact Hs0]|].
        eapply encodes_bind_r; [apply dec_subframe_agree; [left; split; [reflexivity|lia]|exact Hw1|exact Hs1]|].
        eapply encodes_bind_nil; [|apply encodes_ret].
        apply encodes_lift. apply (map2_res_ok _ (fun s r => (s + r)%Z)).
        rewrite forallb_forall in HL.
        assert (HLF : Forall (fun p => fits bps (fst p + snd p) = true) (combine (sem_subframe bs s0) (sem_subframe bs s1))).
        { apply Forall_forall. intros p Hp. apply HL. apply in_map_iff. exists p. auto. }
        clear HL. revert HLF. generalize (sem_subframe bs s0) (sem_subframe bs s1) F0 F1.
        induction l as [|x l IH]; intros [|y l'] G0 G1 HLF; cbn [combine forallb] in *; try constructor.
        -- apply Forall_cons_iff in HLF; destruct HLF as [HLF1 HLF2]; cbn [fst snd] in HLF1. apply andb_prop in G0. apply andb_prop in G1. apply (sr_ok bps); try lia; tauto.
        -- apply Forall_cons_iff in HLF; destruct HLF as [HLF1 HLF2]; cbn [fst snd] in HLF1. apply andb_prop in G0. apply andb_prop in G1. apply IH; tauto.
      * (* mid / side *)
        apply andb_prop in Hout. destruct Hout as [HL Hout]. apply andb_prop in Hout. destruct Hout as [HR _].
        eapply encodes_bind; [apply dec_subframe_agree; [left; split; [reflexivity|lia]|exact Hw0|exact Hs0]|].
        eapply encodes_bind_r; [apply dec_subframe_agree; [left; split; [reflexivity|lia]|exact Hw1|exact Hs1]|].
        eapply encodes_bind_nil with
          (x := (map (fun p => ((fst p * 2 + Z.abs (snd p) mod 2 + snd p) / 2)%Z) (combine (sem_subframe bs s0) (sem_subframe bs s1)),
                 map (fun p => ((fst p * 2 + Z.abs (snd p) mod 2 - snd p) / 2)%Z) (combine (sem_subframe bs s0) (sem_subframe bs s1))));
          [|apply encodes_ret].
        apply encodes_lift.
        apply (map2_res2_ok _ (fun m s => ((m * 2 + Z.abs s mod 2 + s) / 2)%Z) (fun m s => ((m * 2 + Z.abs s mod 2 - s) / 2)%Z)).
        rewrite forallb_forall in HL, HR.
        assert (HF : Forall (fun p => fits bps ((fst p * 2 + Z.abs (snd p) mod 2 + snd p) / 2) = true /\
                                      fits bps ((fst p * 2 + Z.abs (snd p) mod 2 - snd p) / 2) = true)
                            (combine (sem_subframe bs s0) (sem_subframe bs s1))).
        { apply Forall_forall. intros p Hp. split; [apply HL|apply HR]; apply in_map_iff; exists p; auto. }
        clear HL HR. revert HF. generalize (sem_subframe bs s0) (sem_subframe bs s1) F0 F1.
        induction l as [|x l IH]; intros [|y l'] G0 G1 HF; cbn [combine forallb] in *; try constructor.
        -- apply Forall_cons_iff in HF; destruct HF as [[HA HB] HF2]. apply andb_prop in G0. apply andb_prop in G1. cbn [fst snd] in *.
           apply (ms_ok bps); try lia; tauto.
        -- apply Forall_cons_iff in HF; destruct HF as [HF1 HF2]. apply andb_prop in G0. apply andb_prop in G1. apply IH; tauto.
    + apply N.ltb_ge in E32. assert (Eb : bps = 32) by lia. rewrite Eb in *.
      destruct Hcase as [-> | [-> | ->]]; cbn [N.eqb Pos.eqb subframe_bps Nat.eqb andb sem_channels] in *;
        change (32 + 1) with 33 in *.
      * apply andb_prop in Hout. destruct Hout as [_ Hout]. apply andb_prop in Hout. destruct Hout as [HR _].
        eapply encodes_bind; [apply dec_subframe_agree; [left; split; [reflexivity|lia]|exact Hw0|exact Hs0]|].
        eapply encodes_bind_r; [apply dec_subframe_agree; [right; split; [reflexivity|lia]|exact Hw1|exact Hs1]|].
        eapply encodes_bind_nil; [|apply encodes_ret].
        apply encodes_lift. apply (map2_res_ok _ (fun l s => (l - s)%Z)).
        rewrite forallb_forall in HR.
        assert (HRF : Forall (fun p => fits 32 (fst p - snd p) = true) (combine (sem_subframe bs s0) (sem_subframe bs s1))).
        { apply Forall_forall. intros p Hp. apply HR. apply in_map_iff. exists p. auto. }
        clear HR. revert HRF. generalize (sem_subframe bs s0) (sem_subframe bs s1) F0 F1.
        induction l as [|x l IH]; intros [|y l'] G0 G1 HRF; cbn [combine forallb] in *; try constructor.
        -- apply Forall_cons_iff in HRF; destruct HRF as [HRF1 HRF2]; cbn [fst snd] in HRF1. apply andb_prop in G0. apply andb_prop in G1. apply ls_ok_w; tauto.
        -- apply Forall_cons_iff in HRF; destruct HRF as [HRF1 HRF2]; cbn [fst snd] in HRF1. apply andb_prop in G0. apply andb_prop in G1. apply IH; tauto.
      * apply andb_prop in Hout. destruct Hout as [HL _].
        eapply encodes_bind; [apply dec_subframe_agree; [right; split; [reflexivity|lia]|exact Hw0|exact Hs0]|].
        eapply encodes_bind_r; [apply dec_subframe_agree; [left; split; [reflexivity|lia]|exact Hw1|exact Hs1]|].
        eapply encodes_bind_nil; [|apply encodes_ret].
        apply encodes_lift. apply (map2_res_ok _ (fun s r => (s + r)%Z)).
        rewrite forallb_forall in HL.
        assert (HLF : Forall (fun p => fits 32 (fst p + snd p) = true) (combine (sem_subframe bs s0) (sem_subframe bs s1))).
        { apply Forall_forall. intros p Hp. apply HL. apply in_map_iff. exists p. auto. }
        clear HL. revert HLF. generalize (sem_subframe bs s0) (sem_subframe bs s1) F0 F1.
        induction l as [|x l IH]; intros [|y l'] G0 G1 HLF; cbn [combine forallb] in *; try constructor.
        -- apply Forall_cons_iff in HLF; destruct HLF as [HLF1 HLF2]; cbn [fst snd] in HLF1. apply andb_prop in G0. apply andb_prop in G1. apply sr_ok_w; tauto.
        -- apply Forall_cons_iff in HLF; destruct HLF as [HLF1 HLF2]; cbn [fst snd] in HLF1. apply andb_prop in G0. apply andb_prop in G1. apply IH; tauto.
      * apply andb_prop in Hout. destruct Hout as [HL Hout]. apply andb_prop in Hout. destruct Hout as [HR _].
        eapply encodes_bind; [apply dec_subframe_agree; [left; split; [reflexivity|lia]|exact Hw0|exact Hs0]|].
        eapply encodes_bind_r; [apply dec_subframe_agree; [right; split; [reflexivity|lia]|exact Hw1|exact Hs1]|].
        eapply encodes_bind_nil with
          (x := (map (fun p => ((fst p * 2 + Z.abs (snd p) mod 2 + snd p) / 2)%Z) (combine (sem_subframe bs s0) (sem_subframe bs s1)),
                 map (fun p => ((fst p * 2 + Z.abs (snd p) mod 2 - snd p) / 2)%Z) (combine (sem_subframe bs s0) (sem_subframe bs s1))));
          [|apply encodes_ret].
        apply encodes_lift.
        apply (map2_res2_ok _ (fun m s => ((m * 2 + Z.abs s mod 2 + s) / 2)%Z) (fun m s => ((m * 2 + Z.abs s mod 2 - s) / 2)%Z)).
        rewrite forallb_forall in HL, HR.
        assert (HF : Forall (fun p => fits 32 ((fst p * 2 + Z.abs (snd p) mod 2 + snd p) / 2) = true /\
                                      fits 32 ((fst p * 2 + Z.abs (snd p) mod 2 - snd p) / 2) = true)
                            (combine (sem_subframe bs s0) (sem_subframe bs s1))).
        { apply Forall_forall. intros p Hp. split; [apply HL|apply HR]; apply in_map_iff; exists p; auto. }
        clear HL HR. revert HF. generalize (sem_subframe bs s0) (sem_subframe bs s1) F0 F1.
        induction l as [|x l IH]; intros [|y l'] G0 G1 HF; cbn [combine forallb] in *; try constructor.
        -- apply Forall_cons_iff in HF; destruct HF as [[HA HB] HF2]. apply andb_prop in G0. apply andb_prop in G1. cbn [fst snd] in *.
           apply ms_ok_w; tauto.
        -- apply Forall_cons_iff in HF; destruct HF as [HF1 HF2]. apply andb_prop in G0. apply andb_prop in G1. apply IH; tauto.
Qed.
