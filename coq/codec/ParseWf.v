(* Codec/ParseWf.v — whatever the structural parser accepts is a well-formed tree (the wf predicates): so the
   theorems stated for well-formed trees (C17 both directions, block-size expansion) hold for every
   frame the parser accepts. *)
From FlacCodec Require Import Parser_proofs Struct Write Wf Roundtrip_sub Inverse.
From FlacBase Require Import Crc.
Open Scope N_scope.

Lemma sext_fits n v : (0 < n)%nat -> v < 2 ^ N.of_nat n -> fits (N.of_nat n) (sext n v) = true.
Proof.
  intros Hn Hv. unfold fits, sext.
  assert (HN : Z.of_N (2 ^ N.of_nat n) = (2 ^ Z.of_nat n)%Z) by (rewrite N2Z.inj_pow; f_equal; lia).
  assert (E2 : (2 ^ Z.of_nat n = 2 * 2 ^ (Z.of_N (N.of_nat n) - 1))%Z).
  { replace (Z.of_nat n) with (Z.succ (Z.of_N (N.of_nat n) - 1)) by lia. rewrite Z.pow_succ_r by lia. reflexivity. }
  assert (Hp : (0 < 2 ^ (Z.of_N (N.of_nat n) - 1))%Z) by (apply Z.pow_pos_nonneg; lia).
  rewrite (testbit_top n v Hn Hv).
  assert (HN1 : Z.of_N (2 ^ N.of_nat (n - 1)) = (2 ^ (Z.of_N (N.of_nat n) - 1))%Z).
  { rewrite N2Z.inj_pow. f_equal. lia. }
  apply andb_true_intro. split; [apply andb_true_intro; split|].
  - apply N.leb_le. lia.
  - apply Z.leb_le. destruct (N.leb_spec (2 ^ N.of_nat (n - 1)) v); lia.
  - apply Z.ltb_lt. destruct (N.leb_spec (2 ^ N.of_nat (n - 1)) v); lia.
Qed.

Lemma rds_fits n s z r : (0 < n)%nat -> p_rds n s = Ok (z, r) -> fits (N.of_nat n) z = true.
Proof.
  intros Hn H. unfold p_rds, rd_s in H. destruct (rd n s) as [[v r0]|] eqn:E; inversion H; subst.
  apply rd_bound in E. apply sext_fits; assumption.
Qed.

Lemma repeat_rds_fits k : (0 < k)%nat -> forall n s xs r, p_repeat n (p_rds k) s = Ok (xs, r) ->
  forallb (fits (N.of_nat k)) xs = true /\ length xs = n.
Proof.
  intros Hk. induction n as [|n IH]; intros s xs r H; cbn [p_repeat] in H.
  - unfold pret in H. inversion H; subst. auto.
  - unfold pbind in H. destruct (p_rds k s) as [[x s1]| |] eqn:E1; try discriminate.
    destruct (p_repeat n (p_rds k) s1) as [[ys s2]| |] eqn:E2; try discriminate.
    unfold pret in H. inversion H; subst. apply (rds_fits k _ _ _ Hk) in E1. apply IH in E2. destruct E2 as [F L].
    cbn [forallb length]. rewrite E1, F. auto.
Qed.

Lemma zigzag_decode_fits u : u < 2 ^ 32 -> fits 32 (zigzag_decode u) = true.
Proof.
  intros Hu. change (2 ^ 32) with 4294967296 in Hu. unfold fits, zigzag_decode.
  pose proof (N.div_mod u 2 ltac:(discriminate)) as D. pose proof (N.mod_upper_bound u 2 ltac:(discriminate)) as M.
  remember (u / 2) as q. remember (u mod 2) as m.
  assert (Hq : q < 2147483648) by lia.
  change (2 ^ (Z.of_N 32 - 1))%Z with 2147483648%Z. change (1 <=? 32) with true. cbn [andb].
  apply andb_true_intro. split.
  - apply Z.leb_le. destruct (N.odd u); lia.
  - apply Z.ltb_lt. destruct (N.odd u); lia.
Qed.

Lemma rice_fits k s z r : k <= 32 -> p_rice k s = Ok (z, r) -> fits 32 z = true.
Proof.
  unfold p_rice, pbind. intros Hk H.
  destruct (p_unary true s) as [[msb s1]| |]; try discriminate.
  destruct (p_rd (N.to_nat k) s1) as [[lsb s2]| |] eqn:E2; try discriminate.
  destruct (N.leb_spec msb ((2 ^ 32 - 1) / 2 ^ k)) as [Hm|]; cbn [p_guard] in H; [|discriminate].
  unfold pret in H. inversion H; subst.
  unfold p_rd in E2. destruct (rd (N.to_nat k) s1) as [[v r0]|] eqn:E; inversion E2; subst.
  apply rd_bound in E. rewrite N2Nat.id in E.
  apply zigzag_decode_fits.
  assert (Hp : 2 ^ k <> 0) by (apply N.pow_nonzero; discriminate).
  assert (Esplit : 2 ^ 32 = 2 ^ k * 2 ^ (32 - k)) by (rewrite <- N.pow_add_r; f_equal; lia).
  assert (Hq : 2 ^ (32 - k) <> 0) by (apply N.pow_nonzero; discriminate).
  remember (2 ^ k) as p. remember (2 ^ (32 - k)) as q.
  assert (Ediv : (2 ^ 32 - 1) / p = q - 1).
  { symmetry. apply (N.div_unique _ p _ (p - 1)); [lia|]. rewrite Esplit. nia. }
  rewrite Ediv in Hm. rewrite Esplit. nia.
Qed.

Lemma repeat_rice_fits k : k <= 32 -> forall n s xs r, p_repeat n (p_rice k) s = Ok (xs, r) ->
  forallb (fits 32) xs = true /\ length xs = n.
Proof.
  intros Hk. induction n as [|n IH]; intros s xs r H; cbn [p_repeat] in H.
  - unfold pret in H. inversion H; subst. auto.
  - unfold pbind in H. destruct (p_rice k s) as [[x s1]| |] eqn:E1; try discriminate.
    destruct (p_repeat n (p_rice k) s1) as [[ys s2]| |] eqn:E2; try discriminate.
    unfold pret in H. inversion H; subst. apply (rice_fits k _ _ _ Hk) in E1. apply IH in E2. destruct E2 as [F L].
    cbn [forallb length]. rewrite E1, F. auto.
Qed.

Lemma struct_partitions_wf method : method < 2 -> forall lens s parts r,
  struct_partitions method lens s = Ok (parts, r) ->
  forallb (wf_part method) parts = true /\ map (fun p => Some (part_len p)) parts = lens.
Proof.
  intros Hmeth. induction lens as [|[n|] lens IH]; intros s parts r H; cbn [struct_partitions] in H.
  - unfold pret in H. inversion H; subst. auto.
  - unfold pbind in H.
    destruct (p_part_header method s) as [[h s1]| |] eqn:E1; try discriminate.
    destruct (p_partition h n s1) as [[rs s2]| |] eqn:E2; try discriminate.
    destruct (struct_partitions method lens s2) as [[ps s3]| |] eqn:E3; try discriminate.
    unfold pret in H. inversion H; subst. apply IH in E3. destruct E3 as [F M].
    cbn [forallb map]. rewrite F, M.
    (* the header: parameter below the escape code; escape width 1..31 *)
    unfold p_part_header, pbind in E1.
    destruct (p_rd _ s) as [[k t1]| |] eqn:Ek; try discriminate.
    unfold p_rd in Ek. destruct (rd _ s) as [[k' t']|] eqn:Rk; inversion Ek; subst. apply rd_bound in Rk.
    destruct (N.eqb_spec k (if method =? 0 then 15 else 31)) as [Ee|Ne].
    + destruct (p_rd 5 t1) as [[w t2]| |] eqn:Ew; try discriminate.
      unfold p_rd in Ew. destruct (rd 5 t1) as [[w' t'']|] eqn:Rw; inversion Ew; subst. apply rd_bound in Rw.
      change (2 ^ N.of_nat 5) with 32 in Rw.
      destruct (N.eqb_spec w 0) as [->|Nw]; unfold pret in E1; inversion E1; subst; cbn [p_partition] in E2.
      * unfold pret in E2. inversion E2; subst. cbn [wf_part]. unfold part_len. cbn [part_residuals].
        rewrite repeat_length. auto.
      * destruct (repeat_rds_fits (N.to_nat w) ltac:(lia) _ _ _ _ E2) as [Fx Lx]. rewrite N2Nat.id in Fx.
        cbn [wf_part]. unfold part_len. cbn [part_residuals]. rewrite Lx, Fx.
        destruct (N.leb_spec 1 w); [|lia]. destruct (N.leb_spec w 31); [|lia]. auto.
    + unfold pret in E1. inversion E1; subst. cbn [p_partition] in E2.
      assert (Hk : k < (if method =? 0 then 15 else 31)).
      { destruct (N.eqb_spec method 0); [change (2 ^ N.of_nat 4) with 16 in Rk|change (2 ^ N.of_nat 5) with 32 in Rk]; lia. }
      assert (Hk32 : k <= 32) by (destruct (method =? 0); lia).
      destruct (repeat_rice_fits _ Hk32 _ _ _ _ E2) as [Fx Lx].
      cbn [wf_part]. unfold part_len. cbn [part_residuals]. rewrite Lx, Fx.
      apply N.ltb_lt in Hk. rewrite Hk. auto.
  - discriminate.
Qed.

Lemma lens_eqb_refl l : lens_eqb (map Some l) l = true.
Proof.
  unfold lens_eqb. rewrite map_length, Nat.eqb_refl. cbn [andb].
  induction l as [|x l IH]; cbn; auto. rewrite Nat.eqb_refl. exact IH.
Qed.

Lemma struct_residuals_wf bs order s res r : struct_residuals bs order s = Ok (res, r) -> wf_residual bs order res = true.
Proof.
  unfold struct_residuals, pbind. intros H.
  destruct (p_rd 2 s) as [[method s1]| |] eqn:E1; try discriminate.
  destruct (N.ltb_spec method 2) as [Hm|]; cbn [p_guard] in H; [|discriminate]. unfold pret at 1 in H.
  destruct (p_rd 4 s1) as [[po s2]| |] eqn:E2; try discriminate.
  unfold p_rd in E2. destruct (rd 4 s1) as [[po' t']|] eqn:Rp; inversion E2; subst. apply rd_bound in Rp. change (2 ^ N.of_nat 4) with 16 in Rp.
  destruct (N.eqb_spec (bs mod 2 ^ po) 0) as [Hdiv|]; cbn [p_guard] in H; [|discriminate]. unfold pret at 1 in H.
  destruct (struct_partitions method _ s2) as [[ps s3]| |] eqn:E3; try discriminate.
  unfold pret in H. inversion H; subst.
  destruct (struct_partitions_wf method Hm _ _ _ _ E3) as [F M].
  pose proof (struct_partitions_inv _ _ _ _ _ E3) as [_ L]. rewrite struct_part_lens_length in L.
  unfold wf_residual. cbn [r_method r_parts].
  assert (Elog : N.log2 (N.of_nat (length ps)) = po).
  { rewrite L, N2Nat.id. apply N.log2_pow2. lia. }
  rewrite Elog. rewrite <- M. rewrite <- map_map. rewrite lens_eqb_refl.
  apply N.ltb_lt in Hm. apply N.ltb_lt in Rp. rewrite Hm, Rp, Hdiv, F. reflexivity.
Qed.

Lemma subframe_header_type s ty wasted r : p_subframe_header s = Ok ((ty, wasted), r) ->
  match ty with TFixed o => o <= 4 | TLpc o => 1 <= o /\ o <= 32 | _ => True end.
Proof.
  unfold p_subframe_header, pbind. intros H.
  destruct (p_bit s) as [[pad s0]| |]; try discriminate.
  destruct (negb pad); cbn [p_guard] in H; [|discriminate]. unfold pret at 1 in H.
  destruct (p_rd 6 s0) as [[t s1]| |] eqn:E1; try discriminate.
  unfold p_rd in E1. destruct (rd 6 s0) as [[t' u']|] eqn:R; inversion E1; subst. apply rd_bound in R. change (2 ^ N.of_nat 6) with 64 in R.
  destruct (N.eqb_spec t 0).
  { unfold pret at 1 in H. destruct (p_bit s1) as [[w s2]| |]; try discriminate.
    destruct w; [destruct (p_unary true s2) as [[u s3]| |]; try discriminate|]; unfold pret in H; inversion H; subst; exact I. }
  destruct (N.eqb_spec t 1).
  { unfold pret at 1 in H. destruct (p_bit s1) as [[w s2]| |]; try discriminate.
    destruct w; [destruct (p_unary true s2) as [[u s3]| |]; try discriminate|]; unfold pret in H; inversion H; subst; exact I. }
  destruct ((8 <=? t) && (t <=? 12)) eqn:Ef.
  { apply andb_prop in Ef. destruct Ef as [F1 F2]. apply N.leb_le in F1. apply N.leb_le in F2.
    unfold pret at 1 in H. destruct (p_bit s1) as [[w s2]| |]; try discriminate.
    destruct w; [destruct (p_unary true s2) as [[u s3]| |]; try discriminate|]; unfold pret in H; inversion H; subst; lia. }
  destruct (N.leb_spec 32 t); [|discriminate].
  unfold pret at 1 in H. destruct (p_bit s1) as [[w s2]| |]; try discriminate.
  destruct w; [destruct (p_unary true s2) as [[u s3]| |]; try discriminate|]; unfold pret in H; inversion H; subst; lia.
Qed.

Theorem struct_subframe_wf bs bps s sf r : struct_subframe bs bps s = Ok (sf, r) -> wf_subframe bs bps sf = true.
Proof.
  unfold struct_subframe, pbind. intros H.
  destruct (p_subframe_header s) as [[[ty wasted] s1]| |] eqn:Eh; try discriminate.
  pose proof (subframe_header_type _ _ _ _ Eh) as Hty.
  unfold plift in H. destruct (effective_bps bps wasted) as [eb| |] eqn:Ee; try discriminate.
  assert (Hw : wasted <= bps - 1 /\ 1 <= bps).
  { unfold effective_bps in Ee. destruct (N.leb_spec wasted (bps - 1)); [|discriminate]. destruct (N.leb_spec 1 bps); [|discriminate]. auto. }
  apply effective_bps_inv in Ee. destruct Ee as [-> He1].
  assert (Hpos : (0 < N.to_nat (bps - wasted))%nat) by lia.
  assert (Eid : N.of_nat (N.to_nat (bps - wasted)) = bps - wasted) by apply N2Nat.id.
  unfold wf_subframe.
  assert (Hpre : (1 <=? bps) && (wasted <=? bps - 1) = true).
  { apply andb_true_intro. split; apply N.leb_le; lia. }
  destruct ty as [| |o|o].
  - destruct (p_rds _ s1) as [[v s2]| |] eqn:E1; try discriminate. unfold pret in H. inversion H; subst.
    cbn [sf_wasted sf_body wf_body]. rewrite Hpre. apply (rds_fits _ _ _ _ Hpos) in E1. rewrite Eid in E1. rewrite E1. reflexivity.
  - destruct (p_repeat _ _ s1) as [[xs s2]| |] eqn:E1; try discriminate. unfold pret in H. inversion H; subst.
    cbn [sf_wasted sf_body wf_body]. rewrite Hpre.
    destruct (repeat_rds_fits _ Hpos _ _ _ _ E1) as [F L]. rewrite Eid in F. rewrite F, L, Nat.eqb_refl. reflexivity.
  - destruct (p_repeat _ _ s1) as [[warm s2]| |] eqn:E1; try discriminate.
    destruct (struct_residuals bs o s2) as [[res s3]| |] eqn:E2; try discriminate. unfold pret in H. inversion H; subst.
    cbn [sf_wasted sf_body wf_body]. rewrite Hpre.
    destruct (repeat_rds_fits _ Hpos _ _ _ _ E1) as [F L]. rewrite Eid in F.
    apply struct_residuals_wf in E2. rewrite F, L, Nat.eqb_refl, E2.
    destruct (N.leb_spec o 4); [reflexivity|lia].
  - destruct (p_repeat _ _ s1) as [[warm s2]| |] eqn:E1; try discriminate.
    unfold p_qlp_precision, p_qlp_shift, pbind in H.
    destruct (p_rd 4 s2) as [[c s3]| |] eqn:E2; try discriminate.
    unfold p_rd in E2. destruct (rd 4 s2) as [[c' u']|] eqn:Rc; inversion E2; subst. apply rd_bound in Rc. change (2 ^ N.of_nat 4) with 16 in Rc.
    destruct (N.eqb_spec c 15); [discriminate|]. unfold pret at 1 in H.
    destruct (p_rds 5 s3) as [[sh s4]| |] eqn:E3; try discriminate.
    destruct (Z.ltb_spec sh 0); [discriminate|]. unfold pret at 1 in H.
    destruct (p_repeat (N.to_nat o) (p_rds (N.to_nat (c + 1))) s4) as [[coefs s5]| |] eqn:E4; try discriminate.
    destruct (struct_residuals bs o s5) as [[res s6]| |] eqn:E5; try discriminate. unfold pret in H. inversion H; subst.
    cbn [sf_wasted sf_body wf_body]. rewrite Hpre.
    destruct (repeat_rds_fits _ Hpos _ _ _ _ E1) as [F L]. rewrite Eid in F.
    destruct (repeat_rds_fits (N.to_nat (c + 1)) ltac:(lia) _ _ _ _ E4) as [Fc Lc]. rewrite N2Nat.id in Fc.
    apply struct_residuals_wf in E5.
    apply (rds_fits 5 _ _ _ ltac:(lia)) in E3. apply fits_spec in E3. destruct E3 as [_ E3].
    change (Z.of_nat (N.to_nat (N.of_nat 5) - 1)) with 4%Z in E3. change (2 ^ 4)%Z with 16%Z in E3.
    rewrite F, L, Fc, Lc, !Nat.eqb_refl, E5. destruct Hty as [Ho1 Ho32].
    destruct (N.leb_spec 1 o); [|lia]. destruct (N.leb_spec o 32); [|lia].
    destruct (N.leb_spec 1 (c + 1)); [|lia]. destruct (N.leb_spec (c + 1) 15); [|lia].
    destruct (N.leb_spec (Z.to_N sh) 15); [reflexivity|lia].
Qed.

Lemma struct_subframes_wf h : forall n i s subs r, struct_subframes h i n s = Ok (subs, r) -> wf_subframes h i subs = true.
Proof.
  induction n as [|n IH]; intros i s subs r H; cbn [struct_subframes] in H.
  - unfold pret in H. inversion H; subst. reflexivity.
  - unfold pbind in H.
    destruct (struct_subframe _ _ s) as [[sf s1]| |] eqn:E1; try discriminate.
    destruct (struct_subframes h (S i) n s1) as [[rest s2]| |] eqn:E2; try discriminate.
    unfold pret in H. inversion H; subst. cbn [wf_subframes].
    apply struct_subframe_wf in E1. apply IH in E2. rewrite E1, E2. reflexivity.
Qed.

(* ---- header ---- *)
Lemma frame_number_bound s v r : p_frame_number s = Ok (v, r) -> v <= MAX_FRAME_NUMBER.
Proof.
  unfold p_frame_number, pbind, MAX_FRAME_NUMBER. intros H.
  destruct (p_unary false s) as [[ones s1]| |]; try discriminate.
  destruct (N.eqb_spec ones 0).
  - unfold p_rd in H. destruct (rd 7 s1) as [[v' r']|] eqn:E; inversion H; subst. apply rd_bound in E.
    change (2 ^ N.of_nat 7) with 128 in E. change (2 ^ 36 - 1) with 68719476735. lia.
  - destruct ((ones =? 1) || (7 <? ones)) eqn:Eb; [discriminate|].
    apply orb_false_elim in Eb. destruct Eb as [B1 B2]. apply N.eqb_neq in B1. apply N.ltb_ge in B2.
    destruct (p_rd (7 - N.to_nat ones) s1) as [[first s2]| |] eqn:E2; try discriminate.
    unfold p_rd in E2. destruct (rd _ s1) as [[f' r']|] eqn:Ef; inversion E2; subst. apply rd_bound in Ef.
    destruct (number_cont_inv _ _ _ _ _ H) as (c & _ & _ & Ev & _).
    set (k := (N.to_nat ones - 1)%nat) in *.
    assert (Hp : 2 ^ (6 * N.of_nat k) <> 0) by (apply N.pow_nonzero; discriminate).
    pose proof (N.mod_upper_bound v _ Hp) as Hm.
    assert (Hv : v < 2 ^ N.of_nat (7 - N.to_nat ones) * 2 ^ (6 * N.of_nat k)) by nia.
    rewrite <- N.pow_add_r in Hv.
    assert (Hle : 2 ^ (N.of_nat (7 - N.to_nat ones) + 6 * N.of_nat k) <= 2 ^ 36).
    { apply N.pow_le_mono_r; [discriminate|]. unfold k. lia. }
    lia.
Qed.

Theorem header_wf si s h r : parse_header_fields si s = Ok (h, r) -> wf_header si h = true.
Proof.
  unfold parse_header_fields, pbind. intros H.
  destruct (p_rd 15 s) as [[sync s1]| |]; try discriminate.
  destruct (sync =? SYNC_CODE); cbn [p_guard] in H; [|discriminate]. unfold pret at 1 in H.
  destruct (p_bit s1) as [[variable s2]| |]; try discriminate.
  destruct (p_rd 4 s2) as [[bs_code s3]| |] eqn:E1; try discriminate.
  unfold p_rd in E1. destruct (rd 4 s2) as [[x1 y1]|] eqn:R1; inversion E1; subst. apply rd_bound in R1. change (2 ^ N.of_nat 4) with 16 in R1.
  destruct (N.eqb_spec bs_code 0) as [|Nbs0]; cbn [negb p_guard] in H; [discriminate|]. unfold pret at 1 in H.
  destruct (p_rd 4 s3) as [[rate_code s4]| |] eqn:E2; try discriminate.
  unfold p_rd in E2. destruct (rd 4 s3) as [[x2 y2]|] eqn:R2; inversion E2; subst. apply rd_bound in R2. change (2 ^ N.of_nat 4) with 16 in R2.
  destruct (negb ((rate_code =? 0) && _)) eqn:G2; cbn [p_guard] in H; [|discriminate]. unfold pret at 1 in H.
  destruct (N.eqb_spec rate_code 15) as [|Nr15]; cbn [negb p_guard] in H; [discriminate|]. unfold pret at 1 in H.
  destruct (p_rd 4 s4) as [[assign s5]| |]; try discriminate.
  destruct (N.ltb_spec assign 11) as [Ha|]; cbn [p_guard] in H; [|discriminate]. unfold pret at 1 in H.
  destruct (p_rd 3 s5) as [[bps_code s6]| |] eqn:E4; try discriminate.
  unfold p_rd in E4. destruct (rd 3 s5) as [[x4 y4]|] eqn:R4; inversion E4; subst. apply rd_bound in R4. change (2 ^ N.of_nat 3) with 8 in R4.
  destruct (negb ((bps_code =? 0) && _)) eqn:G4; cbn [p_guard] in H; [|discriminate]. unfold pret at 1 in H.
  destruct (N.eqb_spec bps_code 3) as [|Nb3]; cbn [negb p_guard] in H; [discriminate|]. unfold pret at 1 in H.
  destruct (p_rd 1 s6) as [[resv s7]| |]; try discriminate.
  destruct (p_frame_number s7) as [[number s8]| |] eqn:E6; try discriminate.
  apply frame_number_bound in E6.
  match type of H with match ?x with _ => _ end = _ => destruct x as [[bs s9]| |] eqn:E7 end; try discriminate.
  match type of H with match ?x with _ => _ end = _ => destruct x as [[rate s10]| |] eqn:E8 end; try discriminate.
  destruct (p_rd 8 s10) as [[c8 s11]| |]; try discriminate.
  unfold pret in H. inversion H; subst h r. clear H.
  unfold wf_header. cbn [h_bs_code h_rate_code h_bps_code h_bs h_rate h_assign h_bps h_number].
  apply N.ltb_lt in R1. apply N.ltb_lt in R2. apply N.ltb_lt in R4. apply N.ltb_lt in Ha. apply N.leb_le in E6.
  rewrite R1, R2, R4, Ha, E6. cbn [andb]. rewrite !andb_true_r.
  apply andb_true_intro. split; [apply andb_true_intro; split|].
  - (* block size *)
    destruct (bs_of_code bs_code) as [v|] eqn:Eb.
    + unfold pret in E7. inversion E7; subst. apply N.eqb_refl.
    + destruct (N.eqb_spec bs_code 6).
      * unfold pbind in E7. destruct (p_rd 8 s8) as [[v s']| |] eqn:Ev; try discriminate.
        unfold p_rd in Ev. destruct (rd 8 s8) as [[v' t']|] eqn:Rv; inversion Ev; subst. apply rd_bound in Rv. change (2 ^ N.of_nat 8) with 256 in Rv.
        unfold pret in E7. inversion E7; subst. apply andb_true_intro. split; apply N.leb_le; lia.
      * unfold pbind in E7. destruct (p_rd 16 s8) as [[v s']| |] eqn:Ev; try discriminate.
        unfold p_rd in Ev. destruct (rd 16 s8) as [[v' t']|] eqn:Rv; inversion Ev; subst. apply rd_bound in Rv. change (2 ^ N.of_nat 16) with 65536 in Rv.
        destruct (N.eqb_spec v 65535); cbn [negb p_guard] in E7; [discriminate|]. unfold pret in E7. inversion E7; subst.
        assert (bs_code = 7).
        { apply N.ltb_lt in R1.
          assert (C : bs_code = 1 \/ bs_code = 2 \/ bs_code = 3 \/ bs_code = 4 \/ bs_code = 5 \/ bs_code = 7 \/ bs_code = 8 \/ bs_code = 9 \/
                      bs_code = 10 \/ bs_code = 11 \/ bs_code = 12 \/ bs_code = 13 \/ bs_code = 14 \/ bs_code = 15) by lia.
          destruct C as [->|[->|[->|[->|[->|[->|[->|[->|[->|[->|[->|[->|[->| ->]]]]]]]]]]]]]; try discriminate; reflexivity. }
        subst bs_code. cbn [N.eqb Pos.eqb]. apply andb_true_intro. split; apply N.leb_le; lia.
  - (* sample rate *)
    destruct (rate_of_code rate_code) as [v|] eqn:Er.
    + unfold pret in E8. inversion E8; subst. apply N.eqb_refl.
    + destruct (N.eqb_spec rate_code 0) as [->|N0].
      * unfold pret in E8. inversion E8; subst. destruct si; [apply N.eqb_refl|discriminate].
      * destruct (N.eqb_spec rate_code 12).
        { unfold pbind in E8. destruct (p_rd 8 s9) as [[v s']| |] eqn:Ev; try discriminate.
          unfold p_rd in Ev. destruct (rd 8 s9) as [[v' t']|] eqn:Rv; inversion Ev; subst. apply rd_bound in Rv. change (2 ^ N.of_nat 8) with 256 in Rv.
          unfold pret in E8. inversion E8; subst. rewrite N.mod_mul, N.div_mul by discriminate.
          apply andb_true_intro. split; [reflexivity|apply N.ltb_lt; exact Rv]. }
        destruct (N.eqb_spec rate_code 13).
        { unfold p_rd in E8. destruct (rd 16 s9) as [[v' t']|] eqn:Rv; inversion E8; subst. apply rd_bound in Rv. apply N.ltb_lt. exact Rv. }
        unfold pbind in E8. destruct (p_rd 16 s9) as [[v s']| |] eqn:Ev; try discriminate.
        unfold p_rd in Ev. destruct (rd 16 s9) as [[v' t']|] eqn:Rv; inversion Ev; subst. apply rd_bound in Rv. change (2 ^ N.of_nat 16) with 65536 in Rv.
        unfold pret in E8. inversion E8; subst.
        assert (rate_code = 14).
        { apply N.ltb_lt in R2.
          assert (C : rate_code = 1 \/ rate_code = 2 \/ rate_code = 3 \/ rate_code = 4 \/ rate_code = 5 \/ rate_code = 6 \/ rate_code = 7 \/ rate_code = 8 \/
                      rate_code = 9 \/ rate_code = 10 \/ rate_code = 11 \/ rate_code = 14) by lia.
          destruct C as [->|[->|[->|[->|[->|[->|[->|[->|[->|[->|[->| ->]]]]]]]]]]]; try discriminate; reflexivity. }
        subst rate_code. cbn [N.eqb Pos.eqb]. rewrite N.mod_mul, N.div_mul by discriminate.
        apply andb_true_intro. split; [reflexivity|apply N.ltb_lt; exact Rv].
  - (* bits per sample *)
    destruct (bps_of_code bps_code) as [v|] eqn:Ep; [apply N.eqb_refl|].
    destruct (N.eqb_spec bps_code 0) as [->|N0].
    + destruct si; [apply N.eqb_refl|discriminate].
    + exfalso. apply N.ltb_lt in R4.
      assert (C : bps_code = 1 \/ bps_code = 2 \/ bps_code = 4 \/ bps_code = 5 \/ bps_code = 6 \/ bps_code = 7) by lia.
      destruct C as [->|[->|[->|[->|[->| ->]]]]]; discriminate.
Qed.

(* ---- whole frames ---- *)
Theorem struct_frame_wf si bytes f rest : struct_frame si bytes = Ok (f, rest) -> wf_frame si f = true.
Proof.
  unfold struct_frame. intros H.
  destruct (parse_header_fields si (bits_of_bytes bytes)) as [[h0 s1]| |] eqn:Eh; try discriminate.
  apply header_wf in Eh.
  destruct (match si with Some i => header_checks i h0 | None => Ok h0 end) as [h| |] eqn:Eck; try discriminate.
  assert (Eh0 : h = h0).
  { destruct si as [i|]; [|inversion Eck; reflexivity]. unfold header_checks in Eck.
    repeat match type of Eck with (if ?c then _ else _) = _ => destruct c; try discriminate end. inversion Eck. reflexivity. }
  subst h. cbn [bind] in H. destruct (negb _); [discriminate|].
  unfold pbind in H.
  destruct (struct_subframes h0 0 _ s1) as [[subs s2]| |] eqn:Es; try discriminate.
  pose proof (struct_subframes_wf _ _ _ _ _ _ Es) as Hsw.
  assert (Ls : length subs = N.to_nat (assign_channels (h_assign h0))).
  { clear - Es. revert Es. generalize (N.to_nat (assign_channels (h_assign h0))) as n. generalize 0%nat as i. revert s1 subs s2.
    intros s1 subs s2 i n. revert i s1 subs s2. induction n as [|n IH]; intros i s1 subs s2 H; cbn [struct_subframes] in H.
    - unfold pret in H. inversion H. reflexivity.
    - unfold pbind in H. destruct (struct_subframe _ _ s1) as [[sf t1]| |]; try discriminate.
      destruct (struct_subframes h0 (S i) n t1) as [[rest t2]| |] eqn:E2; try discriminate.
      unfold pret in H. inversion H; subst. cbn [length]. f_equal. eapply IH; eauto. }
  destruct (p_align s2) as [[u s3]| |]; try discriminate.
  destruct (p_rd 16 s3) as [[v s4]| |]; try discriminate. unfold pret in H.
  destruct (crc16 _ =? 0); [|discriminate]. inversion H; subst.
  unfold wf_frame. cbn [f_hdr f_subs]. rewrite Eh, Hsw, Ls, Nat.eqb_refl. cbn [andb].
  destruct si as [i|]; [|reflexivity]. rewrite Eck. reflexivity.
Qed.
