(* Property C11 — metadata blocks survive a write/read round trip and report their sizes.
   Statements only; proofs are in Blocks_proofs.v / BlockList_proofs.v.
   `covered b` lists the block types whose codec theorems are proved (see NOTES.md);
   `ty_block` is the invariant the Rust types give a value; `canon_block` excludes the one
   known aliasing class (STREAMINFO with md5 = Some of sixteen zero bytes, finding
   streaminfo-md5-some-all-zero), for which the full statement is refuted below. *)
From FlacMeta Require Import Bytes Blocks BlockList Blocks_proofs BlockList_proofs.
Open Scope N_scope.

(* every block value the writer accepts reads back equal (with the header, inside a stream) *)
Theorem C11_block_write_read : forall (utf8_valid : list N -> bool) last b bs rest,
  covered b -> ty_block b -> canon_block b ->
  write_block last b = Ok bs -> read_block utf8_valid (bs ++ rest) = Ok (last, b, rest).
Proof. exact block_write_read. Qed.

(* the size a block reports (MetadataBlock::bytes, computed from field widths) is the header
   size field and the number of body bytes written *)
Theorem C11_block_size : forall last b bs, covered b -> ty_block b -> write_block last b = Ok bs ->
  exists body, bs = write_header (mkHeader last (block_type b) (lenN body)) ++ body /\
               write_body b = Ok body /\ block_bytes b = Ok (Some (lenN body)).
Proof. exact block_bytes_spec. Qed.

(* any accepted encoding of a block can be written again and re-read to an equal block *)
Theorem C11_block_read_write_read : forall (utf8_valid : list N -> bool) s last b rest,
  Forall byte s -> read_block utf8_valid s = Ok (last, b, rest) -> covered b ->
  ty_block b /\ canon_block b /\ Forall byte rest /\ lenN rest + 4 <= lenN s /\
  exists bs', write_block last b = Ok bs' /\ lenN bs' + lenN rest = lenN s.
Proof. exact read_block_inv. Qed.

(* whenever write_blocks succeeds, read_blocks accepts its output (also when audio follows) *)
Theorem C11_write_blocks_read_blocks : forall (utf8_valid : list N -> bool) l bs tail,
  Forall covered l -> Forall ty_block l -> Forall canon_block l ->
  write_blocks l = Ok bs -> read_blocks utf8_valid (bs ++ tail) = Ok l.
Proof. exact write_blocks_read_blocks. Qed.

(* any section the reader accepts can be written again and re-read to an equal block list *)
Theorem C11_read_blocks_write_blocks : forall (utf8_valid : list N -> bool) bs l,
  Forall byte bs -> read_blocks utf8_valid bs = Ok l -> Forall covered l ->
  Forall ty_block l /\ Forall canon_block l /\
  exists bs', write_blocks l = Ok bs' /\ read_blocks utf8_valid bs' = Ok l.
Proof. exact read_blocks_write_blocks. Qed.

(* lists that break the single-instance / STREAMINFO-first rules are not written ... *)
Theorem C11_rules_refused : forall l bs, write_blocks l = Ok bs -> rules_ok l.
Proof. exact write_blocks_rules. Qed.
(* ... nor lists with a block body over 2^24 - 1 bytes ... *)
Theorem C11_sizes_refused : forall l bs, Forall covered l -> Forall ty_block l -> write_blocks l = Ok bs ->
  Forall (fun b => exists body, write_body b = Ok body /\ lenN body <= BLOCKSIZE_MAX) l.
Proof. exact write_blocks_sizes. Qed.
(* ... and the refusal is an error, never a panic *)
Theorem C11_write_never_panics : forall l, Forall covered l -> Forall ty_block l ->
  is_panic (write_blocks l) = false.
Proof. exact write_blocks_no_panic. Qed.

(* the full-strength per-block statement (no canon_block) is false of the code: finding *)
Definition C11_statement : Prop := C11_statement_full.
Theorem C11_refuted : ~ C11_statement.
Proof. exact c11_refuted. Qed.
Theorem C11_outside_known : forall (utf8_valid : list N -> bool) b bs r,
  covered b -> ty_block b -> ~ known_class b -> write_body b = Ok bs ->
  read_body utf8_valid (block_type b) (lenN bs) (bs ++ r) = Ok (b, r).
Proof. exact c11_outside_known. Qed.

(* non-vacuity: a typed, canonical three-block list that the writer accepts *)
Example C11_nonvacuous :
  let l := [BStreaminfo (mkSI 4096 4096 12 3000 44100 2 16 80 (Some [245; 63; 134; 135; 109; 205; 119; 131; 34; 92; 147; 186; 138; 147; 140; 125]));
            BSeekTable [SPDefined 0 0 4096; SPDefined 4096 1200 4096; SPPlaceholder];
            BApplication (mkApp 1919510118 [1; 2; 3]);
            BPadding 5] in
  is_ok (write_blocks l) = true /\
  (forall bs, write_blocks l = Ok bs -> read_blocks (fun _ => true) bs = Ok l).
Proof.
  cbv zeta. split; [vm_compute; reflexivity|]. intros bs W. vm_compute in W. apply Ok_inj in W. subst bs.
  vm_compute. reflexivity.
Qed.
