(* Codec/Roundtrip_sub.v — subframe level: the structural parser inverts the writer. *)
From FlacCodec Require Import Parser_proofs Wf.
Open Scope N_scope.

Lemma encodes_val {A} (p : P A) w x x' : x = x' -> encodes p w x -> encodes p w x'.
Proof. intros ->. auto. Qed.

Lemma fits_spec n z : fits n z = true ->
  (0 < N.to_nat n)%nat /\ (- 2 ^ Z.of_nat (N.to_nat n - 1) <= z < 2 ^ Z.of_nat (N.to_nat n - 1))%Z.
Proof.
  unfold fits. intros H. apply andb_prop in H. destruct H as [H H3]. apply andb_prop in H. destruct H as [H1 H2].
  apply N.leb_le in H1. apply Z.leb_le in H2. apply Z.ltb_lt in H3.
  split; [lia|]. replace (Z.of_nat (N.to_nat n - 1)) with (Z.of_N n - 1)%Z by lia. lia.
Qed.

Lemma encodes_fits n z : fits n z = true -> encodes (p_rds (N.to_nat n)) (wr_s (N.to_nat n) z) z.
Proof. intros H. apply fits_spec in H. destruct H. apply encodes_rds; assumption. Qed.

Lemma encodes_fits_list n xs : forallb (fits n) xs = true ->
  encodes (p_repeat (length xs) (p_rds (N.to_nat n))) (flat_map (wr_s (N.to_nat n)) xs) xs.
Proof.
  intros H. apply encodes_repeat. rewrite forallb_forall in H. apply Forall_forall.
  intros x Hx. apply encodes_fits. auto.
Qed.

(* ---- zigzag ---- *)
Lemma odd_2a1 a : N.odd (2 * a + 1) = true.
Proof. rewrite N.add_comm, N.odd_add_mul_2. reflexivity. Qed.
Lemma div_2a1 a : (2 * a + 1) / 2 = a.
Proof. symmetry. apply (N.div_unique _ 2 _ 1); lia. Qed.
Lemma odd_2a a : N.odd (2 * a) = false.
Proof. rewrite N.odd_mul, N.odd_2. reflexivity. Qed.
Lemma div_2a a : (2 * a) / 2 = a.
Proof. rewrite (N.mul_comm 2), N.div_mul by discriminate. reflexivity. Qed.

Lemma zigzag_roundtrip z : zigzag_decode (zigzag_encode z) = z.
Proof.
  unfold zigzag_encode, zigzag_decode. destruct (Z.ltb_spec z 0) as [Neg|Pos].
  - assert (E : Z.to_N (2 * (- z - 1) + 1) = (2 * Z.to_N (- z - 1) + 1)%N) by lia.
    rewrite E, odd_2a1, div_2a1. lia.
  - assert (E : Z.to_N (2 * z) = (2 * Z.to_N z)%N) by lia.
    rewrite E, odd_2a, div_2a. lia.
Qed.

Lemma zigzag_bound z : fits 32 z = true -> zigzag_encode z < 2 ^ 32.
Proof.
  intros H. apply fits_spec in H. destruct H as [_ H]. change (Z.of_nat (N.to_nat 32 - 1)) with 31%Z in H.
  unfold zigzag_encode. change (2 ^ 32) with 4294967296. change (2 ^ 31)%Z with 2147483648%Z in H.
  destruct (Z.ltb_spec z 0); lia.
Qed.

Lemma encodes_rice k z : fits 32 z = true -> encodes (p_rice k) (write_rice k z) z.
Proof.
  intros Hz. unfold p_rice, write_rice.
  pose proof (zigzag_bound z Hz) as Hu. remember (zigzag_encode z) as u.
  assert (Hp : 2 ^ k <> 0) by (apply N.pow_nonzero; discriminate).
  eapply encodes_bind; [apply encodes_unary|].
  rewrite <- (app_nil_r (wr (N.to_nat k) (u mod 2 ^ k))).
  eapply encodes_bind.
  { apply encodes_rd. rewrite N2Nat.id. apply N.mod_upper_bound. exact Hp. }
  rewrite N2Nat.id.
  eapply encodes_bind_nil.
  { apply encodes_guard. apply N.leb_le. apply N.div_le_mono; [exact Hp|]. change (2 ^ 32) with 4294967296 in *. lia. }
  apply encodes_val with (x := zigzag_decode u); [subst u; apply zigzag_roundtrip|].
  assert (E : u / 2 ^ k * 2 ^ k + u mod 2 ^ k = u).
  { pose proof (N.div_mod u (2 ^ k) Hp) as D. rewrite (N.mul_comm (u / 2 ^ k)). symmetry. exact D. }
  rewrite E. apply encodes_ret.
Qed.

(* ---- partitions ---- *)
Lemma encodes_part_header method pt : wf_part method pt = true ->
  encodes (p_part_header method)
    (match pt with
     | PRice k _ => wr (if method =? 0 then 4%nat else 5%nat) k
     | PEsc w _ => wr (if method =? 0 then 4%nat else 5%nat) (if method =? 0 then 15 else 31) ++ wr 5 w
     | PZero _ => wr (if method =? 0 then 4%nat else 5%nat) (if method =? 0 then 15 else 31) ++ wr 5 0
     end)
    (match pt with PRice k _ => HRice k | PEsc w _ => HEsc w | PZero _ => HZero end).
Proof.
  intros H. unfold p_part_header.
  assert (Hesc : (if method =? 0 then 15 else 31) < 2 ^ N.of_nat (if method =? 0 then 4%nat else 5%nat)).
  { destruct (method =? 0); reflexivity. }
  destruct pt as [k rs|w rs|n]; cbn [wf_part] in H.
  - apply andb_prop in H. destruct H as [Hk _]. apply N.ltb_lt in Hk.
    rewrite <- (app_nil_r (wr _ k)). eapply encodes_bind.
    { apply encodes_rd. eapply N.lt_trans; [exact Hk|exact Hesc]. }
    assert (k =? (if method =? 0 then 15 else 31) = false) as -> by (apply N.eqb_neq; lia).
    apply encodes_ret.
  - apply andb_prop in H. destruct H as [H _]. apply andb_prop in H. destruct H as [H1 H2].
    apply N.leb_le in H1. apply N.leb_le in H2.
    eapply encodes_bind; [apply encodes_rd; exact Hesc|].
    rewrite N.eqb_refl. rewrite <- (app_nil_r (wr 5 w)). eapply encodes_bind.
    { apply encodes_rd. change (2 ^ N.of_nat 5) with 32. lia. }
    assert (w =? 0 = false) as -> by (apply N.eqb_neq; lia). apply encodes_ret.
  - eapply encodes_bind; [apply encodes_rd; exact Hesc|].
    rewrite N.eqb_refl. rewrite <- (app_nil_r (wr 5 0)). eapply encodes_bind.
    { apply encodes_rd. reflexivity. }
    cbn. apply encodes_ret.
Qed.

Lemma encodes_partition method pt : wf_part method pt = true ->
  encodes (h <-- p_part_header method ;; rs <-- p_partition h (part_len pt) ;;
           pret (match h with HRice k => PRice k rs | HEsc w => PEsc w rs | HZero => PZero (part_len pt) end))
          (write_part method pt) pt.
Proof.
  intros H. pose proof (encodes_part_header method pt H) as Hh.
  destruct pt as [k rs|w rs|n]; cbn [write_part part_len part_residuals wf_part] in *.
  - eapply encodes_bind; [exact Hh|]. cbn [p_partition].
    apply andb_prop in H. destruct H as [_ Hrs].
    rewrite <- (app_nil_r (flat_map (write_rice k) rs)). eapply encodes_bind; [|apply encodes_ret].
    apply encodes_repeat. rewrite forallb_forall in Hrs. apply Forall_forall. intros x Hx.
    apply encodes_rice. auto.
  - rewrite app_assoc. eapply encodes_bind; [exact Hh|]. cbn [p_partition].
    apply andb_prop in H. destruct H as [_ Hrs].
    rewrite <- (app_nil_r (flat_map _ rs)). eapply encodes_bind; [|apply encodes_ret].
    apply encodes_fits_list. exact Hrs.
  - rewrite <- (app_nil_r (_ ++ _)). eapply encodes_bind; [exact Hh|]. cbn [p_partition].
    unfold part_len. cbn [part_residuals]. rewrite repeat_length.
    eapply encodes_bind_nil; [apply encodes_ret|]. apply encodes_ret.
Qed.

Lemma encodes_partitions method : forall parts,
  forallb (wf_part method) parts = true ->
  encodes (struct_partitions method (map (fun pt => Some (part_len pt)) parts))
          (flat_map (write_part method) parts) parts.
Proof.
  induction parts as [|pt parts IH]; intros H; cbn [map struct_partitions flat_map].
  - apply encodes_ret.
  - cbn [forallb] in H. apply andb_prop in H. destruct H as [Hp Hps].
    pose proof (encodes_partition method pt Hp) as E.
    intros r. rewrite <- app_assoc.
    unfold encodes, pbind in E. specialize (E (flat_map (write_part method) parts ++ r)). cbv beta in E.
    unfold pbind.
    destruct (p_part_header method (write_part method pt ++ flat_map (write_part method) parts ++ r)) as [[h s1]| |]; try discriminate.
    destruct (p_partition h (part_len pt) s1) as [[rs s2]| |]; try discriminate.
    unfold pret in E. injection E as E1 E2. rewrite E2. rewrite (IH Hps r). unfold pret. rewrite E1. reflexivity.
Qed.

Lemma lens_eqb_spec a b : lens_eqb a b = true -> a = map Some b.
Proof.
  unfold lens_eqb. revert b. induction a as [|x a IH]; intros [|y b] H; cbn in *; try discriminate; auto.
  apply andb_prop in H. destruct H as [HL H]. apply andb_prop in H. destruct H as [Hx Hr].
  destruct x as [n|]; [|discriminate]. apply Nat.eqb_eq in Hx. subst. f_equal.
  apply IH. apply andb_true_intro. split; assumption.
Qed.

Lemma encodes_residual bs order r : wf_residual bs order r = true ->
  encodes (struct_residuals bs order) (write_residual r) r.
Proof.
  unfold wf_residual. intros H.
  apply andb_prop in H. destruct H as [H Hparts]. apply andb_prop in H. destruct H as [H Hlens].
  apply andb_prop in H. destruct H as [H Hdiv]. apply andb_prop in H. destruct H as [Hm Hpo].
  apply N.ltb_lt in Hm. apply N.ltb_lt in Hpo.
  apply lens_eqb_spec in Hlens. rewrite map_map in Hlens.
  unfold struct_residuals, write_residual.
  eapply encodes_bind. { apply encodes_rd. change (2 ^ N.of_nat 2) with 4. lia. }
  eapply encodes_bind_nil. { apply encodes_guard. apply N.ltb_lt. exact Hm. }
  eapply encodes_bind. { apply encodes_rd. change (2 ^ N.of_nat 4) with 16. exact Hpo. }
  eapply encodes_bind_nil. { apply encodes_guard. exact Hdiv. }
  rewrite Hlens. rewrite <- (app_nil_r (flat_map _ _)).
  eapply encodes_bind; [apply encodes_partitions; exact Hparts|].
  destruct r; apply encodes_ret.
Qed.

(* ---- subframe header ---- *)
Definition type_code (b : body) : N :=
  match b with BConst _ => 0 | BVerb _ => 1 | BFixed o _ _ => 8 + o | BLpc o _ _ _ _ _ => 31 + o end.
Definition type_of (b : body) : sf_type :=
  match b with BConst _ => TConst | BVerb _ => TVerb | BFixed o _ _ => TFixed o | BLpc o _ _ _ _ _ => TLpc o end.
Definition type_ok (b : body) : bool :=
  match b with BFixed o _ _ => o <=? 4 | BLpc o _ _ _ _ _ => (1 <=? o) && (o <=? 32) | _ => true end.

Lemma encodes_wasted {A} (x : A) wasted :
  encodes (w <-- p_bit ;; wasted <-- (if w then u <-- p_unary true ;; pret (u + 1) else pret 0) ;; pret (x, wasted))
          (if wasted =? 0 then [false] else [true] ++ wr_unary true (N.to_nat (wasted - 1))) (x, wasted).
Proof.
  intros r. destruct (N.eqb_spec wasted 0) as [->|Hw].
  - reflexivity.
  - cbn [app]. unfold pbind at 1. cbn [p_bit]. unfold pbind, p_unary. rewrite rd_unary_wr.
    unfold pret. rewrite N2Nat.id. replace (wasted - 1 + 1) with wasted by lia. reflexivity.
Qed.

Lemma encodes_subframe_header b wasted : type_ok b = true ->
  encodes p_subframe_header (write_subframe_header (type_code b) wasted) (type_of b, wasted).
Proof.
  intros Hty. unfold p_subframe_header, write_subframe_header.
  eapply encodes_bind; [apply encodes_bit|]. cbn [negb].
  eapply encodes_bind_nil; [apply encodes_guard; reflexivity|].
  assert (Hc : type_code b < 2 ^ N.of_nat 6).
  { change (2 ^ N.of_nat 6) with 64. destruct b; cbn [type_code type_ok] in *; try lia.
    - apply N.leb_le in Hty. lia.
    - apply andb_prop in Hty. destruct Hty as [H1 H2]. apply N.leb_le in H1. apply N.leb_le in H2. lia. }
  eapply encodes_bind; [apply encodes_rd; exact Hc|].
  eapply encodes_bind_nil with (x := type_of b).
  { destruct b as [v|xs|o warm r|o warm prec shift coefs r]; cbn [type_code type_of type_ok] in *.
    - apply encodes_ret.
    - apply encodes_ret.
    - apply N.leb_le in Hty.
      assert (8 + o =? 0 = false) as -> by (apply N.eqb_neq; lia).
      assert (8 + o =? 1 = false) as -> by (apply N.eqb_neq; lia).
      assert ((8 <=? 8 + o) && (8 + o <=? 12) = true) as ->.
      { apply andb_true_intro. split; apply N.leb_le; lia. }
      replace (8 + o - 8) with o by lia. apply encodes_ret.
    - apply andb_prop in Hty. destruct Hty as [H1 H2]. apply N.leb_le in H1. apply N.leb_le in H2.
      assert (31 + o =? 0 = false) as -> by (apply N.eqb_neq; lia).
      assert (31 + o =? 1 = false) as -> by (apply N.eqb_neq; lia).
      assert ((8 <=? 31 + o) && (31 + o <=? 12) = false) as ->.
      { apply andb_false_intro2. apply N.leb_gt. lia. }
      assert (32 <=? 31 + o = true) as -> by (apply N.leb_le; lia).
      replace (31 + o - 31) with o by lia. apply encodes_ret. }
  apply encodes_wasted.
Qed.

Lemma effective_bps_ok bps wasted : 1 <= bps -> wasted <= bps - 1 -> effective_bps bps wasted = Ok (bps - wasted).
Proof.
  intros H1 H2. unfold effective_bps.
  destruct (N.leb_spec wasted (bps - 1)); [|lia]. destruct (N.leb_spec 1 bps); [|lia]. reflexivity.
Qed.

Lemma shift_roundtrip shift : shift <= 15 -> encodes p_qlp_shift (wr 5 shift) shift.
Proof.
  intros H. unfold p_qlp_shift.
  assert (E : wr 5 shift = wr_s 5 (Z.of_N shift)).
  { unfold wr_s. f_equal. rewrite Z.mod_small; [lia|]. change (2 ^ Z.of_nat 5)%Z with 32%Z. lia. }
  rewrite E. rewrite <- (app_nil_r (wr_s 5 _)). eapply encodes_bind.
  { apply encodes_rds; [lia|]. change (2 ^ Z.of_nat (5 - 1))%Z with 16%Z. lia. }
  destruct (Z.ltb_spec (Z.of_N shift) 0); [lia|]. rewrite N2Z.id. apply encodes_ret.
Qed.

Lemma precision_roundtrip prec : 1 <= prec -> prec <= 15 -> encodes p_qlp_precision (wr 4 (prec - 1)) prec.
Proof.
  intros H1 H2. unfold p_qlp_precision. rewrite <- (app_nil_r (wr 4 _)). eapply encodes_bind.
  { apply encodes_rd. change (2 ^ N.of_nat 4) with 16. lia. }
  assert (prec - 1 =? 15 = false) as -> by (apply N.eqb_neq; lia).
  replace (prec - 1 + 1) with prec by lia. apply encodes_ret.
Qed.

Theorem subframe_roundtrip bs bps sf : wf_subframe bs bps sf = true ->
  encodes (struct_subframe bs bps) (write_subframe bps sf) sf.
Proof.
  unfold wf_subframe. intros H.
  apply andb_prop in H. destruct H as [H Hbody]. apply andb_prop in H. destruct H as [Hb Hw].
  apply N.leb_le in Hb. apply N.leb_le in Hw.
  destruct sf as [wasted b]. cbn [sf_wasted sf_body] in *.
  unfold struct_subframe, write_subframe. cbn [sf_wasted sf_body].
  assert (Hty : type_ok b = true).
  { destruct b; cbn [type_ok wf_body] in *; auto.
    - repeat (apply andb_prop in Hbody; destruct Hbody as [Hbody ?]). assumption.
    - repeat (apply andb_prop in Hbody; destruct Hbody as [Hbody ?]). apply andb_true_intro. split; assumption. }
  pose proof (encodes_subframe_header b wasted Hty) as Hh.
  destruct b as [v|xs|o warm r|o warm prec shift coefs r]; cbn [type_code type_of wf_body] in *.
  - eapply encodes_bind; [exact Hh|]. cbv beta iota.
    eapply encodes_bind_nil; [apply encodes_lift, effective_bps_ok; assumption|].
    rewrite <- (app_nil_r (wr_s _ v)). eapply encodes_bind; [apply encodes_fits; exact Hbody|]. apply encodes_ret.
  - apply andb_prop in Hbody. destruct Hbody as [HL Hxs]. apply Nat.eqb_eq in HL.
    eapply encodes_bind; [exact Hh|]. cbv beta iota.
    eapply encodes_bind_nil; [apply encodes_lift, effective_bps_ok; assumption|].
    rewrite <- (app_nil_r (flat_map _ xs)). rewrite <- HL.
    eapply encodes_bind; [apply encodes_fits_list; exact Hxs|]. apply encodes_ret.
  - apply andb_prop in Hbody. destruct Hbody as [Hbody Hres].
    apply andb_prop in Hbody. destruct Hbody as [Hbody Hwarm].
    apply andb_prop in Hbody. destruct Hbody as [_ HL]. apply Nat.eqb_eq in HL.
    eapply encodes_bind; [exact Hh|]. cbv beta iota.
    eapply encodes_bind_nil; [apply encodes_lift, effective_bps_ok; assumption|].
    rewrite <- HL. eapply encodes_bind; [apply encodes_fits_list; exact Hwarm|].
    rewrite <- (app_nil_r (write_residual r)).
    eapply encodes_bind; [apply encodes_residual; exact Hres|]. apply encodes_ret.
  - apply andb_prop in Hbody. destruct Hbody as [Hbody Hres].
    apply andb_prop in Hbody. destruct Hbody as [Hbody Hcoefs].
    apply andb_prop in Hbody. destruct Hbody as [Hbody HLc]. apply Nat.eqb_eq in HLc.
    apply andb_prop in Hbody. destruct Hbody as [Hbody Hshift]. apply N.leb_le in Hshift.
    apply andb_prop in Hbody. destruct Hbody as [Hbody Hp2]. apply N.leb_le in Hp2.
    apply andb_prop in Hbody. destruct Hbody as [Hbody Hp1]. apply N.leb_le in Hp1.
    apply andb_prop in Hbody. destruct Hbody as [Hbody Hwarm].
    apply andb_prop in Hbody. destruct Hbody as [_ HL]. apply Nat.eqb_eq in HL.
    eapply encodes_bind; [exact Hh|]. cbv beta iota.
    eapply encodes_bind_nil; [apply encodes_lift, effective_bps_ok; assumption|].
    rewrite <- HL. eapply encodes_bind; [apply encodes_fits_list; exact Hwarm|].
    eapply encodes_bind; [apply precision_roundtrip; assumption|].
    eapply encodes_bind; [apply shift_roundtrip; assumption|].
    rewrite HL, <- HLc. eapply encodes_bind; [apply encodes_fits_list; exact Hcoefs|].
    rewrite <- (app_nil_r (write_residual r)).
    eapply encodes_bind; [apply encodes_residual; exact Hres|]. apply encodes_ret.
Qed.
