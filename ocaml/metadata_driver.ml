(* Driver for the Coq metadata model (coq/metadata, extracted to metadata_model.ml with
   ExtrOcamlBasic only).  Reads one case per line on stdin:
     rd <D|R> <hex>        read_metadata on the bytes; prints
                           "ok <dump> w=<ok:hex|err|panic> sz=<sizes>" | "err:<class>" | "panic:<kind>"
     wl <D|R> <dump>       parse the canonical dump into model values, write_blocks; prints
                           "ok:<hex> sz=<sizes>" | "err sz=<sizes>" | "panic sz=<sizes>"
   The dump format is the one produced by harness/src/bin/metadata_inc/common.rs. *)
open Metadata_model

(* ---- numbers: hex <-> N (binary positive), no OCaml int in between (u64 does not fit) *)
let n_double_plus (b : bool) (x : n) : n =
  match x with
  | N0 -> if b then Npos XH else N0
  | Npos p -> Npos (if b then XI p else XO p)

let n_of_hex (s : string) : n =
  let acc = ref N0 in
  String.iter
    (fun c ->
      let d =
        match c with
        | '0' .. '9' -> Char.code c - 48
        | 'a' .. 'f' -> Char.code c - 87
        | 'A' .. 'F' -> Char.code c - 55
        | _ -> failwith ("bad hex digit in " ^ s)
      in
      for k = 3 downto 0 do
        acc := n_double_plus ((d lsr k) land 1 = 1) !acc
      done)
    s;
  !acc

let n_of_int (i : int) : n = n_of_hex (Printf.sprintf "%x" i)

(* bits of a positive, least significant first *)
let rec pos_bits (p : positive) : bool list =
  match p with XH -> [ true ] | XO q -> false :: pos_bits q | XI q -> true :: pos_bits q

let hex_of_n (x : n) : string =
  match x with
  | N0 -> "0"
  | Npos p ->
    let bits = Array.of_list (pos_bits p) in
    let nb = Array.length bits in
    let nd = (nb + 3) / 4 in
    let buf = Buffer.create nd in
    for d = nd - 1 downto 0 do
      let v = ref 0 in
      for k = 3 downto 0 do
        let i = (4 * d) + k in
        v := (2 * !v) + if i < nb && bits.(i) then 1 else 0
      done;
      Buffer.add_char buf "0123456789abcdef".[!v]
    done;
    Buffer.contents buf

let int_of_n (x : n) : int = int_of_string ("0x" ^ hex_of_n x)

let byte_tab : n array = Array.init 256 n_of_int

let bytes_of_hex (s : string) : n list =
  let n = String.length s / 2 in
  let rec go i acc = if i < 0 then acc else go (i - 1) (byte_tab.(int_of_string ("0x" ^ String.sub s (2 * i) 2)) :: acc) in
  go (n - 1) []

let hex_of_bytes (l : n list) : string =
  let buf = Buffer.create 64 in
  List.iter (fun b -> Buffer.add_string buf (Printf.sprintf "%02x" (int_of_n b))) l;
  Buffer.contents buf

(* byte strings in dumps: "." is the empty string *)
let hx (l : n list) : string = if l = [] then "." else hex_of_bytes l
let unhx (s : string) : n list = if s = "." then [] else bytes_of_hex s

let b01 (b : bool) = if b then "1" else "0"

(* ---- dump of model values *)
let dump_isrc = function IsrcNone -> "-" | IsrcStr s -> hx s

let index_list (iv : indexvec) : index list =
  (match iv.iv_00 with Some i -> [ i ] | None -> []) @ (iv.iv_01 :: iv.iv_rest)

let dump_track (t : track) : string =
  Printf.sprintf "%s.%s.%s.%s.%s.%s" (hex_of_n t.tr_off) (hex_of_n t.tr_num) (dump_isrc t.tr_isrc) (b01 t.tr_non_audio)
    (b01 t.tr_pre)
    (String.concat "+" (List.map (fun i -> hex_of_n i.ix_off ^ ":" ^ hex_of_n i.ix_num) (index_list t.tr_ix)))

let dump_leadout (l : leadout) : string =
  Printf.sprintf "%s.%s.%s.%s" (hex_of_n l.lo_off) (dump_isrc l.lo_isrc) (b01 l.lo_non_audio) (b01 l.lo_pre)

let dump_tracks (ts : track list) : string = if ts = [] then "-" else String.concat "/" (List.map dump_track ts)

let dump_block (b : block) : string =
  match b with
  | BStreaminfo s ->
    Printf.sprintf "SI:%s,%s,%s,%s,%s,%s,%s,%s,%s" (hex_of_n s.si_minb) (hex_of_n s.si_maxb) (hex_of_n s.si_minf)
      (hex_of_n s.si_maxf) (hex_of_n s.si_rate) (hex_of_n s.si_ch) (hex_of_n s.si_bps) (hex_of_n s.si_total)
      (match s.si_md5 with Some m -> hex_of_bytes m | None -> "-")
  | BPadding n -> "PAD:" ^ hex_of_n n
  | BApplication a -> Printf.sprintf "APP:%s,%s" (hex_of_n a.app_id) (hx a.app_data)
  | BSeekTable l ->
    "SEEK:"
    ^
    if l = [] then "-"
    else
      String.concat ";"
        (List.map
           (function
             | SPDefined (a, b, c) -> Printf.sprintf "%s/%s/%s" (hex_of_n a) (hex_of_n b) (hex_of_n c)
             | SPPlaceholder -> "P")
           l)
  | BVorbis v ->
    Printf.sprintf "VC:%s;%x;%s" (hx v.vc_vendor) (List.length v.vc_fields) (String.concat "," (List.map hx v.vc_fields))
  | BCuesheet (CueCDDA (cat, lead_in, ts, lo)) ->
    Printf.sprintf "CUE:C;%s;%s;%s;%s"
      (match cat with Some d -> hx d | None -> "-")
      (hex_of_n lead_in) (dump_tracks ts) (dump_leadout lo)
  | BCuesheet (CueNonCDDA (cat, ts, lo)) -> Printf.sprintf "CUE:N;%s;%s;%s" (hx cat) (dump_tracks ts) (dump_leadout lo)
  | BPicture p ->
    Printf.sprintf "PIC:%s,%s,%s,%s,%s,%s,%s,%s" (hex_of_n p.pic_type) (hx p.pic_mime) (hx p.pic_desc) (hex_of_n p.pic_w)
      (hex_of_n p.pic_h) (hex_of_n p.pic_depth) (hex_of_n p.pic_colors) (hx p.pic_data)

let dump_blocks (l : block list) : string = String.concat "|" (List.map dump_block l)

(* ---- parse of a dump into model values *)
let split c s = String.split_on_char c s

let parse_isrc s = if s = "-" then IsrcNone else IsrcStr (unhx s)
let parse_bool s = s = "1"

let parse_index s =
  match split ':' s with [ o; n ] -> { ix_off = n_of_hex o; ix_num = n_of_hex n } | _ -> failwith ("index " ^ s)

let parse_track s : track =
  match split '.' s with
  | [ off; num; isrc; na; pre; ixs ] ->
    let l = List.map parse_index (split '+' ixs) in
    let iv =
      match l with
      | i0 :: i1 :: rest when i0.ix_num = N0 -> { iv_00 = Some i0; iv_01 = i1; iv_rest = rest }
      | i0 :: rest -> { iv_00 = None; iv_01 = i0; iv_rest = rest }
      | [] -> failwith "track without index"
    in
    { tr_off = n_of_hex off; tr_num = n_of_hex num; tr_isrc = parse_isrc isrc; tr_non_audio = parse_bool na;
      tr_pre = parse_bool pre; tr_ix = iv }
  | _ -> failwith ("track " ^ s)

let parse_tracks s = if s = "-" then [] else List.map parse_track (split '/' s)

let parse_leadout s : leadout =
  match split '.' s with
  | [ off; isrc; na; pre ] ->
    { lo_off = n_of_hex off; lo_isrc = parse_isrc isrc; lo_non_audio = parse_bool na; lo_pre = parse_bool pre }
  | _ -> failwith ("leadout " ^ s)

let parse_block (s : string) : block =
  let i = String.index s ':' in
  let ty = String.sub s 0 i and rest = String.sub s (i + 1) (String.length s - i - 1) in
  match ty with
  | "SI" -> (
    match split ',' rest with
    | [ a; b; c; d; e; f; g; h; m ] ->
      BStreaminfo
        { si_minb = n_of_hex a; si_maxb = n_of_hex b; si_minf = n_of_hex c; si_maxf = n_of_hex d; si_rate = n_of_hex e;
          si_ch = n_of_hex f; si_bps = n_of_hex g; si_total = n_of_hex h;
          si_md5 = (if m = "-" then None else Some (bytes_of_hex m)) }
    | _ -> failwith "SI")
  | "PAD" -> BPadding (n_of_hex rest)
  | "APP" -> ( match split ',' rest with [ id; d ] -> BApplication { app_id = n_of_hex id; app_data = unhx d } | _ -> failwith "APP")
  | "SEEK" ->
    if rest = "-" then BSeekTable []
    else
      BSeekTable
        (List.map
           (fun p ->
             if p = "P" then SPPlaceholder
             else match split '/' p with [ a; b; c ] -> SPDefined (n_of_hex a, n_of_hex b, n_of_hex c) | _ -> failwith "seekpoint")
           (split ';' rest))
  | "VC" -> (
    match split ';' rest with
    | [ v; cnt; fs ] ->
      let fields = if int_of_string ("0x" ^ cnt) = 0 then [] else List.map unhx (split ',' fs) in
      BVorbis { vc_vendor = unhx v; vc_fields = fields }
    | _ -> failwith "VC")
  | "PIC" -> (
    match split ',' rest with
    | [ t; m; d; w; h; dp; c; x ] ->
      BPicture
        { pic_type = n_of_hex t; pic_mime = unhx m; pic_desc = unhx d; pic_w = n_of_hex w; pic_h = n_of_hex h;
          pic_depth = n_of_hex dp; pic_colors = n_of_hex c; pic_data = unhx x }
    | _ -> failwith "PIC")
  | "CUE" -> (
    match split ';' rest with
    | [ "C"; cat; li; ts; lo ] ->
      BCuesheet (CueCDDA ((if cat = "-" then None else Some (unhx cat)), n_of_hex li, parse_tracks ts, parse_leadout lo))
    | [ "N"; cat; ts; lo ] -> BCuesheet (CueNonCDDA (unhx cat, parse_tracks ts, parse_leadout lo))
    | _ -> failwith "CUE")
  | _ -> failwith ("block type " ^ ty)

let parse_blocks (s : string) : block list = if s = "" then [] else List.map parse_block (split '|' s)

(* ---- observations *)
let err_name = function EEof -> "Eof" | EIo -> "Io" | EOther -> "Other" | _ -> "Codec"
let panic_name = function
  | POverflow -> "Overflow" | PDivZero -> "DivZero" | PChunkZero -> "ChunkZero" | PUnwrap -> "Unwrap"
  | PCapacity -> "Capacity" | PSlice -> "Slice" | PAssert -> "Assert" | PFuel -> "Fuel"

let sizes (l : block list) : string =
  try
    String.concat ","
      (List.map
         (fun b -> match block_bytes b with Ok (Some n) -> hex_of_n n | Ok None -> "-" | Err _ -> "-" | Panic _ -> raise Exit)
         l)
  with Exit -> "panic"

let write_obs (l : block list) : string =
  match write_blocks l with Ok bs -> "ok:" ^ hex_of_bytes bs | Err _ -> "err" | Panic _ -> "panic"

let profile_of s = if s = "D" then Debug else Release

(* ---- accessors (C12) *)
let ranges_s (l : (n * n) list) : string =
  if l = [] then "-" else String.concat "," (List.map (fun (a, b) -> hex_of_n a ^ "-" ^ hex_of_n b) l)

exception Acc_panic

let cue_acc (c : cuesheet) (ch : n) (bps : n) : string =
  let nt = List.length (cue_tracks c) + 1 in
  let r = ranges_s (track_sample_ranges c) in
  let b = match track_byte_ranges c ch bps with Ok l -> ranges_s l | _ -> raise Acc_panic in
  let d = hx (display c (List.map n_of_int [ 102; 46; 102; 108; 97; 99 ])) in
  Printf.sprintf "n:%x,t:%x,r:%s,b:%s,d:%s,k:%s" nt nt r b d (hx (catalog_text c))

let list_acc (p : profile) (l : block list) : string =
  try
    match l with
    | BStreaminfo si :: rest ->
      let d =
        match duration p si with
        | Ok (Some (s, ns)) -> hex_of_n s ^ "." ^ hex_of_n ns
        | Ok None -> "-"
        | _ -> raise Acc_panic
      in
      let dl = match decoded_len p si with Ok (Some x) -> hex_of_n x | Ok None -> "-" | _ -> raise Acc_panic in
      let m = match channel_mask si rest with Ok x -> hex_of_n x | _ -> raise Acc_panic in
      let cues =
        List.filter_map (function BCuesheet c -> Some (cue_acc c si.si_ch si.si_bps) | _ -> None) l
      in
      String.concat ";" (Printf.sprintf "d:%s,l:%s,m:%s" d dl m :: cues)
    | _ -> "no-streaminfo"
  with Acc_panic -> "panic"

(* UTF-8 bytes (valid, produced by Rust) -> code points *)
let decode_utf8 (s : string) : n list =
  let b = Bytes.of_string s in
  let len = Bytes.length b in
  let rec go i acc =
    if i >= len then List.rev acc
    else
      let c = Char.code (Bytes.get b i) in
      let g k = Char.code (Bytes.get b (i + k)) land 0x3f in
      if c < 0x80 then go (i + 1) (n_of_int c :: acc)
      else if c < 0xe0 then go (i + 2) (n_of_int (((c land 0x1f) lsl 6) lor g 1) :: acc)
      else if c < 0xf0 then go (i + 3) (n_of_int (((c land 0x0f) lsl 12) lor (g 1 lsl 6) lor g 2) :: acc)
      else go (i + 4) (n_of_int (((c land 0x07) lsl 18) lor (g 1 lsl 12) lor (g 2 lsl 6) lor g 3) :: acc)
  in
  go 0 []

let string_of_hex (h : string) : string =
  if h = "." then ""
  else String.init (String.length h / 2) (fun i -> Char.chr (int_of_string ("0x" ^ String.sub h (2 * i) 2)))

let mime_of = function
  | 0 -> "image/png" | 1 -> "image/jpeg" | _ -> "image/gif"
let hex_of_string (s : string) : string =
  if s = "" then "." else String.concat "" (List.init (String.length s) (fun i -> Printf.sprintf "%02x" (Char.code s.[i])))

let handle (line : string) : string =
  match split ' ' line with
  | [ "rd"; p; h ] -> (
    match read_metadata utf8_valid_std (profile_of p) (bytes_of_hex h) with
    | Ok l -> Printf.sprintf "ok %s w=%s sz=%s" (dump_blocks l) (write_obs l) (sizes l)
    | Err e -> "err:" ^ err_name e
    | Panic k -> "panic:" ^ panic_name k)
  | [ "rda"; p; h ] -> (
    match read_metadata utf8_valid_std (profile_of p) (unhx h) with
    | Ok l -> Printf.sprintf "ok %s acc=%s" (dump_blocks l) (list_acc (profile_of p) l)
    | Err e -> "err:" ^ err_name e
    | Panic k -> "panic:" ^ panic_name k)
  | [ "rda"; p ] -> (
    match read_metadata utf8_valid_std (profile_of p) [] with
    | Ok l -> Printf.sprintf "ok %s acc=%s" (dump_blocks l) (list_acc (profile_of p) l)
    | Err e -> "err:" ^ err_name e
    | Panic k -> "panic:" ^ panic_name k)
  | [ "cue"; p; total; text ] -> (
    match cue_parse (profile_of p) (n_of_hex total) (decode_utf8 (string_of_hex text)) with
    | Ok c ->
      let acc = try cue_acc c (n_of_int 2) (n_of_int 16) with Acc_panic -> "panic" in
      Printf.sprintf "ok %s acc=%s" (dump_block (BCuesheet c)) acc
    | Err e -> "err:" ^ err_name e
    | Panic k -> "panic:" ^ panic_name k)
  | [ "c20"; p; total; text; style; ast ] -> (
    let n_of_dec s = n_of_hex (Printf.sprintf "%x" (int_of_string s)) in
    let ascii s = List.init (String.length s) (fun i -> n_of_int (Char.code s.[i])) in
    let st =
      match split ',' style with
      | [ f; ty ] ->
        let b i = f.[i] = '1' in
        { st_pad_track = b 0; st_pad_index = b 1; st_pad_time = b 2; st_quote_catalog = b 3; st_quote_isrc = b 4;
          st_dash_isrc = b 5; st_flags_first = b 6; st_type = unhx ty }
      | _ -> failwith "style"
    in
    let c =
      match split ';' ast with
      | cat :: ts ->
        { cu_catalog = (if cat = "-" then None else Some (ascii cat));
          cu_tracks =
            List.map
              (fun t ->
                match split ',' t with
                | [ num; pre; isrc; ixs ] ->
                  { ct_num = n_of_dec num; ct_pre = pre = "1"; ct_isrc = (if isrc = "-" then None else Some (ascii isrc));
                    ct_indices =
                      List.map
                        (fun i ->
                          match split ':' i with
                          | [ a; b; c; d ] -> { ci_num = n_of_dec a; ci_mm = n_of_dec b; ci_ss = n_of_dec c; ci_ff = n_of_dec d }
                          | _ -> failwith "index")
                        (split '+' ixs) }
                | _ -> failwith "track")
              ts }
      | [] -> failwith "ast"
    in
    let tot = n_of_hex total in
    let txt = decode_utf8 (string_of_hex text) in
    let m = if cue_text_matches st c txt then "ok" else "bad" in
    match cue_parse (profile_of p) tot txt with
    | Ok got ->
      let acc = try cue_acc got (n_of_int 2) (n_of_int 16) with Acc_panic -> "panic" in
      let blockof = match block_of c tot with Some b when b = got -> "ok" | _ -> "bad" in
      let layout x = List.map (fun t -> (t.tr_off, t.tr_num, index_list t.tr_ix)) (cue_tracks x) in
      let rt =
        match cue_parse (profile_of p) tot (display got (List.map n_of_int [ 102; 46; 102; 108; 97; 99 ])) with
        | Ok again when layout again = layout got && track_sample_ranges again = track_sample_ranges got -> "ok"
        | _ -> "bad"
      in
      Printf.sprintf "ok %s acc=%s match=%s blockof=%s rt=%s" (dump_block (BCuesheet got)) acc m blockof rt
    | Err e -> Printf.sprintf "err:%s match=%s blockof=bad rt=bad" (err_name e) m
    | Panic k -> Printf.sprintf "panic:%s match=%s blockof=bad rt=bad" (panic_name k) m)
  | [ "img"; p; h ] -> (
    match sniff (profile_of p) (unhx h) with
    | Ok m ->
      Printf.sprintf "ok %s,%s,%s,%s,%s" (hex_of_string (mime_of (int_of_n m.m_kind))) (hex_of_n m.m_width) (hex_of_n m.m_height)
        (hex_of_n m.m_depth) (hex_of_n m.m_colors)
    | Err e -> "err:" ^ err_name e
    | Panic k -> "panic:" ^ panic_name k)
  | [ "wl"; _p; d ] ->
    let l = parse_blocks d in
    Printf.sprintf "%s sz=%s" (write_obs l) (sizes l)
  | [ "wl"; _p ] -> Printf.sprintf "%s sz=%s" (write_obs []) (sizes [])
  | _ -> "bad-case"

let () =
  try
    while true do
      let line = String.trim (input_line stdin) in
      if line <> "" then print_endline (try handle line with Failure m -> "driver-error:" ^ m | Not_found -> "driver-error:not-found")
    done
  with End_of_file -> ()
