(* writers/Seek_proofs.v — the seek point candidates and what SeekTableInterval::filter,
   take(MAX_POINTS) and the conversion to metadata points do to them: the selected points are a
   subsequence of the per-frame candidates, strictly ascending, all defined; a table built from
   them (padded with placeholders, or cut) is contiguous, so the `unwrap`s of Encoder::new,
   finalize_inner and generate_seektable are never reached. *)
From Coq Require Import Sorting.Sorted.
From FlacWriters Require Import Writers Lists_proofs Finalize_proofs Encoder_proofs.
Open Scope N_scope.

Inductive subseq {A} : list A -> list A -> Prop :=
| ss_nil : subseq [] []
| ss_skip x l' l : subseq l' l -> subseq l' (x :: l)
| ss_take x l' l : subseq l' l -> subseq (x :: l') (x :: l).

Lemma subseq_nil {A} (l : list A) : subseq [] l.
Proof. induction l; constructor; auto. Qed.
Lemma subseq_refl {A} (l : list A) : subseq l l.
Proof. induction l; [constructor|apply ss_take; auto]. Qed.
Lemma subseq_in {A} (l' l : list A) x : subseq l' l -> In x l' -> In x l.
Proof. induction 1; cbn; intros; auto. destruct H0; auto. Qed.
Lemma subseq_trans {A} (a b c : list A) : subseq a b -> subseq b c -> subseq a c.
Proof.
  intros H1 H2. revert a H1. induction H2; intros a H1.
  - exact H1.
  - constructor. auto.
  - inversion H1; subst; [apply ss_skip|apply ss_take]; auto.
Qed.

Lemma filter_seconds_subseq nth : forall pts off, subseq (filter_seconds nth off pts) pts.
Proof.
  induction pts as [|pt r IH]; intros off; cbn [filter_seconds]; [constructor|].
  destruct (_ && _); [apply ss_take|apply ss_skip]; auto.
Qed.
Lemma step_by_go_subseq {A} n : forall (l : list A) skip, subseq (step_by_go n skip l) l.
Proof.
  induction l as [|x r IH]; intros skip; cbn [step_by_go]; [constructor|].
  destruct (skip =? 0); [apply ss_take|apply ss_skip]; auto.
Qed.
Lemma take_n_prefix {A} : forall (l : list A) n, exists r, l = take_n l n ++ r.
Proof.
  induction l as [|x l IH]; intros n; cbn [take_n]; [exists []; reflexivity|].
  destruct (n =? 0); [exists (x :: l); reflexivity|].
  destruct (IH (n - 1)) as (r & E). exists r. cbn. f_equal. exact E.
Qed.
Lemma take_n_subseq {A} : forall (l : list A) n, subseq (take_n l n) l.
Proof.
  induction l as [|x l IH]; intros n; cbn [take_n]; [constructor|].
  destruct (n =? 0); [apply subseq_nil|apply ss_take; auto].
Qed.

Lemma filter_subseq p iv rate pts sel : filter p iv rate pts = Ok sel -> subseq sel pts.
Proof.
  unfold filter. destruct iv as [s|n]; intros H.
  - apply bind_ok in H. destruct H as (nth & _ & H). inversion H; subst. apply filter_seconds_subseq.
  - inversion H; subst. apply step_by_go_subseq.
Qed.

(* with seconds <= 255 and rate < 2^20 the u32 product cannot overflow: filter never fails *)
Lemma filter_ok p iv rate pts : rate < 2 ^ 20 ->
  match iv with Seconds s => s <= 255 | Frames _ => True end ->
  exists sel, filter p iv rate pts = Ok sel.
Proof.
  intros Hr Hi. unfold filter. destruct iv as [s|n]; [|eexists; reflexivity].
  unfold u32_mul. change (2 ^ 20) with 1048576 in Hr.
  destruct (N.ltb_spec (s * rate) (2 ^ 32)) as [L|L]; [cbn; eexists; reflexivity|].
  change (2 ^ 32) with 4294967296 in L. nia.
Qed.

(* ---- ascending, defined *)
Definition asc (l : list seekpoint) : Prop := StronglySorted (fun a b => sp_sample a < sp_sample b) l.
Definition all_defined (l : list seekpoint) : Prop := Forall (fun s => sp_byte s <> None) l.

Lemma subseq_asc l' l : subseq l' l -> asc l -> asc l'.
Proof.
  unfold asc. induction 1; intros S; auto.
  - inversion S; subst. auto.
  - inversion S as [|? ? S' F]; subst. constructor; auto.
    apply Forall_forall. intros y Hy. rewrite Forall_forall in F. apply F. eapply subseq_in; eauto.
Qed.
Lemma subseq_forall {A} (P : A -> Prop) l' l : subseq l' l -> Forall P l -> Forall P l'.
Proof. induction 1; intros F; auto; inversion F; subst; auto. Qed.

Lemma frame_seekpoints_lower : forall frames s c,
  Forall (fun x => s <= sp_sample x) (frame_seekpoints s c frames).
Proof.
  induction frames as [|[n len] r IH]; intros s c; cbn [frame_seekpoints]; constructor; cbn; [lia|].
  eapply Forall_impl; [|apply IH]. cbn. intros; lia.
Qed.
Lemma frame_seekpoints_asc : forall frames s c, Forall (fun x => 1 <= fst x) frames ->
  asc (frame_seekpoints s c frames).
Proof.
  unfold asc. induction frames as [|[n len] r IH]; intros s c F; cbn [frame_seekpoints]; constructor.
  - apply IH. inversion F; auto.
  - inversion F as [|? ? Hn F']; subst. cbn in Hn.
    eapply Forall_impl; [|apply frame_seekpoints_lower]. cbn. intros; lia.
Qed.
Lemma frame_seekpoints_defined : forall frames s c, all_defined (frame_seekpoints s c frames).
Proof.
  unfold all_defined. induction frames as [|[n len] r IH]; intros s c; cbn [frame_seekpoints]; constructor; auto.
  cbn. discriminate.
Qed.

(* ---- contiguity of tables built from ascending defined points and trailing placeholders *)
Lemma contiguous_placeholders prev k : contiguous_from prev (repeat Placeholder k) = true.
Proof. revert prev. induction k; intros prev; cbn [repeat contiguous_from mpoint_is_next andb]; auto. Qed.

Lemma contiguous_from_asc k : forall l s b n,
  Forall (fun x => s < sp_sample x) l -> asc l -> all_defined l ->
  contiguous_from (Defined s b n) (map to_mpoint l ++ repeat Placeholder k) = true.
Proof.
  induction l as [|a l IH]; intros s b n F A D; cbn [map app].
  - apply contiguous_placeholders.
  - inversion F; subst. inversion A as [|? ? A' FA]; subst. inversion D as [|? ? Da D']; subst.
    unfold to_mpoint at 1. destruct (sp_byte a) as [ba|]; [|congruence].
    cbn [contiguous_from mpoint_is_next].
    replace (s <? sp_sample a) with true by (symmetry; apply N.ltb_lt; assumption).
    cbn [andb]. apply IH; auto.
Qed.

Lemma contiguous_asc l k : asc l -> all_defined l ->
  is_contiguous (map to_mpoint l ++ repeat Placeholder k) = true.
Proof.
  intros A D. destruct l as [|a l]; cbn [map app is_contiguous].
  - destruct k; cbn [repeat]; [reflexivity|apply contiguous_placeholders].
  - inversion A as [|? ? A' FA]; subst. inversion D as [|? ? Da D']; subst.
    unfold to_mpoint at 1. destruct (sp_byte a) as [ba|]; [|congruence].
    apply contiguous_from_asc; auto.
Qed.

Lemma contiguous_from_prefix : forall l1 l2 prev, contiguous_from prev (l1 ++ l2) = true -> contiguous_from prev l1 = true.
Proof.
  induction l1 as [|x l1 IH]; intros l2 prev H; cbn [app contiguous_from] in *; [reflexivity|].
  apply andb_prop in H. destruct H as [H1 H2]. rewrite H1. cbn. eapply IH; eauto.
Qed.
Lemma contiguous_prefix l1 l2 : is_contiguous (l1 ++ l2) = true -> is_contiguous l1 = true.
Proof. destruct l1 as [|x l1]; cbn [app is_contiguous]; [reflexivity|]. apply contiguous_from_prefix. Qed.

(* SeekTable::to_writer's own check accepts such tables too *)
Lemma seektable_ok_placeholders k o : seektable_ok o (repeat Placeholder k) = true.
Proof. induction k; cbn [repeat seektable_ok]; [reflexivity|]. destruct o; exact IHk. Qed.
Definition below_max (l : list seekpoint) : Prop := Forall (fun x => sp_sample x <> U64_MAX) l.
Lemma seektable_ok_from k : forall l lo, Forall (fun x => lo < sp_sample x) l -> asc l -> all_defined l -> below_max l ->
  seektable_ok (Some lo) (map to_mpoint l ++ repeat Placeholder k) = true.
Proof.
  induction l as [|a l IH]; intros lo F A D B; cbn [map app].
  - apply seektable_ok_placeholders.
  - inversion F; subst. inversion A as [|? ? A' FA]; subst. inversion D as [|? ? Da D']; subst. inversion B as [|? ? Ba B']; subst.
    unfold to_mpoint at 1. destruct (sp_byte a) as [ba|]; [|congruence]. cbn [seektable_ok].
    destruct (N.eqb_spec (sp_sample a) U64_MAX); [contradiction|]. cbn [negb andb].
    replace (lo <? sp_sample a) with true by (symmetry; apply N.ltb_lt; assumption). cbn [andb].
    apply IH; auto.
Qed.
Lemma seektable_ok_asc l k : asc l -> all_defined l -> below_max l ->
  seektable_ok None (map to_mpoint l ++ repeat Placeholder k) = true.
Proof.
  intros A D B. destruct l as [|a l]; cbn [map app].
  - apply seektable_ok_placeholders.
  - inversion A as [|? ? A' FA]; subst. inversion D as [|? ? Da D']; subst. inversion B as [|? ? Ba B']; subst.
    unfold to_mpoint at 1. destruct (sp_byte a) as [ba|]; [|congruence]. cbn [seektable_ok].
    destruct (N.eqb_spec (sp_sample a) U64_MAX); [contradiction|]. cbn [negb andb].
    apply seektable_ok_from; auto.
Qed.
Lemma seektable_ok_prefix : forall l1 l2 o, seektable_ok o (l1 ++ l2) = true -> seektable_ok o l1 = true.
Proof.
  induction l1 as [|x l1 IH]; intros l2 o H; cbn [app seektable_ok] in *; [reflexivity|].
  destruct o as [lo|].
  - destruct x as [s b n|]; [|eapply IH; eauto].
    apply andb_prop in H. destruct H as [H0 H]. apply andb_prop in H. destruct H as [H1 H2]. rewrite H0, H1. cbn. eapply IH; eauto.
  - destruct x as [s b n|]; [|eapply IH; eauto].
    apply andb_prop in H. destruct H as [H0 H]. rewrite H0. cbn. eapply IH; eauto.
Qed.

(* placeholder candidates carry no byte offset: they all become Placeholder *)
Lemma placeholders_go_undefined : forall fuel total bs off,
  Forall (fun s => sp_byte s = None) (placeholders_go fuel total bs off).
Proof.
  induction fuel as [|f IH]; intros total bs off; cbn [placeholders_go]; [constructor|].
  destruct (off <? total); constructor; auto.
Qed.
Lemma map_to_mpoint_undefined l : Forall (fun s => sp_byte s = None) l ->
  map to_mpoint l = repeat Placeholder (length l).
Proof.
  induction 1 as [|a l Ha F IH]; cbn [map length repeat]; [reflexivity|].
  unfold to_mpoint at 1. rewrite Ha, IH. reflexivity.
Qed.

(* the selection made from the per-frame candidates of a run *)
Definition selected_ok (frames : list (N * N)) (sel : list seekpoint) : Prop :=
  subseq sel (frame_seekpoints 0 0 frames).

Lemma selected_asc frames sel : Forall (fun x => 1 <= fst x) frames -> selected_ok frames sel ->
  asc sel /\ all_defined sel.
Proof.
  intros F S. split.
  - eapply subseq_asc; [exact S|]. apply frame_seekpoints_asc. exact F.
  - eapply subseq_forall; [exact S|]. apply frame_seekpoints_defined.
Qed.

(* no candidate carries u64::MAX (the placeholder's mark) as long as the frames hold at most u64::MAX samples in all *)
Definition total_fst (frames : list (N * N)) : N := fold_right (fun x acc => fst x + acc) 0 frames.
Lemma frame_seekpoints_upper : forall frames s c, Forall (fun x => 1 <= fst x) frames ->
  Forall (fun x => sp_sample x < s + total_fst frames) (frame_seekpoints s c frames).
Proof.
  induction frames as [|[n len] r IH]; intros s c F; cbn [frame_seekpoints total_fst fold_right]; constructor.
  - inversion F as [|? ? Hn _]; subst. cbn in *. lia.
  - inversion F as [|? ? Hn F']; subst. fold (total_fst r). eapply Forall_impl; [|apply (IH (s + n) (c + len) F')].
    cbn. intros x Hx. lia.
Qed.
Lemma selected_below_max frames sel : Forall (fun x => 1 <= fst x) frames -> selected_ok frames sel ->
  total_fst frames <= U64_MAX -> below_max sel.
Proof.
  intros F S Hb. unfold below_max. eapply subseq_forall; [exact S|].
  eapply Forall_impl; [|apply (frame_seekpoints_upper frames 0 0 F)]. cbn. intros x Hx. lia.
Qed.

(* `to_contiguous` succeeds on: selected points cut to a length, padded with placeholders *)
Lemma to_contiguous_selected frames sel k n :
  Forall (fun x => 1 <= fst x) frames -> selected_ok frames sel -> total_fst frames <= U64_MAX -> n <= MAX_POINTS ->
  let l := take_n (map to_mpoint sel ++ repeat Placeholder k) n in
  to_contiguous l = Ok l /\ seektable_ok None l = true.
Proof.
  intros F S Hmax Hn l. destruct (selected_asc frames sel F S) as [A D].
  destruct (take_n_prefix (map to_mpoint sel ++ repeat Placeholder k) n) as (r & E). fold l in E.
  pose proof (contiguous_asc sel k A D) as C. pose proof (seektable_ok_asc sel k A D (selected_below_max frames sel F S Hmax)) as T.
  rewrite E in C, T. apply contiguous_prefix in C. apply seektable_ok_prefix in T.
  split; [|exact T]. unfold to_contiguous. rewrite C.
  assert (N.of_nat (length l) <= MAX_POINTS).
  { unfold l. rewrite take_n_length. lia. }
  destruct (N.leb_spec (N.of_nat (length l)) MAX_POINTS); [reflexivity|lia].
Qed.

Lemma take_n_map {A B} (f : A -> B) : forall l n, take_n (map f l) n = map f (take_n l n).
Proof.
  induction l as [|x l IH]; intros n; cbn [map take_n]; [reflexivity|].
  destruct (n =? 0); [reflexivity|]. cbn [map]. rewrite IH. reflexivity.
Qed.
