"""C05 — damaged or invalid streams are reported as errors, never decoded silently.

Proof: coq/base/Crc.v (all-lengths single-bit detection for CRC-8 and CRC-16 over the
tables regenerated from src/crc.rs on every run).
Tie: (a) translator tools/gen_crc.py; (b) model CRC (extracted OCaml + vm_compute sample)
vs implementation CRC (hook) on generated messages.
Search: exhaustive single-bit flips / truncations / must-reject classes / MD5 on a corpus
of small files encoded by the current tree, run against the real decoder."""
import json
import os
import shutil

import vlib
from vlib import VERIF, CACHE, sh

BASE = os.path.join(VERIF, "coq", "base")
THEOREMS = ["crc16_valid_single_bit_detected", "crc8_valid_single_bit_detected", "crc16_single_bit",
            "crc16_append", "crc8_append", "crc16_table_is_poly", "crc8_table_is_poly", "Pins.crc16_nonvacuous"]

def run(chk):
    chk.assumptions = [
        "the Coq model of CRC-8/16 (coq/base/Crc.v upd8/upd16) mirrors src/crc.rs; tables are regenerated from the source on every run, the update expressions are checked textually and by differential run",
        "whole-frame behaviour (which bytes a frame occupies) is decided on the real decoder by exhaustive fault enumeration, not by the theorem",
    ]
    from checks import codec_common
    proof_ok = codec_common.proof_stage(chk, "C05")

    # ---- implementation side
    ok, binp, out = vlib.cargo_build(os.path.join(VERIF, "harness"), "c05", "release")
    if not ok:
        chk.broken_tie("harness-build", out)
        return
    rc, out = sh([binp], timeout=3000)
    if rc != 0:
        chk.broken_tie("harness-run", out)
        return
    crc_cases, viols, stat, samples, notes = [], [], {}, [], []
    for ln in out.splitlines():
        if not ln.startswith("{"):
            continue
        d = json.loads(ln)
        t = d.get("t")
        if t == "crc":
            crc_cases.append(d)
        elif t == "viol":
            viols.append(d)
        elif t == "stat":
            stat = d
        elif t == "sample":
            samples.append(d)
        elif t == "note":
            notes.append(d["msg"])

    # ---- model side (extracted OCaml), only if the Coq build is healthy
    disagreements = 0
    if proof_ok:
        mdir = os.path.join(CACHE, "ocaml", "crc")
        os.makedirs(mdir, exist_ok=True)
        for f in ("crc_model.ml", "crc_model.mli"):
            shutil.copy(os.path.join(BASE, f), mdir)
        shutil.copy(os.path.join(VERIF, "ocaml", "crc_driver.ml"), mdir)
        okb, exe, bout = vlib.ocaml_build(mdir, ["crc_model.mli", "crc_model.ml", "crc_driver.ml"], "crc_driver")
        if not okb:
            chk.broken_tie("ocaml-build", bout)
        else:
            rc, mout = sh([exe], stdin="\n".join(c["m"] for c in crc_cases) + "\n", timeout=600)
            mlines = mout.split("\n")
            for c, ml in zip(crc_cases, mlines):
                exp = "%d %d" % (c["c8"], c["c16"])
                if ml.strip() != exp:
                    disagreements += 1
                    chk.violation("crc-correspondence",
                                  "CRC of message %s: implementation %s, model %s" % (c["m"], exp, ml.strip()),
                                  {"message_hex": c["m"], "impl_crc8_crc16": exp, "model_crc8_crc16": ml.strip()})
                    break
            # vm_compute cross-check of the extraction on a small sample
            sample = crc_cases[:40]
            if sample:
                vfile = os.path.join(CACHE, "assum", "CrcCases.v")
                os.makedirs(os.path.dirname(vfile), exist_ok=True)
                lst = "; ".join("[" + "; ".join(str(int(c["m"][i:i + 2], 16)) for i in range(0, len(c["m"]), 2)) + "]" for c in sample)
                open(vfile, "w").write(
                    "Require Import FlacBase.Bits FlacBase.Crc.\nOpen Scope N_scope.\n"
                    "Definition cases : list (list N) := [%s].\n"
                    "Eval vm_compute in map (fun m => (crc8 m, crc16 m)) cases.\n" % lst)
                rc, vout = sh("coqc -noglob -Q . FlacBase %s" % vfile, cwd=BASE, timeout=300)
                import re
                pairs = re.findall(r"\(\s*(\d+),\s*(\d+)\)", vout)
                exp = [(str(c["c8"]), str(c["c16"])) for c in sample]
                if rc != 0 or pairs != exp:
                    chk.violation("crc-correspondence-vm", "vm_compute evaluation of the CRC model disagrees with the implementation",
                                  {"coq_output": vout[-2000:], "expected": exp})

    # ---- must-reject classes generated from the model (checksum-valid malformed frames)
    mst = codec_common.run_mutants(chk, profiles=("release",)) if proof_ok else {}
    chk.coverage["model_generated_malformed_streams"] = mst

    # ---- property searcher results
    for v in viols:
        chk.violation(v["key"], v["desc"], {k: v[k] for k in v if k not in ("t",)})

    nontrivial = stat.get("flips", 0) + stat.get("truncs", 0) + stat.get("reject_cases", 0) + stat.get("md5_cases", 0)
    chk.coverage.update({
        "evaluations": nontrivial + len(crc_cases),
        "distinct_nontrivial": nontrivial,
        "rule": "every single-bit flip of every audio byte and every truncation point of each corpus file (exhaustive per file; each is a distinct damaged file, all non-trivial), every must-reject header/subframe class with repaired CRCs, MD5 digest alterations; plus random messages for the CRC model correspondence",
        "exhaustive": True,
        "traces_validated_against_impl": len(crc_cases),
        "disagreements_checked": disagreements,
        "searcher": stat,
        "samples": [{"desc": s["desc"], "file_hex": s["file"][:400], "frame_offsets": s["frame_offsets"]} for s in samples] +
                   [{"crc_case": crc_cases[i]} for i in range(min(3, len(crc_cases)))],
    })
    chk.notes.extend(notes)
