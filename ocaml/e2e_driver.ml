(* Driver for the extracted COMPOSED model (coq/e2e/Extract.v): the writers area's FlacSampleWriter front-end and
   Encoder (metadata region, bookkeeping, finalize) with the codec area's block encoder plugged in.
   stdin: one JSON case per line (the harness' enc_stream cases: cfg, the PCM written, the real file);
   stdout: one JSON result per line: does the model's finished stream equal the real file byte for byte?
   The float LPC analysis is the model's oracle: its parameters are read from the real file's LPC subframes.
   MD5 is OCaml's Digest (the model takes it as a parameter). *)
open E2e_model

(* ---------- number conversions ---------- *)
let rec pos_of_int n =
  if n = 1 then XH else if n land 1 = 1 then XI (pos_of_int (n lsr 1)) else XO (pos_of_int (n lsr 1))
let n_of_int n = if n = 0 then N0 else Npos (pos_of_int n)
let z_of_int i = if i = 0 then Z0 else if i > 0 then Zpos (pos_of_int i) else Zneg (pos_of_int (-i))
let rec int_of_pos = function XH -> 1 | XO p -> 2 * int_of_pos p | XI p -> 2 * int_of_pos p + 1
let int_of_n = function N0 -> 0 | Npos p -> int_of_pos p
let int_of_z = function Z0 -> 0 | Zpos p -> int_of_pos p | Zneg p -> - (int_of_pos p)
let rec nat_of_int n = if n = 0 then O else S (nat_of_int (n - 1))
let rec int_of_nat = function O -> 0 | S k -> 1 + int_of_nat k

let bytes_of_hex s =
  let n = String.length s / 2 in
  List.init n (fun i -> n_of_int (int_of_string ("0x" ^ String.sub s (2 * i) 2)))
let hex_of_bytes l = String.concat "" (List.map (fun b -> Printf.sprintf "%02x" (int_of_n b)) l)

(* ---------- tiny JSON ---------- *)
type json = JNull | JBool of bool | JInt of int | JStr of string | JArr of json list | JObj of (string * json) list

let parse_json (s : string) : json =
  let n = String.length s in
  let pos = ref 0 in
  let peek () = if !pos < n then s.[!pos] else '\000' in
  let adv () = incr pos in
  let rec ws () = if !pos < n && (peek () = ' ' || peek () = '\n' || peek () = '\t' || peek () = '\r') then (adv (); ws ()) in
  let rec value () =
    ws ();
    match peek () with
    | '{' -> adv (); ws ();
      if peek () = '}' then (adv (); JObj [])
      else begin
        let rec members acc =
          ws ();
          let k = (match value () with JStr k -> k | _ -> failwith "key") in
          ws (); if peek () <> ':' then failwith "colon"; adv ();
          let v = value () in
          ws ();
          if peek () = ',' then (adv (); members ((k, v) :: acc))
          else if peek () = '}' then (adv (); JObj (List.rev ((k, v) :: acc)))
          else failwith "obj"
        in members []
      end
    | '[' -> adv (); ws ();
      if peek () = ']' then (adv (); JArr [])
      else begin
        let rec elems acc =
          let v = value () in
          ws ();
          if peek () = ',' then (adv (); elems (v :: acc))
          else if peek () = ']' then (adv (); JArr (List.rev (v :: acc)))
          else failwith "arr"
        in elems []
      end
    | '"' -> adv ();
      let b = Buffer.create 16 in
      let rec str () =
        let c = peek () in
        if c = '"' then adv ()
        else if c = '\\' then begin
          adv ();
          (match peek () with
           | 'n' -> Buffer.add_char b '\n' | 't' -> Buffer.add_char b '\t' | 'r' -> Buffer.add_char b '\r'
           | 'u' -> pos := !pos + 4; Buffer.add_char b '?'
           | c -> Buffer.add_char b c);
          adv (); str ()
        end else (Buffer.add_char b c; adv (); str ())
      in str (); JStr (Buffer.contents b)
    | 't' -> pos := !pos + 4; JBool true
    | 'f' -> pos := !pos + 5; JBool false
    | 'n' -> pos := !pos + 4; JNull
    | _ ->
      let st = !pos in
      if peek () = '-' then adv ();
      while !pos < n && peek () >= '0' && peek () <= '9' do adv () done;
      JInt (int_of_string (String.sub s st (!pos - st)))
  in value ()

let field o k = match o with JObj l -> (try List.assoc k l with Not_found -> JNull) | _ -> JNull
let str_field o k = match field o k with JStr s -> s | _ -> ""
let int_field o k d = match field o k with JInt i -> i | _ -> d
let ints_of j = match j with JArr l -> List.map (function JInt i -> i | _ -> 0) l | _ -> []


let res_tag = function Ok _ -> "ok" | Err _ -> "err" | Panic _ -> "panic"
let rec take n l = if n = 0 then [] else match l with [] -> [] | x :: t -> x :: take (n - 1) t

let string_of_nlist (l : n list) =
  let b = Bytes.create (List.length l) in
  List.iteri (fun i x -> Bytes.set b i (Char.chr (int_of_n x))) l;
  Bytes.to_string b
let md5_real (l : n list) : n list =
  let d = Digest.string (string_of_nlist l) in
  List.init 16 (fun i -> n_of_int (Char.code d.[i]))

let ( >>= ) x f = match x with Ok a -> f a | Err e -> Err e | Panic k -> Panic k

(* Options, through the model's own setters (so their validation is part of what is compared) *)
let build_options cfg : options res =
  let o = options_default in
  options_block_size o (n_of_int (int_field cfg "bs" 4096)) >>= fun o ->
  options_max_lpc_order o (match field cfg "lpc" with JInt l -> Some (n_of_int l) | _ -> None) >>= fun o ->
  options_max_partition_order o (n_of_int (int_field cfg "po" 5)) >>= fun o ->
  (let s = str_field cfg "seek" in
   let arg pre = n_of_int (int_of_string (String.sub s (String.length pre) (String.length s - String.length pre - 1))) in
   if s = "None" then Ok (options_no_seektable o)
   else if s = "Default" || s = "" then Ok o
   else if String.length s > 8 && String.sub s 0 8 = "Seconds(" then Ok (options_seektable_seconds o (arg "Seconds("))
   else if String.length s > 7 && String.sub s 0 7 = "Frames(" then Ok (options_seektable_frames o (arg "Frames("))
   else Err EIo) >>= fun o ->
  (match field cfg "padding" with
   | JInt 0 -> Ok (options_no_padding o)
   | JInt n -> options_padding o (n_of_int n)
   | _ -> Ok o)

let run_e2e_file c =
  let bytes = bytes_of_hex (str_field c "bytes") in
  let cfg = field c "cfg" in
  let expect = ints_of (field c "expect") in
  match read_metadata_min bytes with
  | None -> "{\"end\":\"badmeta\"}"
  | Some (si, audio) ->
    let ch = int_field cfg "ch" 1 and bps = int_field cfg "bps" 16 and rate = int_field cfg "rate" 44100 in
    let lpc_on = (field cfg "lpc" <> JNull) in
    let fast = (field cfg "fast" = JBool true) in
    let eo = { eo_max_po = n_of_int (int_field cfg "po" 5);
               eo_mid_side = (field cfg "mid_side" = JBool true);
               eo_exhaustive = not fast;
               eo_rice2 = bps > 16 } in
    (* the oracle: every LPC subframe of the real file, keyed by (effective depth, the signal it stands for) *)
    let lpcs = ref [] in
    let rec collect audio =
      if audio <> [] then
        match struct_frame (Some si) audio with
        | Ok (fa, rest) ->
          let a = fa.f_hdr.h_assign in
          List.iteri (fun i sf ->
              match sf.sf_body with
              | BLpc (order, _, prec, shift, coefs, _) ->
                let eb = int_of_n (subframe_bps a (n_of_int bps) (nat_of_int i)) - int_of_n sf.sf_wasted in
                lpcs := ((eb, sem_body fa.f_hdr.h_bs sf.sf_body), (((order, prec), shift), coefs)) :: !lpcs
              | _ -> ()) fa.f_subs;
          if List.length rest < List.length audio then collect rest
        | _ -> () in
    collect audio;
    let table = !lpcs in
    let l = if lpc_on then Some (fun eb ys -> List.assoc_opt (int_of_n eb, ys) table) else None in
    let complete_oracle = (not lpc_on) || ch <> 2 || fast in
    let total = if field cfg "declare_total" = JBool true then Some (n_of_int (List.length expect)) else None in
    (match build_options cfg with
     | (Err _ | Panic _) as r -> Printf.sprintf "{\"end\":\"options:%s\"}" (res_tag r)
     | Ok o ->
       (* the other two front-ends on the same input: bytes (both byte orders) and per-channel slices *)
       let nbytes = (bps + 7) / 8 in
       let le_bytes v = List.init nbytes (fun i -> n_of_int ((v asr (8 * i)) land 255)) in
       let enc = encB_x eo l (n_of_int rate) (n_of_int bps) in
       let nframes = List.length expect / ch in
       let other_front_ends () =
         let run_bytes en conv =
           let tot = if field cfg "declare_total" = JBool true then Some (n_of_int (List.length expect * nbytes)) else None in
           match byte_new Release en [] o (n_of_int rate) (n_of_int bps) (n_of_int ch) tot with
           | Ok w -> (match byte_run enc md5_real Release w [List.concat_map conv expect] with Ok f -> f.f_stream = bytes | _ -> false)
           | _ -> false in
         let run_channels () =
           let tot = if field cfg "declare_total" = JBool true then Some (n_of_int nframes) else None in
           let chans = List.init ch (fun ci -> List.filteri (fun i _ -> i mod ch = ci) (take (nframes * ch) expect) |> List.map z_of_int) in
           match channel_new Release [] o (n_of_int rate) (n_of_int bps) (n_of_int ch) tot with
           | Ok w -> (match channel_run enc md5_real Release w [chans] with Ok f -> f.f_stream = bytes | _ -> false)
           | _ -> false in
         (run_bytes LE le_bytes, run_bytes BE (fun v -> List.rev (le_bytes v)), run_channels ()) in
       match sample_new Release [] o (n_of_int rate) (n_of_int bps) (n_of_int ch) total with
       | (Err _ | Panic _) as r -> Printf.sprintf "{\"end\":\"new:%s\"}" (res_tag r)
       | Ok w ->
         match sample_run enc md5_real Release w [List.map z_of_int expect] with
         | (Err _ | Panic _) as r -> Printf.sprintf "{\"end\":\"run:%s\",\"complete_oracle\":%b}" (res_tag r) complete_oracle
         | Ok f ->
           let m = f.f_stream in
           let same = (m = bytes) in
           let (ble, bbe, chn) = if same && List.length expect mod ch = 0 && List.length expect <= 3000 then other_front_ends () else (same, same, same) in
           let rec first i a b = match a, b with
             | x :: a', y :: b' -> if x = y then first (i + 1) a' b' else i
             | [], [] -> -1 | _ -> i in
           let k = if same then -1 else first 0 m bytes in
           let meta_len = List.length bytes - List.length audio in
           Printf.sprintf "{\"end\":\"ok\",\"match\":%b,\"match_bytes_le\":%b,\"match_bytes_be\":%b,\"match_channels\":%b,\"complete_oracle\":%b,\"lpc\":%b,\"model_len\":%d,\"file_len\":%d,\"meta_len\":%d,\"first_diff\":%d,\"model_at\":\"%s\",\"file_at\":\"%s\"}"
             same ble bbe chn complete_oracle lpc_on (List.length m) (List.length bytes) meta_len k
             (if k < 0 then "" else hex_of_bytes (take 24 (List.filteri (fun i _ -> i >= k) m)))
             (if k < 0 then "" else hex_of_bytes (take 24 (List.filteri (fun i _ -> i >= k) bytes))))

(* kind e2e_prefix: the bytes a writer has put on the sink BEFORE finalize (provisional metadata region + the frames of
   every whole block written) must be the composed model's `stream` after the same writes *)
let run_e2e_prefix c =
  let bytes = bytes_of_hex (str_field c "bytes") in
  let cfg = field c "cfg" in
  let expect = ints_of (field c "expect") in
  match read_metadata_min bytes with
  | None -> "{\"end\":\"badmeta\"}"
  | Some (si, audio) ->
    let ch = int_field cfg "ch" 1 and bps = int_field cfg "bps" 16 and rate = int_field cfg "rate" 44100 in
    let lpc_on = (field cfg "lpc" <> JNull) in
    let fast = (field cfg "fast" = JBool true) in
    let eo = { eo_max_po = n_of_int (int_field cfg "po" 5); eo_mid_side = (field cfg "mid_side" = JBool true);
               eo_exhaustive = not fast; eo_rice2 = bps > 16 } in
    (* the provisional STREAMINFO has the block size in both fields and the rest as declared: frames parse under it *)
    let lpcs = ref [] in
    let rec collect audio =
      if audio <> [] then
        match struct_frame (Some si) audio with
        | Ok (fa, rest) ->
          let a = fa.f_hdr.h_assign in
          List.iteri (fun i sf ->
              match sf.sf_body with
              | BLpc (order, _, prec, shift, coefs, _) ->
                let eb = int_of_n (subframe_bps a (n_of_int bps) (nat_of_int i)) - int_of_n sf.sf_wasted in
                lpcs := ((eb, sem_body fa.f_hdr.h_bs sf.sf_body), (((order, prec), shift), coefs)) :: !lpcs
              | _ -> ()) fa.f_subs;
          if List.length rest < List.length audio then collect rest
        | _ -> () in
    collect audio;
    let table = !lpcs in
    let l = if lpc_on then Some (fun eb ys -> List.assoc_opt (int_of_n eb, ys) table) else None in
    let complete_oracle = (not lpc_on) || ch <> 2 || fast in
    let total = if field cfg "declare_total" = JBool true then Some (n_of_int (List.length expect)) else None in
    (match build_options cfg with
     | (Err _ | Panic _) as r -> Printf.sprintf "{\"end\":\"options:%s\"}" (res_tag r)
     | Ok o ->
       match sample_new Release [] o (n_of_int rate) (n_of_int bps) (n_of_int ch) total with
       | (Err _ | Panic _) as r -> Printf.sprintf "{\"end\":\"new:%s\"}" (res_tag r)
       | Ok w ->
         match sample_write (encB_x eo l (n_of_int rate) (n_of_int bps)) Release w (List.map z_of_int expect) with
         | (Err _ | Panic _) as r -> Printf.sprintf "{\"end\":\"write:%s\",\"complete_oracle\":%b}" (res_tag r) complete_oracle
         | Ok w' ->
           let m = stream w'.sw_enc in
           let same = (m = bytes) in
           let rec first i a b = match a, b with
             | x :: a', y :: b' -> if x = y then first (i + 1) a' b' else i
             | [], [] -> -1 | _ -> i in
           let k = if same then -1 else first 0 m bytes in
           Printf.sprintf "{\"end\":\"ok\",\"match\":%b,\"complete_oracle\":%b,\"model_len\":%d,\"file_len\":%d,\"meta_len\":%d,\"first_diff\":%d}"
             same complete_oracle (List.length m) (List.length bytes) (List.length bytes - List.length audio) k)

let () =
  try
    while true do
      let line = input_line stdin in
      if String.length line > 0 then begin
        let out =
          try
            let c = parse_json line in
            (match str_field c "kind" with
             | "e2e_file" | "enc_stream" -> run_e2e_file c
             | "e2e_prefix" -> run_e2e_prefix c
             | k -> Printf.sprintf "{\"end\":\"unknown-kind:%s\"}" k)
          with
          | Stack_overflow -> "{\"end\":\"driver-stack-overflow\"}"
          | Failure m -> Printf.sprintf "{\"end\":\"driver-failure:%s\"}" m
          | Not_found -> "{\"end\":\"driver-failure:not-found\"}"
          | Invalid_argument m -> Printf.sprintf "{\"end\":\"driver-failure:%s\"}" m
        in
        print_string out; print_newline ()
      end
    done
  with End_of_file -> ()
