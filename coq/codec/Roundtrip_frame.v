(* Codec/Roundtrip_frame.v — whole frames: Frame::read inverts the writer, for every well-formed tree. *)
From FlacCodec Require Import Parser_proofs Wf Roundtrip_sub Roundtrip_hdr.
From FlacBase Require Import Crc.
Open Scope N_scope.

(* ---- bytes <-> bits ---- *)
Lemma bits_of_bytes_app a b : bits_of_bytes (a ++ b) = bits_of_bytes a ++ bits_of_bytes b.
Proof. unfold bits_of_bytes. apply flat_map_app. Qed.

Lemma rd8_wr8 b0 b1 b2 b3 b4 b5 b6 b7 r :
  exists v, rd 8 (b0 :: b1 :: b2 :: b3 :: b4 :: b5 :: b6 :: b7 :: r) = Some (v, r) /\
            wr 8 v = [b0; b1; b2; b3; b4; b5; b6; b7] /\ v < 256.
Proof.
  destruct b0, b1, b2, b3, b4, b5, b6, b7; eexists; (split; [reflexivity|split; reflexivity]).
Qed.

Lemma bits_of_bytes_of_bits : forall k s, length s = (8 * k)%nat ->
  bits_of_bytes (bytes_of_bits k s) = s /\ Forall byte (bytes_of_bits k s) /\ length (bytes_of_bits k s) = k.
Proof.
  induction k as [|k IH]; intros s L.
  - destruct s; [|discriminate]. cbn. auto.
  - do 8 (destruct s as [|? s]; [cbn in L; lia|]).
    destruct (rd8_wr8 b b0 b1 b2 b3 b4 b5 b6 s) as (v & Hr & Hw & Hv).
    cbn [bytes_of_bits]. rewrite Hr.
    destruct (IH s) as (I1 & I2 & I3). { cbn in L. lia. }
    change (bits_of_bytes (v :: bytes_of_bits k s)) with (byte_bits v ++ bits_of_bytes (bytes_of_bits k s)).
    rewrite I1. unfold byte_bits. rewrite Hw. cbn [app length]. repeat split; auto.
Qed.

Lemma rd_exact n : forall acc c r, length c = n -> exists v, rd_acc n acc (c ++ r) = Some (v, r).
Proof.
  induction n as [|n IH]; intros acc c r L.
  - destruct c; [|discriminate]. exists acc. reflexivity.
  - destruct c as [|b c]; [discriminate|]. cbn [app rd_acc]. apply IH. cbn in L. lia.
Qed.

Lemma firstn_app_exact {A} (a b : list A) n : n = length a -> firstn n (a ++ b) = a.
Proof. intros ->. rewrite firstn_app, Nat.sub_diag, firstn_all. cbn. apply app_nil_r. Qed.
Lemma skipn_app_exact {A} (a b : list A) n : n = length a -> skipn n (a ++ b) = b.
Proof. intros ->. rewrite skipn_app, Nat.sub_diag, skipn_all. reflexivity. Qed.

(* ---- subframes of a frame ---- *)
Lemma subframes_roundtrip h : forall subs i, wf_subframes h i subs = true ->
  encodes (struct_subframes h i (length subs)) (write_subframes (h_assign h) (h_bps h) i subs) subs.
Proof.
  induction subs as [|sf subs IH]; intros i H; cbn [length struct_subframes write_subframes wf_subframes] in *.
  - apply encodes_ret.
  - apply andb_prop in H. destruct H as [H1 H2].
    eapply encodes_bind; [apply subframe_roundtrip; exact H1|].
    rewrite <- (app_nil_r (write_subframes _ _ _ _)).
    eapply encodes_bind; [apply IH; exact H2|]. apply encodes_ret.
Qed.

Lemma pad_small m : (m < 8 -> (m + (8 - m) mod 8) mod 8 = 0)%nat.
Proof. intros H. do 8 (destruct m as [|m]; [reflexivity|]). lia. Qed.
Lemma pad_to_byte_length s : (length (pad_to_byte s) mod 8 = 0)%nat.
Proof.
  unfold pad_to_byte. rewrite app_length, repeat_length.
  pose proof (Nat.mod_upper_bound (length s) 8 ltac:(lia)) as Hm.
  pose proof (Nat.div_mod (length s) 8 ltac:(lia)) as Hd.
  remember (length s mod 8)%nat as m. remember (length s / 8)%nat as q.
  rewrite Hd. replace (8 * q + m + (8 - m) mod 8)%nat with ((m + (8 - m) mod 8) + q * 8)%nat by lia.
  rewrite Nat.mod_add by lia. apply pad_small. exact Hm.
Qed.

Lemma mod8_div8 n : (n mod 8 = 0 -> 8 * (n / 8) = n)%nat.
Proof. intros H. pose proof (Nat.div_mod n 8 ltac:(lia)). lia. Qed.

Local Opaque wr wr_unary cont_bytes.

Lemma header_bits_aligned h hb : write_header_fields h = Some hb -> (length hb mod 8 = 0)%nat.
Proof.
  unfold write_header_fields. destruct (write_number (h_number h)) as [nb|] eqn:En; [|discriminate].
  intros E. injection E as <-. pose proof (number_bits_length _ _ En) as Hn.
  pose proof (mod8_div8 _ Hn) as Q. remember (length nb / 8)%nat as q.
  match goal with |- context [nb ++ ?a ++ ?b] => remember a as A; remember b as B end.
  assert (HA : (length A = 0 \/ length A = 8 \/ length A = 16)%nat).
  { subst A. destruct (h_bs_code h =? 6); [rewrite wr_length; auto|].
    destruct (h_bs_code h =? 7); [rewrite wr_length; auto|auto]. }
  assert (HB : (length B = 0 \/ length B = 8 \/ length B = 16)%nat).
  { subst B. destruct (h_rate_code h =? 12); [rewrite wr_length; auto|].
    destruct (h_rate_code h =? 13); [rewrite wr_length; auto|].
    destruct (h_rate_code h =? 14); [rewrite wr_length; auto|auto]. }
  repeat (rewrite app_length || rewrite wr_length || cbn [length]).
  match goal with |- (?X mod 8 = 0)%nat =>
    replace X with (0 + (4 + q + length A / 8 + length B / 8) * 8)%nat end.
  - rewrite Nat.mod_add by lia. reflexivity.
  - destruct HA as [-> | [-> | ->]], HB as [-> | [-> | ->]];
      change (0 / 8)%nat with 0%nat; change (8 / 8)%nat with 1%nat; change (16 / 8)%nat with 2%nat; lia.
Qed.

Lemma crc8_lt m : Forall byte m -> crc8 m < 256.
Proof. intros H. unfold crc8. apply (run_closed 256 upd8 upd8_closed); auto. reflexivity. Qed.
Lemma crc16_lt m : Forall byte m -> crc16 m < 65536.
Proof. intros H. unfold crc16. apply (run_closed 65536 upd16 upd16_closed); auto. reflexivity. Qed.

Lemma p_align_pad (w : bits) (tail : bits) :
  (length tail mod 8 = 0)%nat ->
  p_align (repeat false ((8 - length w mod 8) mod 8) ++ tail) = Ok (tt, tail) \/ True.
Proof. auto. Qed.

(* the byte-level statement *)
Theorem frame_roundtrip si f bytes rest :
  wf_frame si f = true -> write_frame f = Some bytes ->
  struct_frame si (bytes ++ rest) = Ok (f, rest).
Proof.
  unfold wf_frame, write_frame. intros Hwf Hw.
  apply andb_prop in Hwf. destruct Hwf as [Hwf Hchk].
  apply andb_prop in Hwf. destruct Hwf as [Hwf Hsubs].
  apply andb_prop in Hwf. destruct Hwf as [Hhdr Hlen]. apply Nat.eqb_eq in Hlen.
  destruct (write_header_fields (f_hdr f)) as [hb|] eqn:Ehb; [|discriminate].
  pose proof (header_bits_aligned _ _ Ehb) as Hal.
  destruct (bits_of_bytes_of_bits (length hb / 8) hb) as (Hb1 & Hb2 & Hb3).
  { symmetry. apply mod8_div8. exact Hal. }
  remember (bytes_of_bits (length hb / 8) hb) as hbytes.
  remember (pad_to_byte (write_subframes (h_assign (f_hdr f)) (h_bps (f_hdr f)) 0 (f_subs f))) as body.
  destruct (bits_of_bytes_of_bits (length body / 8) body) as (Bb1 & Bb2 & Bb3).
  { symmetry. apply mod8_div8. subst body. apply pad_to_byte_length. }
  remember (bytes_of_bits (length body / 8) body) as bbytes.
  cbv zeta in Hw.
  remember ((hbytes ++ [crc8 hbytes]) ++ bbytes) as all.
  injection Hw as <-.
  assert (Hall : Forall byte all).
  { subst all. rewrite !Forall_app. repeat split; auto. constructor; [apply crc8_lt; auto|constructor]. }
  pose proof (crc16_lt all Hall) as Hc16.
  unfold struct_frame.
  (* the bit string *)
  assert (Ebits : bits_of_bytes ((all ++ [N.shiftr (crc16 all) 8; N.land (crc16 all) 255]) ++ rest) =
                  (hb ++ wr 8 (crc8 hbytes)) ++ body ++ (wr 8 (N.shiftr (crc16 all) 8) ++ wr 8 (N.land (crc16 all) 255)) ++ bits_of_bytes rest).
  { subst all. rewrite !bits_of_bytes_app. rewrite Hb1, Bb1. cbn [bits_of_bytes flat_map]. unfold byte_bits.
    rewrite !app_nil_r. rewrite <- !app_assoc. reflexivity. }
  rewrite Ebits.
  pose proof (header_roundtrip si (f_hdr f) hb (crc8 hbytes) Hhdr Ehb (crc8_lt _ Hb2)) as Hhr.
  rewrite (Hhr _).
  (* header checks *)
  assert (Hck : (match si with Some i => header_checks i (f_hdr f) | None => Ok (f_hdr f) end) = Ok (f_hdr f)).
  { destruct si as [i|]; [|reflexivity]. unfold header_checks in *.
    repeat match goal with |- context [if ?c then _ else _] => destruct c; [cbn in Hchk; discriminate|] end. reflexivity. }
  rewrite Hck. cbn [bind].
  (* header bytes and CRC-8 *)
  assert (Lbits : forall l : list N, length (bits_of_bytes l) = (8 * length l)%nat) by apply bits_of_bytes_length.
  assert (Ecb1 : consumed_bytes ((all ++ [N.shiftr (crc16 all) 8; N.land (crc16 all) 255]) ++ rest)
                   (body ++ (wr 8 (N.shiftr (crc16 all) 8) ++ wr 8 (N.land (crc16 all) 255)) ++ bits_of_bytes rest) = length (hbytes ++ [crc8 hbytes])).
  { assert (Lbody : length body = (8 * length bbytes)%nat) by (rewrite <- Bb1; apply Lbits).
    unfold consumed_bytes. rewrite !app_length, !wr_length, Lbits, Lbody.
    subst all. rewrite !app_length. cbn [length].
    replace (8 * length bbytes + (8 + 8 + 8 * length rest))%nat with ((length bbytes + 2 + length rest) * 8)%nat by lia.
    rewrite Nat.div_mul by lia. lia. }
  rewrite Ecb1.
  assert (Efn : firstn (length (hbytes ++ [crc8 hbytes])) ((all ++ [N.shiftr (crc16 all) 8; N.land (crc16 all) 255]) ++ rest) = hbytes ++ [crc8 hbytes]).
  { subst all. rewrite <- !app_assoc. rewrite app_assoc. apply firstn_app_exact. reflexivity. }
  rewrite Efn. rewrite crc8_append by exact Hb2. cbn [N.eqb negb].
  (* subframes, alignment, CRC-16 field *)
  pose proof (subframes_roundtrip (f_hdr f) (f_subs f) 0 Hsubs) as Hsr. rewrite Hlen in Hsr.
  unfold pbind at 1. unfold pbind at 1.
  subst body. unfold pad_to_byte. rewrite <- !app_assoc.
  rewrite (Hsr _).
  set (W := write_subframes (h_assign (f_hdr f)) (h_bps (f_hdr f)) 0 (f_subs f)) in *.
  set (pad := ((8 - length W mod 8) mod 8)%nat) in *.
  set (tailbits := wr 8 (N.shiftr (crc16 all) 8) ++ wr 8 (N.land (crc16 all) 255) ++ bits_of_bytes rest).
  assert (Ealign : p_align (repeat false pad ++ tailbits) = Ok (tt, tailbits)).
  { unfold p_align. f_equal. f_equal.
    assert (Hp : (pad < 8)%nat) by (unfold pad; apply Nat.mod_upper_bound; lia).
    assert (Lt : length (repeat false pad ++ tailbits) = (pad + (2 + length rest) * 8)%nat).
    { unfold tailbits. rewrite !app_length, repeat_length, !wr_length, Lbits. lia. }
    rewrite Lt. rewrite Nat.mod_add by lia. rewrite Nat.mod_small by exact Hp.
    apply skipn_app_exact. rewrite repeat_length. reflexivity. }
  unfold pbind. rewrite Ealign.
  destruct (rd_exact 16 0 (wr 8 (N.shiftr (crc16 all) 8) ++ wr 8 (N.land (crc16 all) 255)) (bits_of_bytes rest)) as [v16 Hv16].
  { rewrite app_length, !wr_length. reflexivity. }
  unfold p_rd, rd. unfold tailbits. rewrite app_assoc. rewrite Hv16. unfold pret.
  (* consumed bytes = the whole frame; CRC-16 *)
  assert (Ecb2 : consumed_bytes ((all ++ [N.shiftr (crc16 all) 8; N.land (crc16 all) 255]) ++ rest) (bits_of_bytes rest)
                 = length (all ++ [N.shiftr (crc16 all) 8; N.land (crc16 all) 255])).
  { unfold consumed_bytes. rewrite Lbits, app_length. rewrite (Nat.mul_comm 8), Nat.div_mul by lia. lia. }
  rewrite !(app_assoc all). rewrite Ecb2. rewrite firstn_app_exact by reflexivity. rewrite crc16_append by exact Hall.
  cbn [N.eqb]. rewrite skipn_app_exact by reflexivity. destruct f. reflexivity.
Qed.
