(* readers/Spec.v — what C06 / C07 say, independent of the reader code:
   the expected streams of a file, validity of a file (valid stream, truthful seek table), the
   abstract cursor every reader must behave like, and how a concrete history is read as a history
   of that cursor.  Definitions only. *)
From FlacReaders Require Export Seek.
Open Scope N_scope.

(* ------------------------------------------------------------------ expected streams *)
Definition slot_frame (s : slot) : frame := match s with SFrame f => f | SBad g => g end.
Definition frames_of (l : list slot) : list frame := map slot_frame l.

(* PCM frames in a run of slots *)
Fixpoint sumlen (l : list slot) : N :=
  match l with [] => 0 | s :: r => pcm_frames (slot_frame s) + sumlen r end.

(* interleaved samples / bytes / one channel of a run of slots *)
Definition sdata (l : list slot) : list Z := concat (map interleave (frames_of l)).
Definition bdata (F : file) (l : list slot) : list N :=
  ser (f_endian F) (bytes_per_sample (f_bps F)) (sdata l).
Definition cdata (c : nat) (l : list slot) : list Z := concat (map (fun f => nth c f []) (frames_of l)).

(* the expected interleaved PCM of the file, its serialisation, its channels *)
Definition pcm (F : file) : list Z := sdata (f_slots F).
Definition pcm_bytes (F : file) : list N := bdata F (f_slots F).
Definition chan_pcm (F : file) (c : nat) : list Z := cdata c (f_slots F).
Definition total_frames (F : file) : N := sumlen (f_slots F).

(* two's complement of s in w bytes, least significant byte first *)
Fixpoint le_bytes (w : nat) (u : N) : list N :=
  match w with O => [] | S k => u mod 256 :: le_bytes k (u / 256) end.
Definition twos_complement (e : endian) (w : N) (s : Z) : list N :=
  order e (le_bytes (N.to_nat w) (Z.to_N (s mod 2 ^ (8 * Z.of_N w)))).
Definition fits (bits : Z) (s : Z) : Prop := (- 2 ^ (bits - 1) <= s < 2 ^ (bits - 1))%Z.

(* ------------------------------------------------------------------ valid files *)
Definition wf_frame (nch : N) (f : frame) : Prop :=
  lenN f = nch /\ 0 < pcm_frames f /\ Forall (fun c => lenN c = pcm_frames f) f.

Definition good_slot (nch : N) (s : slot) : Prop := exists f, s = SFrame f /\ wf_frame nch f.

(* every defined seek point names a real frame and that frame's first sample; any order, any
   number of placeholders anywhere, absent or empty table *)
Definition truthful (F : file) : Prop :=
  match f_table F with
  | None => True
  | Some pts => forall o i, In (Defined o i) pts ->
                            i <= lenN (f_slots F) /\ o = sumlen (takeN i (f_slots F))
  end.

Record valid_file (F : file) : Prop := {
  v_channels : 1 <= f_channels F;
  v_width : 1 <= bytes_per_sample (f_bps F) <= 4;
  v_good : Forall (good_slot (f_channels F)) (f_slots F);
  v_total : match f_total F with Some t => t = total_frames F | None => True end;
  (* with a known total only the last block may have 14 samples or fewer (the decoder enforces it) *)
  v_blocks : f_total F <> None -> forall pre s post, f_slots F = pre ++ s :: post -> post <> [] ->
             14 < pcm_frames (slot_frame s);
  v_truthful : truthful F;
  v_range : total_frames F * bytes_per_pcm_frame F < U64;
  v_usize : f_usize_bits F = 64;
  v_rev : f_rev F = Repaired }.

(* ------------------------------------------------------------------ the abstract cursor *)
Section Cursor.
  Context {A : Type}.

  Inductive aop := ARead (n : N) | AFill | AConsume (k : N) | ANext | ASeek (target : option N).
  Inductive aout := AData (xs : list A) | AItem (x : option A) | AUnit | APos (p : N) | AFail | APanic.

  (* one call: position before, call, answer, position after *)
  Record entry := { e_pos : N; e_op : aop; e_out : aout; e_pos' : N }.

  Definition prefix (xs l : list A) : Prop := exists r, l = xs ++ r.

  (* The contract of one call on a cursor over `data`:
     read(n) hands out at most n of the next items and at least one if n > 0 and any are left;
     fill shows a non-empty run of the next items (empty only at the end) and does not move;
     consume(k) moves by k; next hands out the next item or None at the end;
     a seek to a position inside the stream (Some t) succeeds, answers t where a position is
     answered, and moves there; a seek outside (None) fails and leaves the cursor where it was or
     at the end.  Nothing else is allowed: no error, no panic on any other call. *)
  Definition cur_ok (data : list A) (e : entry) : Prop :=
    e_pos e <= lenN data /\ e_pos' e <= lenN data /\
    match e_op e, e_out e with
    | ARead n, AData xs =>
        prefix xs (dropN (e_pos e) data) /\ lenN xs <= n /\ e_pos' e = e_pos e + lenN xs /\
        (0 < n -> e_pos e < lenN data -> xs <> [])
    | AFill, AData xs =>
        prefix xs (dropN (e_pos e) data) /\ e_pos' e = e_pos e /\ (e_pos e < lenN data -> xs <> [])
    | AConsume k, AUnit => e_pos' e = e_pos e + k
    | ANext, AItem (Some x) => prefix [x] (dropN (e_pos e) data) /\ e_pos' e = e_pos e + 1
    | ANext, AItem None => e_pos e = lenN data /\ e_pos' e = e_pos e
    | ASeek (Some t), AUnit => t <= lenN data /\ e_pos' e = t
    | ASeek (Some t), APos q => q = t /\ t <= lenN data /\ e_pos' e = t
    | ASeek None, AFail => e_pos' e = e_pos e \/ e_pos' e = lenN data
    | _, _ => False
    end.

  (* consecutive calls: each starts where the previous one ended *)
  Fixpoint chained (p0 : N) (tr : list entry) (p_end : N) : Prop :=
    match tr with
    | [] => p0 = p_end
    | e :: r => e_pos e = p0 /\ chained (e_pos' e) r p_end
    end.

  (* what a call hands over to the caller for good: the items read, the item iterated, and for
     consume(k) the first k items of what fill_buf showed *)
  Definition delivered1 (data : list A) (e : entry) : list A :=
    match e_op e, e_out e with
    | ARead _, AData xs => xs
    | ANext, AItem (Some x) => [x]
    | AConsume k, AUnit => takeN k (dropN (e_pos e) data)
    | _, _ => []
    end.
  Definition delivered (data : list A) (tr : list entry) : list A := concat (map (delivered1 data) tr).

  Definition is_seek (e : entry) : bool := match e_op e with ASeek _ => true | _ => false end.
  Definition seek_free (tr : list entry) : Prop := Forall (fun e => is_seek e = false) tr.

  (* the call signals end of stream *)
  Definition eos (e : entry) : bool :=
    match e_op e, e_out e with
    | ARead n, AData [] => 0 <? n
    | AFill, AData [] => true
    | ANext, AItem None => true
    | _, _ => false
    end.
  (* calls that must signal end of stream when made at the end *)
  Definition polls (e : entry) : bool :=
    match e_op e with ARead n => 0 <? n | AFill | ANext => true | _ => false end.

  (* the data a call shows or hands out (for "the next data is ...") *)
  Definition shown (e : entry) : list A :=
    match e_out e with AData xs => xs | AItem (Some x) => [x] | _ => [] end.
End Cursor.
Arguments aout : clear implicits.
Arguments entry : clear implicits.

(* ------------------------------------------------------------------ reading concrete histories *)
(* logical positions, computed from the reader state *)
Definition bpos (F : file) (r : byte_reader) : N :=
  d_cur (br_dec r) * bytes_per_pcm_frame F - lenN (br_buf r).
Definition spos (F : file) (r : sample_reader) : N :=
  d_cur (sr_dec r) * f_channels F - lenN (sr_buf r).
Definition cpos (r : chan_reader) : N :=
  d_cur (cr_dec r) - (pcm_frames (d_buf (cr_dec r)) - cr_consumed r).

(* where a std::io::Seek request points, for a stream of len bytes with the cursor at pos:
   inside [0, len] or nowhere.  Current(0) only asks for the position and is always answered;
   End needs the total to be known; everything else needs a seekable reader. *)
Definition seek_target (F : file) (len pos : N) (sf : seekfrom) : option N :=
  let t : Z := match sf with
               | Start p => Z.of_N p
               | Current d => Z.of_N pos + d
               | End_ d => Z.of_N len + d
               end%Z in
  let allowed := match sf with
                 | Current 0%Z => true
                 | End_ _ => f_seekable F && match f_total F with Some _ => true | None => false end
                 | _ => f_seekable F
                 end in
  if allowed && (0 <=? t)%Z && (t <=? Z.of_N len)%Z then Some (Z.to_N t) else None.

(* sample-based seek to channel-independent sample s, in a stream of `total` PCM frames whose
   cursor counts `unit` items per PCM frame *)
Definition sample_target (F : file) (unit s : N) : option N :=
  if f_seekable F && (s <=? total_frames F) then Some (s * unit) else None.

Definition abs_out_data {A} (o : out) (data_of : out -> option (list A)) (item_of : out -> option (option A)) : aout A :=
  match data_of o, item_of o with
  | Some xs, _ => AData xs
  | None, Some x => AItem x
  | None, None =>
      match o with
      | OUnit => AUnit
      | OPos p => APos p
      | OErr _ => AFail
      | _ => APanic
      end
  end.

Definition bytes_of (o : out) : option (list N) := match o with OBytes b => Some b | _ => None end.
Definition samples_of (o : out) : option (list Z) := match o with OSamples s => Some s | _ => None end.
Definition item_of (o : out) : option (option Z) := match o with OItem x => Some x | _ => None end.
Definition chan_of (c : nat) (o : out) : option (list Z) := match o with OChans cs => Some (nth c cs []) | _ => None end.
Definition no_item {A} (o : out) : option (option A) := None.

Definition abs_b (F : file) (x : byte_reader * bop * out) : entry N :=
  let '(r, op, o) := x in
  {| e_pos := bpos F r;
     e_op := match op with
             | BRead n => ARead n
             | BFill => AFill
             | BConsume k => AConsume k
             | BSeek sf => ASeek (seek_target F (lenN (pcm_bytes F)) (bpos F r) sf)
             end;
     e_out := abs_out_data o bytes_of no_item;
     e_pos' := bpos F (fst (byte_step F r op)) |}.

Definition abs_s (F : file) (x : sample_reader * sop * out) : entry Z :=
  let '(r, op, o) := x in
  {| e_pos := spos F r;
     e_op := match op with
             | SRead n => ARead n
             | SFill => AFill
             | SConsume k => AConsume k
             | SNext => ANext
             | SSeek s => ASeek (sample_target F (f_channels F) s)
             end;
     e_out := abs_out_data o samples_of item_of;
     e_pos' := spos F (fst (sample_step F r op)) |}.

(* the channel reader, seen through channel c *)
Definition abs_c (F : file) (c : nat) (x : chan_reader * cop * out) : entry Z :=
  let '(r, op, o) := x in
  {| e_pos := cpos r;
     e_op := match op with
             | CFill => AFill
             | CConsume k => AConsume k
             | CSeek s => ASeek (sample_target F 1 s)
             end;
     e_out := abs_out_data o (chan_of c) no_item;
     e_pos' := cpos (fst (chan_step F r op)) |}.

(* every fill_buf of the channel reader returns one slice per channel, all of one length *)
Definition chan_shape (F : file) (x : chan_reader * cop * out) : Prop :=
  match snd x with
  | OChans cs => lenN cs = f_channels F /\ exists k, Forall (fun c => lenN c = k) cs
  | _ => True
  end.

(* ------------------------------------------------------------------ the calls the properties quantify over *)
Definition I64_MIN : Z := (-9223372036854775808)%Z.
Definition I64_MAX : Z := 9223372036854775807%Z.

Definition seekfrom_ok (sf : seekfrom) : Prop :=
  match sf with
  | Start p => p < U64
  | Current d | End_ d => (I64_MIN <= d <= I64_MAX)%Z
  end.

(* consume(k <= available); arguments in their Rust types *)
Definition bop_ok (x : byte_reader * bop * out) : Prop :=
  match x with
  | (r, BConsume k, _) => k <= lenN (br_buf r)
  | (_, BSeek sf, _) => seekfrom_ok sf
  | _ => True
  end.
Definition sop_ok (x : sample_reader * sop * out) : Prop :=
  match x with
  | (r, SConsume k, _) => k <= lenN (sr_buf r)
  | (_, SSeek s, _) => s < U64
  | _ => True
  end.
Definition cop_ok (x : chan_reader * cop * out) : Prop :=
  match x with
  | (r, CConsume k, _) => k <= pcm_frames (d_buf (cr_dec r)) - cr_consumed r
  | (_, CSeek s, _) => s < U64
  | _ => True
  end.

Definition no_bseek (ops : list bop) : Prop := Forall (fun o => match o with BSeek _ => False | _ => True end) ops.
Definition no_sseek (ops : list sop) : Prop := Forall (fun o => match o with SSeek _ => False | _ => True end) ops.
Definition no_cseek (ops : list cop) : Prop := Forall (fun o => match o with CSeek _ => False | _ => True end) ops.

(* ------------------------------------------------------------------ history-level statements *)
(* C07: at every call of a seek-free history what has been delivered so far is exactly the stream
   up to the cursor, the call shows the next data, and once a call signals end of stream the whole
   stream has been delivered, nothing more is delivered, and every later polling call signals it again *)
Definition exactly_once {A} (data : list A) (atr : list (entry A)) : Prop :=
  forall pre e post, atr = pre ++ e :: post ->
    delivered data pre = takeN (e_pos e) data /\
    prefix (shown e) (dropN (e_pos e) data) /\
    (eos e = true ->
       delivered data pre = data /\ delivered data (e :: post) = [] /\
       Forall (fun x => polls x = true -> eos x = true) post).

(* C06: a seek to a position t inside the stream succeeds (and answers t); until the next seek,
   what is delivered is data[t..] in order and every call shows the data right after it *)
Definition seeks_land {A} (data : list A) (atr : list (entry A)) : Prop :=
  forall pre e post t, atr = pre ++ e :: post -> e_op e = ASeek (Some t) -> seek_free post ->
    (e_out e = AUnit \/ e_out e = APos t) /\ t <= lenN data /\
    forall a x b, post = a ++ x :: b ->
      delivered data a = takeN (lenN (delivered data a)) (dropN t data) /\
      e_pos x = t + lenN (delivered data a) /\
      prefix (shown x) (dropN (t + lenN (delivered data a)) data).

(* C06: a seek outside the stream fails; the cursor stays where it was or goes to the end; at the
   end no data is delivered and every polling call signals end of stream, until the next seek *)
Definition failed_seeks_safe {A} (data : list A) (atr : list (entry A)) : Prop :=
  forall pre e post, atr = pre ++ e :: post -> e_op e = ASeek None ->
    e_out e = AFail /\ (e_pos' e = e_pos e \/ e_pos' e = lenN data) /\
    (e_pos' e = lenN data -> seek_free post ->
       delivered data post = [] /\ Forall (fun x => polls x = true -> eos x = true) post).

(* ------------------------------------------------------------------ support for the correspondence check *)
(* two observations agree: same constructor and payload; error variant and panic kind are soft *)
Definition list_same {A} (eqb : A -> A -> bool) : list A -> list A -> bool :=
  fix go a b := match a, b with
                | [], [] => true
                | x :: a', y :: b' => eqb x y && go a' b'
                | _, _ => false
                end.
Definition out_same (a b : out) : bool :=
  match a, b with
  | OBytes x, OBytes y => list_same N.eqb x y
  | OSamples x, OSamples y => list_same Z.eqb x y
  | OChans x, OChans y => list_same (list_same Z.eqb) x y
  | OItem None, OItem None => true
  | OItem (Some x), OItem (Some y) => Z.eqb x y
  | OUnit, OUnit => true
  | OPos p, OPos q => N.eqb p q
  | OErr _, OErr _ => true
  | OPanic _, OPanic _ => true
  | _, _ => false
  end.
(* the model's observations up to and including the first panic (the harness stops there) *)
Fixpoint until_panic (l : list out) : list out :=
  match l with
  | [] => []
  | OPanic k :: _ => [OPanic k]
  | x :: r => x :: until_panic r
  end.
Definition agrees (model impl : list out) : bool := list_same out_same (until_panic model) impl.
