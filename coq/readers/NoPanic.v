(* readers/NoPanic.v — property C04 at the reader front-ends: NO seek-free history of the sample, byte or channel
   reader panics, on ANY stream — any number of failing frames anywhere, any STREAMINFO total, calls continuing after
   errors and after the end of the stream.  Hypotheses: the frames that do decode are well formed (what the decoder
   core hands out: C03/C04 of the codec area), the sample counter fits 64 bits, consume(k) stays within what fill_buf
   showed (the API's precondition; beyond it the real reader panics too), and — channel reader — whatever a failed
   decode leaves in the frame buffer has fewer than 2^64 PCM frames.  (Damaged.v says WHAT is delivered up to the
   first error; this file says that nothing, ever, panics.) *)
From FlacReaders Require Import Spec Lists_proofs Frame_proofs Core_proofs Run_proofs Damaged.
Open Scope N_scope.

(* PCM frames in the frames that decode *)
Fixpoint goodlen (l : list slot) : N :=
  match l with [] => 0 | SFrame f :: r => pcm_frames f + goodlen r | SBad _ :: r => goodlen r end.

Definition slots_ok (nch : N) (l : list slot) : Prop :=
  Forall (fun s => match s with SFrame f => wf_frame nch f | SBad _ => True end) l.

Section NoPanic.
Variable F : file.
Hypothesis Hok : slots_ok (f_channels F) (f_slots F).
Hypothesis Hrange : goodlen (f_slots F) < U64.

(* the decoder's position: some suffix of the stream is still to come, the counter is bounded by what came before *)
Definition dec_ok (d : dec) : Prop :=
  slots_ok (f_channels F) (d_rest d) /\ d_cur d + goodlen (d_rest d) < U64.

Lemma dec_ok_new : dec_ok (dec_new F).
Proof. unfold dec_ok, dec_new. cbn [d_rest d_cur]. split; [exact Hok|]. lia. Qed.

Lemma read_frame_safe d : dec_ok d ->
  match read_frame F d with
  | (d', Ok (Some f)) => dec_ok d' /\ wf_frame (f_channels F) f /\ d_buf d' = f
  | (d', Ok None) => d' = d
  | (d', Err _) => dec_ok d' /\ (d_buf d' = d_buf d \/ exists g, In (SBad g) (d_rest d) /\ d_buf d' = g)
  | (_, Panic _) => False
  end.
Proof.
  intros [So Hb].
  assert (NS : forall rem, match next_slot F d rem with
    | (d', Ok (Some f)) => dec_ok d' /\ wf_frame (f_channels F) f /\ d_buf d' = f
    | (d', Ok None) => d' = d
    | (d', Err _) => dec_ok d' /\ (d_buf d' = d_buf d \/ exists g, In (SBad g) (d_rest d) /\ d_buf d' = g)
    | (_, Panic _) => False
    end).
  { intros rem. unfold next_slot. destruct (d_rest d) as [|[f|g] r] eqn:Er.
    - destruct rem; [|reflexivity]. split; [split; [rewrite Er; exact So|rewrite Er; exact Hb]|left; reflexivity].
    - inversion So as [|? ? Wf Sr]; subst. cbn [goodlen] in Hb.
      match goal with |- context [if ?c then _ else _] => destruct c end.
      + split; [split; [constructor|cbn [d_rest d_cur goodlen]; lia]|left; reflexivity].
      + rewrite (u64_add_ok (f_profile F) (d_cur d) (pcm_frames f) ltac:(lia)). split; [split; [exact Sr|cbn [d_rest d_cur]; lia]|]. split; [exact Wf|reflexivity].
    - inversion So as [|? ? _ Sr]; subst. cbn [goodlen] in Hb.
      split; [split; [exact Sr|cbn [d_rest d_cur]; exact Hb]|]. right. exists g. split; [left; reflexivity|reflexivity]. }
  unfold read_frame. destruct (f_total F) as [total|]; [|apply NS].
  destruct (checked_sub total (d_cur d)) as [[|q]|]; [reflexivity|apply NS|].
  split; [split; assumption|left; reflexivity].
Qed.

(* ================================================================== FlacSampleReader *)
Lemma sample_refill_safe r : dec_ok (sr_dec r) ->
  match sample_refill F r with
  | (r1, Panic _) => False
  | (r1, _) => dec_ok (sr_dec r1)
  end.
Proof.
  intros D. unfold sample_refill. pose proof (read_frame_safe _ D) as RF.
  destruct (read_frame F (sr_dec r)) as [d' [[f|]|e|k]].
  - destruct RF as (D' & Wf & _). rewrite (iter_ok _ _ Wf). exact D'.
  - subst d'. exact D.
  - apply RF.
  - exact RF.
Qed.

Lemma sample_step_safe r op : dec_ok (sr_dec r) -> sop_seek_free op ->
  (match op with SConsume k => k <= lenN (sr_buf r) | _ => True end) ->
  dec_ok (sr_dec (fst (sample_step F r op))) /\ forall k, snd (sample_step F r op) <> OPanic k.
Proof.
  intros D Hop Hk. destruct op as [n| |k| |s]; cbn [sample_step]; try contradiction.
  - unfold sample_read. destruct (sr_buf r) eqn:Eb.
    + pose proof (sample_refill_safe r D) as RF. destruct (sample_refill F r) as [r1 [[|]|e|p]]; try contradiction;
        unfold sample_drain; try rewrite splitN_take_drop; cbn [fst snd sr_dec]; split; (exact RF || discriminate).
    + unfold sample_drain. rewrite splitN_take_drop. cbn [fst snd sr_dec]. split; [exact D|discriminate].
  - unfold sample_fill_buf. destruct (sr_buf r) eqn:Eb.
    + pose proof (sample_refill_safe r D) as RF. destruct (sample_refill F r) as [r1 [[|]|e|p]]; try contradiction;
        cbn [fst snd]; split; (exact RF || discriminate).
    + cbn [fst snd]. split; [exact D|discriminate].
  - unfold sample_consume. apply N.leb_le in Hk. rewrite Hk. cbn [fst snd sr_dec]. split; [exact D|discriminate].
  - unfold sample_next. destruct (sr_buf r) eqn:Eb.
    + pose proof (sample_refill_safe r D) as RF. destruct (sample_refill F r) as [r1 [[|]|e|p]]; try contradiction.
      * destruct (sr_buf r1); cbn [fst snd sr_dec]; split; (exact RF || discriminate).
      * cbn [fst snd]. split; [exact RF|discriminate].
      * cbn [fst snd]. split; [exact RF|discriminate].
    + cbn [fst snd sr_dec]. split; [exact D|discriminate].
Qed.

Theorem sample_history_never_panics : forall ops r,
  dec_ok (sr_dec r) -> Forall sop_seek_free ops -> Forall s_consume_ok (snd (run_from (sample_step F) r ops)) ->
  Forall (fun x => forall k, snd x <> OPanic k) (snd (run_from (sample_step F) r ops)).
Proof.
  induction ops as [|op ops IH]; intros r D Hs Hc; cbn [run_from] in *; [constructor|].
  inversion Hs as [|? ? Hop Hs']; subst.
  pose proof (sample_step_safe r op D Hop) as St.
  destruct (sample_step F r op) as [r' o] eqn:Es. destruct (run_from (sample_step F) r' ops) as [rf tr] eqn:Er.
  cbn [snd fst] in *. inversion Hc as [|? ? Hc0 Hc']; subst.
  assert (Hk : match op with SConsume k => k <= lenN (sr_buf r) | _ => True end) by (destruct op; exact Hc0 || exact I).
  destruct (St Hk) as [D' NP]. constructor; [exact NP|].
  specialize (IH r' D' Hs'). rewrite Er in IH. apply IH. exact Hc'.
Qed.

(* ================================================================== FlacChannelReader (code after the repair) *)
Hypothesis Hrev : f_rev F = Repaired.
Hypothesis Hbad : forall g, In (SBad g) (f_slots F) -> pcm_frames g < U64.

(* the frame buffer: empty, a decoded frame, or what a failed decode left — the latter marked consumed *)
Definition CN (r : chan_reader) : Prop :=
  dec_ok (cr_dec r) /\ (forall g, In (SBad g) (d_rest (cr_dec r)) -> pcm_frames g < U64) /\
  pcm_frames (d_buf (cr_dec r)) < U64 /\
  (cr_consumed r < pcm_frames (d_buf (cr_dec r)) -> wf_frame (f_channels F) (d_buf (cr_dec r))) /\
  cr_consumed r <= pcm_frames (d_buf (cr_dec r)).

Lemma read_frame_bad_suffix d : (forall g, In (SBad g) (d_rest d) -> pcm_frames g < U64) ->
  forall g, In (SBad g) (d_rest (fst (read_frame F d))) -> pcm_frames g < U64.
Proof.
  intros H g. unfold read_frame.
  assert (NS : forall rem, In (SBad g) (d_rest (fst (next_slot F d rem))) -> pcm_frames g < U64).
  { intros rem. unfold next_slot. destruct (d_rest d) as [|[f|g0] r] eqn:Er.
    - destruct rem; cbn [fst]; rewrite Er; intros [].
    - match goal with |- context [if ?c then _ else _] => destruct c end; cbn [fst d_rest]; [intros []|].
      destruct (u64_add _ _ _); cbn [fst d_rest]; intros Hin; apply H; try (right; exact Hin); rewrite Er in Hin; exact Hin.
    - cbn [fst d_rest]. intros Hin. apply H. right. exact Hin. }
  destruct (f_total F) as [t|]; [|apply NS].
  destruct (checked_sub t (d_cur d)) as [[|q]|]; [cbn [fst]; apply H|apply NS|cbn [fst]; apply H].
Qed.

Lemma wf_pcm_frames_bound d f : dec_ok d -> d_buf d = f -> wf_frame (f_channels F) f ->
  (exists d0, dec_ok d0 /\ fst (read_frame F d0) = d /\ snd (read_frame F d0) = Ok (Some f)) -> pcm_frames f < U64.
Proof.
  intros _ _ _ (d0 & [So Hb] & E1 & E2). unfold read_frame in E1, E2.
  assert (NS : forall rem, fst (next_slot F d0 rem) = d -> snd (next_slot F d0 rem) = Ok (Some f) -> pcm_frames f < U64).
  { intros rem A B. unfold next_slot in A, B. destruct (d_rest d0) as [|[f0|g0] r] eqn:Er.
    - destruct rem; discriminate.
    - cbn [goodlen] in Hb. match type of B with context [if ?c then _ else _] => destruct c end; [discriminate|].
      destruct (u64_add _ _ _); cbn [snd] in B; try discriminate. inversion B; subst f0. lia.
    - discriminate. }
  destruct (f_total F) as [t|]; cbv beta iota in E1, E2; [|exact (NS _ E1 E2)].
  destruct (checked_sub t (d_cur d0)) as [[|q]|]; cbv beta iota in E1, E2; [discriminate|exact (NS _ E1 E2)|discriminate].
Qed.

Lemma chan_step_safe r op : CN r -> cop_seek_free op ->
  (match op with CConsume k => k <= pcm_frames (d_buf (cr_dec r)) - cr_consumed r | _ => True end) ->
  CN (fst (chan_step F r op)) /\ forall k, snd (chan_step F r op) <> OPanic k.
Proof.
  intros (D & Hb & H64 & Hwf & Hle) Hop Hk. destruct op as [|kk|s]; cbn [chan_step]; try contradiction.
  - unfold chan_fill_buf. destruct (N.ltb_spec (cr_consumed r) (pcm_frames (d_buf (cr_dec r)))) as [Hlt|Hge].
    + rewrite (channels_ok _ _ (Hwf Hlt)). cbn [fst snd]. split; [|discriminate].
      split; [exact D|]. split; [exact Hb|]. split; [exact H64|]. split; [exact Hwf|exact Hle].
    + rewrite Hrev. pose proof (read_frame_safe _ D) as RF. pose proof (read_frame_bad_suffix _ Hb) as BS.
      destruct (read_frame F (cr_dec r)) as [d' [[f|]|e|k]] eqn:Erf; cbn [fst] in BS.
      * destruct RF as (D' & Wf & Eb). rewrite (channels_ok _ _ Wf). cbn [fst snd cr_dec cr_consumed].
        assert (Hf : pcm_frames f < U64).
        { apply (wf_pcm_frames_bound d' f D' Eb Wf). exists (cr_dec r). rewrite Erf. auto. }
        split; [|discriminate]. unfold CN. cbn [cr_dec cr_consumed]. split; [exact D'|]. split; [exact BS|].
        split; [rewrite Eb; exact Hf|]. split; [intros _; rewrite Eb; exact Wf|lia].
      * subst d'. cbn [fst snd cr_dec cr_consumed]. split; [|discriminate].
        split; [exact D|]. split; [exact Hb|]. split; [exact H64|]. split; [exact Hwf|exact Hle].
      * destruct RF as (D' & Hbuf). cbn [fst snd cr_dec cr_consumed]. split; [|discriminate]. unfold CN. cbn [cr_dec cr_consumed].
        split; [exact D'|]. split; [exact BS|].
        assert (H64' : pcm_frames (d_buf d') < U64).
        { destruct Hbuf as [->|(g & Hin & ->)]; [exact H64|apply Hb; exact Hin]. }
        split; [exact H64'|]. split; [intros Habs; lia|lia].
      * contradiction.
  - unfold chan_consume. rewrite (u64_add_ok (f_profile F) (cr_consumed r) kk ltac:(lia)). cbn [fst snd cr_dec cr_consumed].
    split; [|discriminate]. unfold CN. cbn [cr_dec cr_consumed]. split; [exact D|]. split; [exact Hb|]. split; [exact H64|]. split; [intros Hlt; apply Hwf; lia|lia].
Qed.

Theorem chan_history_never_panics : forall ops r,
  CN r -> Forall cop_seek_free ops -> Forall c_consume_ok (snd (run_from (chan_step F) r ops)) ->
  Forall (fun x => forall k, snd x <> OPanic k) (snd (run_from (chan_step F) r ops)).
Proof.
  induction ops as [|op ops IH]; intros r D Hs Hc; cbn [run_from] in *; [constructor|].
  inversion Hs as [|? ? Hop Hs']; subst.
  pose proof (chan_step_safe r op D Hop) as St.
  destruct (chan_step F r op) as [r' o] eqn:Es. destruct (run_from (chan_step F) r' ops) as [rf tr] eqn:Er.
  cbn [snd fst] in *. inversion Hc as [|? ? Hc0 Hc']; subst.
  assert (Hk : match op with CConsume k => k <= pcm_frames (d_buf (cr_dec r)) - cr_consumed r | _ => True end)
    by (destruct op; exact Hc0 || exact I).
  destruct (St Hk) as [D' NP]. constructor; [exact NP|].
  specialize (IH r' D' Hs'). rewrite Er in IH. apply IH. exact Hc'.
Qed.

Lemma CN_new : CN (chan_new F).
Proof.
  unfold CN, chan_new. cbn [cr_dec cr_consumed dec_new d_buf d_rest]. split; [apply dec_ok_new|]. split; [exact Hbad|].
  cbn [pcm_frames]. split; [reflexivity|]. split; [intros H; lia|lia].
Qed.

(* ================================================================== FlacByteReader *)
Hypothesis Hwidth : 1 <= bytes_per_sample (f_bps F) <= 4.

Lemma byte_refill_safe r : dec_ok (br_dec r) ->
  match byte_refill F r with
  | (r1, Panic _) => False
  | (r1, _) => dec_ok (br_dec r1)
  end.
Proof.
  intros D. unfold byte_refill. pose proof (read_frame_safe _ D) as RF.
  destruct (read_frame F (br_dec r)) as [d' [[f|]|e|k]].
  - destruct RF as (D' & Wf & _). rewrite (to_buf_ok _ _ _ f Hwidth Wf). exact D'.
  - subst d'. exact D.
  - apply RF.
  - exact RF.
Qed.

Lemma byte_step_safe r op : dec_ok (br_dec r) -> bop_seek_free op ->
  (match op with BConsume k => k <= lenN (br_buf r) | _ => True end) ->
  dec_ok (br_dec (fst (byte_step F r op))) /\ forall k, snd (byte_step F r op) <> OPanic k.
Proof.
  intros D Hop Hk. destruct op as [n| |k|sf]; cbn [byte_step]; try contradiction.
  - unfold byte_read. destruct (br_buf r) eqn:Eb.
    + pose proof (byte_refill_safe r D) as RF. destruct (byte_refill F r) as [r1 [[|]|e|p]]; try contradiction;
        unfold vecdeque_read; try rewrite splitN_take_drop; cbn [fst snd br_dec]; split; (exact RF || discriminate).
    + unfold vecdeque_read. rewrite splitN_take_drop. cbn [fst snd br_dec]. split; [exact D|discriminate].
  - unfold byte_fill_buf. destruct (br_buf r) eqn:Eb.
    + pose proof (byte_refill_safe r D) as RF. destruct (byte_refill F r) as [r1 [[|]|e|p]]; try contradiction;
        cbn [fst snd]; split; (exact RF || discriminate).
    + cbn [fst snd]. split; [exact D|discriminate].
  - unfold byte_consume. apply N.leb_le in Hk. rewrite Hk. cbn [fst snd br_dec]. split; [exact D|discriminate].
Qed.

Theorem byte_history_never_panics : forall ops r,
  dec_ok (br_dec r) -> Forall bop_seek_free ops -> Forall b_consume_ok (snd (run_from (byte_step F) r ops)) ->
  Forall (fun x => forall k, snd x <> OPanic k) (snd (run_from (byte_step F) r ops)).
Proof.
  induction ops as [|op ops IH]; intros r D Hs Hc; cbn [run_from] in *; [constructor|].
  inversion Hs as [|? ? Hop Hs']; subst.
  pose proof (byte_step_safe r op D Hop) as St.
  destruct (byte_step F r op) as [r' o] eqn:Es. destruct (run_from (byte_step F) r' ops) as [rf tr] eqn:Er.
  cbn [snd fst] in *. inversion Hc as [|? ? Hc0 Hc']; subst.
  assert (Hk : match op with BConsume k => k <= lenN (br_buf r) | _ => True end) by (destruct op; exact Hc0 || exact I).
  destruct (St Hk) as [D' NP]. constructor; [exact NP|].
  specialize (IH r' D' Hs'). rewrite Er in IH. apply IH. exact Hc'.
Qed.

End NoPanic.
