//! Minimal JSON writer (no external crates).
pub fn esc(s: &str) -> String {
    let mut o = String::with_capacity(s.len() + 2);
    o.push('"');
    for c in s.chars() {
        match c {
            '"' => o.push_str("\\\""),
            '\\' => o.push_str("\\\\"),
            '\n' => o.push_str("\\n"),
            '\r' => o.push_str("\\r"),
            '\t' => o.push_str("\\t"),
            c if (c as u32) < 0x20 => o.push_str(&format!("\\u{:04x}", c as u32)),
            c => o.push(c),
        }
    }
    o.push('"');
    o
}
/// Build an object from (key, already-serialised value) pairs.
pub fn obj(fields: &[(&str, String)]) -> String {
    let mut o = String::from("{");
    for (i, (k, v)) in fields.iter().enumerate() {
        if i > 0 {
            o.push(',');
        }
        o.push_str(&esc(k));
        o.push(':');
        o.push_str(v);
    }
    o.push('}');
    o
}
pub fn arr(items: &[String]) -> String {
    format!("[{}]", items.join(","))
}
pub fn ints<T: std::fmt::Display>(xs: &[T]) -> String {
    format!("[{}]", xs.iter().map(|x| x.to_string()).collect::<Vec<_>>().join(","))
}
