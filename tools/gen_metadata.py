#!/usr/bin/env python3
"""Translator for area `metadata`: re-reads the constants the Coq model depends on from
<repo>/src/metadata/{mod,cuesheet}.rs and writes them as Coq definitions (GenMeta.v) together
with GenMeta_check.v, which proves each one equal to the constant the model uses: an edited
VALUE fails the build at the lemma named after the constant.  An item that is no longer found
where expected (renamed, reformatted) is an *anchor lost*: it is left out of both files (never
kept from a previous run), listed on stdout, and the exit code is 3 (reported in the evidence,
not a failure: the behaviour is still tied by the differential runs)."""
import re
import sys


LOST = []


class Lost(Exception):
    pass


def fail(msg):
    LOST.append(msg)
    raise Lost(msg)


def find(rx, text, what, flags=0):
    m = re.search(rx, text, flags)
    if not m:
        fail(what)
    return m


import os
sys.path.insert(0, os.path.dirname(os.path.abspath(__file__)))
from rustconst import const_in, const_of_impl

SOURCES = []


def ev(expr):
    """a Rust integer constant expression (tools/rustconst.py): a respelled constant reads as the same value"""
    if expr is None:
        fail("constant not found")
    v = const_in(expr.strip().rstrip(";"), *SOURCES)
    if v is None:
        fail("unexpected constant expression %r" % expr)
    return v


def main():
    repo, out = sys.argv[1], sys.argv[2]
    mod = open(repo + "/src/metadata/mod.rs").read()
    cue = open(repo + "/src/metadata/cuesheet.rs").read()
    SOURCES[:] = [mod, cue]
    defs = []       # (name, value, type)
    checks = []     # (lemma name, statement, needed gen_ names)

    def const(name, ty, thunk, lemma=None, stmt=None):
        try:
            defs.append((name, thunk(), ty))
        except Lost:
            return
        if lemma:
            checks.append((lemma, stmt, [name]))

    def hexlist(rx, what):
        return "[" + "; ".join(str(int(x, 16)) for x in re.findall(r"\\x([0-9A-Fa-f]{2})", find(rx, mod, what).group(1))) + "]"

    const("gen_flac_tag", "list N",
          lambda: "[" + "; ".join(str(ord(c)) for c in find(r'const FLAC_TAG: &\[u8; 4\] = b"([^"]{4})";', mod, "FLAC_TAG").group(1)) + "]",
          "flac_tag_matches_source", "FLAC_TAG = gen_flac_tag")

    def bt(name):
        enum = find(r"pub enum BlockType \{(.*?)\n\}", mod, "enum BlockType", re.S).group(1)
        codes = dict((k, str(ev(v))) for k, v in re.findall(r"(\w+) = ([^,\n]+),", enum))
        if name == "#":
            return str(len(codes))
        if name not in codes:
            fail("BlockType::" + name)
        return codes[name]
    for nm, ctor in [("Streaminfo", "TStreaminfo"), ("Padding", "TPadding"), ("Application", "TApplication"), ("SeekTable", "TSeekTable"),
                     ("VorbisComment", "TVorbis"), ("Cuesheet", "TCuesheet"), ("Picture", "TPicture")]:
        const("gen_bt_" + nm.lower(), "N", (lambda nm=nm: bt(nm)), "block_type_%s_matches_source" % nm.lower(),
              "btype_code %s = gen_bt_%s /\\ btype_of_code gen_bt_%s = Ok %s" % (ctor, nm.lower(), nm.lower(), ctor))
    const("gen_bt_count", "N", lambda: bt("#"), "block_type_count_matches_source",
          "is_ok (btype_of_code (gen_bt_count - 1)) = true /\\ is_ok (btype_of_code gen_bt_count) = false")

    const("gen_blocksize_max", "N", lambda: str(ev(find(r"impl BlockSize \{.*?const MAX: u32 = ([^;]+);", mod, "BlockSize::MAX", re.S).group(1))),
          "blocksize_max_matches_source", "BLOCKSIZE_MAX = gen_blocksize_max")
    const("gen_streaminfo_size", "N", lambda: str(ev(const_of_impl(mod, "Streaminfo", "SIZE"))),
          "streaminfo_size_matches_source", "body_size (BStreaminfo (mkSI 0 0 0 0 0 1 1 0 None)) = Ok gen_streaminfo_size")
    const("gen_seek_max_points", "N", lambda: str(ev(find(r"pub const MAX_POINTS: usize = ([^;]+);", mod, "SeekTable::MAX_POINTS").group(1))),
          "seek_max_points_matches_source", "SEEK_MAX_POINTS = gen_seek_max_points")
    const("gen_seekpoint_bytes", "N", lambda: find(r"match \(size\.get\(\) / (\d+), size\.get\(\) % \1\)", mod, "seek point size").group(1),
          "seekpoint_bytes_match_source", "lenN (write_seekpoint SPPlaceholder) = gen_seekpoint_bytes")
    const("gen_lead_in", "N", lambda: str(ev(find(r"const LEAD_IN: u64 = ([^;]+);", mod, "Cuesheet::LEAD_IN").group(1))),
          "lead_in_matches_source", "LEAD_IN = gen_lead_in")
    const("gen_catalog_len", "N", lambda: str(ev(find(r"const CATALOG_LEN: usize = ([^;]+);", mod, "Cuesheet::CATALOG_LEN").group(1))),
          "catalog_len_matches_source", "CATALOG_LEN = gen_catalog_len")
    const("gen_cdda_max_tracks", "N", lambda: str(ev(find(r"tracks: contiguous::Contiguous<([^,]+), cuesheet::TrackCDDA>", mod, "CD-DA track capacity").group(1))),
          "cdda_track_capacity_matches_source", "CDDA_MAX_TRACKS = gen_cdda_max_tracks")
    const("gen_noncdda_max_tracks", "N", lambda: str(ev(find(r"tracks: contiguous::Contiguous<([^,]+), cuesheet::TrackNonCDDA>", mod, "non-CD-DA track capacity").group(1))),
          "noncdda_track_capacity_matches_source", "NONCDDA_MAX_TRACKS = gen_noncdda_max_tracks")
    const("gen_cdda_max_index", "N", lambda: str(ev(find(r"pub type TrackCDDA = Track<CDDAOffset, NonZero<u8>, IndexVec<([^,]+), CDDAOffset>>;", cue, "CD-DA index capacity").group(1))),
          "cdda_index_capacity_matches_source", "CDDA_MAX_INDEX = gen_cdda_max_index /\\ CDDA_MAX_INDEX_TEXT = gen_cdda_max_index")
    const("gen_noncdda_max_index", "N", lambda: str(ev(find(r"pub type TrackNonCDDA = Track<u64, NonZero<u8>, IndexVec<([^,]+), u64>>;", cue, "non-CD-DA index capacity").group(1))),
          "noncdda_index_capacity_matches_source", "NONCDDA_MAX_INDEX = gen_noncdda_max_index /\\ NONCDDA_MAX_INDEX_TEXT = gen_noncdda_max_index")
    const("gen_samples_per_sector", "N", lambda: str(ev(find(r"const SAMPLES_PER_SECTOR: u64 = ([^;]+);", cue, "SAMPLES_PER_SECTOR").group(1))),
          "samples_per_sector_matches_source", "SAMPLES_PER_SECTOR = gen_samples_per_sector")
    const("gen_leadout_cdda", "N", lambda: str(ev(find(r"pub const CDDA: NonZero<u8> = NonZero::new\(([^()]+)\)", cue, "LeadOut::CDDA").group(1))),
          "leadout_cdda_matches_source", "LEADOUT_CDDA = gen_leadout_cdda")
    const("gen_leadout_noncdda", "N", lambda: str(ev(find(r"pub const NON_CDDA: NonZero<u8> = NonZero::new\(([^()]+)\)", cue, "LeadOut::NON_CDDA").group(1))),
          "leadout_noncdda_matches_source", "LEADOUT_NONCDDA = gen_leadout_noncdda")

    # STREAMINFO field widths as written by to_writer: the model accepts exactly what fits
    def width(field):
        tw = find(r"impl ToBitStream for Streaminfo \{(.*?)\n\}\n", mod, "Streaminfo::to_writer", re.S).group(1)
        wd = {n: w for w, n in re.findall(r"w\.write::<(\d+), _>\(self\.(\w+)\)", tw)}
        if field not in wd:
            fail("Streaminfo::to_writer field " + field)
        return wd[field]
    si = "mkSI 0 0 %s %s %s %s 1 %s None"
    for field, pos in [("minimum_frame_size", 0), ("maximum_frame_size", 1), ("sample_rate", 2), ("total_samples", 4)]:
        args_ok = ["0", "0", "0", "1", "0"]
        args_bad = list(args_ok)
        args_ok[pos] = "(2 ^ gen_si_bits_%s - 1)" % field
        args_bad[pos] = "(2 ^ gen_si_bits_%s)" % field
        const("gen_si_bits_" + field, "N", (lambda field=field: width(field)), "streaminfo_%s_width_matches_source" % field,
              "is_ok (write_streaminfo (%s)) = true /\\ is_ok (write_streaminfo (%s)) = false" % (si % tuple(args_ok), si % tuple(args_bad)))
    const("gen_si_bits_channels", "N", lambda: width("channels"), "streaminfo_channels_width_matches_source",
          "is_ok (write_streaminfo (mkSI 0 0 0 0 0 (2 ^ gen_si_bits_channels) 1 0 None)) = true /\\ "
          "is_ok (write_streaminfo (mkSI 0 0 0 0 0 (2 ^ gen_si_bits_channels + 1) 1 0 None)) = false")
    const("gen_si_count_max", "N", lambda: str(ev(find(r"\.read_count::<([^>]+)>\(\)", mod, "read_count::<..>").group(1))),
          "streaminfo_depth_count_matches_source", "is_ok (write_streaminfo (mkSI 0 0 0 0 0 1 (gen_si_count_max + 1) 0 None)) = true")

    def ptype(which):
        pt = find(r"pub enum PictureType \{(.*?)\n\}", mod, "enum PictureType", re.S).group(1)
        pcodes = [ev(x) for x in re.findall(r"\w+ = ([^,\n]+),", pt)]
        if pcodes != list(range(len(pcodes))) or not pcodes:
            fail("PictureType discriminants are not 0..n")
        if which == "max":
            return str(pcodes[-1])
        return str(ev(find(r"%s = ([^,\n]+)," % which, pt, "PictureType::" + which).group(1)))
    const("gen_picture_type_max", "N", lambda: ptype("max"), "picture_type_max_matches_source", "gen_picture_type_max = 20")
    const("gen_picture_png_icon", "N", lambda: ptype("Png32x32"), "picture_png_icon_matches_source", "gen_picture_png_icon = 1")
    const("gen_picture_general_icon", "N", lambda: ptype("GeneralFileIcon"), "picture_general_icon_matches_source", "gen_picture_general_icon = 2")
    const("gen_png_sig", "list N", lambda: hexlist(r'data\.starts_with\(b"((?:\\x[0-9A-Fa-f]{2}){8})"\)', "PNG signature"),
          "png_signature_matches_source", "PNG_SIG = gen_png_sig")
    const("gen_jpeg_sig", "list N", lambda: hexlist(r'data\.starts_with\(b"((?:\\x[0-9A-Fa-f]{2}){3})"\)', "JPEG signature"),
          "jpeg_signature_matches_source", "JPEG_SIG = gen_jpeg_sig")

    lines = ["(* GENERATED by tools/gen_metadata.py from src/metadata/{mod,cuesheet}.rs -- do not edit. *)",
             "From Coq Require Import List NArith.", "Import ListNotations.", "Open Scope N_scope.", ""]
    for name, val, ty in defs:
        lines.append("Definition %s : %s := %s." % (name, ty, val))
    for l in LOST:
        lines.append("(* anchor lost: %s *)" % l.replace("*)", "* )"))
    chk = ["(* GENERATED by tools/gen_metadata.py -- do not edit.  The constants the model uses are the ones",
           "   in the source; an edited constant makes the lemma with its name fail. *)",
           "From FlacMeta Require Import Bytes Blocks BlockList Cue Sniff GenMeta.", "Open Scope N_scope.", ""]
    for lemma, stmt, _ in checks:
        chk.append("Lemma %s : %s.\nProof. vm_compute. repeat split; reflexivity. Qed." % (lemma, stmt))

    def put(path, text):
        try:
            old = open(path).read()
        except OSError:
            old = None
        if old != text:
            open(path, "w").write(text)
    put(out, "\n".join(lines) + "\n")
    put(out.replace("GenMeta.v", "GenMeta_check.v"), "\n".join(chk) + "\n")
    print("gen_metadata: %d constants, %d checks" % (len(defs), len(checks)))
    if LOST:
        print("anchor lost (not tied this run): " + "; ".join(LOST))
        sys.exit(3)


if __name__ == "__main__":
    main()
