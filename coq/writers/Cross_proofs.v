(* Writers/Cross_proofs.v — C08 across front-ends, whole runs: a FlacByteWriter run (either byte order) over any byte
   string IS the FlacSampleWriter run over the samples those bytes spell, as long as the two writers hold the same
   Encoder — same finished stream, STREAMINFO and blocks, or the same error.  Together with the chunking theorems
   (each run depends only on its concatenated input) the finished file depends only on the PCM and the options. *)
From Coq Require Import List NArith ZArith Lia.
From FlacBase Require Import Res.
From FlacWriters Require Import Meta Params Finalize Writers Lists_proofs Writers_proofs Bytes_proofs Frontend_proofs.
Import ListNotations.
Open Scope N_scope.

(* the samples a run of bytes spells: whole samples of n bytes, in the writer's byte order *)
Definition decoded (en : endian) (n : nat) (buf : list N) : list Z :=
  map (fun c => bytes_to_int_le (match en with LE => c | BE => rev c end)) (fst (drain n buf)).

Lemma decoded_app en n (a b : list N) m : (0 < n)%nat -> length a = (n * m)%nat ->
  decoded en n (a ++ b) = decoded en n a ++ decoded en n b.
Proof.
  intros Hn La. unfold decoded.
  destruct (drain n a) as [ca ra] eqn:Da. destruct (drain n b) as [cb rb] eqn:Db.
  pose proof (drain_spec n Hn a ca ra Da) as (Ea & Fa & Lra).
  pose proof (drain_spec n Hn b cb rb Db) as (Eb & Fb & Lrb).
  pose proof (drain_length n Hn a ca ra Da) as Lda.
  assert (Hra : ra = []).
  { rewrite La in Lda. assert (length ra = 0)%nat; [|destruct ra; [reflexivity|discriminate]].
    destruct (Nat.lt_trichotomy (length ca) m) as [Hl|[E|Hg]].
    - assert (n * (length ca + 1) <= n * m)%nat by (apply Nat.mul_le_mono_l; lia). lia.
    - subst m. lia.
    - assert (n * (m + 1) <= n * length ca)%nat by (apply Nat.mul_le_mono_l; lia). lia. }
  subst ra. rewrite app_nil_r in Ea.
  assert (E : drain n (a ++ b) = (ca ++ cb, rb)).
  { rewrite Ea, Eb, app_assoc, <- concat_app. apply drain_unique; [exact Hn|apply Forall_app; auto|exact Lrb]. }
  rewrite E. cbn [fst]. apply map_app.
Qed.

Lemma decoded_length en n buf : (0 < n)%nat -> length (decoded en n buf) = (length buf / n)%nat.
Proof.
  intros Hn. unfold decoded. rewrite map_length.
  destruct (drain n buf) as [cs r] eqn:D. cbn [fst].
  pose proof (drain_spec n Hn buf cs r D) as (_ & _ & Lr). pose proof (drain_length n Hn buf cs r D) as L.
  rewrite L. rewrite Nat.mul_comm, Nat.div_add_l by lia. rewrite Nat.div_small by lia. lia.
Qed.

Section Cross.
Variable enc_block : N -> block -> res (list N).
Variable md5 : list N -> list N.
Variable p : profile.

Lemma byte_chunk_decoded en ch n e (buf : list N) m :
  1 <= n <= 4 -> N.of_nat (length buf) = n * m -> Forall byte_ok buf ->
  byte_encode_chunk enc_block p en ch n e buf = sample_encode_chunk enc_block p ch n e (decoded en (N.to_nat n) buf).
Proof.
  intros Hn Hl Hb. unfold decoded. destruct en.
  - rewrite (byte_block_as_samples_le enc_block p ch n e buf m Hn Hl Hb). reflexivity.
  - rewrite (byte_block_as_samples_be enc_block p ch n e buf m Hn Hl Hb). reflexivity.
Qed.

Lemma fold_bytes_decoded en ch n : 1 <= n <= 4 -> forall cs e,
  Forall (fun c => exists m, N.of_nat (length c) = n * m) cs -> Forall (Forall byte_ok) cs ->
  fold_res (byte_encode_chunk enc_block p en ch n) e cs =
  fold_res (sample_encode_chunk enc_block p ch n) e (map (decoded en (N.to_nat n)) cs).
Proof.
  intros Hn. induction cs as [|c r IH]; intros e Hm Hb; [reflexivity|]. cbn [fold_res map].
  apply Forall_cons_iff in Hm. destruct Hm as [[m Hm] Hmr]. apply Forall_cons_iff in Hb. destruct Hb as [Hbc Hbr].
  rewrite (byte_chunk_decoded en ch n e c m Hn Hm Hbc).
  destruct (sample_encode_chunk _ _ _ _ _ _) as [e1| |]; cbn [bind]; [apply IH; assumption|reflexivity|reflexivity].
Qed.

(* two writers over the same Encoder, nothing buffered *)
Theorem byte_run_is_sample_run en e0 ch nb bs (bytes : list N) :
  1 <= nb <= 4 -> 1 <= ch -> 1 <= bs -> Forall byte_ok bytes ->
  let wb := {| bw_enc := e0; bw_buf := []; bw_endian := en; bw_channels := ch; bw_bytes_per_sample := nb;
               bw_pcm_frame_size := nb * ch; bw_frame_byte_size := nb * ch * bs |} in
  let ws := {| sw_enc := e0; sw_buf := []; sw_channels := ch; sw_frame_sample_size := ch * bs; sw_bytes_per_sample := nb |} in
  byte_run enc_block md5 p wb [bytes] = sample_run enc_block md5 p ws [decoded en (N.to_nat nb) bytes].
Proof.
  intros Hnb Hc Hbs Hbytes wb ws.
  set (n := N.to_nat nb). set (c := N.to_nat ch). set (b := N.to_nat bs).
  assert (Hn : (1 <= n <= 4)%nat) by (unfold n; lia). assert (Hcc : (1 <= c)%nat) by (unfold c; lia). assert (Hb : (1 <= b)%nat) by (unfold b; lia).
  unfold byte_run, sample_run. cbn [fold_res bind].
  unfold byte_write, sample_write. cbn [wb ws bw_buf bw_frame_byte_size bw_enc bw_endian bw_channels bw_bytes_per_sample bw_pcm_frame_size
                                        sw_buf sw_frame_sample_size sw_enc sw_channels sw_bytes_per_sample app].
  destruct (N.eqb_spec (nb * ch * bs) 0) as [|_]; [nia|]. destruct (N.eqb_spec (ch * bs) 0) as [|_]; [nia|].
  set (kb := N.to_nat (nb * ch * bs)). set (ks := N.to_nat (ch * bs)).
  assert (Hkb : kb = (n * (c * b))%nat) by (unfold kb, n, c, b; rewrite !N2Nat.inj_mul; lia).
  assert (Hks : ks = (c * b)%nat) by (unfold ks, c, b; rewrite N2Nat.inj_mul; reflexivity).
  assert (Hkb0 : (0 < kb)%nat) by nia. assert (Hks0 : (0 < ks)%nat) by nia.
  destruct (drain kb bytes) as [cs rest] eqn:Ed.
  pose proof (drain_spec kb Hkb0 bytes cs rest Ed) as (Eall & Fcs & Lrest).
  (* the samples: decoded full chunks ++ decoded rest *)
  assert (Lcs : length (concat cs) = (kb * length cs)%nat).
  { clear - Fcs. induction Fcs as [|x l Hx _ IH]; cbn [concat length]; [lia|]. rewrite app_length, IH, Hx. lia. }
  assert (Dcs : decoded en n (concat cs) = concat (map (decoded en n) cs)).
  { clear - Fcs Hkb Hn. induction Fcs as [|x l Hx _ IH]; cbn [concat map]; [reflexivity|].
    rewrite (decoded_app en n x (concat l) (c * b)) by (lia || (rewrite Hx; lia)). rewrite IH. reflexivity. }
  assert (Esamples : decoded en n bytes = concat (map (decoded en n) cs) ++ decoded en n rest).
  { rewrite Eall at 1. rewrite (decoded_app en n (concat cs) rest (c * b * length cs)) by (lia || (rewrite Lcs, Hkb; lia)).
    rewrite Dcs. reflexivity. }
  assert (Fl : Forall (fun x => length x = ks) (map (decoded en n) cs)).
  { apply Forall_forall. intros x Hx. apply in_map_iff in Hx. destruct Hx as (y & <- & Hy).
    rewrite decoded_length by lia. rewrite Forall_forall in Fcs.
    rewrite (Fcs _ Hy), Hkb, Hks. replace (n * (c * b))%nat with (c * b * n)%nat by lia. apply Nat.div_mul. lia. }
  assert (Lr : (length (decoded en n rest) < ks)%nat).
  { rewrite decoded_length by lia. apply Nat.div_lt_upper_bound; [lia|]. rewrite Hks. rewrite Hkb in Lrest. lia. }
  assert (Eds : drain ks (decoded en n bytes) = (map (decoded en n) cs, decoded en n rest)).
  { rewrite Esamples. apply drain_unique; assumption. }
  rewrite Eds.
  (* the full chunks *)
  assert (Hbyte_sub : forall x, (exists a z, bytes = a ++ x ++ z) -> Forall byte_ok x).
  { intros x (a & z & E). rewrite E in Hbytes. apply Forall_app in Hbytes. destruct Hbytes as [_ H]. apply Forall_app in H. tauto. }
  rewrite (fold_bytes_decoded en ch nb Hnb cs e0).
  2:{ apply Forall_forall. intros x Hx. rewrite Forall_forall in Fcs. exists (ch * bs). rewrite (Fcs _ Hx). unfold kb. lia. }
  2:{ apply Forall_forall. intros x Hx. apply Hbyte_sub. apply in_split in Hx. destruct Hx as (l1 & l2 & ->).
      exists (concat l1), (concat l2 ++ rest). rewrite Eall, concat_app. cbn [concat]. rewrite <- !app_assoc. reflexivity. }
  fold n.
  destruct (fold_res (sample_encode_chunk enc_block p ch nb) e0 (map (decoded en n) cs)) as [e1| |]; cbn [bind]; try reflexivity.
  (* finalize: the whole PCM frames left in the buffers *)
  unfold byte_finalize, sample_finalize.
  cbn [bw_buf bw_pcm_frame_size bw_endian bw_channels bw_bytes_per_sample bw_enc sw_buf sw_channels sw_bytes_per_sample sw_enc].
  set (lenb := N.of_nat (length rest)). set (lens := N.of_nat (length (decoded en n rest))). set (pf := nb * ch).
  assert (Hpf : N.to_nat pf = (n * c)%nat) by (unfold pf, n, c; rewrite N2Nat.inj_mul; reflexivity).
  assert (Hpf0 : pf <> 0) by (unfold pf; nia).
  assert (Els : lens = lenb / nb).
  { unfold lens, lenb. rewrite decoded_length by lia. unfold n. rewrite Nat2N.inj_div, N2Nat.id. reflexivity. }
  set (q := (length rest / (n * c))%nat).
  assert (Eqs : (length (decoded en n rest) / c = q)%nat).
  { rewrite decoded_length by lia. unfold q. apply Nat.div_div; lia. }
  assert (Ecmp : (pf <=? lenb) = (ch <=? lens)).
  { destruct (N.leb_spec pf lenb) as [H|H]; destruct (N.leb_spec ch lens) as [H'|H']; try reflexivity; exfalso.
    - rewrite Els in H'. assert (ch * nb <= lenb) by (unfold pf in H; lia).
      assert (ch <= lenb / nb) by (apply N.div_le_lower_bound; lia). lia.
    - rewrite Els in H'. assert (nb * ch <= nb * (lenb / nb)) by (apply N.mul_le_mono_l; exact H').
      pose proof (N.mul_div_le lenb nb ltac:(lia)). unfold pf in H. lia. }
  rewrite <- Ecmp. destruct (N.leb_spec pf lenb) as [Hle|Hgt]; [|reflexivity].
  destruct (N.eqb_spec pf 0); [contradiction|]. destruct (N.eqb_spec ch 0); [lia|].
  set (whole := firstn (N.to_nat (lenb - lenb mod pf)) rest).
  assert (Ew : N.to_nat (lenb - lenb mod pf) = (n * c * q)%nat).
  { pose proof (N.div_mod lenb pf Hpf0) as D.
    assert (E : lenb - lenb mod pf = pf * (lenb / pf)).
    { set (dq := lenb / pf) in *. set (dm := lenb mod pf) in *. clearbody dq dm. lia. }
    rewrite E, N2Nat.inj_mul, N2Nat.inj_div, Hpf. unfold lenb. rewrite Nat2N.id. reflexivity. }
  assert (Lw : length whole = (n * c * q)%nat).
  { unfold whole. rewrite firstn_length, Ew. pose proof (Nat.mul_div_le (length rest) (n * c) ltac:(nia)) as H. fold q in H. lia. }
  rewrite (byte_chunk_decoded en ch nb e1 whole (ch * N.of_nat q) Hnb).
  2:{ rewrite Lw. unfold n, c. lia. }
  2:{ apply Hbyte_sub. exists (concat cs), (skipn (N.to_nat (lenb - lenb mod pf)) rest). unfold whole. rewrite firstn_skipn. exact Eall. }
  fold n.
  (* decoded whole = the whole PCM frames of decoded rest *)
  assert (Edw : decoded en n whole = firstn (N.to_nat (lens - lens mod ch)) (decoded en n rest)).
  { assert (Es : N.to_nat (lens - lens mod ch) = (c * q)%nat).
    { pose proof (N.div_mod lens ch ltac:(lia)) as D.
      assert (E : lens - lens mod ch = ch * (lens / ch)).
      { set (dq := lens / ch) in *. set (dm := lens mod ch) in *. clearbody dq dm. lia. }
      rewrite E, N2Nat.inj_mul, N2Nat.inj_div. unfold lens. rewrite Nat2N.id. fold c. rewrite Eqs. reflexivity. }
    rewrite Es.
    assert (Erest : rest = whole ++ skipn (N.to_nat (lenb - lenb mod pf)) rest) by (unfold whole; symmetry; apply firstn_skipn).
    rewrite Erest at 1. rewrite (decoded_app en n whole _ (c * q)) by (lia || (rewrite Lw; lia)).
    assert (Ldw : length (decoded en n whole) = (c * q)%nat).
    { rewrite decoded_length, Lw by lia. replace (n * c * q)%nat with (c * q * n)%nat by lia. apply Nat.div_mul. lia. }
    rewrite <- Ldw at 1. rewrite firstn_app, Nat.sub_diag, firstn_all. cbn [firstn]. rewrite app_nil_r. reflexivity. }
  rewrite Edw. reflexivity.
Qed.

End Cross.

(* the writers the two constructors return, for the same parameters and corresponding declared totals *)
Theorem byte_writer_is_sample_writer enc_block md5 p en o rate bps ch tb ts wb ws (chunks : list (list N)) :
  Params_proofs.options_wf o ->
  byte_new p en [] o rate bps ch tb = Ok wb -> sample_new p [] o rate bps ch ts = Ok ws ->
  tb = option_map (N.mul (bytes_per_sample_of bps)) ts ->
  Forall byte_ok (concat chunks) ->
  byte_run enc_block md5 p wb chunks =
  sample_run enc_block md5 p ws [decoded en (N.to_nat (bytes_per_sample_of bps)) (concat chunks)].
Proof.
  intros Hwf Hb Hs Ht Hbytes.
  rewrite (byte_chunking enc_block md5 p wb chunks) by (eapply New_proofs.byte_new_wf; eauto).
  destruct Hwf as ((Hbs16 & _) & _).
  unfold byte_new in Hb. apply bind_ok in Hb. destruct Hb as (bps1 & Hb1 & Hb). apply bind_ok in Hb. destruct Hb as (t1 & Ht1 & Hb).
  apply bind_ok in Hb. destruct Hb as (e1 & He1 & Hb). injection Hb as <-.
  unfold sample_new in Hs. apply bind_ok in Hs. destruct Hs as (bps2 & Hb2 & Hs). apply bind_ok in Hs. destruct Hs as (t2 & Ht2 & Hs).
  apply bind_ok in Hs. destruct Hs as (e2 & He2 & Hs). injection Hs as <-.
  assert (Eb : bps1 = bps /\ bps2 = bps /\ 1 <= bps /\ bps <= 32).
  { unfold signed_bit_count_32 in Hb1, Hb2. destruct ((1 <=? bps) && (bps <=? 32)) eqn:Eq; [|discriminate].
    injection Hb1 as <-. injection Hb2 as <-. apply andb_prop in Eq. destruct Eq as [A B]. apply N.leb_le in A, B. auto. }
  destruct Eb as (-> & -> & B1 & B32).
  set (nb := bytes_per_sample_of bps) in *.
  assert (Hnb : 1 <= nb <= 4).
  { unfold nb, bytes_per_sample_of. split; [apply N.div_le_lower_bound; lia|]. apply N.lt_succ_r. apply N.div_lt_upper_bound; lia. }
  assert (Hch : 1 <= ch).
  { unfold encoder_new in He2. apply bind_ok in He2. destruct He2 as ([] & Hv & _). unfold encoder_new_validate in Hv.
    destruct (rate <? 1048576); [|discriminate]. destruct ((1 <=? ch) && (ch <=? 8)) eqn:Eq; [|discriminate].
    apply andb_prop in Eq. destruct Eq as [A _]. apply N.leb_le in A. exact A. }
  (* the Encoder totals agree, hence the Encoders *)
  assert (Et : t1 = t2).
  { subst tb. destruct ts as [s|]; cbn [option_map] in Ht1; [|cbn in Ht1, Ht2; congruence].
    unfold sample_total in Ht2. unfold byte_total in Ht1.
    destruct (exact_div s ch) as [q|] eqn:Eq; [|discriminate].
    unfold exact_div in Eq. destruct (N.eqb_spec ch 0); [lia|]. cbn [negb andb] in Eq.
    destruct (N.eqb_spec (s mod ch) 0) as [Em|]; [|discriminate]. injection Eq as <-.
    assert (Es : s = ch * (s / ch)) by (pose proof (N.div_mod s ch ltac:(lia)); lia).
    set (sq := s / ch) in *. clearbody sq. subst s.
    assert (E1 : exact_div (nb * (ch * sq)) ch = Some (nb * sq)).
    { unfold exact_div. destruct (N.eqb_spec ch 0); [lia|]. cbn [negb andb].
      replace (nb * (ch * sq)) with (nb * sq * ch) by lia.
      rewrite N.mod_mul, N.div_mul by lia. reflexivity. }
    assert (E2 : exact_div (nb * sq) nb = Some sq).
    { unfold exact_div. destruct (N.eqb_spec nb 0); [lia|]. cbn [negb andb].
      rewrite (N.mul_comm nb sq), N.mod_mul, N.div_mul by lia. reflexivity. }
    rewrite E1, E2 in Ht1. destruct (sq =? 0); congruence. }
  subst t2. rewrite He1 in He2. injection He2 as <-.
  apply (byte_run_is_sample_run enc_block md5 p en e1 ch nb (o_block_size o) (concat chunks) Hnb Hch ltac:(lia) Hbytes).
Qed.

(* ================= FlacChannelWriter ================= *)
Lemma zip_app_nils : forall (x y : list (list Z)), Forall (fun c => length c = 0%nat) x -> length x = length y -> zip_app x y = y.
Proof.
  induction x as [|c x IH]; intros [|d y] F L; cbn in *; try lia; [reflexivity|].
  apply Forall_cons_iff in F. destruct F as [Lc F]. destruct c; [|discriminate]. cbn [app]. rewrite IH by (auto; lia). reflexivity.
Qed.

Lemma heads_zip_app a : forall (x y : list (list Z)), Forall (fun c => length c = S a) x -> length x = length y ->
  heads (zip_app x y) = heads x /\ tails (zip_app x y) = zip_app (tails x) y.
Proof.
  induction x as [|c x IH]; intros [|d y] F L; cbn in *; try lia; [split; reflexivity|].
  apply Forall_cons_iff in F. destruct F as [Lc F]. destruct c as [|z c]; [discriminate|].
  destruct (IH y F ltac:(lia)) as [A B]. cbn [app heads tl]. rewrite A. unfold tails in *. rewrite B. split; reflexivity.
Qed.

Lemma multizip_fuel_zip_app : forall a (x y : list (list Z)) b, length x = length y -> x <> [] ->
  Forall (fun c => length c = a) x ->
  multizip_fuel (a + b) (zip_app x y) = multizip_fuel a x ++ multizip_fuel b y.
Proof.
  induction a as [|a IH]; intros x y b L Hne F.
  - rewrite (zip_app_nils x y F L). reflexivity.
  - destruct (heads_zip_app a x y F L) as [A B]. cbn [Nat.add multizip_fuel]. rewrite A, B.
    destruct (heads x) as [h|] eqn:Eh; [|exfalso; eapply heads_none_uniform; eauto].
    cbn [app]. f_equal. apply IH.
    + unfold tails. rewrite map_length. exact L.
    + unfold tails. destruct x; [congruence|discriminate].
    + apply tails_uniform. exact F.
Qed.

Lemma multizip_uniform (x : list (list Z)) a : x <> [] -> Forall (fun c => length c = a) x -> multizip x = multizip_fuel a x.
Proof. intros Hne F. destruct x as [|c x]; [congruence|]. cbn [multizip]. apply Forall_cons_iff in F. destruct F as [-> _]. reflexivity. Qed.

Lemma stack_uniform k n : forall blocks rest r, Forall (shaped k n) blocks -> length rest = n -> Forall (fun c => length c = r) rest ->
  Forall (fun c => length c = (k * length blocks + r)%nat) (stack blocks rest).
Proof.
  induction blocks as [|b bl IH]; intros rest r F Lr U; cbn [stack fold_right length]; [rewrite Nat.mul_0_r; exact U|].
  fold (stack bl rest). apply Forall_cons_iff in F. destruct F as [[Lb Fb] F].
  pose proof (IH rest r F Lr U) as Us.
  assert (Ls : length (stack bl rest) = n) by (apply stack_length; [eapply shaped_len; eauto|exact Lr]).
  clear - Lb Fb Us Ls. revert Lb Ls Us. generalize (stack bl rest). revert n.
  induction Fb as [|c b Hc Fb IHb]; intros n s Lb Ls Us; destruct s as [|d s]; cbn in *; try lia; [constructor|].
  apply Forall_cons_iff in Us. destruct Us as [Ld Us]. constructor; [rewrite app_length; lia|].
  destruct n as [|n]; [lia|]. apply (IHb n s); lia || assumption.
Qed.

Lemma interleave_stack k n : (0 < n)%nat -> forall blocks rest r,
  Forall (shaped k n) blocks -> length rest = n -> Forall (fun c => length c = r) rest ->
  multizip_fuel (k * length blocks + r) (stack blocks rest) = concat (map (fun b => multizip_fuel k b) blocks) ++ multizip_fuel r rest.
Proof.
  intros Hn. induction blocks as [|b bl IH]; intros rest r F Lr U; cbn [stack fold_right length map concat]; [rewrite Nat.mul_0_r; reflexivity|].
  fold (stack bl rest). apply Forall_cons_iff in F. destruct F as [[Lb Fb] F].
  assert (Ls : length (stack bl rest) = n) by (apply stack_length; [eapply shaped_len; eauto|exact Lr]).
  replace (k * S (length bl) + r)%nat with (k + (k * length bl + r))%nat by lia.
  rewrite multizip_fuel_zip_app; [|lia|intros ->; cbn in Lb; lia|exact Fb].
  rewrite (IH rest r F Lr U), <- app_assoc. reflexivity.
Qed.

Lemma zip_app_uniform_split : forall (b s : list (list Z)) k mm, length b = length s -> b <> [] ->
  Forall (fun c => length c = k) b -> Forall (fun c => length c = mm) (zip_app b s) ->
  Forall (fun c => length c = (mm - k)%nat) s /\ (k <= mm)%nat.
Proof.
  induction b as [|c b IH]; intros s k mm L Hne Fb Us; [congruence|].
  destruct s as [|d s]; [cbn in L; lia|]. cbn [zip_app] in Us.
  apply Forall_cons_iff in Fb. destruct Fb as [Hc Fb]. apply Forall_cons_iff in Us. destruct Us as [Ld Us]. rewrite app_length in Ld.
  destruct b as [|c' b'].
  - destruct s; [|cbn in L; lia]. split; [constructor; [lia|constructor]|lia].
  - destruct (IH s k mm ltac:(cbn in *; lia) ltac:(discriminate) Fb Us) as [A B]. split; [constructor; [lia|exact A]|exact B].
Qed.

Lemma concat_concat_map {A B} (g : A -> list (list B)) : forall l, concat (concat (map g l)) = concat (map (fun x => concat (g x)) l).
Proof. induction l as [|x l IH]; cbn [map concat]; [reflexivity|]. rewrite concat_app, IH. reflexivity. Qed.

Section CrossChannel.
Variable enc_block : N -> block -> res (list N).
Variable md5 : list N -> list N.
Variable p : profile.

Lemma fold_channels_as_samples ch nb k : 1 <= ch <= 8 -> (1 <= k)%nat -> forall blocks e,
  Forall (shaped k (N.to_nat ch)) blocks ->
  fold_res (channel_encode_chunk enc_block p ch nb) e blocks =
  fold_res (sample_encode_chunk enc_block p ch nb) e (map (fun b => concat (multizip b)) blocks).
Proof.
  intros Hch Hk. induction blocks as [|b bl IH]; intros e F; [reflexivity|]. cbn [fold_res map].
  apply Forall_cons_iff in F. destruct F as [[Lb Fb] F].
  rewrite (channel_block_as_samples enc_block p ch nb e b k Hch Lb Fb Hk).
  destruct (sample_encode_chunk _ _ _ _ _ _) as [e1| |]; cbn [bind]; [apply IH; exact F|reflexivity|reflexivity].
Qed.

Theorem channel_run_is_sample_run e0 ch nb bs (chans : list (list Z)) m :
  1 <= ch <= 8 -> 1 <= bs -> si_channels (e_si e0) = ch ->
  length chans = N.to_nat ch -> Forall (fun c => length c = m) chans ->
  let wc := {| cw_enc := e0; cw_bufs := repeat [] (N.to_nat ch); cw_channels := ch; cw_frame_sample_size := bs; cw_bytes_per_sample := nb |} in
  let ws := {| sw_enc := e0; sw_buf := []; sw_channels := ch; sw_frame_sample_size := ch * bs; sw_bytes_per_sample := nb |} in
  channel_run enc_block md5 p wc [chans] = sample_run enc_block md5 p ws [concat (multizip chans)].
Proof.
  intros Hch Hbs Hsi Lc U wc ws.
  set (n := N.to_nat ch) in *. set (k := N.to_nat bs).
  assert (Hn : (1 <= n)%nat) by (unfold n; lia). assert (Hk : (1 <= k)%nat) by (unfold k; lia).
  assert (Hne : chans <> []) by (intros ->; cbn in Lc; lia).
  unfold channel_run, sample_run. cbn [fold_res bind].
  unfold channel_write, sample_write. cbn [wc ws cw_enc cw_bufs cw_channels cw_frame_sample_size cw_bytes_per_sample
                                           sw_buf sw_frame_sample_size sw_enc sw_channels sw_bytes_per_sample app].
  destruct chans as [|first rest0] eqn:Ech; [congruence|]. rewrite <- Ech in *.
  rewrite Lc, Hsi. unfold n at 1. rewrite N2Nat.id, N.eqb_refl.
  assert (Hex : existsb (fun c : list Z => negb (length c =? length first)%nat) rest0 = false).
  { rewrite Ech in U. apply Forall_cons_iff in U. destruct U as [A B].
    destruct (existsb _ rest0) eqn:Ex; [|reflexivity]. apply existsb_exists in Ex. destruct Ex as (c & Hc & Hl).
    rewrite Forall_forall in B. rewrite (B c Hc), A, Nat.eqb_refl in Hl. discriminate. }
  rewrite Hex.
  assert (Ezn : zip_app (repeat [] n) chans = chans).
  { rewrite zip_app_nils; [reflexivity| |rewrite repeat_length; lia]. apply Forall_forall. intros x Hx. apply repeat_spec in Hx. subst x. reflexivity. }
  rewrite Ezn.
  destruct (N.eqb_spec bs 0); [lia|]. destruct (N.eqb_spec (ch * bs) 0); [nia|].
  fold k. set (ks := N.to_nat (ch * bs)). assert (Hks : ks = (n * k)%nat) by (unfold ks, n, k; rewrite N2Nat.inj_mul; reflexivity).
  destruct (cdrain k chans) as [blocks rest] eqn:Ed.
  destruct (cdrain_spec k ltac:(lia) chans blocks rest Hne Ed) as (Est & Fsh & Lrest & Hshort). rewrite Lc in Fsh, Lrest.
  (* rest is uniform of length r < k, and m = k * #blocks + r *)
  assert (Hr : exists r, Forall (fun c => length c = r) rest /\ (r < k)%nat /\ m = (k * length blocks + r)%nat).
  { assert (G : forall bl rs mm, Forall (shaped k n) bl -> length rs = n -> Forall (fun c => length c = mm) (stack bl rs) ->
              Forall (fun c => length c = (mm - k * length bl)%nat) rs /\ (k * length bl <= mm)%nat).
    { clear - Hn. induction bl as [|b bl IH]; intros rs mm F Lr Us; cbn [stack fold_right length] in *.
      - rewrite Nat.mul_0_r, Nat.sub_0_r. split; [exact Us|lia].
      - fold (stack bl rs) in Us. apply Forall_cons_iff in F. destruct F as [[Lb Fb] F].
        assert (Ls : length (stack bl rs) = n) by (apply stack_length; [eapply shaped_len; eauto|exact Lr]).
        assert (Hsplit : Forall (fun c => length c = (mm - k)%nat) (stack bl rs) /\ (k <= mm)%nat).
        { apply (zip_app_uniform_split b (stack bl rs) k mm); [lia|intros ->; cbn in Lb; lia|exact Fb|exact Us]. }
        destruct Hsplit as [U' Hle]. destruct (IH rs (mm - k)%nat F Lr U') as [A B].
        split; [|lia]. eapply Forall_impl; [|exact A]. intros c Hc. cbn beta in Hc. rewrite Hc. lia. }
    rewrite Est in U. destruct (G blocks rest m Fsh Lrest U) as [A B].
    exists (m - k * length blocks)%nat. split; [exact A|]. split; [|clear - B; unfold block in *; lia].
    unfold has_short in Hshort. apply existsb_exists in Hshort. destruct Hshort as (c & Hc & Hl). apply Nat.ltb_lt in Hl.
    rewrite Forall_forall in A. rewrite (A c Hc) in Hl. exact Hl. }
  destruct Hr as (r & Urest & Hrk & Hm). unfold block in *.
  (* the interleaved samples: the blocks' PCM frames, then the rest's *)
  assert (Eint : concat (multizip chans) = concat (map (fun b => concat (multizip b)) blocks) ++ concat (multizip_fuel r rest)).
  { rewrite (multizip_uniform chans m Hne U), Hm. rewrite Est at 1.
    rewrite (interleave_stack k n Hn blocks rest r Fsh Lrest Urest), concat_app. f_equal.
    rewrite concat_concat_map. f_equal. apply map_ext_in. intros b Hb. rewrite Forall_forall in Fsh. destruct (Fsh b Hb) as [Lb Fb].
    rewrite (multizip_uniform b k); [reflexivity|intros ->; cbn in Lb; lia|exact Fb]. }
  assert (Hrest_ne : rest <> []) by (intros ->; cbn in Lrest; lia).
  assert (Eir : concat (multizip_fuel r rest) = concat (multizip rest)) by (rewrite (multizip_uniform rest r Hrest_ne Urest); reflexivity).
  (* lengths *)
  assert (Lblk : Forall (fun x => length x = ks) (map (fun b => concat (multizip b)) blocks)).
  { apply Forall_forall. intros x Hx. apply in_map_iff in Hx. destruct Hx as (b & <- & Hb). rewrite Forall_forall in Fsh. destruct (Fsh b Hb) as [Lb Fb].
    assert (Hbne : b <> []) by (intros ->; cbn in Lb; lia).
    rewrite (multizip_uniform b k Hbne Fb). destruct (channels_of_multizip_fuel k b Hbne Fb) as (_ & Fl & Lm).
    rewrite (concat_length_uniform (length b)) by exact Fl. rewrite Lm, Lb, Hks. lia. }
  assert (Lir : length (concat (multizip_fuel r rest)) = (n * r)%nat).
  { destruct (channels_of_multizip_fuel r rest Hrest_ne Urest) as (_ & Fl & Lm).
    rewrite (concat_length_uniform (length rest)) by exact Fl. rewrite Lm, Lrest. lia. }
  assert (Eds : drain ks (concat (multizip chans)) = (map (fun b => concat (multizip b)) blocks, concat (multizip_fuel r rest))).
  { rewrite Eint. apply drain_unique; [nia|exact Lblk|rewrite Lir, Hks; nia]. }
  rewrite Eds.
  pose proof (fold_channels_as_samples ch nb k Hch Hk blocks e0 Fsh) as Ef. unfold block in Ef. rewrite Ef. clear Ef.
  destruct (fold_res (sample_encode_chunk enc_block p ch nb) e0 (map (fun b => concat (multizip b)) blocks)) as [e1| |]; cbn [bind]; try reflexivity.
  (* finalize *)
  unfold channel_finalize, sample_finalize. cbn [cw_bufs cw_channels cw_bytes_per_sample cw_enc sw_buf sw_channels sw_bytes_per_sample sw_enc].
  destruct rest as [|c0 rest'] eqn:Erest; [congruence|]. rewrite <- Erest in *.
  assert (Lc0 : length c0 = r) by (rewrite Erest in Urest; apply Forall_cons_iff in Urest; tauto).
  rewrite Lc0, Lir.
  destruct (Nat.eqb_spec r 0) as [E0|Hr0]; cbn [negb].
  - rewrite E0, Nat.mul_0_r. destruct (N.leb_spec ch (N.of_nat 0)); [lia|]. reflexivity.
  - destruct (N.leb_spec ch (N.of_nat (n * r))) as [_|H]; [|unfold n in H; nia]. destruct (N.eqb_spec ch 0); [lia|].
    assert (Emod : N.of_nat (n * r) mod ch = 0) by (unfold n; rewrite Nat2N.inj_mul, N2Nat.id, N.mul_comm; apply N.mod_mul; lia).
    rewrite Emod, N.sub_0_r, Nat2N.id. rewrite <- Lir, firstn_all.
    rewrite (channel_block_as_samples enc_block p ch nb e1 rest r Hch Lrest Urest ltac:(lia)). rewrite Eir. reflexivity.
Qed.

End CrossChannel.

(* the writers the two constructors return, for the same parameters and corresponding declared totals *)
Theorem channel_writer_is_sample_writer enc_block md5 p o rate bps ch tc ts wc ws (chunks : list (list (list Z))) :
  Params_proofs.options_wf o ->
  channel_new p [] o rate bps ch tc = Ok wc -> sample_new p [] o rate bps ch ts = Ok ws ->
  ts = option_map (N.mul ch) tc ->
  Forall (chunk_ok (N.to_nat ch)) chunks ->
  channel_run enc_block md5 p wc chunks =
  sample_run enc_block md5 p ws [concat (multizip (cconcat (N.to_nat ch) chunks))].
Proof.
  intros Hwf Hc Hs Ht Hchunks.
  pose proof (New_proofs.channel_new_wf p [] o rate bps ch tc wc Hwf Hc) as Hcw.
  destruct Hwf as ((Hbs16 & _) & _).
  unfold channel_new in Hc. apply bind_ok in Hc. destruct Hc as (bps1 & Hb1 & Hc). apply bind_ok in Hc. destruct Hc as (t1 & Ht1 & Hc).
  apply bind_ok in Hc. destruct Hc as (e1 & He1 & Hc). injection Hc as <-.
  unfold sample_new in Hs. apply bind_ok in Hs. destruct Hs as (bps2 & Hb2 & Hs). apply bind_ok in Hs. destruct Hs as (t2 & Ht2 & Hs).
  apply bind_ok in Hs. destruct Hs as (e2 & He2 & Hs). injection Hs as <-.
  assert (Eb : bps1 = bps /\ bps2 = bps).
  { unfold signed_bit_count_32 in Hb1, Hb2. destruct ((1 <=? bps) && (bps <=? 32)); [|discriminate].
    injection Hb1 as <-. injection Hb2 as <-. auto. }
  destruct Eb as (-> & ->).
  assert (Hch : 1 <= ch <= 8 /\ si_channels (e_si e2) = ch).
  { unfold encoder_new in He2. apply bind_ok in He2. destruct He2 as ([] & Hv & He2). unfold encoder_new_validate in Hv.
    destruct (rate <? 1048576); [|discriminate]. destruct ((1 <=? ch) && (ch <=? 8)) eqn:Eq; [|discriminate].
    apply andb_prop in Eq. destruct Eq as [A B]. apply N.leb_le in A, B.
    apply bind_ok in He2. destruct He2 as (bl & _ & He2). apply bind_ok in He2. destruct He2 as (meta & _ & He2). injection He2 as <-.
    cbn [e_si si_channels]. auto. }
  destruct Hch as [Hch Hsi].
  assert (Et : t1 = t2).
  { subst ts. destruct tc as [s|]; cbn [option_map] in Ht2; [|cbn in Ht1, Ht2; congruence].
    unfold channel_total in Ht1. unfold sample_total in Ht2.
    assert (E1 : exact_div (ch * s) ch = Some s).
    { unfold exact_div. destruct (N.eqb_spec ch 0); [lia|]. cbn [negb andb]. rewrite (N.mul_comm ch s), N.mod_mul, N.div_mul by lia. reflexivity. }
    rewrite E1 in Ht2. destruct (s =? 0); congruence. }
  subst t2. rewrite He1 in He2. injection He2 as <-.
  assert (Ecw : cw_chan {| cw_enc := e1; cw_bufs := repeat [] (N.to_nat ch); cw_channels := ch; cw_frame_sample_size := o_block_size o;
                           cw_bytes_per_sample := bytes_per_sample_of bps |} = N.to_nat ch) by (unfold cw_chan; cbn; rewrite Hsi; reflexivity).
  rewrite (channel_chunking enc_block md5 p _ chunks Hcw) by (rewrite Ecw; exact Hchunks).
  rewrite Ecw.
  destruct (cconcat_ok (N.to_nat ch) chunks Hchunks) as [Lall [m Uall]].
  apply (channel_run_is_sample_run enc_block md5 p e1 ch (bytes_per_sample_of bps) (o_block_size o) _ m Hch ltac:(lia) Hsi Lall Uall).
Qed.
