(* e2eupd/WrittenEditedRead.v — C01, C10 and C07 composed: write (FlacSampleWriter model, codec's encoder), edit the
   metadata any number of times (update over the metadata area's reader and writer), read (codec's stream decoder, then
   the readers area's FlacSampleReader model over the decoded blocks): under every seek-free history of
   read / fill_buf / consume / next calls the reader delivers exactly the whole PCM frames written, once, in order. *)
From FlacBase Require Import Res Bits.
From FlacMeta Require Import Bytes Bytes_proofs Blocks BlockList Blocks_proofs Blocks_level BlockList_proofs.
From FlacUpdIo Require GenUpd Update Update_proofs Update_cond.
From FlacCodec Require Ast Stream Spec Wf Enc_proofs.
From FlacWriters Require Import Params Params_proofs Finalize Writers Encoder_proofs C09_proofs.
From FlacReaders Require Readers Spec Seek.
From FlacE2E Require Bridge E2E Success ReadBridge ReadersE2E.
From FlacE2EMeta Require Import MetaBridge FinishedBlocks.
From FlacE2EUpd Require Import RealCodec CodecView UpdateE2E WrittenEdited.
Open Scope N_scope.

Module RS := FlacReaders.Spec.

(* the part of WrittenEdited.v that does not mention the decoded blocks, for any finished file with a typed view of its
   metadata (e2emeta: sample_/byte_/channel_writer_file_typed) *)
Lemma edited_same_decoding_typed : forall (u : list N -> bool),
  (forall s, Forall (fun b => b < 128) s -> u s = true) ->
  forall (f : finished) meta',
  f_stream f = meta' ++ frames_bytes (f_enc f) ->
  FlacMeta.BlockList.write_blocks (FlacMeta.Blocks.BStreaminfo (convM (f_si f)) :: map convB (f_blocks f)) = Ok meta' ->
  Forall (FlacMeta.Blocks_level.ty_block u) (FlacMeta.Blocks.BStreaminfo (convM (f_si f)) :: map convB (f_blocks f)) ->
  Forall FlacMeta.Blocks_level.canon_block (FlacMeta.Blocks.BStreaminfo (convM (f_si f)) :: map convB (f_blocks f)) ->
  forall edits fn rs,
    Forall (typed_edit u) edits -> Forall (U.keeps_streaminfo FlacMeta.Blocks.block) edits ->
    U.run_edits FlacMeta.Blocks.block psize_r ser_r uclass_r (read_blocks_r u) edits (f_stream f) = (fn, rs) ->
    FlacCodec.Stream.dec_stream fn = FlacCodec.Stream.dec_stream (f_stream f) /\
    FlacCodec.Spec.spec_stream fn = FlacCodec.Spec.spec_stream (f_stream f) /\
    exists meta_n, fn = meta_n ++ frames_bytes (f_enc f).
Proof.
  intros u Hu f meta' Hs Hw T C edits fn rs K KS Hre.
  pose proof (file_ok_written u Hu _ _ meta' (frames_bytes (f_enc f)) T C Hw) as I0. rewrite <- Hs in I0.
  pose proof (run_edits_file_ok u Hu edits K KS _ _ _ fn rs I0 Hre) as [(mn & bn & -> & _) Mn].
  destruct I0 as [_ M0].
  split; [unfold FlacCodec.Stream.dec_stream; rewrite Mn, M0; reflexivity|].
  split; [unfold FlacCodec.Spec.spec_stream; rewrite Mn, M0; reflexivity|exists mn; reflexivity].
Qed.

Lemma edited_same_decoding : forall (u : list N -> bool),
  (forall s, Forall (fun b => b < 128) s -> u s = true) ->
  forall o L md5, (forall l, length (md5 l) = 16%nat) -> (forall l, Forall (fun b => b < 256) (md5 l)) ->
  forall p rate bps ch wo total w chunks f,
  options_wf wo -> Forall plain (o_metadata wo) -> seektables (o_metadata wo) = 0%nat ->
  sample_new p [] wo rate bps ch total = Ok w ->
  sample_run (FlacE2E.E2E.encB o L rate bps) md5 p w chunks = Ok f -> counters_fit (f_enc f) ->
  forall edits fn rs,
    Forall (typed_edit u) edits -> Forall (U.keeps_streaminfo FlacMeta.Blocks.block) edits ->
    U.run_edits FlacMeta.Blocks.block psize_r ser_r uclass_r (read_blocks_r u) edits (f_stream f) = (fn, rs) ->
    FlacCodec.Stream.dec_stream fn = FlacCodec.Stream.dec_stream (f_stream f) /\
    FlacCodec.Spec.spec_stream fn = FlacCodec.Spec.spec_stream (f_stream f) /\
    exists meta_n, fn = meta_n ++ frames_bytes (f_enc f).
Proof.
  intros u Hu o L md5 Hmd5 Hmd5b p rate bps ch wo total w chunks f Hwf Hpl Hs0 Hnew Hrun Hfit.
  destruct (sample_writer_file_typed (FlacE2E.E2E.encB o L rate bps) md5 Hmd5 Hmd5b p u wo rate bps ch total w chunks f
              Hwf Hpl Hs0 Hnew Hrun Hfit) as (meta' & Hs & Hw & T & C).
  exact (edited_same_decoding_typed u Hu f meta' Hs Hw T C).
Qed.

Theorem written_edited_then_read : forall (u : list N -> bool),
  (forall s, Forall (fun b => b < 128) s -> u s = true) ->
  forall o L md5, (forall l, length (md5 l) = 16%nat) -> (forall l, Forall (fun b => b < 256) (md5 l)) ->
  forall p rate bps ch, rate < 2 ^ 20 -> 1 <= bps -> bps <= 32 -> 1 <= ch -> ch <= 8 ->
  forall wo total w chunks e rp,
  options_wf wo -> Forall plain (o_metadata wo) -> seektables (o_metadata wo) = 0%nat ->
  sample_new p [] wo rate bps ch total = Ok w ->
  forallb (FlacCodec.Wf.fits bps) (concat chunks) = true ->
  let W := N.of_nat (length (concat chunks)) / ch in
  let written := firstn (N.to_nat ch * (length (concat chunks) / N.to_nat ch)) (concat chunks) in
  1 <= W -> N.of_nat (length (concat chunks)) < 2 ^ 36 ->
  match total with Some T => T = ch * W | None => True end ->
  exists f blocks,
    sample_run (FlacE2E.E2E.encB o L rate bps) md5 p w chunks = Ok f /\
    (* the edited file still decodes to these blocks ... *)
    (forall edits fn rs,
      Forall (typed_edit u) edits -> Forall (U.keeps_streaminfo FlacMeta.Blocks.block) edits ->
      U.run_edits FlacMeta.Blocks.block psize_r ser_r uclass_r (read_blocks_r u) edits (f_stream f) = (fn, rs) ->
      FlacCodec.Stream.dec_stream fn =
        Some (FlacE2E.Bridge.conv_si (f_si f), map FlacCodec.Stream.interleave_frame blocks, FlacCodec.Stream.EndEof)) /\
    (* ... and the reader model over them delivers exactly what was written *)
    let F := FlacE2E.ReadBridge.file_of_blocks blocks ch bps (Some (FlacCodec.Enc_proofs.blocks_samples blocks)) e rp in
    RS.valid_file F /\ RS.pcm F = written /\
    forall ops, RS.no_sseek ops -> Forall RS.sop_ok (snd (FlacReaders.Seek.sample_run F ops)) ->
      let atr := map (RS.abs_s F) (snd (FlacReaders.Seek.sample_run F ops)) in
      Forall (RS.cur_ok written) atr /\ RS.chained 0 atr (RS.spos F (fst (FlacReaders.Seek.sample_run F ops))) /\
      RS.exactly_once written atr.
Proof.
  intros u Hu o L md5 Hmd5 Hmd5b p rate bps ch Hrate Hb1 Hb32 Hc1 Hc8 wo total w chunks e rp Hwf Hpl Hs0 Hnew Hfits W written HW Hlen Htot.
  destruct (FlacE2E.ReadersE2E.written_samples_are_read o L md5 Hmd5 p rate bps wo ch total w chunks e rp Hwf Hnew Hfits HW Hlen Htot)
    as (f & blocks & Hrun & Hdec & HF).
  destruct (FlacE2E.Success.sample_run_succeeds o L md5 Hmd5 p rate bps ch Hrate Hb1 Hb32 Hc1 Hc8 wo total w chunks
              Hwf Hnew Hfits HW Hlen Htot) as (f' & Hrun' & Hfit).
  assert (Ef : f' = f) by (rewrite Hrun in Hrun'; inversion Hrun'; reflexivity). subst f'.
  exists f, blocks. split; [exact Hrun|]. split; [|exact HF].
  intros edits fn rs K KS Hre.
  destruct (edited_same_decoding u Hu o L md5 Hmd5 Hmd5b p rate bps ch wo total w chunks f Hwf Hpl Hs0 Hnew Hrun Hfit edits fn rs K KS Hre)
    as (Ed & _). rewrite Ed. exact Hdec.
Qed.

(* ---- FlacByteWriter -> edits -> FlacByteReader *)
From FlacWriters Require Import Bytes_proofs Writers_proofs Cross_proofs.
From FlacE2E Require Transfer ByteE2E.

Theorem byte_written_edited_then_read : forall (u : list N -> bool),
  (forall s, Forall (fun b => b < 128) s -> u s = true) ->
  forall o L md5, (forall l, length (md5 l) = 16%nat) -> (forall l, Forall (fun b => b < 256) (md5 l)) ->
  forall p rate bps ch, rate < 2 ^ 20 -> 1 <= bps -> bps <= 32 -> 1 <= ch -> ch <= 8 ->
  forall en wo total w (chunks : list (list N)) rp,
  options_wf wo -> Forall plain (o_metadata wo) -> seektables (o_metadata wo) = 0%nat ->
  byte_new p en [] wo rate bps ch total = Ok w ->
  Forall byte_ok (concat chunks) ->
  let nb := bytes_per_sample_of bps in
  let samples := FlacE2E.ByteE2E.decode_bytes en (N.to_nat nb) (concat chunks) in
  forallb (FlacCodec.Wf.fits bps) samples = true ->
  let W := N.of_nat (length samples) / ch in
  let written := firstn (N.to_nat nb * (N.to_nat ch * (length samples / N.to_nat ch))) (concat chunks) in
  1 <= W -> N.of_nat (length samples) < 2 ^ 36 ->
  match total with Some T => T = nb * ch * W | None => True end ->
  exists f blocks,
    byte_run (FlacE2E.E2E.encB o L rate bps) md5 p w chunks = Ok f /\
    (forall edits fn rs,
      Forall (typed_edit u) edits -> Forall (U.keeps_streaminfo FlacMeta.Blocks.block) edits ->
      U.run_edits FlacMeta.Blocks.block psize_r ser_r uclass_r (read_blocks_r u) edits (f_stream f) = (fn, rs) ->
      FlacCodec.Stream.dec_stream fn =
        Some (FlacE2E.Bridge.conv_si (f_si f), map FlacCodec.Stream.interleave_frame blocks, FlacCodec.Stream.EndEof)) /\
    let F := FlacE2E.ReadBridge.file_of_blocks blocks ch bps (Some (FlacCodec.Enc_proofs.blocks_samples blocks)) (FlacE2E.ReadersE2E.conv_endian en) rp in
    RS.valid_file F /\ RS.pcm_bytes F = written /\
    forall ops, RS.no_bseek ops -> Forall RS.bop_ok (snd (FlacReaders.Seek.byte_run F ops)) ->
      let atr := map (RS.abs_b F) (snd (FlacReaders.Seek.byte_run F ops)) in
      Forall (RS.cur_ok written) atr /\ RS.chained 0 atr (RS.bpos F (fst (FlacReaders.Seek.byte_run F ops))) /\
      RS.exactly_once written atr.
Proof.
  intros u Hu o L md5 Hmd5 Hmd5b p rate bps ch Hrate Hb1 Hb32 Hc1 Hc8 en wo total w chunks rp Hwf Hpl Hs0 Hnew Hbytes nb samples Hfits W written HW Hlen Htot.
  destruct (FlacE2E.ReadersE2E.written_bytes_are_read o L md5 Hmd5 p rate bps en wo ch total w chunks rp Hwf Hnew Hbytes Hfits HW Hlen Htot)
    as (f & blocks & Hrun & Hdec & HF).
  exists f, blocks. split; [exact Hrun|]. split; [|exact HF].
  (* counters_fit, through the equal sample-writer run *)
  destruct (FlacE2E.Transfer.byte_new_sample_new p en wo rate bps ch total w Hnew) as (ts & ws & Hs & Et).
  pose proof (byte_writer_is_sample_writer (FlacE2E.E2E.encB o L rate bps) md5 p en wo rate bps ch total ts w ws chunks Hwf Hnew Hs Et Hbytes) as Eq.
  fold nb in Eq. change (decoded en (N.to_nat nb) (concat chunks)) with samples in Eq.
  assert (Ec : concat [samples] = samples) by (cbn [concat]; apply app_nil_r).
  assert (Hnb : 1 <= nb) by (unfold nb, bytes_per_sample_of; apply N.div_le_lower_bound; lia).
  assert (Hts : match ts with Some T => T = ch * W | None => True end).
  { destruct ts as [T|]; [|exact I]. subst total. cbn [option_map] in Htot. fold nb in Htot. nia. }
  pose proof (FlacE2E.Success.sample_run_succeeds o L md5 Hmd5 p rate bps ch Hrate Hb1 Hb32 Hc1 Hc8 wo ts ws [samples] Hwf Hs) as K.
  rewrite Ec in K. destruct (K Hfits HW Hlen Hts) as (f' & Hrun' & Hfit).
  assert (Ef : f' = f) by (rewrite Eq, Hrun' in Hrun; inversion Hrun; reflexivity). subst f'.
  destruct (byte_writer_file_typed (FlacE2E.E2E.encB o L rate bps) md5 p Hmd5 Hmd5b u en wo rate bps ch total w chunks f
              Hwf Hpl Hs0 Hnew Hbytes Hrun Hfit) as (meta' & Hst & Hw & T & C).
  intros edits fn rs K' KS Hre.
  destruct (edited_same_decoding_typed u Hu f meta' Hst Hw T C edits fn rs K' KS Hre) as (Ed & _).
  rewrite Ed. exact Hdec.
Qed.

(* ---- FlacChannelWriter -> edits -> FlacChannelReader *)
From FlacWriters Require Import Audio_proofs Frontend_proofs.
From FlacE2E Require ChannelE2E ChannelSuccess.

Lemma in_concat_zip_cons (z : Z) : forall f cs, length f = length cs ->
  In z f \/ In z (concat cs) -> In z (concat (zip_cons f cs)).
Proof.
  induction f as [|x f IH]; intros [|c cs] L H; cbn [length] in L; try discriminate.
  - destruct H as [[]|[]].
  - cbn [zip_cons concat]. apply in_or_app. cbn [concat] in H.
    destruct H as [[->|H]|H].
    + left. left. reflexivity.
    + right. apply IH; [lia|left; exact H].
    + apply in_app_or in H. destruct H as [H|H]; [left; right; exact H|right; apply IH; [lia|right; exact H]].
Qed.

Lemma in_frames_in_channels (z : Z) k : forall fs, Forall (fun f => length f = k) fs ->
  In z (concat fs) -> In z (concat (channels_of_frames k fs)).
Proof.
  induction 1 as [|f fs Hf F IH]; cbn [concat channels_of_frames]; intros H; [destruct H|].
  apply in_concat_zip_cons.
  - rewrite (proj1 (channels_of_frames_shape k fs F)). exact Hf.
  - apply in_app_or in H. destruct H as [H|H]; [left; exact H|right; exact (IH H)].
Qed.

(* the interleaving of uniform channels: its samples are the channels' samples, its length is channels x length *)
Lemma multizip_facts (all : list (list Z)) m : all <> [] -> Forall (fun c => length c = m) all ->
  length (concat (multizip all)) = (length all * m)%nat /\
  forall z, In z (concat (multizip all)) -> In z (concat all).
Proof.
  intros Hne F. destruct (channels_of_multizip all m Hne F) as (C & Fl & Lm).
  split.
  - rewrite (concat_length_uniform (length all) _ Fl), Lm. reflexivity.
  - intros z Hz. rewrite <- C. exact (in_frames_in_channels z (length all) _ Fl Hz).
Qed.

Theorem channel_written_edited_then_read : forall (u : list N -> bool),
  (forall s, Forall (fun b => b < 128) s -> u s = true) ->
  forall o L md5, (forall l, length (md5 l) = 16%nat) -> (forall l, Forall (fun b => b < 256) (md5 l)) ->
  forall p rate bps ch, rate < 2 ^ 20 -> 1 <= bps -> bps <= 32 -> 1 <= ch -> ch <= 8 ->
  forall wo total w (chunks : list (list (list Z))) e rp,
  options_wf wo -> Forall plain (o_metadata wo) -> seektables (o_metadata wo) = 0%nat ->
  channel_new p [] wo rate bps ch total = Ok w ->
  Forall (chunk_ok (N.to_nat ch)) chunks ->
  let all := cconcat (N.to_nat ch) chunks in
  forallb (FlacCodec.Wf.fits bps) (concat all) = true ->
  let m := length (hd [] all) in
  (1 <= m)%nat -> ch * N.of_nat m < 2 ^ 36 ->
  match total with Some T => T = N.of_nat m | None => True end ->
  exists f blocks,
    channel_run (FlacE2E.E2E.encB o L rate bps) md5 p w chunks = Ok f /\
    (forall edits fn rs,
      Forall (typed_edit u) edits -> Forall (U.keeps_streaminfo FlacMeta.Blocks.block) edits ->
      U.run_edits FlacMeta.Blocks.block psize_r ser_r uclass_r (read_blocks_r u) edits (f_stream f) = (fn, rs) ->
      FlacCodec.Stream.dec_stream fn =
        Some (FlacE2E.Bridge.conv_si (f_si f), map FlacCodec.Stream.interleave_frame blocks, FlacCodec.Stream.EndEof)) /\
    let F := FlacE2E.ReadBridge.file_of_blocks blocks ch bps (Some (FlacCodec.Enc_proofs.blocks_samples blocks)) e rp in
    RS.valid_file F /\
    forall c, (c < N.to_nat ch)%nat ->
      RS.chan_pcm F c = nth c all [] /\
      forall ops, RS.no_cseek ops -> Forall RS.cop_ok (snd (FlacReaders.Seek.chan_run F ops)) ->
        let atr := map (RS.abs_c F c) (snd (FlacReaders.Seek.chan_run F ops)) in
        Forall (RS.cur_ok (nth c all [])) atr /\ RS.chained 0 atr (RS.cpos (fst (FlacReaders.Seek.chan_run F ops))) /\
        RS.exactly_once (nth c all []) atr /\ Forall (RS.chan_shape F) (snd (FlacReaders.Seek.chan_run F ops)).
Proof.
  intros u Hu o L md5 Hmd5 Hmd5b p rate bps ch Hrate Hb1 Hb32 Hc1 Hc8 wo total w chunks e rp Hwf Hpl Hs0 Hnew Hchunks all Hfits m Hm Hlen Htot.
  assert (Hlen' : N.of_nat m < 2 ^ 36) by nia.
  destruct (FlacE2E.ReadersE2E.written_channels_are_read o L md5 Hmd5 p rate bps wo ch total w chunks e rp Hwf Hnew Hchunks Hfits Hm Hlen' Htot)
    as (f & blocks & Hrun & Hdec & HF).
  exists f, blocks. split; [exact Hrun|]. split; [|exact HF].
  (* shape of everything written *)
  destruct (cconcat_ok (N.to_nat ch) chunks Hchunks) as [Lall [m0 Fall]]. fold all in Lall, Fall.
  assert (Hne : all <> []) by (intros X; rewrite X in Lall; cbn in Lall; lia).
  assert (Em : m0 = m).
  { unfold m. destruct all as [|c0 r]; [congruence|]. inversion Fall; subst. reflexivity. }
  subst m0.
  destruct (multizip_facts all m Hne Fall) as [Lz Inz]. rewrite Lall in Lz.
  set (samples := concat (multizip all)) in *.
  (* counters_fit, through the equal sample-writer run *)
  destruct (FlacE2E.Transfer.channel_new_sample_new p wo rate bps ch total w Hnew) as (ts & ws & Hs & Et).
  pose proof (channel_writer_is_sample_writer (FlacE2E.E2E.encB o L rate bps) md5 p wo rate bps ch total ts w ws chunks Hwf Hnew Hs Et Hchunks) as Eq.
  fold all in Eq. fold samples in Eq.
  assert (Ec : concat [samples] = samples) by (cbn [concat]; apply app_nil_r).
  assert (Hfs : forallb (FlacCodec.Wf.fits bps) samples = true).
  { apply forallb_forall. intros z Hz. rewrite forallb_forall in Hfits. apply Hfits, Inz, Hz. }
  assert (EW : N.of_nat (length samples) / ch = N.of_nat m).
  { rewrite Lz, Nat2N.inj_mul, N2Nat.id, N.mul_comm. apply N.div_mul. lia. }
  assert (Hts : match ts with Some T => T = ch * (N.of_nat (length samples) / ch) | None => True end).
  { rewrite EW. subst ts. destruct total as [T|]; cbn [option_map]; [|exact I]. subst T. reflexivity. }
  pose proof (FlacE2E.Success.sample_run_succeeds o L md5 Hmd5 p rate bps ch Hrate Hb1 Hb32 Hc1 Hc8 wo ts ws [samples] Hwf Hs) as K.
  rewrite Ec in K.
  destruct (K Hfs ltac:(rewrite EW; lia) ltac:(rewrite Lz, Nat2N.inj_mul, N2Nat.id; exact Hlen) Hts) as (f' & Hrun' & Hfit).
  assert (Ef : f' = f) by (rewrite Eq, Hrun' in Hrun; inversion Hrun; reflexivity). subst f'.
  destruct (channel_writer_file_typed (FlacE2E.E2E.encB o L rate bps) md5 p Hmd5 Hmd5b u wo rate bps ch total w chunks f
              Hwf Hpl Hs0 Hnew Hchunks Hrun Hfit) as (meta' & Hst & Hw & T & C).
  intros edits fn rs K' KS Hre.
  destruct (edited_same_decoding_typed u Hu f meta' Hst Hw T C edits fn rs K' KS Hre) as (Ed & _).
  rewrite Ed. exact Hdec.
Qed.

(* ---- C02 + C10: the edited file still passes the strict stream validator of the codec area (every frame RFC-valid and
   canonical, numbering, block sizes, totals), with the blocks that spell the samples written *)
Theorem written_then_edited_valid : forall (u : list N -> bool),
  (forall s, Forall (fun b => b < 128) s -> u s = true) ->
  forall o L md5, (forall l, length (md5 l) = 16%nat) -> (forall l, Forall (fun b => b < 256) (md5 l)) ->
  forall p rate bps ch, rate < 2 ^ 20 -> 1 <= bps -> bps <= 32 -> 1 <= ch -> ch <= 8 ->
  forall wo total w chunks,
  options_wf wo -> Forall plain (o_metadata wo) -> seektables (o_metadata wo) = 0%nat ->
  sample_new p [] wo rate bps ch total = Ok w ->
  forallb (FlacCodec.Wf.fits bps) (concat chunks) = true ->
  let W := N.of_nat (length (concat chunks)) / ch in
  1 <= W -> N.of_nat (length (concat chunks)) < 2 ^ 36 ->
  match total with Some T => T = ch * W | None => True end ->
  exists f blocks,
    sample_run (FlacE2E.E2E.encB o L rate bps) md5 p w chunks = Ok f /\
    concat (map FlacCodec.Stream.interleave_frame blocks) =
      firstn (N.to_nat ch * (length (concat chunks) / N.to_nat ch)) (concat chunks) /\
    forall edits fn rs,
      Forall (typed_edit u) edits -> Forall (U.keeps_streaminfo FlacMeta.Blocks.block) edits ->
      U.run_edits FlacMeta.Blocks.block psize_r ser_r uclass_r (read_blocks_r u) edits (f_stream f) = (fn, rs) ->
      FlacCodec.Spec.spec_stream fn = Ok (FlacE2E.Bridge.conv_si (f_si f), blocks).
Proof.
  intros u Hu o L md5 Hmd5 Hmd5b p rate bps ch Hrate Hb1 Hb32 Hc1 Hc8 wo total w chunks Hwf Hpl Hs0 Hnew Hfits W HW Hlen Htot.
  destruct (FlacE2E.Success.sample_writer_file_valid o L md5 Hmd5 p rate bps wo ch total w chunks Hwf Hnew Hfits HW Hlen Htot)
    as (f & blocks & Hrun & Hspec & Hcat).
  destruct (FlacE2E.Success.sample_run_succeeds o L md5 Hmd5 p rate bps ch Hrate Hb1 Hb32 Hc1 Hc8 wo total w chunks
              Hwf Hnew Hfits HW Hlen Htot) as (f' & Hrun' & Hfit).
  assert (Ef : f' = f) by (rewrite Hrun in Hrun'; inversion Hrun'; reflexivity). subst f'.
  exists f, blocks. split; [exact Hrun|]. split; [exact Hcat|].
  intros edits fn rs K KS Hre.
  destruct (edited_same_decoding u Hu o L md5 Hmd5 Hmd5b p rate bps ch wo total w chunks f Hwf Hpl Hs0 Hnew Hrun Hfit edits fn rs K KS Hre)
    as (_ & Es & _). rewrite Es. exact Hspec.
Qed.
