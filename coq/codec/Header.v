(* Codec/Header.v — frame header: stream.rs FrameHeader::parse / build and the code tables. *)
From FlacCodec Require Export Parser.
Open Scope N_scope.

Definition SYNC_CODE : N := 32764.          (* 0b111111111111100, 15 bits *)
Definition MAX_FRAME_NUMBER : N := 2 ^ 36 - 1.

(* stream.rs:437-461, 516-535 — block size code -> samples (codes 6,7 read an extra field) *)
Definition bs_of_code (c : N) : option N :=
  match c with
  | 1 => Some 192 | 2 => Some 576 | 3 => Some 1152 | 4 => Some 2304 | 5 => Some 4608
  | 8 => Some 256 | 9 => Some 512 | 10 => Some 1024 | 11 => Some 2048 | 12 => Some 4096
  | 13 => Some 8192 | 14 => Some 16384 | 15 => Some 32768
  | _ => None
  end.
(* stream.rs:661-692, 757-777 *)
Definition rate_of_code (c : N) : option N :=
  match c with
  | 1 => Some 88200 | 2 => Some 176400 | 3 => Some 192000 | 4 => Some 8000 | 5 => Some 16000
  | 6 => Some 22050 | 7 => Some 24000 | 8 => Some 32000 | 9 => Some 44100 | 10 => Some 48000
  | 11 => Some 96000
  | _ => None
  end.
(* stream.rs:1151-1173 *)
Definition bps_of_code (c : N) : option N :=
  match c with
  | 1 => Some 8 | 2 => Some 12 | 4 => Some 16 | 5 => Some 20 | 6 => Some 24 | 7 => Some 32
  | _ => None
  end.

(* stream.rs:1246-1264 FrameNumber::from_reader *)
Fixpoint p_number_cont (k : nat) (acc : N) : P N :=
  match k with
  | O => pret acc
  | S k' => tag <-- p_rd 2 ;;
            _ <-- p_guard (tag =? 2) EFrameNumber ;;
            v <-- p_rd 6 ;;
            p_number_cont k' (acc * 64 + v)
  end.
Definition p_frame_number : P N :=
  ones <-- p_unary false ;;
  if ones =? 0 then p_rd 7
  else if (ones =? 1) || (7 <? ones) then pfail EFrameNumber
  else first <-- p_rd (7 - N.to_nat ones) ;;
       p_number_cont (N.to_nat ones - 1) first.

(* stream.rs:214-240 FrameHeader::parse; `si` = Some for FrameHeader::read, None for read_subset *)
Definition parse_header_fields (si : option streaminfo) : P header :=
  sync <-- p_rd 15 ;;
  _ <-- p_guard (sync =? SYNC_CODE) ESync ;;
  variable <-- p_bit ;;
  bs_code <-- p_rd 4 ;;
  _ <-- p_guard (negb (bs_code =? 0)) EBlockSize ;;
  rate_code <-- p_rd 4 ;;
  _ <-- p_guard (negb ((rate_code =? 0) && match si with None => true | Some _ => false end)) ENonSubsetRate ;;
  _ <-- p_guard (negb (rate_code =? 15)) ESampleRate ;;
  assign <-- p_rd 4 ;;
  _ <-- p_guard (assign <? 11) EChannels ;;
  bps_code <-- p_rd 3 ;;
  _ <-- p_guard (negb ((bps_code =? 0) && match si with None => true | Some _ => false end)) ENonSubsetBps ;;
  _ <-- p_guard (negb (bps_code =? 3)) EBps ;;
  _ <-- p_rd 1 ;;                                        (* reserved bit: skipped, not tested *)
  number <-- p_frame_number ;;
  bs <-- (match bs_of_code bs_code with
          | Some v => pret v
          | None => if bs_code =? 6 then v <-- p_rd 8 ;; pret (v + 1)
                    else v <-- p_rd 16 ;;                  (* code 7: u16 checked_add(1) *)
                         _ <-- p_guard (negb (v =? 65535)) EBlockSize ;; pret (v + 1)
          end) ;;
  rate <-- (match rate_of_code rate_code with
            | Some v => pret v
            | None => if rate_code =? 0 then pret (match si with Some i => si_rate i | None => 0 end)
                      else if rate_code =? 12 then v <-- p_rd 8 ;; pret (v * 1000)
                      else if rate_code =? 13 then p_rd 16
                      else v <-- p_rd 16 ;; pret (v * 10)
            end) ;;
  _ <-- p_rd 8 ;;                                        (* CRC-8, checked by the caller *)
  pret {| h_variable := variable; h_bs_code := bs_code; h_bs := bs; h_rate_code := rate_code;
          h_rate := rate; h_assign := assign; h_bps_code := bps_code;
          h_bps := match bps_of_code bps_code with Some v => v
                   | None => match si with Some i => si_bps i | None => 0 end end;
          h_number := number |}.

(* stream.rs:279-313 the STREAMINFO consistency checks of FrameHeader::read *)
Definition header_checks (si : streaminfo) (h : header) : res header :=
  if negb (h_bs h <=? si_max_bs si) then Err EBlockSizeMismatch
  else if negb (h_rate h =? si_rate si) then Err ERateMismatch
  else if negb (assign_channels (h_assign h) =? si_channels si) then Err EChannelsMismatch
  else if negb (h_bps h =? si_bps si) then Err EBpsMismatch
  else Ok h.

(* ---- writer: stream.rs:242-276 FrameHeader::build and 1266-1326 FrameNumber::to_writer ---- *)
Definition cont_byte (num : N) (i : N) : bits := wr 2 2 ++ wr 6 ((num / 2 ^ (6 * i)) mod 64).
Fixpoint cont_bytes (num : N) (k : nat) : bits :=
  match k with O => [] | S k' => cont_byte num (N.of_nat k') ++ cont_bytes num k' end.
Definition number_len (v : N) : nat :=        (* total bytes used by the minimal coding *)
  if v <? 128 then 1 else if v <? 2048 then 2 else if v <? 65536 then 3 else if v <? 2097152 then 4
  else if v <? 67108864 then 5 else if v <? 2147483648 then 6 else 7.
Definition write_number (v : N) : option bits :=
  if MAX_FRAME_NUMBER <? v then None
  else let n := number_len v in
       if (n =? 1)%nat then Some (wr_unary false 0 ++ wr 7 v)
       else Some (wr_unary false n ++ wr (7 - n) (v / 2 ^ (6 * N.of_nat (n - 1))) ++ cont_bytes v (n - 1)).

Definition write_header_fields (h : header) : option bits :=
  match write_number (h_number h) with
  | None => None
  | Some num =>
    Some (wr 15 SYNC_CODE ++ [h_variable h] ++ wr 4 (h_bs_code h) ++ wr 4 (h_rate_code h) ++
          wr 4 (h_assign h) ++ wr 3 (h_bps_code h) ++ [false] ++ num ++
          (if h_bs_code h =? 6 then wr 8 (h_bs h - 1) else if h_bs_code h =? 7 then wr 16 (h_bs h - 1) else []) ++
          (if h_rate_code h =? 12 then wr 8 (h_rate h / 1000)
           else if h_rate_code h =? 13 then wr 16 (h_rate h)
           else if h_rate_code h =? 14 then wr 16 (h_rate h / 10) else []))
  end.
