(* Statement pins: each property theorem checked against its full statement written out. *)
From FlacWriters Require Import Writers Lists_proofs Params_proofs Params_sweeps Writers_proofs New_proofs
     Finalize_proofs C09_proofs Props_C08 Props_C15 Props_C09.
Open Scope N_scope.

Check (C08_chunking_sample :
  forall enc_block md5 p prefix o rate bps ch total w (chunks : list (list Z)),
    options_wf o -> sample_new p prefix o rate bps ch total = Ok w ->
    sample_run enc_block md5 p w chunks = sample_run enc_block md5 p w [concat chunks]).
Check (C08_chunking_byte :
  forall enc_block md5 p en prefix o rate bps ch total w (chunks : list (list N)),
    options_wf o -> byte_new p en prefix o rate bps ch total = Ok w ->
    byte_run enc_block md5 p w chunks = byte_run enc_block md5 p w [concat chunks]).
Check (C08_chunking_channel :
  forall enc_block md5 p prefix o rate bps ch total w (chunks : list (list (list Z))),
    options_wf o -> channel_new p prefix o rate bps ch total = Ok w ->
    Forall (chunk_ok (cw_chan w)) chunks ->
    channel_run enc_block md5 p w chunks = channel_run enc_block md5 p w [cconcat (cw_chan w) chunks]).
Check (C15_new_validate : forall k rate bps ch total,
  is_ok (new_validate k rate bps ch total) = documented_args k rate bps ch total /\
  is_err (new_validate k rate bps ch total) = negb (documented_args k rate bps ch total)).

Check (C09_layout_sample :
  forall enc_block md5 p prefix o rate bps ch total w chunks f,
    (forall l, length (md5 l) = 16%nat) ->
    sample_new p prefix o rate bps ch total = Ok w ->
    sample_run enc_block md5 p w chunks = Ok f ->
    exists meta',
      write_blocks (f_si f) (f_blocks f) = Ok meta' /\
      length meta' = length (e_meta (sw_enc w)) /\
      meta_len (f_blocks f) = meta_len (e_blocks (sw_enc w)) /\
      stream (f_enc f) = e_prefix (sw_enc w) ++ e_meta (sw_enc w) ++ frames_bytes (f_enc f) /\
      f_stream f = e_prefix (sw_enc w) ++ meta' ++ frames_bytes (f_enc f)).
Check (C09_layout_cases : forall cap blocks sel blocks',
  finalize_seektable_gen cap blocks sel = Ok blocks' -> meta_len blocks' = meta_len blocks).
