#!/usr/bin/env python3
"""tools/try_mutant.py <patch.diff> <ID> [<ID> ...] [--tier quick|thorough]
Apply a seeded change to a scratch worktree of /repo (never /repo itself), run the given checks
against it with --repo, print one line per check (DETECTED / MISSED + the violation keys), clean up."""
import hashlib, json, os, shutil, subprocess, sys, glob
V = os.path.dirname(os.path.dirname(os.path.abspath(__file__)))
args = sys.argv[1:]
tier = "quick"
if "--tier" in args:
    i = args.index("--tier"); tier = args[i + 1]; del args[i:i + 2]
patch = os.path.abspath(args[0]); ids = args[1:]
tag = hashlib.sha1(patch.encode()).hexdigest()[:8]
wt = "/tmp/mt_" + tag
subprocess.run(["git", "-C", "/repo", "worktree", "remove", "--force", wt], stdout=subprocess.DEVNULL, stderr=subprocess.DEVNULL)
subprocess.check_call(["git", "-C", "/repo", "worktree", "add", "--detach", wt, "HEAD"], stdout=subprocess.DEVNULL, stderr=subprocess.DEVNULL)
res = {}
try:
    r = subprocess.run(["git", "-C", wt, "apply", patch], stdout=subprocess.PIPE, stderr=subprocess.STDOUT, universal_newlines=True)
    if r.returncode != 0:
        print("PATCH DOES NOT APPLY:", r.stdout); sys.exit(2)
    shutil.copy("/repo/Cargo.lock", wt) if os.path.exists("/repo/Cargo.lock") else None
    for pid in ids:
        try:
            p = subprocess.run(["timeout", "-k", "10", "1200", os.path.join(V, "tools", "check"), pid, "--repo", wt, "--tier", tier], cwd=V,
                               stdout=subprocess.PIPE, stderr=subprocess.STDOUT, universal_newlines=True)
        except Exception as ex:
            print("ERROR   %s %r" % (pid, ex)); continue
        keys = []
        for ln in p.stdout.splitlines():
            if ln.startswith("VIOLATION"):
                path = ln.split("replay=")[1].split()[0]
                try:
                    keys.append(json.load(open(path))["key"] + (" [no-failing-input]" if ln.endswith("no-failing-input-found") else ""))
                except Exception:
                    keys.append("?")
        res[pid] = (p.returncode, keys)
        print("%s %s rc=%d %s" % ("DETECTED" if p.returncode == 1 and keys else "MISSED  ", pid, p.returncode, "; ".join(keys[:6])))
        sys.stdout.flush()
finally:
    subprocess.run(["git", "-C", "/repo", "worktree", "remove", "--force", wt], stdout=subprocess.DEVNULL, stderr=subprocess.DEVNULL)
    t = "alt_" + hashlib.sha1(wt.encode()).hexdigest()[:8]
    for d in glob.glob(os.path.join(V, ".cache", "target", t + "*")) + glob.glob(os.path.join(V, ".cache", "manifests", t + "*")):
        shutil.rmtree(d, ignore_errors=True)
    # evidence/replay files were rewritten by the mutant runs: restore evidence from git
    subprocess.run(["git", "-C", V, "checkout", "--", "evidence"], stdout=subprocess.DEVNULL, stderr=subprocess.DEVNULL)
