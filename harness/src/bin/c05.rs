//! C05 harness: (1) CRC observations for the model correspondence; (2) exhaustive single-bit
//! flips and truncations of small encoded files; (3) must-reject header classes with
//! repaired checksums; (4) MD5 verification outcomes.
//!
//! Output: one JSON object per line on stdout, field "t" in {"crc","viol","stat","sample"}.
use flac_codec::decode::{verify_reader, Verified};
use flac_codec::encode::Options;
use flac_codec::verif_hooks::{crc16, crc8};
use std::io::Cursor;
use vharness::json::{esc, ints, obj};
use vharness::*;

/// independent bitwise CRC-16 (x^16 + x^15 + x^2 + 1, initial value 0, no reflection)
fn bitwise_crc16(data: &[u8]) -> u16 {
    let mut c: u16 = 0;
    for b in data {
        c ^= (*b as u16) << 8;
        for _ in 0..8 { c = if c & 0x8000 != 0 { (c << 1) ^ 0x8005 } else { c << 1 }; }
    }
    c
}
/// number of bytes the crate's structural parser accepts as one frame at `start` (None: it rejects)
fn accepted_frame_len(file: &[u8], start: usize) -> Option<usize> {
    let bl = catch(|| flac_codec::metadata::BlockList::read(Cursor::new(file))).ok()?.ok()?;
    let si = bl.streaminfo().clone();
    let mut c = Cursor::new(&file[start..]);
    match catch(|| flac_codec::stream::Frame::read(&mut c, &si)) { Ok(Ok(_)) => Some(c.position() as usize), _ => None }
}
fn viol(key: &str, desc: &str, file: &[u8], extra: &[(&str, String)]) {
    let mut f: Vec<(&str, String)> = vec![("t", esc("viol")), ("key", esc(key)), ("desc", esc(desc)), ("file", esc(&hex(file)))];
    f.extend(extra.iter().cloned());
    println!("{}", obj(&f));
}

struct Stats {
    files: usize,
    flips: usize,
    flips_err: usize,
    flips_panic: usize,
    flips_silent: usize,
    truncs: usize,
    truncs_err: usize,
    truncs_eof: usize,
    reject_cases: usize,
    md5_cases: usize,
    total_cases: usize,
    flips_crc_coincidence: usize,
    err_kinds: std::collections::BTreeMap<String, usize>,
}

fn is_frame_prefix(delivered: &[i32], orig: &Decoded) -> bool {
    let mut acc = 0usize;
    if delivered.is_empty() {
        return true;
    }
    for n in &orig.frame_lens {
        acc += n;
        if acc == delivered.len() {
            return delivered == &orig.samples[..acc];
        }
        if acc > delivered.len() {
            return false;
        }
    }
    false
}

fn corpus(seed: u64, thorough: bool) -> Vec<(String, Vec<u8>, Vec<i32>)> {
    let mut out = vec![];
    let mut rng = Rng::new(seed, 0xC05);
    let n = if thorough { 1000 } else { 14 };
    for i in 0..n {
        let ch = *rng.pick(&[1u8, 2, 2, 3]);
        let bps = *rng.pick(&[8u32, 12, 16, 16, 24, 32, 5]);
        let bs = *rng.pick(&[16u16, 17, 24, 32]);
        let frames_n = rng.range(2, 4) as usize;
        let tail = rng.range(0, bs as i64 - 1) as usize;
        let kind = PCM_KINDS[i % PCM_KINDS.len()];
        let pcm = gen_pcm(&mut rng, kind, ch as usize, bps, bs as usize * frames_n + tail);
        let mut opts = Options::default().block_size(bs).unwrap().no_padding().no_seektable();
        if i % 3 == 0 {
            opts = opts.max_lpc_order(None).unwrap();
        }
        let rate = *rng.pick(&[44100u32, 48000, 8000, 96000, 12345, 22050]);
        match encode_samples(opts, rate, bps, ch, &pcm, i % 2 == 0) {
            Ok(bytes) => out.push((format!("{} ch={} bps={} bs={} rate={} n={}", kind, ch, bps, bs, rate, pcm.len()), bytes, pcm)),
            Err(e) => {
                // an encoder failure is C01's business; note it and move on
                println!("{}", obj(&[("t", esc("note")), ("msg", esc(&format!("encode failed ({}) for {} ch={} bps={} bs={}", e, kind, ch, bps, bs)))]));
            }
        }
    }
    out
}

/// Set STREAMINFO total-samples (36 bits at bit offset 8*(4+4+13)+4 = byte 21 low nibble .. byte 25) to 0
fn zero_total(bytes: &[u8]) -> Vec<u8> {
    let mut b = bytes.to_vec();
    // fLaC(4) + block header(4) + min/max block(4) + min/max frame(6) + [rate 20 | ch 3 | bps 5 | total 36]
    let base = 4 + 4 + 10;
    b[base + 3] &= 0xF0;
    for k in 4..8 {
        b[base + k] = 0;
    }
    b
}

fn main() {
    quiet_panics();
    let seed = env_seed();
    let thorough = env_tier_thorough();
    let mut st = Stats { files: 0, flips: 0, flips_err: 0, flips_panic: 0, flips_silent: 0, truncs: 0, truncs_err: 0, truncs_eof: 0, reject_cases: 0, md5_cases: 0, total_cases: 0, flips_crc_coincidence: 0, err_kinds: Default::default() };

    // ---- (1) CRC observations
    let mut rng = Rng::new(seed, 0xC2C);
    let ncrc = if thorough { 4000 } else { 600 };
    for i in 0..ncrc {
        let len = match i % 5 { 0 => rng.below(4), 1 => rng.below(16), 2 => rng.below(64), _ => rng.below(300) } as usize;
        let mut m = rng.bytes(len);
        if i % 7 == 0 { for x in m.iter_mut() { *x = 0; } }
        if i % 11 == 0 { for x in m.iter_mut() { *x = 0xFF; } }
        println!("{}", obj(&[("t", esc("crc")), ("m", esc(&hex(&m))), ("c8", crc8(&m).to_string()), ("c16", crc16(&m).to_string())]));
    }

    // ---- (2) flips and truncations
    let files = corpus(seed, thorough);
    for (desc, bytes, pcm) in &files {
        let orig = decode_all(bytes);
        if orig.end != End::Eof || &orig.samples != pcm {
            // not C05's property (that is C01) — but the corpus file is unusable here
            println!("{}", obj(&[("t", esc("note")), ("msg", esc(&format!("corpus file does not round-trip ({}): {}", orig.end.tag(), desc)))]));
            continue;
        }
        let bounds = match frame_boundaries(bytes) { Some(b) => b, None => continue };
        let audio_start = bounds[0];
        st.files += 1;
        if st.files <= 2 {
            println!("{}", obj(&[("t", esc("sample")), ("desc", esc(desc)), ("file", esc(&hex(bytes))), ("frame_offsets", ints(&bounds))]));
        }
        // every single-bit flip in the audio frames
        let mut work = bytes.clone();
        for pos in audio_start..bytes.len() {
            for bit in 0..8 {
                work[pos] ^= 1 << bit;
                let d = decode_all(&work);
                st.flips += 1;
                *st.err_kinds.entry(d.end.tag()).or_insert(0) += 1;
                match &d.end {
                    End::Panic(p) => {
                        st.flips_panic += 1;
                        let key = if p.contains("chunk size must be non-zero") { "flip-panic-rchunks0" } else { "flip-panic" };
                        viol(key, &format!("single-bit flip at byte {} bit {} panics the decoder: {}", pos, bit, p), &work, &[("orig", esc(desc))]);
                    }
                    End::Eof => {
                        st.flips_silent += 1;
                        viol("flip-silent", &format!("single-bit flip at byte {} bit {} decoded without error ({} samples; original {})", pos, bit, d.samples.len(), orig.samples.len()), &work, &[("orig", esc(desc))]);
                    }
                    End::Err(_) => {
                        st.flips_err += 1;
                        if !is_frame_prefix(&d.samples, &orig) {
                            // The damaged frame was accepted.  With the SAME extent that is impossible while the checksums are
                            // verified (Coq: C05_flipped_frame_rejected); with a DIFFERENT extent the flip changed how many
                            // bytes the frame occupies and the 16 bits found there can equal the CRC-16 of the new span with
                            // probability 2^-16: "the altered bytes happen to form another valid" frame, which no decoder of this
                            // format can tell from a genuine one.  Such a coincidence is counted, not reported, when an
                            // independent bitwise CRC-16 confirms it; anything else is a violation.
                            let k = bounds.windows(2).position(|w| pos >= w[0] && pos < w[1]);
                            let coincidence = k.and_then(|k| {
                                let start = bounds[k];
                                let len = accepted_frame_len(&work, start)?;
                                let end = start + len;
                                if len == bounds[k + 1] - start || len < 4 || end > work.len() { return None; }
                                let stored = ((work[end - 2] as u16) << 8) | work[end - 1] as u16;
                                (bitwise_crc16(&work[start..end - 2]) == stored).then_some((k, len, bounds[k + 1] - start))
                            });
                            match coincidence {
                                Some((k, len, orig_len)) => {
                                    st.flips_crc_coincidence += 1;
                                    println!("{}", obj(&[("t", esc("note")), ("msg", esc(&format!("CRC-16 coincidence: flip at byte {} bit {} turns frame {} ({} bytes) into a checksum-valid frame of {} bytes ({})", pos, bit, k, orig_len, len, desc)))]));
                                }
                                None => viol("flip-prefix", &format!("after flip at byte {} bit {} the {} delivered samples are not a whole-frame prefix of the original", pos, bit, d.samples.len()), &work, &[("orig", esc(desc))]),
                            }
                        }
                    }
                }
                work[pos] ^= 1 << bit;
            }
        }
        // every truncation point inside the audio part (total known)
        for cut in audio_start..bytes.len() {
            let d = decode_all(&bytes[..cut]);
            st.truncs += 1;
            match &d.end {
                End::Panic(p) => viol("trunc-panic", &format!("truncation at {} panics: {}", cut, p), &bytes[..cut], &[]),
                End::Eof => {
                    st.truncs_eof += 1;
                    viol("trunc-silent-known-total", &format!("file with declared total cut at byte {} of {} decodes without error", cut, bytes.len()), &bytes[..cut], &[("orig", esc(desc))]);
                }
                End::Err(_) => {
                    st.truncs_err += 1;
                    if !is_frame_prefix(&d.samples, &orig) {
                        viol("trunc-prefix", &format!("truncation at {}: delivered samples not a whole-frame prefix", cut), &bytes[..cut], &[]);
                    }
                }
            }
        }
        // same with STREAMINFO total = 0 (unknown): a cut at a frame boundary is a valid shorter stream
        let z = zero_total(bytes);
        let zorig = decode_all(&z);
        if zorig.end == End::Eof && zorig.samples == orig.samples {
            for cut in audio_start..z.len() {
                let d = decode_all(&z[..cut]);
                st.truncs += 1;
                let at_boundary = bounds.contains(&cut);
                match &d.end {
                    End::Panic(p) => viol("trunc-panic", &format!("truncation at {} panics: {}", cut, p), &z[..cut], &[]),
                    End::Eof => {
                        st.truncs_eof += 1;
                        if !at_boundary {
                            // which frame, and how far into it
                            let fstart = *bounds.iter().filter(|b| **b <= cut).last().unwrap();
                            let into = cut - fstart;
                            let key = if into <= 16 { "trunc-silent-unknown-total-in-header" } else { "trunc-silent-unknown-total" };
                            viol(key, &format!("unknown-total file cut {} bytes into a frame (byte {} of {}) ends cleanly with {} of {} samples", into, cut, z.len(), d.samples.len(), orig.samples.len()), &z[..cut], &[("orig", esc(desc))]);
                        }
                        if !is_frame_prefix(&d.samples, &orig) {
                            viol("trunc-prefix", &format!("truncation at {}: delivered samples not a whole-frame prefix", cut), &z[..cut], &[]);
                        }
                    }
                    End::Err(_) => {
                        st.truncs_err += 1;
                        if !is_frame_prefix(&d.samples, &orig) {
                            viol("trunc-prefix", &format!("truncation at {}: delivered samples not a whole-frame prefix", cut), &z[..cut], &[]);
                        }
                    }
                }
            }
        }

        // ---- (3) must-reject classes on the first frame, checksums repaired
        // frame header layout: sync(14) reserved(1) strategy(1) | bs(4) rate(4) | chan(4) bps(3) reserved(1) | number... | crc8
        let f0 = bounds[0];
        let f1 = bounds[1];
        let hdr_len = {
            // find header length: the crate wrote a fixed-blocksize frame 0 => number is 1 byte;
            // extra bytes depend on the codes
            let bs_code = bytes[f0 + 2] >> 4;
            let rate_code = bytes[f0 + 2] & 0x0F;
            4 + 1 + match bs_code { 6 => 1, 7 => 2, _ => 0 } + match rate_code { 12 => 1, 13 | 14 => 2, _ => 0 }
        };
        let repair = |f: &mut Vec<u8>| {
            let c8 = crc8(&f[f0..f0 + hdr_len - 1]);
            f[f0 + hdr_len - 1] = c8;
            let c16 = crc16(&f[f0..f1 - 2]);
            f[f1 - 2] = (c16 >> 8) as u8;
            f[f1 - 1] = (c16 & 0xFF) as u8;
        };
        let bs_code = bytes[f0 + 2] >> 4;
        let rate_code = bytes[f0 + 2] & 0x0F;
        let mut classes: Vec<(&str, Box<dyn Fn(&mut Vec<u8>)>)> = vec![];
        classes.push(("reserved-blocksize-0000", Box::new(move |f| { f[f0 + 2] &= 0x0F; })));
        classes.push(("invalid-rate-1111", Box::new(move |f| { f[f0 + 2] |= 0x0F; })));
        for c in 11u8..16 {
            classes.push(("reserved-channel-assignment", Box::new(move |f| { f[f0 + 3] = (f[f0 + 3] & 0x0F) | (c << 4); })));
        }
        classes.push(("reserved-bps-011", Box::new(move |f| { f[f0 + 3] = (f[f0 + 3] & 0xF1) | (0b011 << 1); })));
        classes.push(("bad-sync", Box::new(move |f| { f[f0 + 1] &= 0xF3; })));
        for t in [0b000010u8, 0b000111, 0b001101, 0b010000, 0b011111] {
            classes.push(("reserved-subframe-type", Box::new(move |f| { f[f0 + hdr_len] = (f[f0 + hdr_len] & 0x81) | (t << 1); })));
        }
        classes.push(("subframe-padding-bit", Box::new(move |f| { f[f0 + hdr_len] |= 0x80; })));
        // STREAMINFO mismatches: other valid codes of the same header length
        if ![6u8, 7].contains(&bs_code) && ![12u8, 13, 14].contains(&rate_code) {
            let other_rate = if rate_code == 9 { 10 } else { 9 };
            classes.push(("rate-mismatch", Box::new(move |f| { f[f0 + 2] = (f[f0 + 2] & 0xF0) | other_rate; })));
        }
        let chan_code = bytes[f0 + 3] >> 4;
        if chan_code < 8 {
            let other = if chan_code == 0 { 1 } else { chan_code - 1 };
            classes.push(("channels-mismatch", Box::new(move |f| { f[f0 + 3] = (f[f0 + 3] & 0x0F) | (other << 4); })));
        }
        let bps_code = (bytes[f0 + 3] >> 1) & 7;
        {
            let other = if bps_code == 4 { 6 } else { 4 };
            classes.push(("bps-mismatch", Box::new(move |f| { f[f0 + 3] = (f[f0 + 3] & 0xF1) | (other << 1); })));
        }
        for (name, mutate) in classes.iter() {
            let mut f = bytes.clone();
            mutate(&mut f);
            if &f == bytes { continue; }
            repair(&mut f);
            let d = decode_all(&f);
            st.reject_cases += 1;
            match &d.end {
                End::Err(_) => {
                    if !d.samples.is_empty() {
                        viol("reject-delivers", &format!("must-reject class {} delivered {} samples before failing on frame 0", name, d.samples.len()), &f, &[]);
                    }
                }
                End::Eof => viol(&format!("reject-accepted:{}", name), &format!("frame with {} (checksums valid) was decoded without error", name), &f, &[("orig", esc(desc))]),
                End::Panic(p) => viol(&format!("reject-panic:{}", name), &format!("frame with {} panics: {}", name, p), &f, &[]),
            }
        }
        // wrong checksums only
        for (name, off) in [("wrong-crc8", f0 + hdr_len - 1), ("wrong-crc16-hi", f1 - 2), ("wrong-crc16-lo", f1 - 1)] {
            for delta in [1u8, 0x80, 0xFF] {
                let mut f = bytes.clone();
                f[off] ^= delta;
                if name == "wrong-crc8" {
                    // keep CRC-16 consistent so only CRC-8 is wrong
                    let c16 = crc16(&f[f0..f1 - 2]);
                    f[f1 - 2] = (c16 >> 8) as u8;
                    f[f1 - 1] = (c16 & 0xFF) as u8;
                }
                let d = decode_all(&f);
                st.reject_cases += 1;
                if !matches!(d.end, End::Err(_)) {
                    viol(&format!("reject-accepted:{}", name), &format!("{} not rejected: {}", name, d.end.tag()), &f, &[]);
                }
            }
        }

        // ---- (4) MD5 verification
        let v = catch(|| verify_reader(Cursor::new(&bytes[..])));
        st.md5_cases += 1;
        match v {
            Ok(Ok(Verified::MD5Match)) => {}
            other => viol("md5-valid-not-match", &format!("verify on an untouched file: {:?}", other.map(|r| r.map_err(|e| err_class(&e)))), bytes, &[]),
        }
        // MD5 field: bytes 26..42 of the file (4 + 4 + 18)
        for k in [0usize, 7, 15] {
            for bit in [0u8, 7] {
                let mut f = bytes.clone();
                f[26 + k] ^= 1 << bit;
                st.md5_cases += 1;
                let v = catch(|| verify_reader(Cursor::new(&f[..])));
                match v {
                    Ok(Ok(Verified::MD5Mismatch)) => {}
                    other => viol("md5-wrong-digest-accepted", &format!("stored digest altered at byte {} bit {}: verify says {:?}", k, bit, other.map(|r| r.map_err(|e| err_class(&e)))), &f, &[]),
                }
            }
        }
        // ---- (5) a STREAMINFO total that disagrees with the frames present: a clean end is only acceptable with
        // exactly the announced number of samples (never more, never fewer); anything else must be an error
        {
            let ch = (((bytes[20] >> 1) & 7) + 1) as usize;
            let actual = (pcm.len() / ch) as u64;
            let set_total = |f: &mut Vec<u8>, t: u64| {
                f[21] = (f[21] & 0xF0) | ((t >> 32) & 0x0F) as u8;
                f[22] = (t >> 24) as u8; f[23] = (t >> 16) as u8; f[24] = (t >> 8) as u8; f[25] = t as u8;
            };
            let mut totals: Vec<u64> = vec![1, actual / 2, actual.saturating_sub(1), actual.saturating_sub(15), actual.saturating_sub(16), actual.saturating_sub(17), actual + 1, actual + 16, actual * 2 + 3];
            totals.retain(|t| *t >= 1 && *t != actual);
            totals.sort(); totals.dedup();
            for t in totals {
                let mut f = bytes.clone();
                set_total(&mut f, t);
                let d = decode_all(&f);
                st.total_cases += 1;
                match &d.end {
                    End::Eof => {
                        if d.samples.len() as u64 != t * ch as u64 {
                            viol("declared-total-ignored", &format!("STREAMINFO announces {} samples per channel, the frames hold {}; decoding ended cleanly with {} samples per channel", t, actual, d.samples.len() / ch), &f, &[("declared", t.to_string()), ("present", actual.to_string())]);
                        } else if d.samples[..] != pcm[..d.samples.len()] {
                            viol("declared-total-wrong-samples", "a shorter declared total yields samples that are not a prefix of the PCM", &f, &[]);
                        }
                    }
                    End::Err(_) => {}
                    End::Panic(p) => viol("declared-total-panic", &format!("declared total {} vs {} present: panic {}", t, actual, p), &f, &[]),
                }
            }
        }
        {
            let mut f = bytes.clone();
            for k in 0..16 { f[26 + k] = 0; }
            st.md5_cases += 1;
            match catch(|| verify_reader(Cursor::new(&f[..]))) {
                Ok(Ok(Verified::NoMD5)) => {}
                other => viol("md5-absent", &format!("all-zero digest: verify says {:?}", other.map(|r| r.map_err(|e| err_class(&e)))), &f, &[]),
            }
        }
    }

    let kinds: Vec<String> = st.err_kinds.iter().map(|(k, v)| format!("{}:{}", esc(k), v)).collect();
    println!("{}", obj(&[
        ("t", esc("stat")), ("files", st.files.to_string()), ("flips", st.flips.to_string()),
        ("flips_err", st.flips_err.to_string()), ("flips_panic", st.flips_panic.to_string()), ("flips_silent", st.flips_silent.to_string()),
        ("truncs", st.truncs.to_string()), ("truncs_err", st.truncs_err.to_string()), ("truncs_eof", st.truncs_eof.to_string()),
        ("reject_cases", st.reject_cases.to_string()), ("md5_cases", st.md5_cases.to_string()), ("declared_total_cases", st.total_cases.to_string()), ("flips_crc16_coincidences_different_extent", st.flips_crc_coincidence.to_string()), ("crc_cases", ncrc.to_string()),
        ("flip_outcomes", format!("{{{}}}", kinds.join(","))),
    ]));
}
