(* E2E/SampleE2E.v — C01 for FlacSampleWriter stated on the samples themselves: samples in range, any chunking
   of the writes, finalize; the finished file decodes to exactly the whole PCM frames that were written. *)
From Coq Require Import List NArith ZArith Lia.
From FlacBase Require Import Res.
From FlacCodec Require Ast Stream Header Wf Enc Enc_proofs.
From FlacWriters Require Import Meta Params Params_proofs Finalize Writers Lists_proofs Writers_proofs New_proofs.
From FlacE2E Require Import Bridge E2E Sample.
Import ListNotations.
Open Scope N_scope.
Local Arguments N.add : simpl never.
Local Arguments N.mul : simpl never.
Local Arguments N.div : simpl never.
Local Arguments N.modulo : simpl never.
Local Arguments N.sub : simpl never.

Module EP := FlacCodec.Enc_proofs.
Module CS := FlacCodec.Stream.

Section SampleE2E.
Variable o : FlacCodec.Enc.eopts.
Variable L : FlacCodec.Enc.oracle.
Variable md5 : list N -> list N.
Hypothesis md5_length : forall l, length (md5 l) = 16%nat.
Variable p : profile.
Variable rate bps : N.

(* one chunk of n whole PCM frames becomes a block in range whose interleaving is the chunk *)
Lemma chunk_block_ok si ch bs c b n :
  1 <= ch -> ch <= 8 -> 1 <= bps -> bps <= 32 -> bs <= 65535 ->
  FlacCodec.Ast.si_bps si = bps -> FlacCodec.Ast.si_channels si = ch -> FlacCodec.Ast.si_max_bs si = bs ->
  (1 <= n)%nat -> N.of_nat n <= bs -> length c = (N.to_nat ch * n)%nat ->
  forallb (FlacCodec.Wf.fits bps) c = true ->
  fill_from_samples ch c = Ok b ->
  EP.block_ok si bps b /\ CS.interleave_frame b = c /\ FlacCodec.Enc.block_len b = N.of_nat n.
Proof.
  intros Hc1 Hc8 Hb1 Hb32 Hbs Sb Sc Sm Hn Hnb Hlen Hfit Hfill.
  destruct (fill_from_samples_sem ch c n b Hc1 Hc8 Hn Hlen Hfill) as (Lb & Fl & Hi & Hin).
  split; [|split; [exact Hi|]].
  - unfold EP.block_ok. rewrite Lb. split; [lia|]. split; [exact Hb1|]. split; [exact Hb32|]. split; [exact Sb|].
    split; [rewrite Sc; lia|]. exists (N.of_nat n). split; [lia|]. split; [lia|]. split; [rewrite Sm; exact Hnb|].
    apply Forall_forall. intros c' Hc'. rewrite Forall_forall in Fl. split; [rewrite (Fl _ Hc'); reflexivity|].
    apply forallb_forall. intros z Hz. rewrite forallb_forall in Hfit. apply Hfit. apply Hin.
    apply in_concat. exists c'. split; assumption.
  - destruct b as [|c0 b']; [cbn in Lb; lia|]. cbn [FlacCodec.Enc.block_len]. apply Forall_cons_iff in Fl. destruct Fl as [-> _]. reflexivity.
Qed.

Lemma firstn_whole {A} c m (a r : list A) : (1 <= c)%nat -> length a = (c * m)%nat ->
  firstn (c * (length (a ++ r) / c)) (a ++ r) = a ++ firstn (c * (length r / c)) r.
Proof.
  intros Hc La. rewrite app_length, La. rewrite (Nat.mul_comm c m), Nat.div_add_l by lia.
  rewrite Nat.mul_add_distr_l, (Nat.mul_comm c m), (Nat.mul_comm m c), <- La. apply firstn_app_2.
Qed.

Definition chunk_cond (ch bs : N) (c : list Z) : Prop :=
  exists n, (1 <= n)%nat /\ N.of_nat n <= bs /\ length c = (N.to_nat ch * n)%nat /\ forallb (FlacCodec.Wf.fits bps) c = true.

Lemma chunks_blocks_ok si ch bs : 1 <= ch -> ch <= 8 -> 1 <= bps -> bps <= 32 -> bs <= 65535 ->
  FlacCodec.Ast.si_bps si = bps -> FlacCodec.Ast.si_channels si = ch -> FlacCodec.Ast.si_max_bs si = bs ->
  forall cl bl, Forall2 (fun c b => fill_from_samples ch c = Ok b) cl bl -> Forall (chunk_cond ch bs) cl ->
  Forall (EP.block_ok si bps) bl /\ concat (map CS.interleave_frame bl) = concat cl /\
  (N.to_nat (EP.blocks_samples bl) <= length (concat cl))%nat /\ length bl = length cl /\
  Forall2 (fun c b => N.to_nat (FlacCodec.Enc.block_len b) * N.to_nat ch = length c)%nat cl bl.
Proof.
  intros Hc1 Hc8 Hb1 Hb32 Hbs Sb Sc Sm. induction 1 as [|c b cl bl Hfill _ IH]; intros Hcond.
  - repeat split; constructor.
  - apply Forall_cons_iff in Hcond. destruct Hcond as [(n & Hn & Hnb & Hlen & Hfit) Hrest].
    destruct (IH Hrest) as (A & B & C & D & E).
    destruct (chunk_block_ok si ch bs c b n Hc1 Hc8 Hb1 Hb32 Hbs Sb Sc Sm Hn Hnb Hlen Hfit Hfill) as (K1 & K2 & K3).
    split; [constructor; assumption|]. split; [cbn [map concat]; rewrite K2, B; reflexivity|].
    split; [|split; [cbn [length]; lia|constructor; [rewrite K3, Nat2N.id; lia|exact E]]].
    unfold EP.blocks_samples in *. cbn [fold_right concat]. rewrite app_length, K3.
    assert (n <= N.to_nat ch * n)%nat by nia. lia.
Qed.

Lemma short_only_last_app si bl1 lastbl : Forall (fun b => 14 < FlacCodec.Enc.block_len b) bl1 -> (length lastbl <= 1)%nat ->
  EP.short_only_last si (bl1 ++ lastbl).
Proof.
  intros F Hl. induction F as [|b bl1 Hb F IH]; cbn [app EP.short_only_last].
  - destruct lastbl as [|x [|y r]]; cbn [EP.short_only_last length] in *; try lia; auto.
  - split; [right; left; exact Hb|exact IH].
Qed.

Lemma full_but_last_app si bl1 lastbl : Forall (fun b => FlacCodec.Enc.block_len b = FlacCodec.Ast.si_max_bs si) bl1 ->
  (length lastbl <= 1)%nat -> FlacCodec.File.full_but_last si (bl1 ++ lastbl).
Proof.
  intros F Hl. induction F as [|b bl1 Hb F IH]; cbn [app FlacCodec.File.full_but_last].
  - destruct lastbl as [|x [|y r]]; cbn [FlacCodec.File.full_but_last length] in *; try lia; auto.
  - split; [right; exact Hb|exact IH].
Qed.

Theorem e2e_sample_pcm wo ch total w chunks f :
  options_wf wo ->
  sample_new p [] wo rate bps ch total = Ok w ->
  sample_run (encB o L rate bps) md5 p w chunks = Ok f ->
  forallb (FlacCodec.Wf.fits bps) (concat chunks) = true ->
  N.of_nat (length (concat chunks)) < 2 ^ 36 ->
  exists blocks,
    CS.dec_stream (f_stream f) = Some (conv_si (f_si f), map CS.interleave_frame blocks, CS.EndEof) /\
    concat (map CS.interleave_frame blocks) =
      firstn (N.to_nat ch * (length (concat chunks) / N.to_nat ch)) (concat chunks) /\
    (* the blocks themselves, for the readers area *)
    Forall (EP.block_ok (conv_si (f_si f)) bps) blocks /\ EP.short_only_last (conv_si (f_si f)) blocks /\
    FlacCodec.Ast.si_total (conv_si (f_si f)) = EP.blocks_samples blocks /\
    FlacCodec.Ast.si_channels (conv_si (f_si f)) = ch /\ EP.blocks_samples blocks < 2 ^ 36 /\
    (* C02: the strict stream validator accepts the finished file and yields the same blocks *)
    FlacCodec.Spec.spec_stream (f_stream f) = Ok (conv_si (f_si f), blocks) /\
    (* the Encoder calls behind the run *)
    reach o L p rate bps (sw_enc w) blocks (f_enc f).
Proof.
  intros Hwf Hnew Hrun Hfits Hlen36.
  pose proof (sample_new_wf p [] wo rate bps ch total w Hwf Hnew) as Hsw.
  rewrite (sample_chunking (encB o L rate bps) md5 p w chunks Hsw) in Hrun.
  set (all := concat chunks) in *.
  destruct Hwf as ((Hbs16 & Hbs64k) & _).
  (* the writer the constructor returns *)
  unfold sample_new in Hnew. apply bind_ok in Hnew. destruct Hnew as (bps' & Hbps' & Hnew).
  apply bind_ok in Hnew. destruct Hnew as (t & Ht & Hnew). apply bind_ok in Hnew. destruct Hnew as (e0 & He0 & Hnew).
  injection Hnew as <-.
  assert (Eb : bps' = bps /\ 1 <= bps /\ bps <= 32).
  { unfold signed_bit_count_32 in Hbps'. destruct ((1 <=? bps) && (bps <=? 32)) eqn:Eq; [|discriminate]. injection Hbps' as <-.
    apply andb_prop in Eq. destruct Eq as [A B]. apply N.leb_le in A, B. auto. }
  destruct Eb as (-> & Hb1 & Hb32).
  assert (Hch : 1 <= ch /\ ch <= 8).
  { unfold encoder_new in He0. apply bind_ok in He0. destruct He0 as ([] & Hv & _). unfold encoder_new_validate in Hv.
    destruct (rate <? 1048576); [|discriminate]. destruct ((1 <=? ch) && (ch <=? 8)) eqn:Eq; [|discriminate].
    apply andb_prop in Eq. destruct Eq as [A B]. apply N.leb_le in A, B. auto. }
  destruct Hch as [Hc1 Hc8].
  set (bs := o_block_size wo) in *.
  destruct (encoder_new_fresh p rate bps wo ch t e0 He0) as (P0 & F0 & K0 & W0 & Sr & Sb & Sc & Smax & Smin & St).
  (* one write of everything, then finalize *)
  unfold sample_run in Hrun. cbn [fold_res] in Hrun. apply bind_ok in Hrun. destruct Hrun as (w1 & Hw1 & Hfin).
  apply bind_ok in Hw1. destruct Hw1 as (w1' & Hw1 & Hw1'). injection Hw1' as <-.
  unfold sample_write in Hw1. cbn [sw_buf sw_frame_sample_size sw_enc sw_channels sw_bytes_per_sample app] in Hw1.
  destruct (N.eqb_spec (ch * bs) 0) as [|Hk0]; [discriminate|].
  set (k := N.to_nat (ch * bs)) in *.
  assert (Hk : (0 < k)%nat) by (unfold k; lia).
  destruct (drain k all) as [cs rest] eqn:Ed.
  apply bind_ok in Hw1. destruct Hw1 as (e1 & He1 & Hw1). injection Hw1 as <-.
  pose proof (drain_spec k Hk all cs rest Ed) as (Eall & Fcs & Lrest).
  destruct (chunks_reach_blocks o L p rate bps _ _ _ _ _ He1) as (bl1 & Hf1 & Hr1).
  (* the final partial block *)
  unfold sample_finalize in Hfin. cbn [sw_buf sw_channels sw_bytes_per_sample sw_enc] in Hfin.
  apply bind_ok in Hfin. destruct Hfin as (e2 & He2 & Hfin).
  set (len := N.of_nat (length rest)) in *.
  set (whole := firstn (N.to_nat (len - len mod ch)) rest) in *.
  assert (Hlast : exists wholes lastbl, Forall2 (fun c b => fill_from_samples ch c = Ok b) wholes lastbl /\ reach o L p rate bps e1 lastbl e2 /\
                    wholes = (if ch <=? len then [whole] else []) /\ (length lastbl <= 1)%nat).
  { destruct (ch <=? len) eqn:Ecl.
    - destruct (ch =? 0); [discriminate|]. destruct (chunk_reach_block o L p rate bps _ _ _ _ _ He2) as (b & Hfb & Hrb).
      exists [whole], [b]. split; [repeat constructor; exact Hfb|]. split; [exact Hrb|]. split; [reflexivity|cbn; lia].
    - injection He2 as <-. exists (@nil (list Z)), (@nil block). split; [constructor|]. split; [apply reach_refl|]. split; [reflexivity|cbn; lia]. }
  destruct Hlast as (wholes & lastbl & Hf2 & Hr2 & Ewh & Llast).
  pose proof (reach_trans o L p rate bps _ _ _ _ _ Hr1 Hr2) as Hr.
  (* STREAMINFO of the finished file *)
  destruct (finalize_si md5 p e2 f Hfin) as (Ef & Fr & Fc & Fb & Fmax & Fmin).
  destruct (reach_inv o L md5 md5_length p rate bps e0 _ e2 Hr) as (_ & R1 & R2 & R3 & R4 & R5 & _).
  set (si := conv_si (f_si f)).
  assert (Ssb : FlacCodec.Ast.si_bps si = bps) by (unfold si, conv_si; cbn [FlacCodec.Ast.si_bps]; rewrite Fb, R3, Sb; reflexivity).
  assert (Ssc : FlacCodec.Ast.si_channels si = ch) by (unfold si, conv_si; cbn [FlacCodec.Ast.si_channels]; rewrite Fc, R2, Sc; reflexivity).
  assert (Ssm : FlacCodec.Ast.si_max_bs si = bs) by (unfold si, conv_si; cbn [FlacCodec.Ast.si_max_bs]; rewrite Fmax, R5, Smax; reflexivity).
  (* every chunk is a run of whole PCM frames in range *)
  assert (Hfit_all : forall c, (exists a b, all = a ++ c ++ b) -> forallb (FlacCodec.Wf.fits bps) c = true).
  { intros c (a & b & E). apply forallb_forall. intros z Hz. rewrite forallb_forall in Hfits. apply Hfits. rewrite E.
    apply in_or_app. right. apply in_or_app. left. exact Hz. }
  assert (Hkk : k = (N.to_nat ch * N.to_nat bs)%nat) by (unfold k; lia).
  assert (Hcs : Forall (chunk_cond ch bs) cs).
  { apply Forall_forall. intros c Hc. exists (N.to_nat bs). rewrite Forall_forall in Fcs.
    split; [lia|]. split; [lia|]. split; [rewrite (Fcs _ Hc); exact Hkk|].
    apply Hfit_all. apply in_split in Hc. destruct Hc as (l1 & l2 & ->). exists (concat l1), (concat l2 ++ rest).
    rewrite Eall, concat_app. cbn [concat]. rewrite <- !app_assoc. reflexivity. }
  assert (Hrl : N.to_nat len = length rest) by (unfold len; lia).
  assert (Hwh : Forall (chunk_cond ch bs) wholes /\ concat wholes = firstn (N.to_nat ch * (length rest / N.to_nat ch)) rest).
  { rewrite Ewh. destruct (N.leb_spec ch len) as [Hle|Hgt].
    - assert (Ew : N.to_nat (len - len mod ch) = (N.to_nat ch * (length rest / N.to_nat ch))%nat).
      { pose proof (N.div_mod len ch ltac:(lia)) as D. replace (len - len mod ch) with (ch * (len / ch)) by lia.
        rewrite N2Nat.inj_mul, N2Nat.inj_div, Hrl. reflexivity. }
      split.
      + constructor; [|constructor]. exists (length rest / N.to_nat ch)%nat.
        assert (Hq : (1 <= length rest / N.to_nat ch)%nat) by (apply Nat.div_le_lower_bound; lia).
        assert (Hq2 : (length rest / N.to_nat ch < N.to_nat bs)%nat) by (apply Nat.div_lt_upper_bound; lia).
        split; [exact Hq|]. split; [lia|]. split.
        * unfold whole. rewrite firstn_length, Ew.
          pose proof (Nat.mul_div_le (length rest) (N.to_nat ch) ltac:(lia)). lia.
        * apply Hfit_all. exists (concat cs), (skipn (N.to_nat (len - len mod ch)) rest). unfold whole.
          rewrite firstn_skipn. exact Eall.
      + cbn [concat]. rewrite app_nil_r. unfold whole. rewrite Ew. reflexivity.
    - split; [constructor|]. cbn [concat].
      assert (length rest / N.to_nat ch = 0)%nat by (apply Nat.div_small; lia). rewrite H, Nat.mul_0_r. reflexivity. }
  destruct Hwh as [Hwh Hwc].
  assert (Hf12 : Forall2 (fun c b => fill_from_samples ch c = Ok b) (cs ++ wholes) (bl1 ++ lastbl)) by (apply Forall2_app; assumption).
  destruct (chunks_blocks_ok si ch bs Hc1 Hc8 Hb1 Hb32 ltac:(lia) Ssb Ssc Ssm _ _ Hf12 ltac:(apply Forall_app; split; assumption))
    as (Hok & Hcat & Hsum & Hcount & Hlens).
  assert (Hsub : (length (concat (cs ++ wholes)) <= length all)%nat).
  { rewrite concat_app, app_length, Hwc, firstn_length, Eall, app_length. lia. }
  assert (Hfullbl : Forall (fun b => FlacCodec.Enc.block_len b = bs) bl1).
  { destruct (chunks_blocks_ok si ch bs Hc1 Hc8 Hb1 Hb32 ltac:(lia) Ssb Ssc Ssm _ _ Hf1 Hcs) as (_ & _ & _ & _ & Hl1).
    clear - Hl1 Fcs Hkk Hbs16 Hc1. induction Hl1 as [|c b cl bl Hcb _ IH]; constructor.
    * apply Forall_cons_iff in Fcs. destruct Fcs as [Lc _]. rewrite Lc, Hkk in Hcb.
      assert (N.to_nat (FlacCodec.Enc.block_len b) = N.to_nat bs) by nia. lia.
    * apply IH. apply Forall_cons_iff in Fcs. tauto. }
  assert (Hshape : EP.short_only_last si (bl1 ++ lastbl)).
  { apply short_only_last_app; [|exact Llast]. eapply Forall_impl; [|exact Hfullbl]. intros b Hb. cbn beta in Hb. rewrite Hb. lia. }
  assert (Hfull : FlacCodec.File.full_but_last si (bl1 ++ lastbl)).
  { apply full_but_last_app; [|exact Llast]. rewrite Ssm. exact Hfullbl. }
  assert (Hcnt : (length (bl1 ++ lastbl) <= length (concat (cs ++ wholes)))%nat).
  { rewrite Hcount. clear - Hcs Hwh Hc1. assert (F : Forall (chunk_cond ch bs) (cs ++ wholes)) by (apply Forall_app; split; assumption).
    induction F as [|c l (n & Hn & _ & Hl & _) _ IH]; cbn [concat length]; [lia|]. rewrite app_length. nia. }
  assert (H3664 : 2 ^ 36 < 2 ^ 64) by (apply N.pow_lt_mono_r; lia).
  destruct (e2e_encoder o L md5 md5_length p rate bps wo ch t e0 (bl1 ++ lastbl) e2 f He0 Hr Hfin Hok Hshape) as [Hdec Htot].
  { unfold FlacCodec.Header.MAX_FRAME_NUMBER. change (2 ^ 36 - 1 + 1) with (2 ^ 36). lia. }
  { lia. }
  fold si in Hdec, Htot.
  assert (Hspec : FlacCodec.Spec.spec_stream (f_stream f) = Ok (si, bl1 ++ lastbl)).
  { apply (e2e_encoder_spec o L md5 md5_length p rate bps wo ch t e0 (bl1 ++ lastbl) e2 f He0 Hr Hfin Hok Hfull).
    - unfold FlacCodec.Header.MAX_FRAME_NUMBER. change (2 ^ 36 - 1 + 1) with (2 ^ 36). lia.
    - lia.
    - fold bs. lia. }
  exists (bl1 ++ lastbl). split; [exact Hdec|]. split; [|split; [exact Hok|split; [exact Hshape|split; [exact Htot|split; [exact Ssc|split; [lia|split; [exact Hspec|cbn [sw_enc]; rewrite Ef; exact Hr]]]]]]].
  rewrite Hcat, concat_app, Hwc.
    (* concat cs ++ the whole PCM frames of the rest = the whole PCM frames of everything *)
    assert (Lcs : length (concat cs) = (k * length cs)%nat).
    { clear - Fcs. induction Fcs as [|c l Hc _ IH]; cbn [concat length]; [lia|]. rewrite app_length, IH, Hc. lia. }
    rewrite Eall. symmetry. apply (firstn_whole (N.to_nat ch) (N.to_nat bs * length cs)); [lia|]. rewrite Lcs, Hkk. lia.
Qed.

End SampleE2E.
