(* readers/Lists_proofs.v — facts about the N-indexed list helpers of RNum.v and prefixes. *)
From FlacReaders Require Import Spec.
Open Scope N_scope.

Lemma splitN_spec {A} (l : list A) : forall n,
  splitN n l = (firstn (N.to_nat n) l, skipn (N.to_nat n) l).
Proof.
  induction l as [|x r IH]; intros n; cbn [splitN].
  - now rewrite firstn_nil, skipn_nil.
  - destruct (N.eqb_spec n 0) as [->|Hn]; [reflexivity|].
    rewrite IH. replace (N.to_nat n) with (S (N.to_nat (n - 1))) by lia. reflexivity.
Qed.

Lemma takeN_firstn {A} n (l : list A) : takeN n l = firstn (N.to_nat n) l.
Proof. unfold takeN. now rewrite splitN_spec. Qed.
Lemma dropN_skipn {A} n (l : list A) : dropN n l = skipn (N.to_nat n) l.
Proof. unfold dropN. now rewrite splitN_spec. Qed.
Lemma splitN_take_drop {A} n (l : list A) : splitN n l = (takeN n l, dropN n l).
Proof. unfold takeN, dropN. now destruct (splitN n l). Qed.

Lemma lenN_app {A} (a b : list A) : lenN (a ++ b) = lenN a + lenN b.
Proof. unfold lenN. rewrite app_length. lia. Qed.
Lemma lenN_nil {A} : lenN (@nil A) = 0.
Proof. reflexivity. Qed.
Lemma lenN_cons {A} (x : A) l : lenN (x :: l) = 1 + lenN l.
Proof. unfold lenN. cbn [length]. lia. Qed.
Lemma lenN_0 {A} (l : list A) : lenN l = 0 -> l = [].
Proof. destruct l; [auto|]. rewrite lenN_cons. lia. Qed.
Lemma lenN_pos {A} (l : list A) : l <> [] -> 0 < lenN l.
Proof. destruct l; [congruence|]. rewrite lenN_cons. lia. Qed.

Lemma take_drop {A} n (l : list A) : takeN n l ++ dropN n l = l.
Proof. rewrite takeN_firstn, dropN_skipn. apply firstn_skipn. Qed.

Lemma lenN_takeN {A} n (l : list A) : lenN (takeN n l) = N.min n (lenN l).
Proof. rewrite takeN_firstn. unfold lenN. rewrite firstn_length. lia. Qed.
Lemma lenN_dropN {A} n (l : list A) : lenN (dropN n l) = lenN l - n.
Proof. rewrite dropN_skipn. unfold lenN. rewrite skipn_length. lia. Qed.

Lemma dropN_0 {A} (l : list A) : dropN 0 l = l.
Proof. now rewrite dropN_skipn. Qed.
Lemma takeN_0 {A} (l : list A) : takeN 0 l = [].
Proof. now rewrite takeN_firstn. Qed.
Lemma dropN_nil {A} n : dropN n (@nil A) = [].
Proof. rewrite dropN_skipn. apply skipn_nil. Qed.
Lemma takeN_nil {A} n : takeN n (@nil A) = [].
Proof. rewrite takeN_firstn. apply firstn_nil. Qed.

Lemma dropN_all {A} n (l : list A) : lenN l <= n -> dropN n l = [].
Proof. intros H. rewrite dropN_skipn. apply skipn_all2. unfold lenN in H. lia. Qed.
Lemma takeN_all {A} n (l : list A) : lenN l <= n -> takeN n l = l.
Proof. intros H. rewrite takeN_firstn. apply firstn_all2. unfold lenN in H. lia. Qed.

Lemma dropN_app_len {A} (a b : list A) : dropN (lenN a) (a ++ b) = b.
Proof.
  rewrite dropN_skipn. unfold lenN. rewrite Nat2N.id.
  rewrite skipn_app, skipn_all, Nat.sub_diag. reflexivity.
Qed.
Lemma takeN_app_len {A} (a b : list A) : takeN (lenN a) (a ++ b) = a.
Proof.
  rewrite takeN_firstn. unfold lenN. rewrite Nat2N.id.
  rewrite firstn_app, firstn_all, Nat.sub_diag, firstn_O. apply app_nil_r.
Qed.

Lemma dropN_add {A} a b (l : list A) : dropN (a + b) l = dropN b (dropN a l).
Proof.
  rewrite !dropN_skipn. replace (N.to_nat (a + b)) with (N.to_nat a + N.to_nat b)%nat by lia.
  revert l. generalize (N.to_nat a) as i. induction i as [|i IH]; intros l; cbn; [reflexivity|].
  destruct l as [|x l]; cbn; [now rewrite skipn_nil | apply IH].
Qed.

Lemma dropN_app_le {A} n (a b : list A) : n <= lenN a -> dropN n (a ++ b) = dropN n a ++ b.
Proof.
  intros H. rewrite !dropN_skipn, skipn_app. unfold lenN in H.
  replace (N.to_nat n - length a)%nat with O by lia. reflexivity.
Qed.
Lemma takeN_app_le {A} n (a b : list A) : n <= lenN a -> takeN n (a ++ b) = takeN n a.
Proof.
  intros H. rewrite !takeN_firstn, firstn_app. unfold lenN in H.
  replace (N.to_nat n - length a)%nat with O by lia. rewrite firstn_O. apply app_nil_r.
Qed.
Lemma dropN_app_ge {A} n (a b : list A) : lenN a <= n -> dropN n (a ++ b) = dropN (n - lenN a) b.
Proof.
  intros H. rewrite !dropN_skipn, skipn_app. unfold lenN in *.
  rewrite skipn_all2 by lia. cbn [app]. f_equal. lia.
Qed.

Lemma takeN_takeN_dropN {A} a b (l : list A) : takeN a l ++ takeN b (dropN a l) = takeN (a + b) l.
Proof.
  rewrite !takeN_firstn, dropN_skipn.
  replace (N.to_nat (a + b)) with (N.to_nat a + N.to_nat b)%nat by lia.
  revert l. generalize (N.to_nat a) as i. induction i as [|i IH]; intros l; cbn.
  - reflexivity.
  - destruct l as [|x l]; cbn.
    + now rewrite firstn_nil.
    + now rewrite IH.
Qed.

Lemma lenN_map {A B} (f : A -> B) l : lenN (map f l) = lenN l.
Proof. unfold lenN. now rewrite map_length. Qed.
Lemma lenN_repeatN {A} (x : A) n : lenN (repeatN x n) = n.
Proof. unfold lenN, repeatN. rewrite repeat_length. lia. Qed.
Lemma lenN_rev {A} (l : list A) : lenN (rev l) = lenN l.
Proof. unfold lenN. now rewrite rev_length. Qed.

(* prefixes *)
Lemma prefix_nil {A} (l : list A) : prefix [] l.
Proof. now exists l. Qed.
Lemma prefix_refl {A} (l : list A) : prefix l l.
Proof. exists []. now rewrite app_nil_r. Qed.
Lemma prefix_app {A} (a b : list A) : prefix a (a ++ b).
Proof. now exists b. Qed.
Lemma prefix_takeN {A} n (l : list A) : prefix (takeN n l) l.
Proof. exists (dropN n l). symmetry. apply take_drop. Qed.
Lemma prefix_of_nil {A} (xs : list A) : prefix xs [] -> xs = [].
Proof. intros [r H]. symmetry in H. now apply app_eq_nil in H. Qed.
Lemma prefix_is_takeN {A} (xs l : list A) : prefix xs l -> xs = takeN (lenN xs) l.
Proof. intros [r ->]. now rewrite takeN_app_len. Qed.
Lemma prefix_len {A} (xs l : list A) : prefix xs l -> lenN xs <= lenN l.
Proof. intros [r ->]. rewrite lenN_app. lia. Qed.
