(* metadata/Bytes.v — byte-level parser monad and fixed-width big/little-endian fields.
   A stream is a list of bytes (N, each < 256).  bitstream-io's BitReader<BigEndian> over a
   byte-aligned position reads whole-byte fields MSB first; sub-byte fields go through
   FlacBase.Bits (bits_of_bytes / rd / wr).  No proofs here (see Bytes_proofs.v). *)
From FlacBase Require Export Bits.
Open Scope N_scope.

Definition byte (b : N) : Prop := b < 256.
Definition byteb (b : N) : bool := b <? 256.

(* ---- lengths and splitting with binary counters (never a data-sized nat) *)
Fixpoint lenN {A} (l : list A) : N :=
  match l with [] => 0 | _ :: r => N.succ (lenN r) end.

(* first n elements and the rest; None when fewer than n are available (read_exact -> UnexpectedEof) *)
Fixpoint splitN {A} (n : N) (l : list A) : option (list A * list A) :=
  match l with
  | [] => if n =? 0 then Some ([], []) else None
  | x :: r => if n =? 0 then Some ([], l)
              else match splitN (N.pred n) r with
                   | Some (a, b) => Some (x :: a, b)
                   | None => None
                   end
  end.

(* slice[..min(n,len)] and the remainder: what a LimitedReader of `n` bytes can see *)
Fixpoint takeN {A} (n : N) (l : list A) : list A :=
  match l with
  | [] => []
  | x :: r => if n =? 0 then [] else x :: takeN (N.pred n) r
  end.
Fixpoint dropN {A} (n : N) (l : list A) : list A :=
  match l with
  | [] => []
  | x :: r => if n =? 0 then l else dropN (N.pred n) r
  end.

(* n zero bytes; n is a byte count carried as N, recursion on a positive *)
Definition zerosN (n : N) : list N :=
  N.iter n (fun l => 0 :: l) [].

(* ---- parser monad over byte lists *)
Definition parser (A : Type) := list N -> res (A * list N).
Definition pret {A} (a : A) : parser A := fun s => Ok (a, s).
Definition pfail {A} (e : err) : parser A := fun _ => Err e.
Definition ppanic {A} (k : panic_kind) : parser A := fun _ => Panic k.
Definition pbind {A B} (p : parser A) (f : A -> parser B) : parser B :=
  fun s => match p s with
           | Ok (a, s') => f a s'
           | Err e => Err e
           | Panic k => Panic k
           end.
Definition plift {A} (r : res A) : parser A :=
  fun s => match r with Ok a => Ok (a, s) | Err e => Err e | Panic k => Panic k end.

Declare Scope parser_scope.
Delimit Scope parser_scope with parser.
Notation "x <~ a ;; b" := (pbind a (fun x => b))
  (at level 61, a at next level, right associativity) : parser_scope.
Notation "' p <~ a ;; b" := (pbind a (fun p => b))
  (at level 61, p pattern, a at next level, right associativity) : parser_scope.
Open Scope parser_scope.

(* read_exact / read_to_vec / read_to::<[u8; n]>: n bytes or UnexpectedEof *)
Definition take (n : N) : parser (list N) :=
  fun s => match splitN n s with Some (a, r) => Ok (a, r) | None => Err EEof end.
(* skip(8 * n) on a byte-aligned reader *)
Definition skip (n : N) : parser unit :=
  fun s => match splitN n s with Some (_, r) => Ok (tt, r) | None => Err EEof end.

(* ---- big-endian / little-endian unsigned fields of k bytes *)
Definition be_val (l : list N) : N := fold_left (fun a b => a * 256 + b) l 0.
Fixpoint be_bytes (k : nat) (v : N) : list N :=
  match k with
  | O => []
  | S j => (v / 256 ^ N.of_nat j) mod 256 :: be_bytes j v
  end.
Definition le_val (l : list N) : N := be_val (rev l).
Definition le_bytes (k : nat) (v : N) : list N := rev (be_bytes k v).

(* r.read_to::<uK>() / r.read::<8K, _>() *)
Definition read_be (k : nat) : parser N := bs <~ take (N.of_nat k) ;; pret (be_val bs).
(* r.read_as_to::<LittleEndian, u32>() *)
Definition read_le (k : nat) : parser N := bs <~ take (N.of_nat k) ;; pret (le_val bs).

Definition all_zero (l : list N) : bool := forallb (fun b => b =? 0) l.

(* ---- Rust integer operations whose overflow behaviour depends on the build profile *)
Inductive profile := Debug | Release.

Definition add_w (p : profile) (bits : N) (a b : N) : res N :=
  if a + b <? 2 ^ bits then Ok (a + b)
  else match p with Debug => Panic POverflow | Release => Ok ((a + b) mod 2 ^ bits) end.
Definition sub_w (p : profile) (bits : N) (a b : N) : res N :=
  if b <=? a then Ok (a - b)
  else match p with Debug => Panic POverflow | Release => Ok ((a + 2 ^ bits - b) mod 2 ^ bits) end.
Definition mul_w (p : profile) (bits : N) (a b : N) : res N :=
  if a * b <? 2 ^ bits then Ok (a * b)
  else match p with Debug => Panic POverflow | Release => Ok ((a * b) mod 2 ^ bits) end.
(* `/` and `%` panic on a zero divisor in both profiles *)
Definition div_w (a b : N) : res N := if b =? 0 then Panic PDivZero else Ok (a / b).
Definition rem_w (a b : N) : res N := if b =? 0 then Panic PDivZero else Ok (a mod b).
