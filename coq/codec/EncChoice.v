(* Codec/EncChoice.v — the decision structure of encode.rs encode_subframe (candidate selection and
   the verbatim fallback) over ORACLE candidates: whatever the float heuristics (window, LPC
   analysis, Rice parameter estimates) produce, the chosen subframe is never larger than the
   verbatim coding.  C19's per-subframe bound follows for all inputs and all heuristics. *)
From FlacCodec Require Import Write.
Open Scope N_scope.

Definition sf_bits (bps : N) (sf : subframe) : N := N.of_nat (length (write_subframe bps sf)).

(* number of trailing zero bits common to all samples (None: every sample is 0) *)
Fixpoint tz_pos (p : positive) : N := match p with xO q => 1 + tz_pos q | _ => 0 end.
Definition tz (z : Z) : option N := match z with Z0 => None | Zpos p => Some (tz_pos p) | Zneg p => Some (tz_pos p) end.
Definition common_wasted (xs : list Z) : option N :=
  fold_left (fun acc x => match tz x, acc with
                          | None, a => a
                          | Some t, None => Some t
                          | Some t, Some a => Some (N.min t a) end) xs None.

Definition verbatim_sf (w : N) (ys : list Z) : subframe := {| sf_wasted := w; sf_body := BVerb ys |}.

(* encode.rs:2855-2981.  `fixed`, `lpc`: what encode_fixed_subframe / encode_lpc_subframe produced
   (None = Err); `lpc = None` at the outer level: no LPC attempted (max_lpc_order = None) *)
Definition enc_subframe (bps : N) (xs : list Z) (fixed : option subframe) (lpc : option (option subframe)) : subframe :=
  match common_wasted xs with
  | None => {| sf_wasted := 0; sf_body := BConst (hd 0%Z xs) |}           (* all samples are 0 *)
  | Some w =>
    let ys := map (fun x => x / 2 ^ Z.of_N w)%Z xs in
    let eb := bps - w in
    let best :=
      match lpc with
      | Some l => match fixed, l with
                  | Some f, Some c => Some (if sf_bits bps c <? sf_bits bps f then c else f)  (* min_by_key: first minimum *)
                  | None, Some c => Some c
                  | Some f, None => Some f
                  | None, None => None
                  end
      | None => fixed
      end in
    match best with
    | None => verbatim_sf w ys
    | Some b => if sf_bits bps b <? N.of_nat (length xs) * eb then b else verbatim_sf w ys
    end
  end.

Lemma wr_s_length n z : length (wr_s n z) = n.
Proof. unfold wr_s. apply wr_length. Qed.
Lemma flat_map_wr_s_length n xs : length (flat_map (wr_s n) xs) = (length xs * n)%nat.
Proof. induction xs as [|x xs IH]; cbn [flat_map length]; auto. rewrite app_length, wr_s_length, IH. lia. Qed.

Lemma header_bits code w : length (write_subframe_header code w) = if w =? 0 then 8%nat else (8 + N.to_nat w)%nat.
Proof.
  unfold write_subframe_header. rewrite !app_length, wr_length. cbn [length].
  destruct (N.eqb_spec w 0); cbn [length]; [reflexivity|].
  unfold wr_unary. rewrite !app_length, repeat_length. cbn [length]. lia.
Qed.

Lemma verbatim_bits bps w ys : w <= bps ->
  sf_bits bps (verbatim_sf w ys) = (if w =? 0 then 8 else 8 + w) + N.of_nat (length ys) * (bps - w).
Proof.
  intros Hw. unfold sf_bits, verbatim_sf, write_subframe. cbn [sf_wasted sf_body].
  rewrite app_length, header_bits, flat_map_wr_s_length.
  destruct (N.eqb_spec w 0); lia.
Qed.

(* C19, per subframe: for every candidate the heuristics may return *)
Theorem enc_subframe_bound bps xs fixed lpc :
  (1 <= length xs)%nat -> 1 <= bps ->
  (forall w, common_wasted xs = Some w -> w < bps) ->
  sf_bits bps (enc_subframe bps xs fixed lpc) <= 8 + N.of_nat (length xs) * bps.
Proof.
  intros Hn Hb Hw. unfold enc_subframe.
  destruct (common_wasted xs) as [w|] eqn:Ew.
  - specialize (Hw w eq_refl).
    assert (Hverb : sf_bits bps (verbatim_sf w (map (fun x => (x / 2 ^ Z.of_N w)%Z) xs)) <= 8 + N.of_nat (length xs) * bps).
    { rewrite verbatim_bits by lia. rewrite map_length.
      destruct (N.eqb_spec w 0); [nia|].
      (* 8 + w + n (bps - w) <= 8 + n bps  since n >= 1 *)
      assert (1 <= N.of_nat (length xs)) by lia. nia. }
    match goal with |- sf_bits bps (match ?bb with _ => _ end) <= _ => destruct bb as [b|] end; [|exact Hverb].
    destruct (N.ltb_spec (sf_bits bps b) (N.of_nat (length xs) * (bps - w))); [|exact Hverb].
    nia.
  - unfold sf_bits, write_subframe. cbn [sf_wasted sf_body].
    rewrite app_length, header_bits, wr_s_length. cbn [N.eqb].
    assert (1 <= N.of_nat (length xs)) by lia. nia.
Qed.

(* the decision rule itself: a non-verbatim choice is strictly smaller than n * effective bps *)
Theorem enc_subframe_rule bps xs fixed lpc w :
  common_wasted xs = Some w ->
  let r := enc_subframe bps xs fixed lpc in
  r = verbatim_sf w (map (fun x => (x / 2 ^ Z.of_N w)%Z) xs) \/
  sf_bits bps r < N.of_nat (length xs) * (bps - w).
Proof.
  intros Ew. unfold enc_subframe. rewrite Ew. cbv zeta.
  match goal with |- (match ?bb with _ => _ end) = _ \/ _ => destruct bb as [b|] end; [|left; reflexivity].
  destruct (N.ltb_spec (sf_bits bps b) (N.of_nat (length xs) * (bps - w))); [right; assumption|left; reflexivity].
Qed.

(* ---- frame level: header + subframes + padding + CRC-16 ---- *)
Local Opaque wr.
Local Arguments Nat.div : simpl never.
Local Arguments Nat.modulo : simpl never.
Lemma cont_bytes_length v k : length (cont_bytes v k) = (8 * k)%nat.
Proof. induction k; cbn [cont_bytes]; auto. unfold cont_byte. rewrite !app_length, !wr_length, IHk. lia. Qed.

Lemma number_bits_le v nb : write_number v = Some nb -> (length nb <= 56)%nat.
Proof.
  unfold write_number. destruct (MAX_FRAME_NUMBER <? v); [discriminate|].
  unfold number_len.
  repeat match goal with |- context [if ?c then _ else _] => destruct c end;
    intros E; injection E as <-; unfold wr_unary;
    repeat (rewrite app_length || rewrite wr_length || rewrite repeat_length || rewrite cont_bytes_length || cbn [length] || unfold cont_byte); lia.
Qed.

Lemma header_bits_le h hb : write_header_fields h = Some hb -> (length hb <= 120)%nat.
Proof.
  unfold write_header_fields. destruct (write_number (h_number h)) as [nb|] eqn:En; [|discriminate].
  intros E. injection E as <-. apply number_bits_le in En.
  match goal with |- context [nb ++ ?a ++ ?b] => remember a as A; remember b as B end.
  assert (HA : (length A <= 16)%nat).
  { subst A. destruct (h_bs_code h =? 6); [rewrite wr_length; lia|]. destruct (h_bs_code h =? 7); [rewrite wr_length; lia|cbn; lia]. }
  assert (HB : (length B <= 16)%nat).
  { subst B. destruct (h_rate_code h =? 12); [rewrite wr_length; lia|]. destruct (h_rate_code h =? 13); [rewrite wr_length; lia|].
    destruct (h_rate_code h =? 14); [rewrite wr_length; lia|cbn; lia]. }
  repeat (rewrite app_length || rewrite wr_length || cbn [length]). lia.
Qed.

Lemma bytes_of_bits_length_le : forall k s, (length (bytes_of_bits k s) <= k)%nat.
Proof.
  induction k as [|k IH]; intros s; cbn [bytes_of_bits]; [cbn; lia|].
  destruct (rd 8 s) as [[v r]|]; cbn [length]; [specialize (IH r); lia|lia].
Qed.

Theorem frame_bytes_bound f bytes (body_bits : nat) :
  write_frame f = Some bytes ->
  (length (write_subframes (h_assign (f_hdr f)) (h_bps (f_hdr f)) 0 (f_subs f)) <= body_bits)%nat ->
  (length bytes <= 16 + (body_bits + 7) / 8 + 2)%nat.
Proof.
  unfold write_frame. destruct (write_header_fields (f_hdr f)) as [hb|] eqn:Eh; [|discriminate].
  intros E Hb. injection E as <-. apply header_bits_le in Eh.
  rewrite !app_length. cbn [length].
  pose proof (bytes_of_bits_length_le (length hb / 8) hb) as L1.
  set (body := pad_to_byte _) in *.
  pose proof (bytes_of_bits_length_le (length body / 8) body) as L2.
  assert (Hh : (length hb / 8 <= 15)%nat) by (apply Nat.div_le_upper_bound; lia).
  assert (Hbody : (length body / 8 <= (body_bits + 7) / 8)%nat).
  { apply Nat.div_le_mono; [lia|]. unfold body, pad_to_byte. rewrite app_length, repeat_length.
    set (W := length (write_subframes _ _ _ _)) in *.
    pose proof (Nat.mod_upper_bound W 8 ltac:(lia)). pose proof (Nat.mod_upper_bound (8 - W mod 8) 8 ltac:(lia)).
    assert ((8 - W mod 8) mod 8 <= 7)%nat by lia. lia. }
  lia.
Qed.
