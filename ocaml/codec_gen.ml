(* Structure-aware generator of valid-by-construction FLAC frames/streams for C03.
   Chooses every syntactic alternative of the frame grammar independently, derives residuals from
   arbitrary target PCM with exact integer arithmetic, serialises with the extracted Coq writer
   (Write.write_frame) and keeps a tree only if the extracted Coq predicates wf_frame and spec_frame
   accept it — so this file is untrusted glue: validity is decided by the Coq definitions, and the
   expected PCM is Struct.sem_frame of the tree. *)
open Codec_model

let rec pos_of_int n =
  if n = 1 then XH else if n land 1 = 1 then XI (pos_of_int (n lsr 1)) else XO (pos_of_int (n lsr 1))
let n_of_int n = if n = 0 then N0 else Npos (pos_of_int n)
let z_of_int i = if i = 0 then Z0 else if i > 0 then Zpos (pos_of_int i) else Zneg (pos_of_int (-i))
let rec int_of_pos = function XH -> 1 | XO p -> 2 * int_of_pos p | XI p -> 2 * int_of_pos p + 1
let int_of_n = function N0 -> 0 | Npos p -> int_of_pos p
let rec nat_of_int n = if n = 0 then O else S (nat_of_int (n - 1))
let int_of_z = function Z0 -> 0 | Zpos p -> int_of_pos p | Zneg p -> - (int_of_pos p)

(* SplitMix64 on OCaml's 63-bit ints is awkward; use Int64 *)
type rng = { mutable s : int64 }
let next r =
  r.s <- Int64.add r.s 0x9E3779B97F4A7C15L;
  let z = r.s in
  let z = Int64.mul (Int64.logxor z (Int64.shift_right_logical z 30)) 0xBF58476D1CE4E5B9L in
  let z = Int64.mul (Int64.logxor z (Int64.shift_right_logical z 27)) 0x94D049BB133111EBL in
  Int64.logxor z (Int64.shift_right_logical z 31)
let below r n = if n <= 0 then 0 else Int64.to_int (Int64.unsigned_rem (next r) (Int64.of_int n))
let range r lo hi = lo + below r (hi - lo + 1)
let pick r l = List.nth l (below r (List.length l))
let chance r num den = below r den < num

let pow2 k = 1 lsl k

(* a signal of n samples fitting `bits` bits (two's complement), of a random character *)
let gen_signal r n bits =
  let lo = - (pow2 (bits - 1)) and hi = pow2 (bits - 1) - 1 in
  let clamp v = max lo (min hi v) in
  match below r 8 with
  | 0 -> List.init n (fun _ -> range r lo hi)                                   (* noise *)
  | 1 -> let c = range r lo hi in List.init n (fun _ -> c)                      (* constant *)
  | 2 -> List.init n (fun _ -> 0)
  | 3 -> List.init n (fun i -> if i land 1 = 0 then hi else lo)                 (* alternating extremes *)
  | 4 -> let acc = ref (range r (lo / 2) (hi / 2)) in
         let step = max 1 ((hi - lo) / 64) in
         List.init n (fun _ -> acc := clamp (!acc + range r (-step) step); !acc)  (* random walk *)
  | 5 -> let a = range r lo hi and d = range r (-5) 5 in List.init n (fun i -> clamp (a + d * i))  (* ramp *)
  | 6 -> List.init n (fun _ -> if chance r 1 2 then hi else lo)                 (* full scale *)
  | _ -> let amp = max 1 ((hi - lo) / (4 + below r 1000)) in List.init n (fun _ -> clamp (range r (-amp) amp))

(* exact linear prediction: residuals of x (after the first `order` warm-up samples) *)
let residuals coefs shift x order =
  let a = Array.of_list x in
  let n = Array.length a in
  let res = ref [] in
  for i = order to n - 1 do
    let s = ref 0 in
    List.iteri (fun j c -> s := !s + c * a.(i - 1 - j)) coefs;
    (* arithmetic shift = floor division *)
    let pred = !s asr shift in
    res := (a.(i) - pred) :: !res
  done;
  List.rev !res

let fixed_coefs = function 0 -> [] | 1 -> [1] | 2 -> [2; -1] | 3 -> [3; -3; 1] | _ -> [4; -6; 4; -1]

let bits_needed v = (* smallest w >= 1 such that v fits w bits two's complement *)
  let rec go w = if v >= - (pow2 (w - 1)) && v < pow2 (w - 1) then w else go (w + 1) in go 1

let zigzag v = if v < 0 then 2 * (- v - 1) + 1 else 2 * v

(* split residuals into 2^po partitions and choose a coding for each *)
let gen_residual r bs order res =
  let pos = List.filter (fun po -> bs mod (pow2 po) = 0 && order < bs / (pow2 po)) [0;1;2;3;4;5;6;7;8] in
  match pos with
  | [] -> None
  | _ ->
    let po = pick r pos in
    let count = pow2 po in
    let size = bs / count in
    let meth = below r 2 in
    let esc = if meth = 0 then 15 else 31 in
    let rem = ref res in
    let take k = let rec go k acc l = if k = 0 then (List.rev acc, l) else (match l with x :: t -> go (k - 1) (x :: acc) t | [] -> (List.rev acc, [])) in
      let (a, b) = go k [] !rem in rem := b; a in
    try
    let parts = List.init count (fun i ->
        let len = if i = 0 then size - order else size in
        let rs = take len in
        let allzero = List.for_all (fun v -> v = 0) rs in
        let maxbits = List.fold_left (fun m v -> max m (bits_needed v)) 1 rs in
        let choice = below r 10 in
        if allzero && choice < 4 then PZero (nat_of_int len)
        else if choice < 3 && maxbits <= 31 then PEsc (n_of_int (range r maxbits (min 31 (maxbits + 3))), List.map z_of_int rs)
        else begin
          (* a Rice parameter that keeps every unary part reasonably short *)
          let maxu = List.fold_left (fun m v -> max m (zigzag v)) 0 rs in
          let rec need k = if (maxu lsr k) <= 40 then k else need (k + 1) in
          let kmin = need 0 in
          if kmin >= esc then
            (if maxbits <= 31 then PEsc (n_of_int maxbits, List.map z_of_int rs)
             else if (maxu lsr (esc - 1)) > 2000 then raise Exit   (* a unary part of millions of bits: valid but useless *)
             else PRice (n_of_int (esc - 1), List.map z_of_int rs))
          else PRice (n_of_int (range r kmin (min (esc - 1) (kmin + 3))), List.map z_of_int rs)
        end) in
    Some { r_method = n_of_int meth; r_parts = parts }
    with Exit -> None

(* encode one subframe signal `x` (n samples fitting `bps` bits) with a random admissible choice *)
let gen_subframe r bs bps x =
  (* wasted bits: largest w such that every sample is divisible by 2^w, randomly reduced *)
  let allzero = List.for_all (fun v -> v = 0) x in
  let rec tz v w = if w >= bps - 1 then w else if v land 1 = 0 then tz (v asr 1) (w + 1) else w in
  let wmax = if allzero then 0 else List.fold_left (fun m v -> if v = 0 then m else min m (tz v 0)) (bps - 1) x in
  let w = if wmax > 0 && chance r 2 3 then range r 1 wmax else 0 in
  let y = List.map (fun v -> v asr w) x in
  let eb = bps - w in
  let const = (match y with v :: t -> List.for_all (fun u -> u = v) t | [] -> true) in
  let mk body = { sf_wasted = n_of_int w; sf_body = body } in
  let verbatim () = mk (BVerb (List.map z_of_int y)) in
  let try_pred order coefs prec shift is_lpc =
    if order > bs then None else
    let res = residuals coefs shift y order in
    if List.exists (fun v -> v <= - (pow2 31) || v >= pow2 31) res then None else
    match gen_residual r bs order res with
    | None -> None
    | Some rr ->
      let warm = List.filteri (fun i _ -> i < order) y in
      if is_lpc then Some (mk (BLpc (n_of_int order, List.map z_of_int warm, n_of_int prec, n_of_int shift, List.map z_of_int coefs, rr)))
      else Some (mk (BFixed (n_of_int order, List.map z_of_int warm, rr))) in
  ignore eb;
  let choice = below r 10 in
  if const && choice < 3 then mk (BConst (z_of_int (List.hd y)))
  else if choice < 2 then verbatim ()
  else if choice < 6 then begin
    let order = below r 5 in
    match try_pred order (fixed_coefs order) 0 0 false with Some s -> s | None -> verbatim ()
  end else begin
    let order = if chance r 1 4 then range r 1 32 else range r 1 8 in
    let prec = if chance r 1 3 then range r 1 15 else range r 5 12 in
    let shift = if chance r 1 3 then range r 0 15 else range r 0 (max 0 (prec - 1)) in
    let coefs = List.init order (fun _ -> range r (- (pow2 (prec - 1))) (pow2 (prec - 1) - 1)) in
    match try_pred order coefs prec shift true with Some s -> s | None -> verbatim ()
  end

let bs_common = [(1,192);(2,576);(3,1152);(4,2304);(5,4608);(8,256);(9,512);(10,1024);(11,2048);(12,4096)]
let rate_common = [(1,88200);(2,176400);(3,192000);(4,8000);(5,16000);(6,22050);(7,24000);(8,32000);(9,44100);(10,48000);(11,96000)]
let bps_common = [(1,8);(2,12);(4,16);(5,20);(6,24);(7,32)]

(* one frame; `si_rate`, `si_bps` are what STREAMINFO will say (None for a subset frame) *)
let gen_frame r ~subset ~rate ~bps ~channels ~bs ~number ~variable =
  let (rate_code, rate) =
    if (not subset) && chance r 1 4 then (0, rate)
    else match List.filter (fun (_, v) -> v = rate) rate_common with
      | (c, v) :: _ when chance r 3 4 -> (c, v)
      | _ -> if rate mod 1000 = 0 && rate / 1000 < 256 && chance r 1 2 then (12, rate)
             else if rate mod 10 = 0 && rate / 10 < 65536 && chance r 1 2 then (14, rate)
             else if rate < 65536 then (13, rate)
             else if not subset then (0, rate) else (14, (rate / 10) * 10 mod 655360) in
  let bps_code =
    match List.filter (fun (_, v) -> v = bps) bps_common with
    | (c, _) :: _ when subset || chance r 3 4 -> c
    | _ -> 0 in
  let bs_code =
    match List.filter (fun (_, v) -> v = bs) bs_common with
    | (c, _) :: _ when chance r 3 4 -> c
    | _ -> if bs <= 256 && chance r 1 2 then 6 else 7 in
  let assign = if channels = 2 then pick r [1; 1; 8; 9; 10] else channels - 1 in
  (* target channels, then the subframe signals *)
  let target = List.init channels (fun _ -> gen_signal r bs bps) in
  let target = if channels = 2 && chance r 1 2 then
      (match target with [l; _] -> [l; List.map (fun v -> max (- (pow2 (bps - 1))) (min (pow2 (bps - 1) - 1) (v + range r (-2) 2))) l] | t -> t) else target in
  let subsig = match assign, target with
    | 8, [l; rr] -> [(bps, l); (bps + 1, List.map2 (fun a b -> a - b) l rr)]
    | 9, [l; rr] -> [(bps + 1, List.map2 (fun a b -> a - b) l rr); (bps, rr)]
    | 10, [l; rr] -> [(bps, List.map2 (fun a b -> (a + b) asr 1) l rr); (bps + 1, List.map2 (fun a b -> a - b) l rr)]
    | _, t -> List.map (fun c -> (bps, c)) t in
  let subs = List.map (fun (b, x) -> gen_subframe r bs b x) subsig in
  let h = { h_variable = variable; h_bs_code = n_of_int bs_code; h_bs = n_of_int bs; h_rate_code = n_of_int rate_code;
            h_rate = n_of_int rate; h_assign = n_of_int assign; h_bps_code = n_of_int bps_code; h_bps = n_of_int bps;
            h_number = n_of_int number } in
  ({ f_hdr = h; f_subs = subs }, target)

let be n v = List.init n (fun i -> (v lsr (8 * (n - 1 - i))) land 255)

let streaminfo_bytes ~min_bs ~max_bs ~rate ~channels ~bps ~total ~md5 =
  (* 16,16,24,24 | 20 rate, 3 ch-1, 5 bps-1, 36 total | md5 *)
  let hi = (rate lsl 12) lor ((channels - 1) lsl 9) lor ((bps - 1) lsl 4) lor (total lsr 32) in
  let lo = total land 0xFFFFFFFF in
  be 2 min_bs @ be 2 max_bs @ be 3 0 @ be 3 0 @ be 4 hi @ be 4 lo @ md5

let md5_of_pcm bps (frames : int list list) =
  (* little-endian sign-extended bytes at ceil(bps/8) bytes per sample, interleaved order *)
  let nb = (bps + 7) / 8 in
  let b = Buffer.create 1024 in
  List.iter (fun fr -> List.iter (fun v -> for i = 0 to nb - 1 do Buffer.add_char b (Char.chr ((v asr (8 * i)) land 255)) done) fr) frames;
  let d = Digest.string (Buffer.contents b) in
  List.init 16 (fun i -> Char.code d.[i])


(* one illegal / reserved-code mutation of a valid tree (the writer serialises any tree and recomputes
   both CRCs, so the result is a checksum-valid malformed frame) *)
let mutate_frame r (f : frame) : frame * string =
  let h = f.f_hdr in
  let set_sub i g = { f with f_subs = List.mapi (fun j sf -> if j = i then g sf else sf) f.f_subs } in
  let nsub = List.length f.f_subs in
  let i = below r (max 1 nsub) in
  let sub = List.nth f.f_subs i in
  let hdr_mut () =
    match below r 7 with
    | 0 -> ({ f with f_hdr = { h with h_bs_code = N0 } }, "bs-code-0")
    | 1 -> ({ f with f_hdr = { h with h_rate_code = n_of_int 15 } }, "rate-code-15")
    | 2 -> ({ f with f_hdr = { h with h_bps_code = n_of_int 3 } }, "bps-code-3")
    | 3 -> ({ f with f_hdr = { h with h_assign = n_of_int (range r 11 15) } }, "assign-reserved")
    | 4 -> ({ f with f_hdr = { h with h_bs_code = n_of_int 7; h_bs = n_of_int 65536 } }, "bs-65536")
    | 5 -> ({ f with f_hdr = { h with h_rate_code = n_of_int (pick r [1;2;3;4;5;6;7;8;9;10;11]) } }, "rate-code-changed")
    | _ -> ({ f with f_hdr = { h with h_bps_code = n_of_int (pick r [1;2;4;5;6;7]) } }, "bps-code-changed") in
  match sub.sf_body, below r 10 with
  | BLpc (o, w, p, sh, c, rr), 0 | BLpc (o, w, p, sh, c, rr), 1 ->
      (set_sub i (fun sf -> { sf with sf_body = BLpc (o, w, p, n_of_int (range r 16 31), c, rr) }), "lpc-negative-shift")
  | BLpc (o, w, p, sh, c, rr), 2 ->
      (set_sub i (fun sf -> { sf with sf_body = BLpc (o, w, n_of_int 16, sh, c, rr) }), "lpc-precision-16")
  | BFixed (o, w, rr), 0 | BFixed (o, w, rr), 1 ->
      (set_sub i (fun sf -> { sf with sf_body = BFixed (n_of_int (range r 5 7), w, rr) }), "fixed-order-reserved")
  | BFixed (o, w, rr), 2 | BLpc (o, w, _, _, _, rr), 3 ->
      let rr' = { rr with r_method = n_of_int (range r 2 3) } in
      (set_sub i (fun sf -> { sf with sf_body = (match sf.sf_body with
          | BFixed (o, w, _) -> BFixed (o, w, rr') | BLpc (o, w, p, sh, c, _) -> BLpc (o, w, p, sh, c, rr') | b -> b) }), "coding-method-reserved")
  | BFixed (o, w, rr), 3 | BLpc (o, w, _, _, _, rr), 4 ->
      (* double the partition list: labelled order one higher than the layout allows *)
      let rr' = { rr with r_parts = rr.r_parts @ rr.r_parts } in
      (set_sub i (fun sf -> { sf with sf_body = (match sf.sf_body with
          | BFixed (o, w, _) -> BFixed (o, w, rr') | BLpc (o, w, p, sh, c, _) -> BLpc (o, w, p, sh, c, rr') | b -> b) }), "partition-order-wrong")
  | _, 5 -> (set_sub i (fun sf -> { sf with sf_wasted = n_of_int (int_of_n h.h_bps + below r 3) }), "wasted-bits-excess")
  | _, _ -> hdr_mut ()
