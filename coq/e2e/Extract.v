(* Extraction of the COMPOSED executable model (writers' front-ends and Encoder x codec's block encoder x codec's
   parser for the LPC oracle) for the whole-file correspondence driver (ExtrOcamlBasic only; numbers stay inductive). *)
From Coq Require Extraction ExtrOcamlBasic.
From Coq Require Import NArith ZArith.
From FlacCodec Require Import Stream Spec Enc.
From FlacWriters Require Import Meta Params Finalize Writers.
From FlacE2E Require Import E2E.
(* E2E.encB is stated through a module alias, which monolithic extraction cannot follow: the same term, named here *)
Definition encB_x (o : eopts) (L : oracle) (rate bps : N) (k : N) (b : block) : FlacBase.Res.res (list N) :=
  match enc_frame_bytes o L rate bps k b with Some x => FlacBase.Res.Ok x | None => FlacBase.Res.Err FlacBase.Res.EIo end.
Lemma encB_x_is_encB : encB_x = encB.
Proof. reflexivity. Qed.
Extraction Language OCaml.
Extraction "e2e_model.ml"
  N.add N.mul N.div_eucl N.of_nat Z.opp
  options_default options_fast
  options_block_size options_max_lpc_order options_max_partition_order options_padding
  options_no_padding options_seektable_seconds options_seektable_frames options_no_seektable
  sample_new sample_write sample_run byte_new byte_run channel_new channel_run stream
  encB_x read_metadata_min struct_frame subframe_bps sem_body.
