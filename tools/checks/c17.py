"""C17 — parsed frame structures re-serialise identically and agree with the decoder.

Search (harness/src/bin/c17.rs, release): for every frame the structural parser accepts (crate
encoder output over the C01 space, the C03 generator's valid frames incl. alternatives the encoder
never emits, one-field mutations with recomputed CRCs, constructed partition layouts):
Frame::write reproduces the bytes (unless the frame number is over-long or a padding bit is set),
every subframe expands to block-size samples, the expansion after undoing decorrelation (exact
integers, compared when it fits the bit depth) equals the streaming decoder's output, and parser
and decoder accept/reject the same frames under the same STREAMINFO.  Emits struct cases."""
from checks import codech_util as cu


def run(chk):
    cu.simple_check(
        chk, "C17", "c17", ["release"], kinds=["struct"],
        rule="one evaluation = one candidate frame run through the structural parser, its writer, its sample expansion and the streaming decoder; distinct by (source x frame); non-trivial = frames accepted by the parser (all four obligations apply) plus frames rejected by both sides (parity obligation)",
        assumptions=[
            "release profile only: with overflow checks on, malformed frames trip arithmetic traps that belong to C03/C04",
            "a set bit in the header bit the crate documents as padding counts as non-zero padding (re-serialisation then is not required to match)",
        ],
        evaluations=lambda s: cu.total(s, "frames"),
        nontrivial=lambda s: cu.total(s, "accepted_by_parser") + cu.total(s, "rejected_by_both"))
