"""C04 — decoding arbitrary bytes never panics, hangs or allocates without bound.

Search (harness/src/bin/c04.rs, release AND debug): (a) valid frames from the encoder and from the
C03 generator with one field pushed to an illegal/extreme value and CRC-8/16 recomputed, plus
targeted extreme-value frames (prediction at the i32 limits, 31-bit side channels, 33-bit LPC
blow-up, wasted-bit limits, declared total shorter than the frames); (b) checksum-repaired bit /
byte mutations of valid files and every truncation of small files; (c) raw / tag- / sync-prefixed
random bytes, long runs of one byte.  Entry points: every reader front-end, verify_reader,
FrameIterator, Frame::read/read_subset (+ Subframe::decode), FrameHeader::read/read_subset,
FlacStreamReader (resynchronising loop), BlockList::read, read_blocks.  Each call under
catch_unwind on a worker thread with a watchdog (> 10 s = hang) and a counting global allocator
(peak live bytes <= 64 MiB + 64 x input length)."""
from checks import codech_util as cu


def run(chk):
    def extra(c, by_prof):
        from checks import codec_common
        mst = codec_common.run_mutants(chk, profiles=("release", "debug"))
        return {"model_generated_malformed_streams": mst, "memory_bound": "64 MiB + 64 * len", "hang_limit_s": 10,
                "max_peak_live_bytes": max([int(s.get("max_peak_live_bytes", 0)) for s in by_prof.values()] or [0]),
                "max_call_ms": max([int(s.get("max_call_ms", 0)) for s in by_prof.values()] or [0])}
    cu.simple_check(
        chk, "C04", "c04", ["release", "debug"], kinds=["dec_subset"],
        rule="one evaluation = one entry point run on one input; inputs are distinct byte strings (mutations, truncations, random), non-trivial = every run (each reaches at least the tag / sync test; the outcome distribution is in searcher.outcomes)",
        assumptions=[
            "the memory half of the property is measured (counting allocator), not proved; the bound used is 64 MiB + 64 x input length",
            "termination is observed with a 10 s per-call limit; the Coq model gives the structural termination argument",
        ],
        evaluations=lambda s: cu.total(s, "runs"),
        nontrivial=lambda s: cu.total(s, "runs"),
        extra=extra)
