"""Shared machinery of the `writers` area (C08 file depends only on PCM and options, C15 writer
APIs validate their parameters / declared length, C09 STREAMINFO and SEEKTABLE are truthful):
proof stage over coq/writers, translator, harness runs (release + debug), the extracted OCaml
model run on the harness' "case" lines, the diff, the vm_compute cross-check, evidence."""
import hashlib
import json
import os
import re
import shutil

import vlib
from vlib import VERIF, CACHE, sh

BASE = os.path.join(VERIF, "coq", "base")
AREA = os.path.join(VERIF, "coq", "writers")
QFLAGS = "-Q ../base FlacBase -Q . FlacWriters"
REQUIRES = ["FlacWriters.Writers", "FlacWriters.Lists_proofs", "FlacWriters.Params_proofs", "FlacWriters.Params_sweeps",
            "FlacWriters.Writers_proofs", "FlacWriters.New_proofs", "FlacWriters.Finalize_proofs", "FlacWriters.Encoder_proofs",
            "FlacWriters.Seek_proofs", "FlacWriters.Finish_proofs", "FlacWriters.Newok_proofs", "FlacWriters.C09_proofs", "FlacWriters.Run_proofs", "FlacWriters.Frontend_proofs", "FlacWriters.Bytes_proofs",
            "FlacWriters.Safety_proofs", "FlacWriters.Audio_proofs", "FlacWriters.Cross_proofs",
            "FlacWriters.Props_C08", "FlacWriters.Props_C15", "FlacWriters.Props_C09", "FlacWriters.Pins"]

ASSUMPTIONS = [
    "the block encoder is abstract: `enc_block : frame number -> channels -> res bytes` is a Section variable (theorems hold for every such function; that the real encoder is a function of its block — scratch caches are overwritten before use — is exercised by byte-comparing files across repeated and differently chunked runs); MD5 is a Section function",
    "the underlying stream is an in-memory cursor positioned at its end; I/O errors are outside this model (C13)",
    "opaque user metadata blocks (VORBIS_COMMENT, PICTURE, APPLICATION, CUESHEET) are a kind plus their serialised body and are assumed individually and jointly valid",
    "the hand-written model (coq/writers/{Meta,Params,Finalize,Writers}.v) mirrors src/encode.rs 97-2259, src/audio.rs, src/byteorder.rs and the STREAMINFO/SEEKTABLE/PADDING parts of src/metadata/mod.rs; tie = constants re-read from the source on every run (tools/gen_writers.py), extracted model vs implementation on every generated case, plus a vm_compute sample",
]


def proof_stage(chk, theorems, e2e_theorems=None):
    files = [f for f in vlib.coq_files(AREA) if f not in ("Extract.v",)]
    gen = ["python3 %s/tools/gen_crc.py %s %s/GenCrc.v" % (VERIF, vlib.REPO, BASE)]
    if os.path.exists(os.path.join(VERIF, "tools", "gen_writers.py")):
        gen.append("python3 %s/tools/gen_writers.py %s %s/GenWriters.v" % (VERIF, vlib.REPO, AREA))
    if e2e_theorems:
        # the property also claims theorems of the composed development (coq/e2e): writers x codec x readers
        codec = os.path.join(VERIF, "coq", "codec")
        readers = os.path.join(VERIF, "coq", "readers")
        e2e = os.path.join(VERIF, "coq", "e2e")
        gen.append("python3 %s/tools/gen_stream.py %s %s/GenStream.v" % (VERIF, vlib.REPO, codec))
        return vlib.proof_stage(
            chk, coq_dirs=[BASE, codec, AREA, readers, e2e], build_dir=e2e,
            qflags="-Q ../base FlacBase -Q ../codec FlacCodec -Q ../writers FlacWriters -Q ../readers FlacReaders -Q . FlacE2E",
            requires=REQUIRES + ["FlacE2E.Bridge", "FlacE2E.E2E", "FlacE2E.Props_E2E"], theorems=theorems + e2e_theorems,
            obligation_files=[(AREA, files), (e2e, [f for f in vlib.coq_files(e2e)])], gen_steps=gen)
    return vlib.proof_stage(
        chk, coq_dirs=[BASE, AREA], build_dir=AREA, qflags=QFLAGS, requires=REQUIRES, theorems=theorems,
        obligation_files=[(AREA, files)], gen_steps=gen)


def build_driver(chk):
    mdir = os.path.join(CACHE, "ocaml", "writers_" + chk.pid.lower())
    os.makedirs(mdir, exist_ok=True)
    for f in ("writers_model.ml", "writers_model.mli"):
        src = os.path.join(AREA, f)
        if not os.path.exists(src):
            chk.broken_tie("ocaml-build", "extracted model %s is missing" % f)
            return None
        shutil.copy(src, mdir)
    shutil.copy(os.path.join(VERIF, "ocaml", "writers_driver.ml"), mdir)
    okb, exe, bout = vlib.ocaml_build(mdir, ["writers_model.mli", "writers_model.ml", "writers_driver.ml"], "writers_driver")
    if not okb:
        chk.broken_tie("ocaml-build", bout)
        return None
    return exe


def run_harness(chk, binname, profile, timeout=3000):
    """Build + run one harness binary.  Returns dict(cases, viols, stat, notes, samples) or None."""
    ok, binp, out = vlib.cargo_build(os.path.join(VERIF, "harness"), binname, profile)
    if not ok:
        chk.broken_tie("harness-build:%s:%s" % (binname, profile), out)
        return None
    rc, out = sh([binp], timeout=timeout)
    if rc != 0:
        chk.broken_tie("harness-run:%s:%s" % (binname, profile), out[-4000:])
        return None
    res = {"cases": [], "viols": [], "stat": {}, "notes": [], "samples": [], "profile": profile}
    for ln in out.splitlines():
        if not ln.startswith("{"):
            continue
        try:
            d = json.loads(ln)
        except ValueError:
            chk.broken_tie("harness-output:%s" % binname, ln[:500])
            return None
        t = d.get("t")
        if t == "case":
            res["cases"].append(d)
        elif t == "viol":
            res["viols"].append(d)
        elif t == "stat":
            res["stat"] = d
        elif t == "note":
            res["notes"].append(d.get("msg", ""))
        elif t == "sample":
            res["samples"].append(d)
    if not res["stat"]:
        chk.broken_tie("harness-run:%s:%s" % (binname, profile), "no stat line: the harness did not finish\n" + out[-2000:])
        return None
    return res


def run_model(chk, exe, mlines, timeout=1500):
    """Feed model lines to the driver; returns list of output lines (same length) or None."""
    rc, out = sh("ulimit -s unlimited 2>/dev/null; exec %s" % exe, stdin="\n".join(mlines) + "\n", timeout=timeout)
    lines = out.split("\n")
    if rc != 0 or len(lines) < len(mlines):
        chk.broken_tie("model-run", "rc=%s, %d lines for %d cases\n%s" % (rc, len(lines), len(mlines), out[-1500:]))
        return None
    return [l.strip() for l in lines[:len(mlines)]]


def diff_cases(chk, stage, res, outs, viol_inputs, cmp=None):
    """Compare observation and model line per case.  A disagreement on an input for which the
    searcher already reported the property failing is left to that report."""
    n_bad = 0
    for c, o in zip(res["cases"], outs):
        same = cmp(c["obs"], o) if cmp else (c["obs"] == o)
        if same:
            continue
        if c["m"] in viol_inputs:
            continue
        n_bad += 1
        if n_bad <= 3:
            chk.violation("correspondence:%s" % stage,
                          "model and implementation disagree (%s build): case `%s`: implementation `%s`, model `%s`" % (
                              res["profile"], c["m"][:400], c["obs"][:600], o[:600]),
                          {"case": c["m"], "implementation": c["obs"], "model": o, "profile": res["profile"],
                           "soft": c.get("soft", "")})
    return n_bad


def report_viols(chk, res):
    for v in res["viols"]:
        d = {k: v[k] for k in v if k != "t"}
        d["profile"] = res["profile"]
        chk.violation(v["key"], "%s [%s build]" % (v["desc"], res["profile"]), d)


# ---------------------------------------------------------------- vm_compute cross-check

def coq_n(x):
    return "%d" % x


def coq_opt(x):
    return "None" if x is None else "(Some %d)" % x


def parse_m(m):
    toks = m.split(" ")
    d = {}
    for t in toks[1:]:
        if "=" in t:
            k, v = t.split("=", 1)
            d[k] = v
    return d


def coq_options(d):
    """Coq term of type `res options` for the option fields of a case line."""
    term = "(Ok %s)" % ("options_fast" if d.get("fast") == "1" else "options_default")

    def bind(t, f):
        return "(bind %s (fun o => %s))" % (t, f)
    if d.get("bs", "-") != "-":
        term = bind(term, "options_block_size o %s" % d["bs"])
    if d.get("lpc", "-") != "-":
        term = bind(term, "options_max_lpc_order o %s" % ("None" if d["lpc"] == "none" else "(Some %s)" % d["lpc"]))
    if d.get("po", "-") != "-":
        term = bind(term, "options_max_partition_order o %s" % d["po"])
    if d.get("pad", "-") != "-":
        term = bind(term, "Ok (options_no_padding o)" if d["pad"] == "none" else "options_padding o %s" % d["pad"])
    sk = d.get("seek", "-")
    if sk != "-":
        if sk == "none":
            term = bind(term, "Ok (options_no_seektable o)")
        elif sk.startswith("s:"):
            term = bind(term, "Ok (options_seektable_seconds o %s)" % sk[2:])
        else:
            term = bind(term, "Ok (options_seektable_frames o %s)" % sk[2:])
    return term


def run_vm(chk, name, body, timeout=600):
    """Compile a scratch .v file in the area; returns (rc, output)."""
    vdir = os.path.join(CACHE, "assum")
    os.makedirs(vdir, exist_ok=True)
    vfile = os.path.join(vdir, "%s.v" % name)
    open(vfile, "w").write(body)
    return sh("coqc -noglob %s %s" % (QFLAGS, vfile), cwd=AREA, timeout=timeout)


def finish_coverage(chk, runs, evaluations, nontrivial, rule, disagreements, extra=None):
    samples = []
    for r in runs:
        for c in r["cases"][:2]:
            samples.append({"case": c["m"][:300], "observation": c["obs"][:300], "profile": r["profile"]})
    chk.coverage.update({
        "evaluations": evaluations,
        "distinct_nontrivial": nontrivial,
        "rule": rule,
        "traces_validated_against_impl": sum(len(r["cases"]) for r in runs),
        "disagreements_checked": disagreements,
        "searcher": {r["profile"]: r["stat"] for r in runs},
        "samples": samples[:6],
    })
    if extra:
        chk.coverage.update(extra)
    for r in runs:
        chk.notes.extend(r["notes"][:5])
