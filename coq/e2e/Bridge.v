(* E2E/Bridge.v — the metadata region the writers area serialises (FlacWriters.Meta.write_blocks: the byte-exact
   model of metadata/mod.rs that C09 ties to the implementation) is read back by the codec area's minimal
   metadata reader (FlacCodec.Stream.read_metadata_min) as exactly the STREAMINFO that was written, and the
   bytes after the region are the audio.  Two independently written models meet here: big-endian byte
   arithmetic on one side, MSB-first bit strings on the other. *)
From Coq Require Import List NArith ZArith Lia.
From FlacBase Require Import Res Bits.
From FlacCodec Require Ast Stream File Roundtrip_frame.
From FlacWriters Require Meta.
Import ListNotations.
Open Scope N_scope.
Local Arguments N.add : simpl never.
Local Arguments N.mul : simpl never.
Local Arguments N.div : simpl never.
Local Arguments N.modulo : simpl never.
Local Arguments N.pow : simpl never.

Module C := FlacCodec.Ast.
Module W := FlacWriters.Meta.

(* ---- bits of big-endian bytes ---- *)
Lemma wr_app_split a : forall b v, wr (a + b) v = wr a (v / 2 ^ N.of_nat b) ++ wr b v.
Proof.
  induction a as [|a IH]; intros b v; [reflexivity|].
  cbn [Nat.add wr app]. rewrite IH. f_equal.
  rewrite Nat2N.inj_add. rewrite <- N.shiftr_div_pow2, N.shiftr_spec'. reflexivity.
Qed.

Lemma wr_mod n : forall v, wr n (v mod 2 ^ N.of_nat n) = wr n v.
Proof.
  assert (G : forall k n v, (k <= n)%nat -> wr k (v mod 2 ^ N.of_nat n) = wr k v).
  { induction k as [|k IH]; intros m v Hk; [reflexivity|]. cbn [wr]. rewrite IH by lia. f_equal.
    apply N.mod_pow2_bits_low. lia. }
  intros v. apply G. lia.
Qed.

Lemma bits_of_be_bytes k : forall v, bits_of_bytes (W.be_bytes k v) = wr (8 * k) v.
Proof.
  induction k as [|k IH]; intros v; [reflexivity|].
  cbn [W.be_bytes bits_of_bytes flat_map]. fold (bits_of_bytes (W.be_bytes k v)). rewrite IH.
  replace (8 * S k)%nat with (8 + 8 * k)%nat by lia. rewrite wr_app_split. f_equal.
  unfold byte_bits. change 256 with (2 ^ N.of_nat 8). rewrite wr_mod. f_equal. f_equal.
  rewrite <- N.pow_mul_r. f_equal. lia.
Qed.

Lemma be_bytes_length k v : length (W.be_bytes k v) = k.
Proof. induction k as [|k IH]; cbn [W.be_bytes length]; congruence. Qed.

Lemma rd_wr_mod n v r : rd n (wr n v ++ r) = Some (v mod 2 ^ N.of_nat n, r).
Proof. unfold rd. rewrite rd_acc_wr. f_equal. Qed.

(* ---- STREAMINFO ---- *)
Definition conv_si (s : W.streaminfo) : C.streaminfo :=
  {| C.si_min_bs := W.si_min_bs s; C.si_max_bs := W.si_max_bs s;
     C.si_min_fs := W.opt0 (W.si_min_fs s); C.si_max_fs := W.opt0 (W.si_max_fs s);
     C.si_rate := W.si_rate s; C.si_channels := W.si_channels s; C.si_bps := W.si_bps s;
     C.si_total := W.opt0 (W.si_total s);
     C.si_md5 := match W.si_md5 s with Some d => d | None => repeat 0 16 end |}.

Definition md5_len_ok (s : W.streaminfo) : Prop :=
  match W.si_md5 s with Some d => length d = 16%nat | None => True end.

Ltac Zify.zify_post_hook ::= Z.div_mod_to_equations.

Lemma packed_fields rate ch bps tot : rate < 2 ^ 20 -> ch < 2 ^ 3 -> bps < 2 ^ 5 -> tot < 2 ^ 36 ->
  let w := rate * 2 ^ 44 + ch * 2 ^ 41 + bps * 2 ^ 36 + tot in
  (w / 2 ^ 44) mod 2 ^ 20 = rate /\ (w / 2 ^ 41) mod 2 ^ 3 = ch /\ (w / 2 ^ 36) mod 2 ^ 5 = bps /\ w mod 2 ^ 36 = tot.
Proof.
  change (2 ^ 20) with 1048576. change (2 ^ 3) with 8. change (2 ^ 5) with 32. change (2 ^ 36) with 68719476736.
  change (2 ^ 44) with 17592186044416. change (2 ^ 41) with 2199023255552.
  intros H1 H2 H3 H4. cbv zeta.
  set (w := rate * 17592186044416 + ch * 2199023255552 + bps * 68719476736 + tot).
  assert (E1 : w / 17592186044416 = rate).
  { symmetry. apply (N.div_unique _ _ _ (ch * 2199023255552 + bps * 68719476736 + tot)); unfold w; lia. }
  assert (E2 : w / 2199023255552 = rate * 8 + ch).
  { symmetry. apply (N.div_unique _ _ _ (bps * 68719476736 + tot)); unfold w; lia. }
  assert (E3 : w / 68719476736 = rate * 256 + ch * 32 + bps).
  { symmetry. apply (N.div_unique _ _ _ tot); unfold w; lia. }
  rewrite E1, E2, E3. repeat split.
  - apply N.mod_small. lia.
  - symmetry. apply (N.mod_unique _ _ rate); lia.
  - symmetry. apply (N.mod_unique _ _ (rate * 8 + ch)); lia.
  - symmetry. apply (N.mod_unique _ _ (rate * 256 + ch * 32 + bps)); unfold w; lia.
Qed.

Local Opaque W.be_bytes.
Theorem parse_written_streaminfo s body : W.ser_streaminfo_body s = Ok body -> md5_len_ok s ->
  FlacCodec.Stream.parse_streaminfo body = Some (conv_si s).
Proof.
  unfold W.ser_streaminfo_body, W.field. intros H Hmd.
  destruct (N.ltb_spec (W.si_min_bs s) (2 ^ 16)) as [B1|]; [|discriminate]. cbn [bind] in H.
  destruct (N.ltb_spec (W.si_max_bs s) (2 ^ 16)) as [B2|]; [|discriminate]. cbn [bind] in H.
  destruct (N.ltb_spec (W.opt0 (W.si_min_fs s)) (2 ^ 24)) as [B3|]; [|discriminate]. cbn [bind] in H.
  destruct (N.ltb_spec (W.opt0 (W.si_max_fs s)) (2 ^ 24)) as [B4|]; [|discriminate]. cbn [bind] in H.
  destruct (N.ltb_spec (W.si_rate s) (2 ^ 20)) as [B5|]; [|discriminate]. cbn [bind] in H.
  destruct (N.eqb_spec (W.si_channels s) 0) as [|C0]; [discriminate|].
  destruct (N.ltb_spec (W.si_channels s - 1) (2 ^ 3)) as [B6|]; [|discriminate]. cbn [bind] in H.
  unfold W.streaminfo_bps_field in H.
  destruct ((1 <=? W.si_bps s) && (W.si_bps s - 1 <=? 31)) eqn:Eb; [|discriminate]. cbn [bind] in H.
  apply andb_prop in Eb. destruct Eb as [Eb1 Eb2]. apply N.leb_le in Eb1, Eb2.
  destruct (N.ltb_spec (W.opt0 (W.si_total s)) (2 ^ 36)) as [B8|]; [|discriminate]. cbn [bind] in H.
  injection H as <-.
  set (w := W.si_rate s * 2 ^ 44 + (W.si_channels s - 1) * 2 ^ 41 + (W.si_bps s - 1) * 2 ^ 36 + W.opt0 (W.si_total s)).
  destruct (packed_fields (W.si_rate s) (W.si_channels s - 1) (W.si_bps s - 1) (W.opt0 (W.si_total s)) B5 B6
              ltac:(change (2 ^ 5) with 32; lia) B8) as (P1 & P2 & P3 & P4). fold w in P1, P2, P3, P4.
  match goal with |- context [W.be_bytes 8 w ++ ?d] => set (digest := d) end.
  assert (Ld : length digest = 16%nat).
  { unfold digest, md5_len_ok in *. destruct (W.si_md5 s); [exact Hmd|reflexivity]. }
  unfold FlacCodec.Stream.parse_streaminfo.
  rewrite !app_length, !be_bytes_length, Ld. cbn [Nat.add Nat.eqb negb].
  rewrite !FlacCodec.Roundtrip_frame.bits_of_bytes_app, !bits_of_be_bytes.
  change (8 * 8)%nat with (20 + (3 + (5 + 36)))%nat. rewrite !wr_app_split. rewrite <- !app_assoc.
  rewrite rd_wr_mod, N.mod_small by exact B1. rewrite rd_wr_mod, N.mod_small by exact B2.
  rewrite rd_wr_mod, N.mod_small by exact B3. rewrite rd_wr_mod, N.mod_small by exact B4.
  rewrite rd_wr_mod. change (N.of_nat (3 + (5 + 36))) with 44. change (N.of_nat 20) with 20. rewrite P1.
  rewrite rd_wr_mod. change (N.of_nat (5 + 36)) with 41. change (N.of_nat 3) with 3. rewrite P2.
  rewrite rd_wr_mod. change (N.of_nat 36) with 36. change (N.of_nat 5) with 5. rewrite P3.
  rewrite rd_wr_mod. change (N.of_nat 36) with 36. rewrite P4.
  unfold conv_si. f_equal. f_equal; try lia.
Qed.

(* ---- the whole metadata region ---- *)
Local Transparent W.be_bytes.
Lemma be_num_be_bytes3 sz : sz < 2 ^ 24 ->
  match W.be_bytes 3 sz with [a; b; c] => FlacCodec.Stream.be_num [a; b; c] 0 = sz | _ => False end.
Proof.
  intros H. cbn [W.be_bytes FlacCodec.Stream.be_num].
  change (256 ^ N.of_nat 2) with 65536. change (256 ^ N.of_nat 1) with 256. change (256 ^ N.of_nat 0) with 1.
  rewrite N.div_1_r.
  pose proof (N.div_mod sz 256 ltac:(lia)) as D1. pose proof (N.div_mod (sz / 256) 256 ltac:(lia)) as D2.
  assert (E : sz / 65536 = sz / 256 / 256) by (rewrite N.div_div by lia; reflexivity).
  assert (S : sz / 65536 < 256).
  { apply N.div_lt_upper_bound; [lia|]. change (2 ^ 24) with 16777216 in H. lia. }
  rewrite (N.mod_small (sz / 65536)) by exact S.
  pose proof (N.mod_upper_bound (sz / 256) 256 ltac:(lia)). pose proof (N.mod_upper_bound sz 256 ltac:(lia)). lia.
Qed.

Local Opaque W.be_bytes.
Lemma ser_streaminfo_body_length s body : W.ser_streaminfo_body s = Ok body -> md5_len_ok s -> length body = 34%nat.
Proof.
  intros H Hmd. pose proof (parse_written_streaminfo s body H Hmd) as P.
  unfold FlacCodec.Stream.parse_streaminfo in P. destruct (Nat.eqb_spec (length body) 34); [assumption|discriminate].
Qed.

Lemma skip_written_blocks : forall blocks rest fuel audio, W.ser_oblocks blocks = Ok rest -> blocks <> [] ->
  (length rest <= fuel)%nat ->
  FlacCodec.Stream.skip_blocks fuel false (rest ++ audio) = Some audio.
Proof.
  induction blocks as [|b r IH]; intros rest fuel audio H Hne Hfuel; [congruence|].
  cbn [W.ser_oblocks] in H.
  destruct (W.ser_oblock (match r with [] => true | _ => false end) b) as [x| |] eqn:Ex; try discriminate.
  cbn [bind] in H. destruct (W.ser_oblocks r) as [y| |] eqn:Ey; try discriminate. cbn [bind] in H. injection H as <-.
  unfold W.ser_oblock in Ex. destruct (W.ser_oblock_body b) as [body| |]; try discriminate. cbn [bind] in Ex.
  unfold W.ser_header in Ex.
  destruct (N.leb_spec (N.of_nat (length body)) W.BLOCKSIZE_MAX) as [Hsz|]; [|discriminate]. cbn [bind] in Ex.
  injection Ex as <-.
  assert (Hlt : N.of_nat (length body) < 2 ^ 24) by (unfold W.BLOCKSIZE_MAX in Hsz; change (2 ^ 24) with 16777216; lia).
  pose proof (be_num_be_bytes3 _ Hlt) as Hbe.
  destruct (W.be_bytes 3 (N.of_nat (length body))) as [|l1 [|l2 [|l3 [|]]]] eqn:Eb; try contradiction.
  cbn [app]. rewrite <- !app_assoc. cbn [app].
  cbn [app length] in Hfuel.
  destruct fuel as [|f]; [lia|]. cbn [FlacCodec.Stream.skip_blocks].
  rewrite Hbe, Nat2N.id. rewrite app_length.
  destruct (Nat.ltb_spec (length body + length (y ++ audio)) (length body)); [lia|].
  rewrite skipn_app, skipn_all, Nat.sub_diag. cbn [skipn app].
  assert (Hty : W.oblock_type b < 128) by (destruct b as [| |[]]; cbn; lia).
  destruct r as [|b2 r2].
  - cbn [W.ser_oblocks] in Ey. injection Ey as <-. cbn [app].
    destruct (N.leb_spec 128 (128 + W.oblock_type b)); [|lia]. destruct f; reflexivity.
  - destruct (N.leb_spec 128 (W.oblock_type b)); [lia|].
    apply (IH y f audio eq_refl); [discriminate|]. rewrite !app_length in Hfuel. lia.
Qed.

Lemma be_bytes_3_34 : W.be_bytes 3 34 = [0; 0; 34].
Proof. Local Transparent W.be_bytes. vm_compute. reflexivity. Qed.
Local Opaque W.be_bytes.
Lemma skip_blocks_last fuel b : FlacCodec.Stream.skip_blocks fuel true b = Some b.
Proof. destruct fuel; reflexivity. Qed.

Theorem read_written_metadata s blocks meta audio :
  W.write_blocks s blocks = Ok meta -> md5_len_ok s ->
  FlacCodec.Stream.read_metadata_min (meta ++ audio) = Some (conv_si s, audio).
Proof.
  unfold W.write_blocks. intros H Hmd.
  destruct (W.ser_streaminfo_body s) as [body| |] eqn:Eb; try discriminate. cbn [bind] in H.
  pose proof (ser_streaminfo_body_length s body Eb Hmd) as Lb. rewrite Lb in H.
  unfold W.ser_header in H. change (N.of_nat 34 <=? W.BLOCKSIZE_MAX) with true in H. cbn [bind] in H.
  change (N.of_nat 34) with 34 in H. rewrite be_bytes_3_34 in H.
  destruct (W.ser_oblocks blocks) as [rest| |] eqn:Er; try discriminate. cbn [bind] in H. injection H as <-.
  unfold W.FLAC_TAG. cbn [app]. rewrite <- !app_assoc.
  unfold FlacCodec.Stream.read_metadata_min.
  assert (Hf : firstn 34 (body ++ rest ++ audio) = body).
  { rewrite <- Lb. rewrite firstn_app, Nat.sub_diag, firstn_all. cbn [firstn]. apply app_nil_r. }
  assert (Hs : skipn 34 (body ++ rest ++ audio) = rest ++ audio).
  { rewrite <- Lb. rewrite skipn_app, skipn_all, Nat.sub_diag. reflexivity. }
  destruct blocks as [|b r].
  - cbn [W.ser_oblocks] in Er. injection Er as <-.
    change (128 + 0) with 128. cbn [N.eqb Pos.eqb orb negb]. rewrite Hf, Hs, (parse_written_streaminfo s body Eb Hmd).
    change (128 <=? 128) with true. rewrite skip_blocks_last. reflexivity.
  - cbn [N.eqb orb negb]. rewrite Hf, Hs, (parse_written_streaminfo s body Eb Hmd).
    change (128 <=? 0) with false.
    rewrite (skip_written_blocks (b :: r) rest _ audio Er); [reflexivity|discriminate|].
    rewrite !app_length. lia.
Qed.
