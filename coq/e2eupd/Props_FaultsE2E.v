(* Property C13 for the REAL metadata codec — statements only (proofs: FaultsE2E.v).  update_file_io is the
   function of coq/updateio/IoFault.v (tied to src/metadata/mod.rs by C13's fault-injection correspondence
   runs); here its block codec is the metadata area's reader and writer, and the hypothesis of
   C13_update_file about the codec (the reader consumes a prefix) is proved, not assumed. *)
From FlacBase Require Import Res Bits.
From FlacMeta Require Import Bytes Bytes_proofs Blocks BlockList Blocks_proofs Blocks_level BlockList_proofs Utf8 Utf8_proofs.
From FlacUpdIo Require GenUpd Update Update_proofs Update_cond IoFault IoFault_proofs.
From FlacCodec Require Ast Stream Spec.
From FlacE2EUpd Require Import RealCodec CodecView UpdateE2E Props_E2EUpd FaultsE2E.
Open Scope N_scope.

(* Ok under ANY fault schedule (short / failing writes, flushes, seeks, interrupted reads; BufWriter of any
   capacity; any chunking): the devices hold exactly what the fault-free update over the real codec computes *)
Theorem C13_real_codec_update_file : forall (u : list N -> bool)
  (cap : nat) (ck : list N -> list (list N)) (edit : U.blocklist block -> res (U.blocklist block)) (rb : bool)
  (w1 w2 : IO.world) (b : bool) (w1' w2' : IO.world),
  (0 < cap)%nat -> IO.ck_ok ck -> FlacUpdIo.IoFault_proofs.honest (IO.sr (IO.wsched w1)) ->
  (IO.pos (IO.wdev w1) <= length (IO.data (IO.wdev w1)))%nat ->
  IO.wdev w2 = {| IO.data := []; IO.pos := 0 |} ->
  Forall byte (IO.data (IO.wdev w1)) ->
  IO.update_file_io block psize_r ser_r uclass_r (read_blocks_b u) true cap ck edit rb w1 w2 = (Ok b, w1', w2') ->
  U.update_file block psize_r ser_r uclass_r (read_blocks_r u) edit (IO.pos (IO.wdev w1)) (IO.data (IO.wdev w1)) =
    ({| U.orig := IO.data (IO.wdev w1'); U.rebuilt := if b then Some (IO.data (IO.wdev w2')) else None |}, Ok b).
Proof. exact real_update_under_faults. Qed.

(* Ok(false) under faults: the device holds the complete in-place result *)
Theorem C13_real_codec_inplace : forall (u : list N -> bool), utf8_ok u ->
  forall (cap : nat) (ck : list N -> list (list N)) (edit : U.blocklist block -> res (U.blocklist block)) (rb : bool)
         (w1 w2 w1' w2' : IO.world) (pre meta audio : list N) (bl : U.blocklist block),
  (0 < cap)%nat -> IO.ck_ok ck -> FlacUpdIo.IoFault_proofs.honest (IO.sr (IO.wsched w1)) ->
  IO.wdev w1 = {| IO.data := pre ++ meta ++ audio; IO.pos := length pre |} ->
  IO.wdev w2 = {| IO.data := []; IO.pos := 0 |} ->
  Forall byte (pre ++ meta ++ audio) -> typed_edit u edit ->
  read_blocks_r u (meta ++ audio) = Ok (bl, audio) ->
  IO.update_file_io block psize_r ser_r uclass_r (read_blocks_b u) true cap ck edit rb w1 w2 = (Ok false, w1', w2') ->
  exists bl1 bl2 meta' si,
    edit bl = Ok bl1 /\
    IO.data (IO.wdev w1') = pre ++ meta' ++ audio /\ length meta' = length meta /\
    write_blocks (of_upd bl2) = Ok meta' /\
    read_blocks u (meta' ++ audio) = Ok (of_upd bl2) /\
    U.bl_si block bl2 = BStreaminfo si /\
    FlacCodec.Stream.read_metadata_min (meta' ++ audio) = Some (convC si, audio) /\
    (bl2 = bl1 \/ exists n n', U.first_padding block (U.bl_blocks block bl1) = Some n /\
                               bl2 = U.with_first_padding block n' bl1).
Proof. exact real_update_under_faults_inplace. Qed.

(* Ok(true) under faults: the second device holds edited blocks ++ the identical frames, the first is untouched *)
Theorem C13_real_codec_rebuilt : forall (u : list N -> bool), utf8_ok u ->
  forall (cap : nat) (ck : list N -> list (list N)) (edit : U.blocklist block -> res (U.blocklist block)) (rb : bool)
         (w1 w2 w1' w2' : IO.world) (pre meta audio : list N) (bl : U.blocklist block),
  (0 < cap)%nat -> IO.ck_ok ck -> FlacUpdIo.IoFault_proofs.honest (IO.sr (IO.wsched w1)) ->
  IO.wdev w1 = {| IO.data := pre ++ meta ++ audio; IO.pos := length pre |} ->
  IO.wdev w2 = {| IO.data := []; IO.pos := 0 |} ->
  Forall byte (pre ++ meta ++ audio) -> typed_edit u edit ->
  read_blocks_r u (meta ++ audio) = Ok (bl, audio) ->
  IO.update_file_io block psize_r ser_r uclass_r (read_blocks_b u) true cap ck edit rb w1 w2 = (Ok true, w1', w2') ->
  exists bl1 bytes si,
    edit bl = Ok bl1 /\ write_blocks (of_upd bl1) = Ok bytes /\
    IO.data (IO.wdev w1') = pre ++ meta ++ audio /\
    IO.data (IO.wdev w2') = bytes ++ audio /\
    read_blocks u (bytes ++ audio) = Ok (of_upd bl1) /\
    U.bl_si block bl1 = BStreaminfo si /\
    FlacCodec.Stream.read_metadata_min (bytes ++ audio) = Some (convC si, audio).
Proof. exact real_update_under_faults_rebuilt. Qed.

(* ---- non-vacuity: the example file of Props_E2EUpd.v on a device whose writes come in pieces of three bytes after
   an interrupted read, through a 16-byte BufWriter: Ok(false), and the device holds the in-place result;
   and a schedule whose writes fail: an error, never Ok *)
Definition ex_world (sc : IO.sched) : IO.world :=
  {| IO.wdev := {| IO.data := ex_file; IO.pos := 0 |}; IO.wsched := sc |}.
Definition ex_world2 : IO.world := {| IO.wdev := {| IO.data := []; IO.pos := 0 |}; IO.wsched := IO.no_faults |}.
Definition ex_sched_short : IO.sched :=
  {| IO.sw := {| IO.pending := [IO.FShort 3; IO.FIntr; IO.FShort 1; IO.FShort 5]; IO.dflt_err := false |};
     IO.sf := IO.quiet; IO.ss := IO.quiet;
     IO.sr := {| IO.pending := [IO.FIntr; IO.FShort 7]; IO.dflt_err := false |} |}.
Definition ex_sched_fail : IO.sched :=
  {| IO.sw := {| IO.pending := [IO.FShort 2]; IO.dflt_err := true |}; IO.sf := IO.quiet; IO.ss := IO.quiet; IO.sr := IO.quiet |}.

Example C13_real_codec_example :
  (let '(r, w1', _) := IO.update_file_io block psize_r ser_r uclass_r (read_blocks_b utf8_valid_std) true 16 (fun b => [b])
                         (ex_add [1; 2; 3]) true (ex_world ex_sched_short) ex_world2 in
   r = Ok false /\
   IO.data (IO.wdev w1') = match write_blocks [BStreaminfo ex_si; BApplication (mkApp 1 [1; 2; 3]); BPadding 9] with
                           | Ok m => m ++ ex_audio | _ => [] end) /\
  (let '(r, _, _) := IO.update_file_io block psize_r ser_r uclass_r (read_blocks_b utf8_valid_std) true 16 (fun b => [b])
                         (ex_add [1; 2; 3]) true (ex_world ex_sched_fail) ex_world2 in
   is_ok r = false) /\
  FlacUpdIo.IoFault_proofs.honest (IO.sr (IO.wsched (ex_world ex_sched_short))) /\ IO.ck_ok (fun b => [b]).
Proof.
  split; [vm_compute; split; reflexivity|]. split; [vm_compute; reflexivity|].
  split; [repeat constructor; discriminate|]. intros bs. cbn. apply app_nil_r.
Qed.

Print Assumptions C13_real_codec_update_file.
Print Assumptions C13_real_codec_inplace.
Print Assumptions C13_real_codec_rebuilt.
Print Assumptions C13_real_codec_example.
