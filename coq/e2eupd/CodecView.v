(* e2eupd/CodecView.v — two independently written readers agree on every file.
   Whenever the metadata area's full reader (BlockList.read_blocks, here with the unread remainder:
   RealCodec.read_rest) accepts the head of a byte string, the codec area's minimal reader
   (FlacCodec.Stream.read_metadata_min — the front end of the decoder model used by C01/C03/C14) accepts it
   too, returns the same STREAMINFO (field by field, convC) and stops at the same byte: the audio the
   decoder sees begins exactly where the metadata reader stopped. *)
From FlacBase Require Import Res Bits.
From FlacMeta Require Import Bytes Bytes_proofs Blocks BlockList Blocks_proofs Blocks_proofs2 Blocks_level BlockList_proofs.
From FlacCodec Require Ast Stream.
From FlacUpdIo Require GenUpd Update Update_proofs.
From FlacE2EUpd Require Import RealCodec.
Open Scope N_scope.
Local Arguments N.add : simpl never.
Local Arguments N.mul : simpl never.
Local Arguments N.div : simpl never.
Local Arguments N.modulo : simpl never.
Local Arguments N.pow : simpl never.

Module U := FlacUpdIo.Update.
Module G := FlacUpdIo.GenUpd.
Module UP := FlacUpdIo.Update_proofs.
Module C := FlacCodec.Ast.
Module CS := FlacCodec.Stream.

Definition convC (s : streaminfo) : C.streaminfo :=
  {| C.si_min_bs := si_minb s; C.si_max_bs := si_maxb s; C.si_min_fs := si_minf s; C.si_max_fs := si_maxf s;
     C.si_rate := si_rate s; C.si_channels := si_ch s; C.si_bps := si_bps s; C.si_total := si_total s;
     C.si_md5 := match si_md5 s with Some m => m | None => zerosN 16 end |}.

(* ---- bits of big-endian bytes *)
Lemma wr_app_split a : forall b v, wr (a + b) v = wr a (v / 2 ^ N.of_nat b) ++ wr b v.
Proof.
  induction a as [|a IH]; intros b v; [reflexivity|].
  cbn [Nat.add wr app]. rewrite IH. f_equal.
  rewrite Nat2N.inj_add. rewrite <- N.shiftr_div_pow2, N.shiftr_spec'. reflexivity.
Qed.

Lemma bits_of_be_bytes k : forall v, bits_of_bytes (be_bytes k v) = wr (8 * k) v.
Proof.
  induction k as [|k IH]; intros v; [reflexivity|].
  cbn [be_bytes bits_of_bytes flat_map]. fold (bits_of_bytes (be_bytes k v)). rewrite IH.
  replace (8 * S k)%nat with (8 + 8 * k)%nat by lia. rewrite wr_app_split. f_equal.
  unfold byte_bits. change 256 with (2 ^ N.of_nat 8). rewrite wr_mod. f_equal. f_equal.
  rewrite <- N.pow_mul_r. f_equal. lia.
Qed.

Lemma length_be_bytes k v : length (be_bytes k v) = k.
Proof. apply be_bytes_length. Qed.

(* ---- STREAMINFO: what the metadata writer writes, the codec parser reads *)
Theorem parse_meta_streaminfo si body : ty_streaminfo si -> write_streaminfo si = Ok body ->
  CS.parse_streaminfo body = Some (convC si) /\ length body = 34%nat.
Proof.
  intros T H. unfold write_streaminfo in H.
  destruct T as (B1 & B2 & _ & _ & _ & [C1 _] & [P1 P2] & _ & Hmd).
  destruct (N.ltb_spec (si_minf si) (2 ^ 24)) as [B3|]; [|discriminate]. cbn [negb] in H.
  destruct (N.ltb_spec (si_maxf si) (2 ^ 24)) as [B4|]; [|discriminate]. cbn [negb] in H.
  destruct (N.ltb_spec (si_rate si) (2 ^ 20)) as [B5|]; [|discriminate]. cbn [negb] in H.
  destruct (N.ltb_spec (si_ch si - 1) 8) as [B6|]; [|discriminate]. cbn [negb] in H.
  unfold bitcount_checked_sub in H.
  destruct (N.leb_spec 1 (si_bps si)) as [_|]; [|lia].
  destruct (N.leb_spec (si_bps si - 1) 31) as [B7|]; [|lia].
  destruct (N.ltb_spec (si_total si) (2 ^ 36)) as [B8|]; [|discriminate]. cbn [negb] in H.
  apply Ok_inj in H. subst body.
  set (digest := match si_md5 si with Some m => m | None => zerosN 16 end).
  assert (Ld : length digest = 16%nat).
  { unfold digest. destruct (si_md5 si) as [m|].
    - destruct Hmd as [L _]. rewrite lenN_length in L. lia.
    - pose proof (lenN_zerosN 16) as L. rewrite lenN_length in L. lia. }
  set (packed := wr 20 (si_rate si) ++ wr 3 (si_ch si - 1) ++ wr 5 (si_bps si - 1) ++ wr 36 (si_total si)).
  assert (Lp : length packed = (8 * 8)%nat) by (unfold packed; rewrite !app_length, !wr_length; reflexivity).
  assert (Lb : length (bytes_of_bits 8 packed) = 8%nat) by (apply bytes_of_bits_length; exact Lp).
  split; [|rewrite !app_length, !length_be_bytes, Lb, Ld; reflexivity].
  unfold CS.parse_streaminfo.
  rewrite !app_length, !length_be_bytes, Lb, Ld. cbn [Nat.add Nat.eqb negb].
  rewrite !bits_of_bytes_app, !bits_of_be_bytes, (bits_of_bytes_of_bits 8 packed Lp).
  unfold packed. rewrite <- !app_assoc.
  rewrite rd_wr by (change (2 ^ N.of_nat (8 * 2)) with 65536; exact B1).
  rewrite rd_wr by (change (2 ^ N.of_nat (8 * 2)) with 65536; exact B2).
  rewrite rd_wr by exact B3. rewrite rd_wr by exact B4. rewrite rd_wr by exact B5.
  rewrite rd_wr by exact B6.
  rewrite rd_wr by (change (2 ^ N.of_nat 5) with 32; lia).
  rewrite rd_wr by exact B8.
  unfold convC. f_equal. f_equal; try lia.
Qed.

(* ---- the shape of the byte string behind an accepted block *)
Section Shape.
Variable u : list N -> bool.

Lemma read_block_shape s last b rest : Forall byte s ->
  read_block u s = Ok (last, b, rest) ->
  exists h body, s = write_header h ++ body ++ rest /\ lenN body = h_size h /\ h_size h < 2 ^ 24 /\
                 h_last h = last /\ Forall byte rest /\ h_type h = block_type b /\
                 match b with BStreaminfo si => ty_streaminfo si /\ write_streaminfo si = Ok body | _ => True end.
Proof.
  intros Hs H. unfold read_block in H.
  destruct (read_header s) as [[h s1]| |] eqn:RH; try discriminate.
  apply read_header_inv in RH; [|exact Hs]. destruct RH as [-> Hsz].
  pose proof (Forall_app_r _ _ _ Hs) as Hs1.
  destruct (read_body u (h_type h) (h_size h) (takeN (h_size h) s1)) as [[b' leftover]| |] eqn:RB; try discriminate.
  destruct (N.eqb_spec (h_size h - (lenN (takeN (h_size h) s1) - lenN leftover)) 0) as [Hz|]; [|discriminate].
  apply Ok_inj in H. injection H as <- <- <-.
  pose proof (lenN_takeN_le (h_size h) s1) as Hle.
  assert (Hb : Forall byte (takeN (h_size h) s1)).
  { rewrite <- (takeN_dropN (h_size h) s1) in Hs1. eapply Forall_app_l. exact Hs1. }
  assert (Hrest : Forall byte (dropN (h_size h) s1)).
  { rewrite <- (takeN_dropN (h_size h) s1) in Hs1. eapply Forall_app_r. exact Hs1. }
  exists h, (takeN (h_size h) s1). rewrite takeN_dropN.
  split; [reflexivity|].
  assert (Ll : lenN leftover <= lenN (takeN (h_size h) s1) /\ h_type h = block_type b').
  { change (2 ^ 24) with 16777216 in Hsz.
    pose proof (read_body_inv u _ _ _ _ _ Hb RB ltac:(unfold BLOCKSIZE_MAX; lia)) as (Ety & _ & _ & bs' & _ & L).
    split; [lia|exact Ety]. }
  destruct Ll as [Ll Ety].
  split; [lia|]. split; [exact Hsz|]. split; [reflexivity|]. split; [exact Hrest|]. split; [exact Ety|].
  destruct b' as [si| | | | | |]; try exact I.
  destruct (h_type h); cbn [read_body] in RB; inv_bind RB; unfold pret in RB; apply Ok_inj in RB; try discriminate.
  injection RB as -> ->.
  apply streaminfo_read_inv in E; [|exact Hb]. destruct E as (T & _ & bs & W & Eb).
  split; [exact T|]. rewrite Eb.
  assert (L0 : lenN leftover = 0) by lia. apply lenN_nil_inv in L0. subst leftover. rewrite app_nil_r. exact W.
Qed.

(* blocks up to the one flagged last, then `rest` *)
Inductive chain : bool -> list N -> list N -> Prop :=
| chain_done s : chain true s s
| chain_block h body s' rest : lenN body = h_size h -> h_size h < 2 ^ 24 -> chain (h_last h) s' rest ->
    chain false (write_header h ++ body ++ s') rest.

Lemma collect_rest_chain : forall fuel s sk vc png icon fin acc out rest,
  Forall byte s ->
  collect_rest u fuel (mkIter s false true true sk vc png icon fin) acc = Ok (out, rest) ->
  chain fin s rest.
Proof.
  induction fuel as [|f0 fuel IH]; intros s sk vc png icon fin acc out rest Hs H.
  - cbn [collect_rest] in H. unfold iter_next in H. cbn [it_failed it_tag_read negb] in H.
    unfold next_tagged in H. cbn [it_streaminfo_read negb] in H. unfold it_read_block in H.
    cbn [it_finished it_reader] in H.
    destruct fin.
    + apply Ok_inj in H. injection H as _ <-. constructor.
    + destruct (read_block u s) as [[[last b] rest']| |]; [|discriminate|discriminate].
      destruct b as [si|n|a|pts|v|c|pic];
        cbn [it_failed it_tag_read it_streaminfo_read it_seektable_read it_vorbiscomment_read it_png_read it_icon_read it_finished it_reader] in H;
        repeat match type of H with
               | context [pic_type ?q =? ?k] => destruct (pic_type q =? k)
               | context [negb ?f] => destruct f; cbn [negb] in H
               end; discriminate.
  - cbn [collect_rest] in H. unfold iter_next in H. cbn [it_failed it_tag_read negb] in H.
    unfold next_tagged in H. cbn [it_streaminfo_read negb] in H. unfold it_read_block in H.
    cbn [it_finished it_reader] in H.
    destruct fin.
    + apply Ok_inj in H. injection H as _ <-. constructor.
    + destruct (read_block u s) as [[[last b] rest']| |] eqn:RB; [|discriminate|discriminate].
      destruct (read_block_shape s last b rest' Hs RB) as (h & body & -> & Lb & Hsz & <- & Hrest & _ & _).
      assert (Step : forall sk' vc' png' icon',
        collect_rest u fuel (mkIter rest' false true true sk' vc' png' icon' (h_last h)) (b :: acc) = Ok (out, rest) ->
        chain false (write_header h ++ body ++ rest') rest).
      { intros sk' vc' png' icon' Hc. apply IH in Hc; [|exact Hrest]. constructor; assumption. }
      destruct b as [si|n|a|pts|v|c|pic];
        cbn [it_failed it_tag_read it_streaminfo_read it_seektable_read it_vorbiscomment_read it_png_read it_icon_read it_finished it_reader] in H;
        repeat match type of H with
               | context [pic_type ?q =? ?k] => destruct (pic_type q =? k) eqn:?
               | context [negb ?f] => destruct f; cbn [negb] in H
               end; try discriminate; eapply Step; exact H.
Qed.

(* the whole accepted head: tag, STREAMINFO block, further blocks up to the last one *)
Theorem read_rest_shape s l rest : Forall byte s -> read_rest u s = Ok (l, rest) ->
  exists si r last sibody s',
    l = BStreaminfo si :: r /\ ty_streaminfo si /\ write_streaminfo si = Ok sibody /\
    s = FLAC_TAG ++ write_header (mkHeader last TStreaminfo 34) ++ sibody ++ s' /\
    chain last s' rest.
Proof.
  intros Hs H. unfold read_rest in H. cbn [collect_rest] in H.
  unfold iter_next, iter_new in H. cbn [it_failed it_tag_read it_reader negb] in H.
  destruct (take 4 s) as [[tag s0]| |] eqn:TK; [|discriminate|discriminate].
  apply take_ok in TK. destruct TK as [-> Lt]. pose proof (Forall_app_r _ _ _ Hs) as Hr.
  destruct (forallb (fun ab : N * N => fst ab =? snd ab) (combine tag FLAC_TAG)) eqn:TG; [|discriminate].
  apply tag_check_eq in TG; [|exact Lt]. subst tag.
  unfold next_tagged in H. cbn [it_streaminfo_read negb] in H. unfold it_read_block in H.
  cbn [it_finished it_reader] in H.
  destruct (read_block u s0) as [[[last b] rest']| |] eqn:RB; [|discriminate|discriminate].
  destruct (read_block_shape s0 last b rest' Hr RB) as (h & body & -> & Lb & Hsz & <- & Hrest & Hty & Hb).
  destruct b as [si| | | | | |]; try discriminate.
  destruct Hb as [T W]. cbn [block_type] in Hty.
  cbn [it_failed it_tag_read it_streaminfo_read it_seektable_read it_vorbiscomment_read it_png_read it_icon_read it_finished it_reader] in H.
  destruct (parse_meta_streaminfo si body T W) as [_ L34].
  assert (Hsize : h_size h = 34) by (rewrite <- Lb, lenN_length, L34; reflexivity).
  assert (Eh : h = mkHeader (h_last h) TStreaminfo 34) by (rewrite <- Hty, <- Hsize; destruct h; reflexivity).
  pose proof (collect_rest_chain _ _ _ _ _ _ _ _ _ _ Hrest H) as Ch.
  match type of H with collect_rest _ ?f ?it ?acc = _ => pose proof (collect_rest_fst u f it acc) as F end.
  rewrite H in F. cbn [rmap bind fst] in F. symmetry in F.
  apply (collect_inv u) in F; [|exact Hrest]. destruct F as (l' & -> & _).
  exists si, l', (h_last h), body, rest'. split; [reflexivity|]. split; [exact T|]. split; [exact W|].
  split; [|exact Ch]. rewrite <- Eh. reflexivity.
Qed.
End Shape.

(* ---- the codec area's minimal reader on such a byte string *)
Lemma header_bytes last t size : size < 2 ^ 24 ->
  write_header (mkHeader last t size) =
  [(if last then 128 else 0) + btype_code t; size / 65536; (size / 256) mod 256; size mod 256].
Proof. intros H. rewrite <- header_eq by exact H. reflexivity. Qed.

Lemma be_num3 len : len < 2 ^ 24 -> CS.be_num [len / 65536; (len / 256) mod 256; len mod 256] 0 = len.
Proof.
  intros H. cbn [CS.be_num].
  pose proof (N.div_mod len 256 ltac:(lia)) as D1. pose proof (N.div_mod (len / 256) 256 ltac:(lia)) as D2.
  assert (E : len / 65536 = len / 256 / 256) by (rewrite N.div_div by lia; reflexivity). lia.
Qed.

Lemma skip_chain : forall last s rest, chain last s rest ->
  forall fuel, (length s <= fuel)%nat -> CS.skip_blocks fuel last s = Some rest.
Proof.
  induction 1 as [s|h body s' rest Lb Hsz Hc IH]; intros fuel Hf.
  - destruct fuel; reflexivity.
  - destruct h as [hl ht hs]. cbn [h_last h_size] in *. rewrite header_bytes in * by exact Hsz.
    cbn [app length] in Hf. destruct fuel as [|f]; [lia|]. cbn [app CS.skip_blocks].
    rewrite be_num3 by exact Hsz. rewrite lenN_length in Lb.
    assert (Ln : N.to_nat hs = length body) by lia. rewrite Ln.
    rewrite app_length. destruct (Nat.ltb_spec (length body + length s') (length body)) as [|_]; [lia|].
    rewrite skipn_app, skipn_all, Nat.sub_diag. cbn [skipn app].
    assert (El : (128 <=? (if hl then 128 else 0) + btype_code ht) = hl) by (destruct hl, ht; reflexivity).
    rewrite El. apply IH. rewrite app_length in Hf. lia.
Qed.

Section Agree.
Variable u : list N -> bool.

(* the two readers agree: same STREAMINFO, same first audio byte *)
Theorem readers_agree s l rest : Forall byte s -> read_rest u s = Ok (l, rest) ->
  exists si r, l = BStreaminfo si :: r /\ CS.read_metadata_min s = Some (convC si, rest).
Proof.
  intros Hs H. destruct (read_rest_shape u s l rest Hs H) as (si & r & last & sibody & s' & -> & T & W & -> & Ch).
  exists si, r. split; [reflexivity|].
  destruct (parse_meta_streaminfo si sibody T W) as [P L34].
  rewrite header_bytes by (cbv; reflexivity). cbn [btype_code].
  change (34 / 65536) with 0. change ((34 / 256) mod 256) with 0. change (34 mod 256) with 34.
  unfold CS.read_metadata_min. cbn [FLAC_TAG app].
  assert (Ef : firstn 34 (sibody ++ s') = sibody).
  { rewrite <- L34. rewrite firstn_app, Nat.sub_diag, firstn_all. cbn [firstn]. apply app_nil_r. }
  assert (Es : skipn 34 (sibody ++ s') = s').
  { rewrite <- L34. rewrite skipn_app, skipn_all, Nat.sub_diag. reflexivity. }
  assert (Eh : ((if last then 128 else 0) + 0 =? 0) || ((if last then 128 else 0) + 0 =? 128) = true) by (destruct last; reflexivity).
  rewrite Eh. cbn [negb]. rewrite Ef, Es, P.
  assert (El : (128 <=? (if last then 128 else 0) + 0) = last) by (destruct last; reflexivity).
  rewrite El. rewrite (skip_chain last s' rest Ch); [reflexivity|]. rewrite app_length. lia.
Qed.

(* the same for a metadata region the metadata writer produced (no assumption that the bytes are < 256) *)
Lemma write_rest_chain : forall l sk vc png icon y tail, Forall (ty_block u) l ->
  write_rest sk vc png icon l = Ok y ->
  chain (match l with [] => true | _ => false end) (y ++ tail) tail.
Proof.
  induction l as [|b l IH]; intros sk vc png icon y tail T W.
  - cbn [write_rest] in W. apply Ok_inj in W. subst y. constructor.
  - apply write_rest_cons in W. destruct W as (x & y' & sk' & vc' & png' & icon' & Wb & Wr & -> & _).
    inversion T as [|? ? Tb Tl]; subst.
    destruct (write_block_inv u _ b x Tb Wb) as (body & _ & Le & _ & ->).
    rewrite <- !app_assoc.
    apply (chain_block (mkHeader (match l with [] => true | _ => false end) (block_type b) (lenN body)) body (y' ++ tail) tail).
    + reflexivity.
    + cbn [h_size]. unfold BLOCKSIZE_MAX in Le. change (2 ^ 24) with 16777216. lia.
    + cbn [h_last]. eapply IH; eassumption.
Qed.

Theorem writers_agree si r bs audio : Forall (ty_block u) (BStreaminfo si :: r) ->
  write_blocks (BStreaminfo si :: r) = Ok bs ->
  CS.read_metadata_min (bs ++ audio) = Some (convC si, audio).
Proof.
  intros T W. unfold write_blocks in W.
  destruct (write_block (match r with [] => true | _ => false end) (BStreaminfo si)) as [x| |] eqn:Wb;
    cbn [bind] in W; try discriminate.
  destruct (write_rest false false false false r) as [y| |] eqn:Wr; cbn [bind] in W; try discriminate.
  apply Ok_inj in W. subst bs. inversion T as [|? ? Tb Tl]; subst.
  destruct (write_block_inv u _ _ x Tb Wb) as (sibody & Ws & _ & _ & ->). cbn [write_body block_type] in Ws.
  cbn [ty_block] in Tb. destruct (parse_meta_streaminfo si sibody Tb Ws) as [P L34].
  assert (L : lenN sibody = 34) by (rewrite lenN_length, L34; reflexivity). rewrite L.
  set (last := match r with [] => true | _ => false end).
  pose proof (write_rest_chain r false false false false y audio Tl Wr) as Ch. fold last in Ch.
  rewrite header_bytes by (cbv; reflexivity). cbn [btype_code block_type].
  change (34 / 65536) with 0. change ((34 / 256) mod 256) with 0. change (34 mod 256) with 34.
  rewrite <- !app_assoc. unfold CS.read_metadata_min. cbn [FLAC_TAG app].
  assert (Ef : firstn 34 (sibody ++ y ++ audio) = sibody).
  { rewrite <- L34. rewrite firstn_app, Nat.sub_diag, firstn_all. cbn [firstn]. apply app_nil_r. }
  assert (Es : skipn 34 (sibody ++ y ++ audio) = y ++ audio).
  { rewrite <- L34. rewrite skipn_app, skipn_all, Nat.sub_diag. reflexivity. }
  assert (Eh : ((if last then 128 else 0) + 0 =? 0) || ((if last then 128 else 0) + 0 =? 128) = true) by (destruct last; reflexivity).
  rewrite Eh. cbn [negb]. rewrite Ef, Es, P.
  assert (El : (128 <=? (if last then 128 else 0) + 0) = last) by (destruct last; reflexivity).
  rewrite El. rewrite (skip_chain last (y ++ audio) audio Ch); [reflexivity|]. rewrite !app_length. lia.
Qed.

(* what is read is a prefix: the accepted head, then the remainder *)
Lemma chain_suffix last s rest : chain last s rest -> exists m, s = m ++ rest.
Proof.
  induction 1 as [s|h body s' rest _ _ _ [m ->]]; [exists []; reflexivity|].
  exists (write_header h ++ body ++ m). rewrite <- !app_assoc. reflexivity.
Qed.
Theorem read_rest_prefix s l rest : Forall byte s -> read_rest u s = Ok (l, rest) -> exists meta, s = meta ++ rest.
Proof.
  intros Hs H. destruct (read_rest_shape u s l rest Hs H) as (si & r & last & sibody & s' & _ & _ & _ & -> & Ch).
  destruct (chain_suffix _ _ _ Ch) as [m ->].
  exists (FLAC_TAG ++ write_header (mkHeader last TStreaminfo 34) ++ sibody ++ m). rewrite <- !app_assoc. reflexivity.
Qed.
End Agree.
