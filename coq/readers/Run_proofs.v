(* readers/Run_proofs.v — from single calls to whole histories (induction over the op list of
   `run` = fold_left), for the three readers. *)
From FlacReaders Require Import Spec Lists_proofs Cursor_proofs Frame_proofs Core_proofs
  Byte_proofs Sample_proofs Chan_proofs.
Open Scope N_scope.

Section Lift.
  Context {S O A : Type}.
  Variable step : S -> O -> S * out.

  Fixpoint run_from (s : S) (ops : list O) : S * trace S O :=
    match ops with
    | [] => (s, [])
    | o :: r => let (s', x) := step s o in
                let (sf, tr) := run_from s' r in (sf, (s, o, x) :: tr)
    end.

  Lemma run_fold ops : forall s acc,
    fold_left (fun (a : S * trace S O) o => let (s, tr) := a in let (s', x) := step s o in (s', tr ++ [(s, o, x)]))
              ops (s, acc) = (fst (run_from s ops), acc ++ snd (run_from s ops)).
  Proof.
    induction ops as [|o r IH]; intros s acc; cbn [fold_left run_from].
    - now rewrite app_nil_r.
    - destruct (step s o) as [s' x]. rewrite IH. destruct (run_from s' r) as [sf tr]. cbn [fst snd].
      now rewrite <- app_assoc.
  Qed.

  Lemma run_is_run_from s ops : run step s ops = run_from s ops.
  Proof. unfold run. rewrite run_fold. cbn [app]. now destruct (run_from s ops). Qed.

  Lemma trace_ops s ops : map (fun x : S * O * out => snd (fst x)) (snd (run step s ops)) = ops.
  Proof.
    rewrite run_is_run_from. revert s. induction ops as [|o r IH]; intros s; cbn [run_from]; [reflexivity|].
    destruct (step s o) as [s' x]. specialize (IH s'). destruct (run_from s' r) as [sf tr].
    cbn [snd fst map] in *. now rewrite IH.
  Qed.

  Variable Inv : S -> Prop.
  Variable okp : S * O * out -> Prop.
  Variable abs : S * O * out -> entry A.
  Variable pos : S -> N.
  Variable data : list A.
  Hypothesis abs_pos : forall s o x, e_pos (abs (s, o, x)) = pos s.
  Hypothesis abs_pos' : forall s o x, e_pos' (abs (s, o, x)) = pos (fst (step s o)).
  Hypothesis step_ok : forall s o, Inv s -> okp (s, o, snd (step s o)) ->
    Inv (fst (step s o)) /\ cur_ok data (abs (s, o, snd (step s o))).

  Theorem run_refines ops : forall s0, Inv s0 -> Forall okp (snd (run step s0 ops)) ->
    Inv (fst (run step s0 ops)) /\
    Forall (cur_ok data) (map abs (snd (run step s0 ops))) /\
    chained (pos s0) (map abs (snd (run step s0 ops))) (pos (fst (run step s0 ops))).
  Proof.
    intros s0. rewrite run_is_run_from. revert s0.
    induction ops as [|o r IH]; intros s0 I Hok; cbn [run_from] in *.
    - cbn. auto.
    - pose proof (step_ok s0 o I) as Hs. pose proof (abs_pos' s0 o) as Hp'.
      destruct (step s0 o) as [s' x]. specialize (IH s'). destruct (run_from s' r) as [sf tr].
      cbn [fst snd map] in *. inversion Hok as [|? ? Ho Hr]; subst.
      destruct (Hs Ho) as (I' & C). destruct (IH I' Hr) as (If & Cf & Chf).
      split; [exact If|]. split; [constructor; assumption|].
      cbn [chained]. split; [apply abs_pos|]. rewrite Hp'. exact Chf.
  Qed.

  (* the invariant holds before every call of the history *)
  Theorem run_invs ops : forall s0, Inv s0 -> Forall okp (snd (run step s0 ops)) ->
    Forall (fun x : S * O * out => Inv (fst (fst x)) /\ snd x = snd (step (fst (fst x)) (snd (fst x))))
           (snd (run step s0 ops)).
  Proof.
    intros s0. rewrite run_is_run_from. revert s0.
    induction ops as [|o r IH]; intros s0 I Hok; cbn [run_from] in *; [constructor|].
    pose proof (step_ok s0 o I) as Hs.
    destruct (step s0 o) as [s' x] eqn:Est. specialize (IH s'). destruct (run_from s' r) as [sf tr].
    cbn [fst snd] in *. inversion Hok as [|? ? Ho Hr]; subst.
    destruct (Hs Ho) as (I' & _). constructor; [cbn [fst snd]; rewrite Est; auto | now apply IH].
  Qed.
End Lift.

(* no seek among the ops => the abstract history is seek free *)
Lemma seek_free_map {X A} (abs : X -> entry A) (tr : list X) :
  Forall (fun x => is_seek (abs x) = false) tr -> seek_free (map abs tr).
Proof. intros H. unfold seek_free. now rewrite Forall_map. Qed.

Section Readers.
  Variable F : file.
  Hypothesis V : valid_file F.

  (* ---- byte reader *)
  Lemma byte_step_ok r o : BInv F r -> bop_ok (r, o, snd (byte_step F r o)) ->
    BInv F (fst (byte_step F r o)) /\ cur_ok (pcm_bytes F) (abs_b F (r, o, snd (byte_step F r o))).
  Proof.
    intros I Hok. destruct o as [n| |k|sf]; cbn [byte_step bop_ok] in *.
    - now apply byte_read_ok.
    - destruct (byte_fill_ok F V r I) as (? & ? & _). auto.
    - now apply byte_consume_ok.
    - now apply byte_seek_ok.
  Qed.

  Theorem byte_refines ops : Forall bop_ok (snd (byte_run F ops)) ->
    BInv F (fst (byte_run F ops)) /\
    Forall (cur_ok (pcm_bytes F)) (map (abs_b F) (snd (byte_run F ops))) /\
    chained 0 (map (abs_b F) (snd (byte_run F ops))) (bpos F (fst (byte_run F ops))).
  Proof.
    intros Hok. unfold byte_run in *.
    pose proof (run_refines (byte_step F) (BInv F) bop_ok (abs_b F) (bpos F) (pcm_bytes F)
                  (fun _ _ _ => eq_refl) (fun _ _ _ => eq_refl) byte_step_ok ops (byte_new F)
                  (binv_new F) Hok) as H.
    replace (bpos F (byte_new F)) with 0 in H by (unfold bpos; cbn; lia). exact H.
  Qed.

  Lemma byte_seek_free ops : no_bseek ops -> seek_free (map (abs_b F) (snd (byte_run F ops))).
  Proof.
    intros H. apply seek_free_map. unfold byte_run.
    pose proof (trace_ops (byte_step F) (byte_new F) ops) as Ho. revert Ho H.
    generalize (snd (run (byte_step F) (byte_new F) ops)). intros tr <-. unfold no_bseek.
    rewrite Forall_map. apply Forall_impl. intros [[r o] x]. cbn. destruct o; auto. contradiction.
  Qed.

  (* ---- sample reader *)
  Lemma sample_step_ok r o : SInv F r -> sop_ok (r, o, snd (sample_step F r o)) ->
    SInv F (fst (sample_step F r o)) /\ cur_ok (pcm F) (abs_s F (r, o, snd (sample_step F r o))).
  Proof.
    intros I Hok. destruct o as [n| |k| |s]; cbn [sample_step sop_ok] in *.
    - now apply sample_read_ok.
    - destruct (sample_fill_ok F V r I) as (? & ? & _). auto.
    - now apply sample_consume_ok.
    - now apply sample_next_ok.
    - destruct (sample_seek_ok F V r s I Hok) as (? & ? & _). auto.
  Qed.

  Theorem sample_refines ops : Forall sop_ok (snd (sample_run F ops)) ->
    SInv F (fst (sample_run F ops)) /\
    Forall (cur_ok (pcm F)) (map (abs_s F) (snd (sample_run F ops))) /\
    chained 0 (map (abs_s F) (snd (sample_run F ops))) (spos F (fst (sample_run F ops))).
  Proof.
    intros Hok. unfold sample_run in *.
    pose proof (run_refines (sample_step F) (SInv F) sop_ok (abs_s F) (spos F) (pcm F)
                  (fun _ _ _ => eq_refl) (fun _ _ _ => eq_refl) sample_step_ok ops (sample_new F)
                  (sinv_new F) Hok) as H.
    replace (spos F (sample_new F)) with 0 in H by (unfold spos; cbn; lia). exact H.
  Qed.

  Lemma sample_seek_free ops : no_sseek ops -> seek_free (map (abs_s F) (snd (sample_run F ops))).
  Proof.
    intros H. apply seek_free_map. unfold sample_run.
    pose proof (trace_ops (sample_step F) (sample_new F) ops) as Ho. revert Ho H.
    generalize (snd (run (sample_step F) (sample_new F) ops)). intros tr <-. unfold no_sseek.
    rewrite Forall_map. apply Forall_impl. intros [[r o] x]. cbn. destruct o; auto. contradiction.
  Qed.

  (* ---- channel reader, channel c *)
  Variable c : nat.
  Hypothesis Hc : (c < N.to_nat (f_channels F))%nat.

  Lemma chan_step_ok r o : CInv F r -> cop_ok (r, o, snd (chan_step F r o)) ->
    CInv F (fst (chan_step F r o)) /\ cur_ok (chan_pcm F c) (abs_c F c (r, o, snd (chan_step F r o))).
  Proof.
    intros I Hok. destruct o as [|k|s]; cbn [chan_step cop_ok] in *.
    - destruct (chan_fill_ok F V c Hc r I) as (? & ? & _). auto.
    - destruct (chan_consume_ok F V c Hc r k I Hok) as (? & ? & _). auto.
    - destruct (chan_seek_ok F V c Hc r s I Hok) as (? & ? & _). auto.
  Qed.

  Theorem chan_refines ops : Forall cop_ok (snd (chan_run F ops)) ->
    CInv F (fst (chan_run F ops)) /\
    Forall (cur_ok (chan_pcm F c)) (map (abs_c F c) (snd (chan_run F ops))) /\
    chained 0 (map (abs_c F c) (snd (chan_run F ops))) (cpos (fst (chan_run F ops))).
  Proof.
    intros Hok. unfold chan_run in *.
    pose proof (run_refines (chan_step F) (CInv F) cop_ok (abs_c F c) cpos (chan_pcm F c)
                  (fun _ _ _ => eq_refl) (fun _ _ _ => eq_refl) chan_step_ok ops (chan_new F)
                  (cinv_new F c Hc) Hok) as H.
    exact H.
  Qed.

  Lemma chan_seek_free ops : no_cseek ops -> seek_free (map (abs_c F c) (snd (chan_run F ops))).
  Proof.
    intros H. apply seek_free_map. unfold chan_run.
    pose proof (trace_ops (chan_step F) (chan_new F) ops) as Ho. revert Ho H.
    generalize (snd (run (chan_step F) (chan_new F) ops)). intros tr <-. unfold no_cseek.
    rewrite Forall_map. apply Forall_impl. intros [[r o] x]. cbn. destruct o; auto. contradiction.
  Qed.
End Readers.
