(* E2E/E2E.v — the three models composed: the writers area's Encoder (construction of the metadata region,
   per-frame bookkeeping, finalize rewriting STREAMINFO/SEEKTABLE in place), instantiated with the codec
   area's model of the block encoder (Enc.enc_frame_bytes), produces a stream that the codec area's stream
   decoder (Stream.dec_stream) opens and decodes to exactly the blocks that were encoded, in order, ending
   cleanly.  This is C01 for the encoder as a whole: metadata + frames, written and read by independently
   written models, each tied to the implementation by its own correspondence check. *)
From Coq Require Import List NArith ZArith Lia.
From FlacBase Require Import Res Bits.
From FlacCodec Require Ast Stream File Enc Enc_proofs Wf.
From FlacWriters Require Import Meta Params Finalize Finalize_proofs C09_proofs Writers Lists_proofs.
From FlacE2E Require Import Bridge.
Import ListNotations.
Open Scope N_scope.
Local Arguments N.add : simpl never.
Local Arguments N.mul : simpl never.

Module E := FlacCodec.Enc.
Module EP := FlacCodec.Enc_proofs.

Section E2E.
Variable o : E.eopts.
Variable L : E.oracle.
Variable md5 : list N -> list N.
Hypothesis md5_length : forall l, length (md5 l) = 16%nat.
Variable p : profile.
Variable rate bps : N.

(* the block encoder the writers area leaves abstract *)
Definition encB (k : N) (b : block) : res (list N) :=
  match E.enc_frame_bytes o L rate bps k b with Some x => Ok x | None => Err EIo end.

(* e is reached from e0 by MD5 updates and Encoder::encode calls; bl = the encoded blocks in order *)
Inductive reach (e0 : encoder) : list block -> encoder -> Prop :=
| reach_refl : reach e0 [] e0
| reach_md5 bl e bytes : reach e0 bl e -> reach e0 bl (md5_consume e bytes)
| reach_enc bl e b e' : reach e0 bl e -> encoder_encode encB p e b = Ok e' -> reach e0 (bl ++ [b]) e'.

Definition blocks_len (bl : list block) : N := EP.blocks_samples bl.

Lemma enc_blocks_snoc : forall bl k0 by_ b x,
  E.enc_blocks o L rate bps k0 bl = Some by_ ->
  E.enc_frame_bytes o L rate bps (k0 + N.of_nat (length bl)) b = Some x ->
  E.enc_blocks o L rate bps k0 (bl ++ [b]) = Some (by_ ++ x).
Proof.
  induction bl as [|a bl IH]; intros k0 by_ b x Hb Ex.
  - cbn in Hb. injection Hb as <-. cbn [app E.enc_blocks length] in *. change (N.of_nat 0) with 0 in Ex.
    rewrite N.add_0_r in Ex. rewrite Ex. cbn. rewrite app_nil_r. reflexivity.
  - cbn [app E.enc_blocks] in *. destruct (E.enc_frame_bytes o L rate bps k0 a) as [xa|]; [|discriminate].
    destruct (E.enc_blocks o L rate bps (k0 + 1) bl) as [ya|] eqn:Ey; [|discriminate]. injection Hb as <-.
    rewrite (IH (k0 + 1) ya b x Ey); [rewrite app_assoc; reflexivity|].
    cbn [length] in Ex. replace (k0 + 1 + N.of_nat (length bl)) with (k0 + N.of_nat (S (length bl))) by lia. exact Ex.
Qed.

(* what the calls leave alone, and what they accumulate *)
Lemma reach_inv e0 bl e : reach e0 bl e ->
  same_meta e0 e /\
  si_rate (e_si e) = si_rate (e_si e0) /\ si_channels (e_si e) = si_channels (e_si e0) /\
  si_bps (e_si e) = si_bps (e_si e0) /\ si_min_bs (e_si e) = si_min_bs (e_si e0) /\
  si_max_bs (e_si e) = si_max_bs (e_si e0) /\ si_total (e_si e) = si_total (e_si e0) /\
  e_frame_number e = e_frame_number e0 + N.of_nat (length bl) /\
  (e_samples_written e0 + blocks_len bl < 2 ^ 64 -> e_samples_written e = e_samples_written e0 + blocks_len bl) /\
  exists bytes, E.enc_blocks o L rate bps (e_frame_number e0) bl = Some bytes /\
                frames_bytes e = frames_bytes e0 ++ bytes.
Proof.
  induction 1 as [|bl e bytes H IH|bl e b e' H IH Henc].
  - split; [apply same_meta_refl|]. do 6 (split; [reflexivity|]). split; [cbn; lia|]. split; [cbn; intros; lia|].
    exists (@nil N). split; [reflexivity|]. rewrite app_nil_r. reflexivity.
  - destruct IH as (S & R1 & R2 & R3 & R4 & R5 & R6 & R7 & R8 & by_ & Hb & Hf).
    unfold md5_consume. cbn [e_si e_frame_number e_samples_written].
    split; [destruct S as (A & B & C & D); unfold same_meta; cbn; auto|].
    do 8 (split; [assumption|]).
    exists by_. split; [exact Hb|]. unfold frames_bytes in *. cbn [e_frames_rev]. exact Hf.
  - destruct IH as (S & R1 & R2 & R3 & R4 & R5 & R6 & R7 & R8 & by_ & Hb & Hf).
    unfold encoder_encode in Henc.
    destruct (si_max_bs (e_si e) <? block_len b); [discriminate|].
    destruct (u64_add p (e_samples_written e) (block_len b)) as [written| |] eqn:Ew; try discriminate. cbn [bind] in Henc.
    destruct (match si_total (e_si e) with Some t => t <? written | None => false end); [discriminate|].
    destruct (8 <? N.of_nat (length b)); [discriminate|].
    unfold encB in Henc at 1.
    destruct (E.enc_frame_bytes o L rate bps (e_frame_number e) b) as [x|] eqn:Ex; [|discriminate]. cbn [bind] in Henc.
    destruct (u64_add p (e_count e) (N.of_nat (length x))) as [count| |]; try discriminate. cbn [bind] in Henc.
    injection Henc as <-. cbn [e_si e_frame_number e_samples_written].
    assert (Ebl : block_len b = E.block_len b) by (destruct b; reflexivity).
    assert (Esum : blocks_len (bl ++ [b]) = blocks_len bl + E.block_len b).
    { unfold blocks_len, EP.blocks_samples. rewrite fold_right_app. cbn [fold_right]. clear. induction bl as [|a bl IH]; cbn [fold_right]; lia. }
    split; [destruct S as (A & B & C & D); unfold same_meta; cbn; auto|].
    split; [unfold update_frame_sizes; destruct (_ && _); cbn; exact R1|].
    split; [unfold update_frame_sizes; destruct (_ && _); cbn; exact R2|].
    split; [unfold update_frame_sizes; destruct (_ && _); cbn; exact R3|].
    split; [unfold update_frame_sizes; destruct (_ && _); cbn; exact R4|].
    split; [unfold update_frame_sizes; destruct (_ && _); cbn; exact R5|].
    split; [unfold update_frame_sizes; destruct (_ && _); cbn; exact R6|].
    split; [rewrite R7, app_length; cbn [length]; lia|].
    split.
    + intros Hlt. rewrite Esum in Hlt. unfold u64_add in Ew.
      rewrite R8 in Ew by lia. rewrite Ebl in Ew.
      destruct (N.ltb_spec (e_samples_written e0 + blocks_len bl + E.block_len b) (2 ^ 64)); [|lia].
      injection Ew as <-. rewrite Esum. lia.
    + exists (by_ ++ x). split.
      * rewrite R7 in Ex. eapply enc_blocks_snoc; eauto.
      * unfold frames_bytes in *. cbn [e_frames_rev rev]. rewrite concat_app, Hf. cbn [concat]. rewrite app_nil_r, app_assoc. reflexivity.
Qed.

Lemma encoder_new_fresh wo ch total e0 :
  encoder_new p [] wo rate bps ch total = Ok e0 ->
  e_prefix e0 = [] /\ e_frames_rev e0 = [] /\ e_frame_number e0 = 0 /\ e_samples_written e0 = 0 /\
  si_rate (e_si e0) = rate /\ si_bps (e_si e0) = bps /\ si_channels (e_si e0) = ch /\
  si_max_bs (e_si e0) = o_block_size wo /\ si_min_bs (e_si e0) = o_block_size wo /\ si_total (e_si e0) = total.
Proof.
  unfold encoder_new. intros H.
  apply bind_ok in H. destruct H as ([] & _ & H).
  apply bind_ok in H. destruct H as (bl & _ & H).
  apply bind_ok in H. destruct H as (meta & _ & H). injection H as <-. cbn. repeat split; reflexivity.
Qed.

(* C01, the encoder as a whole: construction, any interleaving of MD5 updates and Encoder::encode calls on blocks
   in range, finalize — the finished stream decodes to exactly the encoded blocks *)
Theorem e2e_encoder wo ch total e0 bl e f :
  encoder_new p [] wo rate bps ch total = Ok e0 ->
  reach e0 bl e ->
  encoder_finalize md5 p e = Ok f ->
  Forall (EP.block_ok (conv_si (f_si f)) bps) bl ->
  EP.short_only_last (conv_si (f_si f)) bl ->
  N.of_nat (length bl) <= FlacCodec.Header.MAX_FRAME_NUMBER + 1 ->
  EP.blocks_samples bl < 2 ^ 64 ->
  FlacCodec.Stream.dec_stream (f_stream f) =
    Some (conv_si (f_si f), map FlacCodec.Stream.interleave_frame bl, FlacCodec.Stream.EndEof) /\
  FlacCodec.Ast.si_total (conv_si (f_si f)) = EP.blocks_samples bl.
Proof.
  intros Hnew Hr Hfin Hall Hshape Hlen Hfit.
  destruct (encoder_new_fresh _ _ _ _ Hnew) as (P0 & F0 & K0 & W0 & Sr & Sb & Sc & Smax & Smin & St).
  destruct (reach_inv e0 bl e Hr) as (Sm & R1 & R2 & R3 & R4 & R5 & R6 & R7 & R8 & bytes & Hb & Hf).
  rewrite K0 in Hb. rewrite W0 in R8. unfold blocks_len in R8. specialize (R8 ltac:(lia)).
  assert (Hfr : frames_bytes e = bytes) by (rewrite Hf; unfold frames_bytes; rewrite F0; reflexivity).
  (* layout of the finished stream *)
  pose proof (finalize_layout_from md5 md5_length p e0 e f (encoder_new_meta p _ _ _ _ _ _ _ Hnew) Sm Hfin) as Hlay.
  destruct Hlay as (meta' & Hw & _ & _ & _ & Hs).
  (* what finalize recorded *)
  unfold encoder_finalize, encoder_finalize_gen in Hfin.
  apply bind_ok in Hfin. destruct Hfin as (blocks & _ & Hfin).
  apply bind_ok in Hfin. destruct Hfin as (tot & Htot & Hfin).
  apply bind_ok in Hfin. destruct Hfin as (meta & _ & Hfin). injection Hfin as <-.
  cbn [f_si f_blocks f_enc f_stream] in *.
  rewrite Hs, P0, Hfr. cbn [app].
  set (wsi := with_total_md5 (e_si e) tot (Some (md5 (md5_input e)))) in *.
  assert (Hmd : md5_len_ok wsi) by (unfold md5_len_ok, wsi; cbn; apply md5_length).
  unfold FlacCodec.Stream.dec_stream. rewrite (read_written_metadata wsi blocks meta' bytes Hw Hmd).
  (* the total recorded is the number of samples encoded *)
  assert (Htotal : FlacCodec.Ast.si_total (conv_si wsi) = EP.blocks_samples bl).
  { unfold conv_si, wsi. cbn. unfold finalize_total in Htot. rewrite R6, St in Htot.
    destruct total as [t|].
    - destruct (N.eqb_spec t (e_samples_written e)) as [E|]; [|discriminate]. injection Htot as <-. cbn. lia.
    - destruct (e_samples_written e <? MAX_SAMPLES); [|discriminate].
      destruct (e_samples_written e =? 0); [discriminate|]. injection Htot as <-. cbn. lia. }
  assert (Hrate : FlacCodec.Ast.si_rate (conv_si wsi) = rate) by (unfold conv_si, wsi; cbn; congruence).
  split; [|exact Htotal].
  rewrite (EP.enc_stream_roundtrip o L (conv_si wsi) rate bps bl 0 bytes (S (length bytes)) 0 [] Hb Hall Hrate);
    [reflexivity|rewrite N.add_0_l; exact Hlen|exact Hshape|right; rewrite N.add_0_l; symmetry; exact Htotal|lia].
Qed.

(* ---- FlacSampleWriter drives the Encoder only through MD5 updates and Encoder::encode ---- *)
Lemma reach_trans e0 bl1 e1 bl2 e2 : reach e0 bl1 e1 -> reach e1 bl2 e2 -> reach e0 (bl1 ++ bl2) e2.
Proof.
  intros H1 H2. induction H2 as [|bl e bytes H IH|bl e b e' H IH Henc].
  - rewrite app_nil_r. exact H1.
  - apply reach_md5. exact IH.
  - rewrite app_assoc. eapply reach_enc; eauto.
Qed.

Lemma chunk_reach chn bytes_ps e chunk e' :
  sample_encode_chunk encB p chn bytes_ps e chunk = Ok e' -> exists b, reach e [b] e'.
Proof.
  unfold sample_encode_chunk. intros H.
  apply bind_ok in H. destruct H as (bytes & _ & H). apply bind_ok in H. destruct H as (blk & _ & H).
  exists blk. change [blk] with ([] ++ [blk]). eapply reach_enc; [|exact H]. apply reach_md5. apply reach_refl.
Qed.

Lemma chunks_reach chn bytes_ps : forall chunks e e',
  fold_res (sample_encode_chunk encB p chn bytes_ps) e chunks = Ok e' -> exists bl, reach e bl e'.
Proof.
  induction chunks as [|c r IH]; intros e e' H; cbn [fold_res] in H.
  - injection H as <-. exists []. apply reach_refl.
  - apply bind_ok in H. destruct H as (e1 & H1 & H2).
    destruct (chunk_reach _ _ _ _ _ H1) as [b Hb]. destruct (IH _ _ H2) as [bl Hbl].
    exists ([b] ++ bl). eapply reach_trans; eauto.
Qed.

Lemma writes_reach : forall chunks w w',
  fold_res (sample_write encB p) w chunks = Ok w' -> exists bl, reach (sw_enc w) bl (sw_enc w').
Proof.
  induction chunks as [|c r IH]; intros w w' H; cbn [fold_res] in H.
  - injection H as <-. exists []. apply reach_refl.
  - apply bind_ok in H. destruct H as (w1 & H1 & H2).
    unfold sample_write in H1. destruct (sw_frame_sample_size w =? 0); [discriminate|].
    destruct (drain _ _) as [cs rest]. apply bind_ok in H1. destruct H1 as (e1 & He1 & H1). injection H1 as <-.
    destruct (chunks_reach _ _ _ _ _ He1) as [bl1 Hb1]. destruct (IH _ _ H2) as [bl2 Hb2]. cbn [sw_enc] in Hb2.
    exists (bl1 ++ bl2). eapply reach_trans; eauto.
Qed.

(* the same with the blocks exposed: each is what Frame::fill_from_samples makes of its chunk *)
Lemma chunk_reach_block chn bytes_ps e chunk e' :
  sample_encode_chunk encB p chn bytes_ps e chunk = Ok e' ->
  exists b, fill_from_samples chn chunk = Ok b /\ reach e [b] e'.
Proof.
  unfold sample_encode_chunk. intros H.
  apply bind_ok in H. destruct H as (bytes & _ & H). apply bind_ok in H. destruct H as (blk & Hfill & H).
  exists blk. split; [exact Hfill|]. change [blk] with ([] ++ [blk]). eapply reach_enc; [|exact H]. apply reach_md5. apply reach_refl.
Qed.

Lemma chunks_reach_blocks chn bytes_ps : forall chunks e e',
  fold_res (sample_encode_chunk encB p chn bytes_ps) e chunks = Ok e' ->
  exists bl, Forall2 (fun c b => fill_from_samples chn c = Ok b) chunks bl /\ reach e bl e'.
Proof.
  induction chunks as [|c r IH]; intros e e' H; cbn [fold_res] in H.
  - injection H as <-. exists []. split; [constructor|apply reach_refl].
  - apply bind_ok in H. destruct H as (e1 & H1 & H2).
    destruct (chunk_reach_block _ _ _ _ _ H1) as (b & Hfb & Hb). destruct (IH _ _ H2) as (bl & Hf2 & Hbl).
    exists (b :: bl). split; [constructor; assumption|]. change (b :: bl) with ([b] ++ bl). eapply reach_trans; eauto.
Qed.

Lemma finalize_si e f : encoder_finalize md5 p e = Ok f ->
  f_enc f = e /\ si_rate (f_si f) = si_rate (e_si e) /\ si_channels (f_si f) = si_channels (e_si e) /\
  si_bps (f_si f) = si_bps (e_si e) /\ si_max_bs (f_si f) = si_max_bs (e_si e) /\ si_min_bs (f_si f) = si_min_bs (e_si e).
Proof.
  unfold encoder_finalize, encoder_finalize_gen. intros H.
  repeat (apply bind_ok in H; destruct H as (? & _ & H)). injection H as <-. cbn. repeat split; reflexivity.
Qed.

(* the finished stream, as the codec area sees it: a metadata region that reads as the final STREAMINFO, followed by
   exactly the frames the block encoder model produced for the blocks *)
Lemma finished_stream_form wo ch total e0 bl e f :
  encoder_new p [] wo rate bps ch total = Ok e0 ->
  reach e0 bl e ->
  encoder_finalize md5 p e = Ok f ->
  EP.blocks_samples bl < 2 ^ 64 ->
  exists bytes,
    FlacCodec.Stream.read_metadata_min (f_stream f) = Some (conv_si (f_si f), bytes) /\
    E.enc_blocks o L rate bps 0 bl = Some bytes /\
    FlacCodec.Ast.si_total (conv_si (f_si f)) = EP.blocks_samples bl /\
    FlacCodec.Ast.si_rate (conv_si (f_si f)) = rate /\ FlacCodec.Ast.si_bps (conv_si (f_si f)) = bps /\
    FlacCodec.Ast.si_min_bs (conv_si (f_si f)) = o_block_size wo /\ FlacCodec.Ast.si_max_bs (conv_si (f_si f)) = o_block_size wo.
Proof.
  intros Hnew Hr Hfin Hfit.
  destruct (encoder_new_fresh _ _ _ _ Hnew) as (P0 & F0 & K0 & W0 & Sr & Sb & Sc & Smax & Smin & St).
  destruct (reach_inv e0 bl e Hr) as (Sm & R1 & R2 & R3 & R4 & R5 & R6 & R7 & R8 & bytes & Hb & Hf).
  rewrite K0 in Hb. rewrite W0 in R8. unfold blocks_len in R8. specialize (R8 ltac:(lia)).
  assert (Hfr : frames_bytes e = bytes) by (rewrite Hf; unfold frames_bytes; rewrite F0; reflexivity).
  pose proof (finalize_layout_from md5 md5_length p e0 e f (encoder_new_meta p _ _ _ _ _ _ _ Hnew) Sm Hfin) as Hlay.
  destruct Hlay as (meta' & Hw & _ & _ & _ & Hs).
  destruct (finalize_si e f Hfin) as (_ & Fr & Fc & Fb & Fmax & Fmin).
  unfold encoder_finalize, encoder_finalize_gen in Hfin.
  apply bind_ok in Hfin. destruct Hfin as (blocks & _ & Hfin).
  apply bind_ok in Hfin. destruct Hfin as (tot & Htot & Hfin).
  apply bind_ok in Hfin. destruct Hfin as (meta & _ & Hfin). injection Hfin as <-.
  cbn [f_si f_blocks f_enc f_stream] in *.
  rewrite Hs, P0, Hfr. cbn [app].
  set (wsi := with_total_md5 (e_si e) tot (Some (md5 (md5_input e)))) in *.
  assert (Hmd : md5_len_ok wsi) by (unfold md5_len_ok, wsi; cbn; apply md5_length).
  exists bytes. split; [apply (read_written_metadata wsi blocks meta' bytes Hw Hmd)|]. split; [exact Hb|].
  split.
  { unfold conv_si, wsi. cbn. unfold finalize_total in Htot. rewrite R6, St in Htot.
    destruct total as [t|].
    - destruct (N.eqb_spec t (e_samples_written e)) as [E|]; [|discriminate]. injection Htot as <-. cbn. lia.
    - destruct (e_samples_written e <? MAX_SAMPLES); [|discriminate].
      destruct (e_samples_written e =? 0); [discriminate|]. injection Htot as <-. cbn. lia. }
  unfold conv_si. cbn [FlacCodec.Ast.si_rate FlacCodec.Ast.si_bps FlacCodec.Ast.si_min_bs FlacCodec.Ast.si_max_bs].
  repeat split; congruence.
Qed.

(* C02 end to end: the strict stream validator of the codec area accepts the finished file and yields the blocks *)
Theorem e2e_encoder_spec wo ch total e0 bl e f :
  encoder_new p [] wo rate bps ch total = Ok e0 ->
  reach e0 bl e ->
  encoder_finalize md5 p e = Ok f ->
  Forall (EP.block_ok (conv_si (f_si f)) bps) bl ->
  FlacCodec.File.full_but_last (conv_si (f_si f)) bl ->
  N.of_nat (length bl) <= FlacCodec.Header.MAX_FRAME_NUMBER + 1 ->
  EP.blocks_samples bl < 2 ^ 64 ->
  16 <= o_block_size wo ->
  FlacCodec.Spec.spec_stream (f_stream f) = Ok (conv_si (f_si f), bl).
Proof.
  intros Hnew Hr Hfin Hall Hfull Hlen Hfit H16.
  destruct (finished_stream_form wo ch total e0 bl e f Hnew Hr Hfin Hfit) as (bytes & Hmeta & Hb & Htot & Hrate & Hbps & Hmin & Hmax).
  unfold FlacCodec.Spec.spec_stream. rewrite Hmeta.
  rewrite <- Hrate, <- Hbps in Hb. rewrite <- Hbps in Hall.
  rewrite (FlacCodec.File.spec_frames_enc o L (conv_si (f_si f)) ltac:(rewrite Hmax; exact H16) bl 0 bytes (S (length bytes)) [] Hb Hall ltac:(rewrite N.add_0_l; exact Hlen) Hfull ltac:(lia)).
  cbn [rev app bind]. rewrite FlacCodec.File.fold_left_block_sum, N.add_0_l, Hmin, Hmax.
  destruct (N.leb_spec 16 (o_block_size wo)); [|lia]. rewrite N.leb_refl. cbn [andb negb].
  rewrite Htot, N.eqb_refl, Bool.orb_true_r. reflexivity.
Qed.

(* C01 end to end for FlacSampleWriter: the file its run produces decodes to exactly the blocks handed to
   Encoder::encode (the writers area relates those to the PCM written: C08/C09) *)
Theorem e2e_sample_writer wo ch total w chunks f :
  sample_new p [] wo rate bps ch total = Ok w ->
  sample_run encB md5 p w chunks = Ok f ->
  exists bl, reach (sw_enc w) bl (f_enc f) /\
    (Forall (EP.block_ok (conv_si (f_si f)) bps) bl ->
     EP.short_only_last (conv_si (f_si f)) bl ->
     N.of_nat (length bl) <= FlacCodec.Header.MAX_FRAME_NUMBER + 1 -> EP.blocks_samples bl < 2 ^ 64 ->
     FlacCodec.Stream.dec_stream (f_stream f) =
       Some (conv_si (f_si f), map FlacCodec.Stream.interleave_frame bl, FlacCodec.Stream.EndEof)).
Proof.
  intros Hn Hrun. unfold sample_run in Hrun. apply bind_ok in Hrun. destruct Hrun as (w' & Hw & Hfin).
  destruct (writes_reach _ _ _ Hw) as [bl1 Hb1].
  unfold sample_finalize in Hfin. apply bind_ok in Hfin. destruct Hfin as (e & He & Hfin).
  assert (Hlast : exists bl2, reach (sw_enc w') bl2 e).
  { destruct (sw_channels w' <=? _).
    - destruct (sw_channels w' =? 0); [discriminate|]. destruct (chunk_reach _ _ _ _ _ He) as [b Hb]. eauto.
    - injection He as <-. exists []. apply reach_refl. }
  destruct Hlast as [bl2 Hb2].
  assert (Ef : f_enc f = e).
  { unfold encoder_finalize, encoder_finalize_gen in Hfin.
    repeat (apply bind_ok in Hfin; destruct Hfin as (? & _ & Hfin)). injection Hfin as <-. reflexivity. }
  exists (bl1 ++ bl2). rewrite Ef. split; [eapply reach_trans; eauto|].
  intros Hall Hshape Hlen Hfit.
  unfold sample_new in Hn. apply bind_ok in Hn. destruct Hn as (bps' & Hbps' & Hn).
  apply bind_ok in Hn. destruct Hn as (t & Ht & Hn). apply bind_ok in Hn. destruct Hn as (e0 & He0 & Hn).
  injection Hn as <-. cbn [sw_enc] in *.
  assert (Eb : bps' = bps).
  { unfold signed_bit_count_32 in Hbps'. destruct (_ && _); [injection Hbps' as <-; reflexivity|discriminate]. }
  subst bps'.
  eapply (proj1 (e2e_encoder _ _ _ _ _ _ _ He0 (reach_trans _ _ _ _ _ Hb1 Hb2) Hfin Hall Hshape Hlen Hfit)).
Qed.

End E2E.
