(* Property C15 — writer APIs validate their parameters and honour the declared length contract. *)
From FlacWriters Require Import Writers Params_proofs Params_sweeps.
Open Scope N_scope.

(* option setters: never Panic, Ok exactly on the documented range, Err outside *)
Theorem C15_options_block_size : forall o v,
  is_ok (options_block_size o v) = (16 <=? v) /\ is_err (options_block_size o v) = negb (16 <=? v).
Proof. exact options_block_size_spec. Qed.
Theorem C15_options_max_lpc_order : forall o v,
  is_ok (options_max_lpc_order o v) = documented_lpc v /\
  is_err (options_max_lpc_order o v) = negb (documented_lpc v).
Proof. exact options_max_lpc_order_spec. Qed.
Theorem C15_options_max_partition_order : forall o v,
  is_ok (options_max_partition_order o v) = (v <=? 15) /\
  is_err (options_max_partition_order o v) = negb (v <=? 15).
Proof. exact options_max_partition_order_spec. Qed.
Theorem C15_options_padding : forall o v,
  is_ok (options_padding o v) = (v <? 2 ^ 24) /\ is_err (options_padding o v) = negb (v <? 2 ^ 24).
Proof. exact options_padding_spec. Qed.

(* constructor argument checks of all three writers, every value of every argument *)
Theorem C15_new_validate : forall k rate bps ch total,
  is_ok (new_validate k rate bps ch total) = documented_args k rate bps ch total /\
  is_err (new_validate k rate bps ch total) = negb (documented_args k rate bps ch total).
Proof. exact new_validate_spec. Qed.

(* complete enumerations inside Coq *)
Theorem C15_sweep_block_size : sweep_block_size = true. Proof. exact sweep_block_size_ok. Qed.
Theorem C15_sweep_lpc : sweep_lpc = true. Proof. exact sweep_lpc_ok. Qed.
Theorem C15_sweep_po : sweep_po = true. Proof. exact sweep_po_ok. Qed.
Theorem C15_sweep_new : sweep_new = true. Proof. exact sweep_new_ok. Qed.
Theorem C15_sweep_partitions : sweep_partitions = true. Proof. exact sweep_partitions_ok. Qed.
