(* Extraction of the composed model (update_file run with the metadata area's reader and writer) for the
   whole-file correspondence run of C10 (ExtrOcamlBasic only).  The metadata model's entry points are
   extracted along so that the driver can reuse the dump/parse code of ocaml/metadata_driver.ml. *)
From Coq Require Extraction ExtrOcamlBasic.
From FlacBase Require Import Res Bits.
From FlacMeta Require Import Bytes Blocks BlockList Utf8.
From FlacUpdIo Require Update.
From FlacE2EUpd Require Import RealCodec.
Open Scope N_scope.

(* the callback is described by what it left in the list (None: it failed) *)
Definition d_update_file (start : N) (file : list N) (edited : option (list block))
  : list N * option (list N) * res bool :=
  let edit := fun (_ : Update.blocklist block) =>
    match edited with
    | Some l => match to_upd l with Some bl => Ok bl | None => Err EOther end
    | None => Err EOther
    end in
  let '(st, r) := Update.update_file block psize_r ser_r uclass_r (read_blocks_r utf8_valid_std) edit (N.to_nat start) file in
  (Update.orig st, Update.rebuilt st, r).

Extraction Language OCaml.
Extraction "e2eupd_model.ml" d_update_file read_blocks write_blocks utf8_valid_std.
