(* E2E/ByteSuccess.v — the FlacByteWriter run (either byte order) on bytes that spell samples in range never fails,
   under any chunking of the writes: with ByteE2E this makes C01 for the byte front-end a statement whose
   hypotheses are on the input only. *)
From Coq Require Import List NArith ZArith Lia.
From FlacBase Require Import Res.
From FlacCodec Require Ast Stream Header Wf Enc Enc_proofs.
From FlacWriters Require Import Meta Params Params_proofs Finalize Writers Lists_proofs Writers_proofs New_proofs
     Encoder_proofs Finish_proofs Run_proofs Bytes_proofs Frontend_proofs.
From FlacWriters Require Props_C15.
From FlacE2E Require Import Bridge E2E Sample SampleE2E Success ByteE2E.
Import Props_C15.
Import ListNotations.
Open Scope N_scope.
Local Arguments N.add : simpl never.
Local Arguments N.mul : simpl never.
Local Arguments N.div : simpl never.
Local Arguments N.modulo : simpl never.
Local Arguments N.sub : simpl never.
Local Arguments N.pow : simpl never.

Section ByteSuccess.
Variable o : EN.eopts.
Variable L : EN.oracle.
Variable md5 : list N -> list N.
Hypothesis md5_length : forall l, length (md5 l) = 16%nat.
Variable p : profile.
Variable rate bps ch : N.
Hypothesis Hrate : rate < 2 ^ 20.
Hypothesis Hb1 : 1 <= bps.
Hypothesis Hb32 : bps <= 32.
Hypothesis Hc1 : 1 <= ch.
Hypothesis Hc8 : ch <= 8.
Variable en : endian.

Let nb := bytes_per_sample_of bps.
Lemma nb_range : 1 <= nb <= 4.
Proof.
  unfold nb, bytes_per_sample_of. split; [apply N.div_le_lower_bound; lia|]. apply N.lt_succ_r. apply N.div_lt_upper_bound; lia.
Qed.

(* a run of chunks of whole samples through the byte writer's encode step is the sample writer's run on the
   samples the chunks spell *)
Lemma fold_bytes_as_samples : forall cs e,
  Forall (fun c => exists m, N.of_nat (length c) = nb * m) cs -> Forall (Forall byte_ok) cs ->
  fold_res (byte_encode_chunk (encB o L rate bps) p en ch nb) e cs =
  fold_res (sample_encode_chunk (encB o L rate bps) p ch nb) e (map (decode_bytes en (N.to_nat nb)) cs).
Proof.
  induction cs as [|c r IH]; intros e Hm Hb; [reflexivity|]. cbn [fold_res map].
  apply Forall_cons_iff in Hm. destruct Hm as [[m Hm] Hmr]. apply Forall_cons_iff in Hb. destruct Hb as [Hbc Hbr].
  rewrite (byte_chunk_as_samples o L p rate bps en ch nb e c m nb_range Hm Hbc).
  destruct (sample_encode_chunk _ _ _ _ _ _) as [e1| |]; cbn [bind]; [apply IH; assumption|reflexivity|reflexivity].
Qed.

Theorem byte_run_succeeds wo total w chunks :
  options_wf wo ->
  byte_new p en [] wo rate bps ch total = Ok w ->
  Forall byte_ok (concat chunks) ->
  let n := N.to_nat nb in
  let samples := decode_bytes en n (concat chunks) in
  forallb (FlacCodec.Wf.fits bps) samples = true ->
  let W := N.of_nat (length samples) / ch in
  1 <= W -> N.of_nat (length samples) < 2 ^ 36 ->
  match total with Some T => T = nb * ch * W | None => True end ->
  exists f, byte_run (encB o L rate bps) md5 p w chunks = Ok f.
Proof.
  intros Hwf Hnew Hbytes n samples Hfits W HW1 Hlen36 Htotal.
  pose proof (byte_new_wf p en [] wo rate bps ch total w Hwf Hnew) as Hbw.
  rewrite (byte_chunking (encB o L rate bps) md5 p w chunks Hbw).
  set (all := concat chunks) in *.
  pose proof Hwf as ((Hbs16 & Hbs64k) & _).
  pose proof nb_range as Hnb.
  unfold byte_new in Hnew. apply bind_ok in Hnew. destruct Hnew as (bps' & Hbps' & Hnew).
  apply bind_ok in Hnew. destruct Hnew as (t & Ht & Hnew). apply bind_ok in Hnew. destruct Hnew as (e0 & He0 & Hnew).
  injection Hnew as <-.
  assert (Eb : bps' = bps).
  { unfold signed_bit_count_32 in Hbps'. destruct (_ && _); [injection Hbps' as <-; reflexivity|discriminate]. }
  subst bps'. fold nb in Ht |- *.
  set (bs := o_block_size wo) in *.
  assert (Hn : (1 <= n <= 4)%nat) by (unfold n; lia).
  (* the declared total, in PCM frames *)
  assert (Et : t = match total with Some _ => Some W | None => None end /\ match t with Some q => 1 <= q | None => True end).
  { unfold byte_total in Ht. destruct total as [T|]; [|injection Ht as <-; split; [reflexivity|exact I]].
    assert (Ex1 : exact_div T ch = Some (nb * W)).
    { rewrite Htotal. unfold exact_div. destruct (N.eqb_spec ch 0); [lia|].
      replace (nb * ch * W) with (nb * W * ch) by lia. rewrite N.mod_mul by lia.
      cbn [negb andb N.eqb]. rewrite N.div_mul by lia. reflexivity. }
    assert (Ex2 : exact_div (nb * W) nb = Some W).
    { unfold exact_div. destruct (N.eqb_spec nb 0); [lia|]. rewrite (N.mul_comm nb W), N.mod_mul by lia.
      cbn [negb andb N.eqb]. rewrite N.div_mul by lia. reflexivity. }
    rewrite Ex1, Ex2 in Ht. destruct (N.eqb_spec W 0); [lia|]. injection Ht as <-. split; [reflexivity|exact HW1]. }
  destruct Et as [Et Ht1].
  destruct (encoder_new_inv0 p [] wo rate bps ch t e0 Hwf ltac:(lia) Ht1 He0) as (I0 & S0 & Fi0 & _).
  destruct (encoder_new_fresh p rate bps wo ch t e0 He0) as (_ & F0 & _ & _ & _ & _ & _ & Mx & _ & St).
  assert (Hmx : o_block_size wo <= si_max_bs (e_si e0)) by (rewrite Mx; lia).
  assert (G0 : good e0 e0 0).
  { unfold good. split; [exact I0|]. split; [exact S0|]. split; [unfold frames_nonempty; rewrite Fi0; constructor|].
    split; [apply static_eq_refl|]. rewrite F0. unfold true_samples, true_bytes. rewrite Fi0. cbn. repeat split; lia. }
  assert (T0 : true_samples e0 = 0) by (unfold true_samples; rewrite Fi0; reflexivity).
  (* the single write *)
  unfold byte_run. cbn [fold_res bind].
  unfold byte_write. cbn [bw_buf bw_frame_byte_size bw_enc bw_endian bw_channels bw_bytes_per_sample bw_pcm_frame_size app].
  destruct (N.eqb_spec (nb * ch * bs) 0) as [|Hk0]; [nia|].
  set (k := N.to_nat (nb * ch * bs)) in *.
  assert (Hk : (0 < k)%nat) by (unfold k; lia).
  destruct (drain k all) as [cs rest] eqn:Ed.
  pose proof (drain_spec k Hk all cs rest Ed) as (Eall & Fcs & Lrest).
  set (c := N.to_nat ch) in *. set (b := N.to_nat bs) in *.
  assert (Hkk : k = (n * (c * b))%nat) by (unfold k, n, c, b; rewrite !N2Nat.inj_mul; lia).
  assert (Hc : (1 <= c <= 8)%nat) by (unfold c; lia). assert (Hb : (16 <= b)%nat /\ N.of_nat b < 65536) by (unfold b; lia).
  assert (Hbyte_sub : forall x, (exists a z, all = a ++ x ++ z) -> Forall byte_ok x).
  { intros x (a & z & E). rewrite E in Hbytes. apply Forall_app in Hbytes. destruct Hbytes as [_ H]. apply Forall_app in H. tauto. }
  assert (Hcs_in : forall x, In x cs -> exists a z, all = a ++ x ++ z).
  { intros x Hx. apply in_split in Hx. destruct Hx as (l1 & l2 & ->). exists (concat l1), (concat l2 ++ rest).
    rewrite Eall, concat_app. cbn [concat]. rewrite <- !app_assoc. reflexivity. }
  rewrite fold_bytes_as_samples.
  2:{ apply Forall_forall. intros x Hx. rewrite Forall_forall in Fcs. exists (ch * bs). rewrite (Fcs _ Hx). unfold k. lia. }
  2:{ apply Forall_forall. intros x Hx. apply Hbyte_sub. apply Hcs_in. exact Hx. }
  fold n.
  (* the samples: decoded full chunks ++ decoded whole tail ++ decoded leftover *)
  set (len := N.of_nat (length rest)) in *. set (pf := nb * ch) in *.
  set (whole := firstn (N.to_nat (len - len mod pf)) rest) in *.
  assert (Hpf : N.to_nat pf = (n * c)%nat) by (unfold pf, n, c; rewrite N2Nat.inj_mul; reflexivity).
  assert (Hpf0 : pf <> 0) by (unfold pf; nia).
  assert (Ew : N.to_nat (len - len mod pf) = (n * c * (length rest / (n * c)))%nat).
  { pose proof (N.div_mod len pf Hpf0) as D.
    assert (E : len - len mod pf = pf * (len / pf)).
    { set (dq := len / pf) in *. set (dm := len mod pf) in *. clearbody dq dm. lia. }
    rewrite E.
    rewrite N2Nat.inj_mul, N2Nat.inj_div, Hpf. unfold len. rewrite Nat2N.id. reflexivity. }
  set (q := (length rest / (n * c))%nat) in *.
  assert (Lw : length whole = (n * c * q)%nat).
  { unfold whole. rewrite firstn_length, Ew. pose proof (Nat.mul_div_le (length rest) (n * c) ltac:(nia)) as H. fold q in H. lia. }
  assert (Hq2 : (q < b)%nat) by (unfold q; apply Nat.div_lt_upper_bound; [nia|rewrite Hkk in Lrest; nia]).
  assert (Lcs : length (concat cs) = (k * length cs)%nat).
  { clear - Fcs. induction Fcs as [|x l Hx _ IH]; cbn [concat length]; [lia|]. rewrite app_length, IH, Hx. lia. }
  assert (Dcs : decode_bytes en n (concat cs) = concat (map (decode_bytes en n) cs)).
  { clear - Fcs Hkk Hn. induction Fcs as [|x l Hx _ IH]; cbn [concat map]; [reflexivity|].
    rewrite (decode_bytes_app en n x (concat l) (c * b)) by (lia || (rewrite Hx; lia)). rewrite IH. reflexivity. }
  assert (Erest : rest = whole ++ skipn (N.to_nat (len - len mod pf)) rest) by (unfold whole; symmetry; apply firstn_skipn).
  set (left := skipn (N.to_nat (len - len mod pf)) rest) in *.
  assert (Lleft : (length left < n * c)%nat).
  { unfold left. rewrite skipn_length, Ew. fold q. pose proof (Nat.div_mod (length rest) (n * c) ltac:(nia)) as D. fold q in D.
    pose proof (Nat.mod_upper_bound (length rest) (n * c) ltac:(nia)). lia. }
  assert (Esamples : samples = concat (map (decode_bytes en n) cs) ++ decode_bytes en n whole ++ decode_bytes en n left).
  { unfold samples. rewrite Eall, Erest.
    rewrite (decode_bytes_app en n (concat cs) (whole ++ left) (c * b * length cs)) by (lia || (rewrite Lcs, Hkk; lia)).
    rewrite (decode_bytes_app en n whole left (c * q)) by (lia || (rewrite Lw; lia)). rewrite Dcs. reflexivity. }
  assert (Ldw : length (decode_bytes en n whole) = (c * q)%nat).
  { rewrite decode_bytes_length, Lw by lia. replace (n * c * q)%nat with (c * q * n)%nat by lia. apply Nat.div_mul. lia. }
  assert (Ldl : (length (decode_bytes en n left) < c)%nat).
  { rewrite decode_bytes_length by lia. apply Nat.div_lt_upper_bound; lia. }
  assert (Hfit_sub : forall x, (exists a z, samples = a ++ x ++ z) -> forallb (FlacCodec.Wf.fits bps) x = true).
  { intros x (a & z & E). apply forallb_forall. intros y Hy. rewrite forallb_forall in Hfits. apply Hfits. rewrite E.
    apply in_or_app. right. apply in_or_app. left. exact Hy. }
  set (dcs := map (decode_bytes en n) cs) in *.
  assert (Fl : Forall (fun x => length x = (c * b)%nat) dcs).
  { apply Forall_forall. intros x Hx. apply in_map_iff in Hx. destruct Hx as (y & <- & Hy).
    rewrite decode_bytes_length by lia. rewrite Forall_forall in Fcs.
    rewrite (Fcs _ Hy), Hkk. replace (n * (c * b))%nat with (c * b * n)%nat by lia. apply Nat.div_mul. lia. }
  assert (Hcs : Forall (chunk_cond bps ch bs) dcs).
  { apply Forall_forall. intros x Hx. exists b. rewrite Forall_forall in Fl.
    split; [lia|]. split; [unfold b; lia|]. split; [fold c; apply Fl; exact Hx|].
    apply Hfit_sub. apply in_split in Hx. destruct Hx as (l1 & l2 & E).
    exists (concat l1), (concat l2 ++ decode_bytes en n whole ++ decode_bytes en n left).
    rewrite Esamples, E, concat_app. cbn [concat]. rewrite <- !app_assoc. reflexivity. }
  assert (Ldcs : length dcs = length cs) by (unfold dcs; apply map_length).
  assert (Fcs_frames : frames_of ch dcs = bs * N.of_nat (length cs)).
  { rewrite <- Ldcs. clear - Fl Hc1. induction Fl as [|x l Hx _ IH]; cbn [frames_of fold_right length]; [lia|]. fold (frames_of ch l).
    rewrite IH, Hx. unfold c, b. rewrite Nat2N.inj_mul, !N2Nat.id, (N.mul_comm ch bs), N.div_mul by lia. lia. }
  assert (Lsamples : length samples = (c * (b * length cs + q) + length (decode_bytes en n left))%nat).
  { rewrite Esamples, !app_length, Ldw. rewrite <- Dcs, decode_bytes_length, Lcs, Hkk by lia.
    replace (n * (c * b) * length cs)%nat with (c * b * length cs * n)%nat by lia. rewrite Nat.div_mul by lia. lia. }
  assert (EW : W = bs * N.of_nat (length cs) + N.of_nat q).
  { unfold W. rewrite Lsamples.
    replace (N.of_nat (c * (b * length cs + q) + length (decode_bytes en n left)))
      with ((bs * N.of_nat (length cs) + N.of_nat q) * ch + N.of_nat (length (decode_bytes en n left))) by (unfold c, b; lia).
    rewrite N.div_add_l by lia. rewrite (N.div_small (N.of_nat _) ch) by (unfold c in Ldl; lia). lia. }
  assert (Hcount : N.of_nat (length cs) + 1 <= 2 ^ 36).
  { assert (length cs <= length samples)%nat by (rewrite Lsamples; nia). lia. }
  destruct (chunks_run_ok o L md5 md5_length p rate bps ch Hrate Hb1 Hb32 Hc1 Hc8 e0 bs ltac:(lia) Hmx dcs e0 0 G0 ltac:(rewrite Ldcs; lia) Hcs)
    as (e1 & H1 & G1 & T1).
  { rewrite St, Et, T0, Fcs_frames. destruct total; cbv iota; [lia|exact I]. }
  fold nb in H1. rewrite H1. cbn [bind].
  (* finalize: the last partial block, then Encoder::finalize *)
  unfold byte_finalize. cbn [bw_buf bw_pcm_frame_size bw_endian bw_channels bw_bytes_per_sample bw_enc]. fold pf len. fold whole.
  assert (Hlast : exists e2, (if pf <=? len then if pf =? 0 then Panic PDivZero else
                    byte_encode_chunk (encB o L rate bps) p en ch nb e1 whole
                  else Ok e1) = Ok e2 /\
                  (exists K2, good e0 e2 K2) /\ true_samples e2 = W).
  { destruct (N.leb_spec pf len) as [Hle|Hgt].
    - destruct (N.eqb_spec pf 0); [lia|].
      assert (Hq1 : (1 <= q)%nat) by (unfold q; apply Nat.div_le_lower_bound; [nia|unfold len, pf in Hle; lia]).
      rewrite (byte_chunk_as_samples o L p rate bps en ch nb e1 whole (ch * N.of_nat q) Hnb).
      2:{ rewrite Lw. unfold n, c. lia. }
      2:{ apply Hbyte_sub. exists (concat cs), left. unfold whole, left. rewrite firstn_skipn. exact Eall. }
      fold n.
      assert (Hwc : chunk_cond bps ch bs (decode_bytes en n whole)).
      { exists q. split; [exact Hq1|]. split; [unfold b in Hq2; lia|]. split; [fold c; exact Ldw|].
        apply Hfit_sub. exists (concat dcs), (decode_bytes en n left). rewrite Esamples. reflexivity. }
      assert (Ewf : N.of_nat (length (decode_bytes en n whole)) / ch = N.of_nat q).
      { rewrite Ldw. unfold c. rewrite Nat2N.inj_mul, N2Nat.id, N.mul_comm, N.div_mul by lia. reflexivity. }
      destruct (chunk_step_ok o L md5 md5_length p rate bps ch Hrate Hb1 Hb32 Hc1 Hc8 e0 e1 _ bs _ G1 ltac:(rewrite Ldcs; lia) ltac:(lia) Hmx Hwc)
        as (e2 & H2 & G2 & T2).
      { rewrite St, Et, T1, T0, Fcs_frames, Ewf. destruct total; cbv iota; [lia|exact I]. }
      exists e2. split; [exact H2|]. split; [eauto|]. rewrite T2, T1, T0, Fcs_frames, Ewf. lia.
    - exists e1. split; [reflexivity|]. split; [eauto|]. rewrite T1, T0, Fcs_frames.
      assert (q = 0)%nat by (unfold q; apply Nat.div_small; unfold len, pf in *; lia). lia. }
  destruct Hlast as (e2 & H2 & (K2 & G2) & T2). rewrite H2. cbn [bind].
  destruct G2 as (I2 & S2 & Fn2 & Se2 & _).
  pose proof (C15_finalize_contract md5 p e2 md5_length I2 S2 Fn2) as Hfc.
  assert (Ew2 : e_samples_written e2 = W) by (destruct I2; congruence).
  assert (Et2 : si_total (e_si e2) = t) by (destruct Se2 as (_ & _ & _ & _ & _ & _ & _ & _ & _ & T); congruence).
  rewrite Et2, Et, Ew2 in Hfc.
  assert (Hok : is_ok (encoder_finalize md5 p e2) = true).
  { destruct total.
    - rewrite N.eqb_refl in Hfc. exact Hfc.
    - assert (HW : W < MAX_SAMPLES).
      { unfold MAX_SAMPLES. change (2 ^ 36) with 68719476736 in Hlen36. unfold W.
        assert (N.of_nat (length samples) / ch <= N.of_nat (length samples)) by (apply N.div_le_upper_bound; nia). lia. }
      destruct (N.leb_spec 1 W); [|lia]. destruct (N.ltb_spec W MAX_SAMPLES); [|lia]. exact Hfc. }
  destruct (encoder_finalize md5 p e2) as [f| |]; try discriminate. eauto.
Qed.

End ByteSuccess.

(* success and round trip together, hypotheses on the input only *)
Theorem byte_writer_lossless : forall o L md5, (forall l, length (md5 l) = 16%nat) ->
  forall p rate bps en wo ch total w chunks,
  options_wf wo ->
  byte_new p en [] wo rate bps ch total = Ok w ->
  Forall byte_ok (concat chunks) ->
  let nb := bytes_per_sample_of bps in
  let samples := decode_bytes en (N.to_nat nb) (concat chunks) in
  forallb (FlacCodec.Wf.fits bps) samples = true ->
  let W := N.of_nat (length samples) / ch in
  1 <= W -> N.of_nat (length samples) < 2 ^ 36 ->
  match total with Some T => T = nb * ch * W | None => True end ->
  exists f blocks,
    byte_run (encB o L rate bps) md5 p w chunks = Ok f /\
    FlacCodec.Stream.dec_stream (f_stream f) =
      Some (conv_si (f_si f), map FlacCodec.Stream.interleave_frame blocks, FlacCodec.Stream.EndEof) /\
    concat (map FlacCodec.Stream.interleave_frame blocks) =
      firstn (N.to_nat ch * (length samples / N.to_nat ch)) samples.
Proof.
  intros o L md5 Hmd p rate bps en wo ch total w chunks Hwf Hnew Hbytes nb samples Hfit W HW Hlen Htot.
  assert (Hr : rate < 2 ^ 20 /\ 1 <= bps /\ bps <= 32 /\ 1 <= ch /\ ch <= 8).
  { pose proof Hnew as H. unfold byte_new in H. apply bind_ok in H. destruct H as (bps' & Hb & H).
    apply bind_ok in H. destruct H as (t & _ & H). apply bind_ok in H. destruct H as (e0 & He0 & _).
    unfold signed_bit_count_32 in Hb. destruct ((1 <=? bps) && (bps <=? 32)) eqn:Eb; [|discriminate].
    apply andb_prop in Eb. destruct Eb as [B1 B2]. apply N.leb_le in B1, B2. injection Hb as <-.
    unfold encoder_new in He0. apply bind_ok in He0. destruct He0 as ([] & Hv & _). unfold encoder_new_validate in Hv.
    destruct (N.ltb_spec rate 1048576); [|discriminate]. destruct ((1 <=? ch) && (ch <=? 8)) eqn:Ec; [|discriminate].
    apply andb_prop in Ec. destruct Ec as [C1 C2]. apply N.leb_le in C1, C2. change (2 ^ 20) with 1048576. auto. }
  destruct Hr as (R & B1 & B2 & C1 & C2).
  destruct (byte_run_succeeds o L md5 Hmd p rate bps ch R B1 B2 C1 C2 en wo total w chunks Hwf Hnew Hbytes Hfit HW Hlen Htot) as [f Hf].
  destruct (e2e_byte_pcm o L md5 Hmd p rate bps en wo ch total w chunks f Hwf Hnew Hf Hbytes Hfit Hlen) as (blocks & Hd & Hc & _).
  exists f, blocks. auto.
Qed.

(* C02 for the byte front-end, hypotheses on the input only: the finished file passes the strict stream validator *)
Theorem byte_writer_file_valid : forall o L md5, (forall l, length (md5 l) = 16%nat) ->
  forall p rate bps en wo ch total w chunks,
  options_wf wo ->
  byte_new p en [] wo rate bps ch total = Ok w ->
  Forall byte_ok (concat chunks) ->
  let nb := bytes_per_sample_of bps in
  let samples := decode_bytes en (N.to_nat nb) (concat chunks) in
  forallb (FlacCodec.Wf.fits bps) samples = true ->
  let W := N.of_nat (length samples) / ch in
  1 <= W -> N.of_nat (length samples) < 2 ^ 36 ->
  match total with Some T => T = nb * ch * W | None => True end ->
  exists f blocks,
    byte_run (encB o L rate bps) md5 p w chunks = Ok f /\
    FlacCodec.Spec.spec_stream (f_stream f) = Ok (conv_si (f_si f), blocks) /\
    concat (map FlacCodec.Stream.interleave_frame blocks) =
      firstn (N.to_nat ch * (length samples / N.to_nat ch)) samples.
Proof.
  intros o L md5 Hmd p rate bps en wo ch total w chunks Hwf Hnew Hbytes nb samples Hfit W HW Hlen Htot.
  destruct (byte_writer_lossless o L md5 Hmd p rate bps en wo ch total w chunks Hwf Hnew Hbytes Hfit HW Hlen Htot) as (f & _ & Hrun & _ & _).
  destruct (e2e_byte_pcm o L md5 Hmd p rate bps en wo ch total w chunks f Hwf Hnew Hrun Hbytes Hfit Hlen)
    as (blocks & _ & Hcat & _ & _ & _ & _ & _ & Hspec).
  exists f, blocks. auto.
Qed.
