//! C15 harness: writer constructors / option setters validate their parameters (never panic),
//! every documented value gives a writer that works, and the declared-length contract holds.
//!
//! Output (one JSON object per line): "case" (model input `m` + canonical observation `obs`),
//! "viol" (the property itself fails on the implementation), "stat", "sample".
//! Run in release AND debug (the profile is reported in the "stat" line).
#[path = "writers_common/mod.rs"]
mod wc;
use std::collections::BTreeMap;
use vharness::json::{esc, obj};
use vharness::*;
use wc::*;

#[derive(Clone, Debug)]
struct Case {
    kind: Kind,
    opt: OptSpec,
    rate: u32,
    bps: u32,
    ch: u8,
    /// in the writer's own unit
    total: Option<u64>,
    /// chunk sizes in the writer's own unit (bytes / interleaved samples / PCM frames)
    script: Vec<usize>,
    pcm_kind: &'static str,
    finalize: bool,
}

fn opt_u64(x: Option<u64>) -> String {
    match x {
        Some(v) => v.to_string(),
        None => "none".into(),
    }
}

impl Case {
    fn mline(&self) -> String {
        format!(
            "C15 w={} {} rate={} bps={} ch={} total={} script={} fin={}",
            self.kind.tag(),
            self.opt.tag(),
            self.rate,
            self.bps,
            self.ch,
            opt_u64(self.total),
            if self.script.is_empty() { "-".to_string() } else { self.script.iter().map(|x| x.to_string()).collect::<Vec<_>>().join(",") },
            if self.finalize { 1 } else { 0 }
        )
    }
}

/// the documented parameter set of the property text / rustdoc
fn documented_opts(o: &OptSpec) -> bool {
    o.block_size.map_or(true, |b| b >= 16)
        && o.lpc.map_or(true, |l| l.map_or(true, |v| (1..=32).contains(&v)))
        && o.po.map_or(true, |p| p <= 15)
        && o.padding.map_or(true, |p| p.map_or(true, |v| v < (1 << 24)))
}
fn unit_per_frame(kind: Kind, bps: u32, ch: u8) -> u64 {
    match kind {
        Kind::ByteLe | Kind::ByteBe => bytes_per_sample(bps.clamp(1, 32)) as u64 * ch as u64,
        Kind::Sample => ch as u64,
        Kind::Channel => 1,
    }
}
/// Some(pcm frames) if the declared total is acceptable, per the rustdoc of the constructors
fn documented_total(kind: Kind, bps: u32, ch: u8, total: Option<u64>) -> Result<Option<u64>, ()> {
    match total {
        None => Ok(None),
        Some(t) => {
            let u = unit_per_frame(kind, bps, ch);
            if u == 0 || t % u != 0 {
                return Err(());
            }
            let f = t / u;
            if f == 0 || f >= (1u64 << 36) {
                return Err(());
            }
            Ok(Some(f))
        }
    }
}

struct Ctx {
    stats: BTreeMap<String, u64>,
    viols: usize,
    cases: usize,
    samples: Vec<String>,
    seen: std::collections::BTreeSet<String>,
}
impl Ctx {
    fn bump(&mut self, k: &str) {
        *self.stats.entry(k.to_string()).or_insert(0) += 1;
    }
    fn viol(&mut self, key: &str, desc: &str, c: &Case, obs: &str) {
        self.viols += 1;
        println!(
            "{}",
            obj(&[("t", esc("viol")), ("key", esc(key)), ("desc", esc(desc)), ("m", esc(&c.mline())), ("pcm", esc(c.pcm_kind)), ("obs", esc(obs)),
                  ("profile", esc(if cfg!(debug_assertions) { "debug" } else { "release" }))])
        );
    }
}

fn run_case(cx: &mut Ctx, c: &Case, seed: u64) {
    let m = c.mline();
    if !cx.seen.insert(m.clone()) {
        return;
    }
    cx.cases += 1;
    let mut obs: Vec<String> = vec![];
    let mut soft: Vec<String> = vec![];
    let (oo, opts) = c.opt.build();
    obs.push(format!("opt:{}", oo.class()));
    soft.push(oo.full());
    let doc_opts = documented_opts(&c.opt);
    match (&oo, doc_opts) {
        (Out::Panic(p), _) => cx.viol(&format!("options-panic:{}", slug(p)), &format!("an Options setter panicked: {}", p), c, &obs.join(" ")),
        (Out::Ok, false) => cx.viol("options-accept-undocumented", "an Options setter accepted a value outside its documented range", c, &obs.join(" ")),
        (Out::Err(e), true) => cx.viol("options-reject-documented", &format!("an Options setter rejected a documented value ({})", e), c, &obs.join(" ")),
        _ => {}
    }
    cx.bump(&format!("opt:{}", oo.class()));
    let emit = |cx: &mut Ctx, obs: &Vec<String>, soft: &Vec<String>| {
        println!("{}", obj(&[("t", esc("case")), ("m", esc(&m)), ("obs", esc(&obs.join(" "))), ("soft", esc(&soft.join(" ")))]));
        if cx.samples.len() < 6 && cx.cases % 97 == 1 {
            cx.samples.push(format!("{} => {}", m, obs.join(" ")));
        }
    };
    let Some(opts) = opts else {
        emit(cx, &obs, &soft);
        return;
    };
    let stream = Shared::new(&[]);
    let (no, w) = AnyWriter::new(c.kind, stream.clone(), opts, c.rate, c.bps, c.ch, c.total);
    obs.push(format!("new:{}", no.class()));
    soft.push(no.full());
    cx.bump(&format!("new:{}", no.class()));
    if let Out::Err(e) = &no {
        cx.bump(&format!("new:err:{}", e));
    }
    let doc_args = (1..=32).contains(&c.bps) && (1..=8).contains(&c.ch) && c.rate < (1 << 20);
    let doc_total = if doc_args { documented_total(c.kind, c.bps, c.ch, c.total) } else { Err(()) };
    let documented = doc_args && doc_total.is_ok();
    match (&no, documented) {
        (Out::Panic(p), _) => cx.viol(&format!("new-panic:{}", slug(p)), &format!("constructor panicked: {}", p), c, &obs.join(" ")),
        (Out::Ok, false) => cx.viol("new-accepts-undocumented", "constructor accepted arguments outside the documented set", c, &obs.join(" ")),
        (Out::Err(e), true) => cx.viol("new-rejects-documented", &format!("constructor rejected documented arguments ({})", e), c, &obs.join(" ")),
        _ => {}
    }
    let Some(mut w) = w else {
        emit(cx, &obs, &soft);
        return;
    };
    if !doc_args {
        // accepted although undocumented (already reported): no data can be generated for it
        w.forget();
        emit(cx, &obs, &soft);
        return;
    }
    // ---- run the script
    let upf = unit_per_frame(c.kind, c.bps, c.ch) as usize;
    let total_units: usize = c.script.iter().sum();
    let n_frames_gen = total_units / upf + 2;
    let mut rng = Rng::new(seed, 0xC15_0001);
    let pcm = gen_pcm(&mut rng, c.pcm_kind, c.ch as usize, c.bps, n_frames_gen);
    let nbytes = bytes_per_sample(c.bps);
    let stream_bytes = if c.kind.is_byte() { samples_to_bytes(&pcm, nbytes, c.kind == Kind::ByteBe) } else { vec![] };
    let mut pos = 0usize;
    let mut wouts: Vec<String> = vec![];
    let mut failed = false;
    let mut wsoft: Vec<String> = vec![];
    for &n in &c.script {
        let o = match c.kind {
            Kind::ByteLe | Kind::ByteBe => w.write(&[], Some(&stream_bytes[pos..pos + n]), c.bps, c.ch as usize),
            Kind::Sample => w.write(&pcm[pos..pos + n], None, c.bps, c.ch as usize),
            Kind::Channel => w.write(&pcm[pos * c.ch as usize..(pos + n) * c.ch as usize], None, c.bps, c.ch as usize),
        };
        pos += n;
        wouts.push(o.class().to_string());
        wsoft.push(o.full());
        if let Out::Panic(p) = &o {
            let mut ob = obs.clone();
            ob.push(format!("w:{}", wouts.join(",")));
            cx.viol(&format!("write-panic:{}", slug(p)), &format!("write panicked: {}", p), c, &ob.join(" "));
        }
        if !o.is_ok() {
            failed = true;
            break;
        }
    }
    obs.push(format!("w:{}", if wouts.is_empty() { "-".to_string() } else { wouts.join(",") }));
    soft.push(wsoft.join(","));
    let written_frames = (pos / upf) as u64;
    let declared = doc_total.ok().flatten();
    if failed {
        cx.bump("write:failed");
        // a declared-length overrun is the only documented reason for a write to fail here
        let crossing = declared.map_or(false, |d| written_frames > d);
        if !crossing && wouts.last().map(|s| s.as_str()) == Some("err") {
            cx.viol("write-error-without-overrun", "a write returned an error although the declared length was not exceeded", c, &obs.join(" "));
        }
        w.forget();
        obs.push("fin:-".into());
        obs.push("rec:-".into());
        emit(cx, &obs, &soft);
        return;
    }
    if !c.finalize {
        w.forget();
        emit(cx, &obs, &soft);
        return;
    }
    let before = stream.snapshot();
    let fo = w.finalize();
    obs.push(format!("fin:{}", fo.class()));
    soft.push(fo.full());
    cx.bump(&format!("fin:{}", fo.class()));
    if let Out::Panic(p) = &fo {
        cx.viol(&format!("finalize-panic:{}", slug(p)), &format!("finalize panicked: {}", p), c, &obs.join(" "));
    }
    let _ = before;
    // ---- the length contract, evaluated directly (a panic has been reported above already)
    match declared {
        _ if matches!(fo, Out::Panic(_)) => {}
        Some(d) => {
            if written_frames > d && fo.is_ok() {
                cx.viol("overfill-not-reported", &format!("declared {} PCM frames, wrote {}, every call returned Ok", d, written_frames), c, &obs.join(" "));
            }
            if written_frames < d && fo.is_ok() {
                cx.viol("underfill-not-reported", &format!("declared {} PCM frames, wrote {}, finalize returned Ok", d, written_frames), c, &obs.join(" "));
            }
            if written_frames == d && !fo.is_ok() {
                cx.viol("exact-fill-rejected", &format!("declared {} PCM frames, wrote exactly that, finalize failed: {}", d, fo.full()), c, &obs.join(" "));
            }
        }
        None => {
            if written_frames > 0 && written_frames < (1 << 36) && !fo.is_ok() {
                cx.viol("undeclared-finalize-fails", &format!("no declared length, {} PCM frames written, finalize failed: {}", written_frames, fo.full()), c, &obs.join(" "));
            }
        }
    }
    let mut rec = "-".to_string();
    if fo.is_ok() {
        // ---- the writer "works": decode with the crate's reader and compare
        let file = stream.snapshot();
        let d = decode_all(&file);
        let want = &pcm[..written_frames as usize * c.ch as usize];
        if d.end != End::Eof || d.samples != want {
            cx.viol(
                "documented-writer-does-not-roundtrip",
                &format!("file written with documented parameters does not decode to the PCM written (end={}, {} of {} samples{})", d.end.tag(), d.samples.len(), want.len(),
                         if let End::Panic(p) = &d.end { format!(", panic: {}", p) } else { String::new() }),
                c,
                &obs.join(" "),
            );
        } else {
            cx.bump("roundtrip:ok");
        }
        match flac_codec::metadata::read_info(std::io::Cursor::new(&file)) {
            Ok(si) => {
                rec = si.total_samples.map_or("0".to_string(), |t| t.get().to_string());
                if si.total_samples.map(|t| t.get()) != Some(written_frames) {
                    cx.viol("recorded-total-wrong", &format!("STREAMINFO total {:?}, PCM frames written {}", si.total_samples, written_frames), c, &obs.join(" "));
                }
                if u32::from(si.bits_per_sample) != c.bps || si.channels.get() != c.ch || si.sample_rate != c.rate {
                    cx.viol("recorded-parameters-wrong", "STREAMINFO rate/depth/channels differ from the constructor arguments", c, &obs.join(" "));
                }
            }
            Err(e) => cx.viol("finished-file-unreadable", &format!("read_info failed: {}", err_class(&e)), c, &obs.join(" ")),
        }
    }
    obs.push(format!("rec:{}", rec));
    emit(cx, &obs, &soft);
}

fn base_case(kind: Kind) -> Case {
    Case {
        kind,
        opt: OptSpec { block_size: Some(16), ..Default::default() },
        rate: 44100,
        bps: 16,
        ch: 2,
        total: None,
        script: vec![],
        pcm_kind: "noise",
        finalize: true,
    }
}

/// scripts (in PCM frames) that under-, exactly- and over-fill `d` PCM frames with block size `bs`
fn fill_scripts(d: usize, bs: usize) -> Vec<Vec<usize>> {
    let mut v = vec![
        vec![d],                 // exact, one call
        vec![d / 2, d - d / 2],  // exact, two calls
        vec![d + 1],             // over by one
        vec![d, 1],              // over in a second call
        vec![d, bs],             // over by a whole block
        vec![d + bs + 3],        // over by more than a block in one call
        vec![],                  // nothing
    ];
    if d > 0 {
        v.push(vec![d - 1]); // under by one
        v.push(vec![1; d.min(40)]); // many tiny calls (under if d > 40)
    }
    if d > bs {
        v.push(vec![d - bs]); // under by a block
        v.push(vec![bs, d - bs, 1]);
    }
    v
}

fn main() {
    quiet_panics();
    let seed = env_seed();
    let thorough = env_tier_thorough();
    let mut cx = Ctx { stats: BTreeMap::new(), viols: 0, cases: 0, samples: vec![], seen: Default::default() };
    let mut rng = Rng::new(seed, 0xC15);

    let bps_grid: Vec<u32> = (0..=34).chain([63, 64, 255, 256, u32::MAX]).collect();
    let ch_grid: Vec<u8> = vec![0, 1, 2, 3, 4, 5, 6, 7, 8, 9, 16, 255];
    let rate_grid: Vec<u32> = vec![0, 1, 8000, 44100, 655350, (1 << 20) - 1, 1 << 20, (1 << 20) + 1, u32::MAX];
    let bs_grid: Vec<u16> = vec![0, 1, 15, 16, 17, 192, 4096, 4608, 32768, 65535];
    let lpc_grid: Vec<Option<u8>> = vec![None, Some(0), Some(1), Some(2), Some(8), Some(12), Some(31), Some(32), Some(33), Some(255)];
    let po_grid: Vec<u32> = vec![0, 1, 5, 6, 7, 8, 14, 15, 16, 17, 255, u32::MAX];
    let pad_grid: Vec<Option<u32>> = vec![None, Some(0), Some(1), Some(4096), Some((1 << 24) - 1), Some(1 << 24), Some(u32::MAX)];
    let seek_grid: Vec<&str> = vec!["none", "s:0", "s:1", "s:10", "s:255", "f:0", "f:1", "f:3"];

    // ---- 1. constructor arguments: one-at-a-time around a base, every writer kind, a short script
    for &kind in &KINDS {
        let b = base_case(kind);
        let upf = |c: &Case| unit_per_frame(c.kind, c.bps, c.ch) as usize;
        for &bps in &bps_grid {
            for &ch in &[1u8, 2, 8] {
                let mut c = Case { bps, ch, ..b.clone() };
                c.script = if (1..=32).contains(&bps) { vec![40 * upf(&c)] } else { vec![] };
                run_case(&mut cx, &c, seed);
            }
        }
        for &ch in &ch_grid {
            for total in [None, Some(0u64), Some(48), Some(7)] {
                let mut c = Case { ch, total, ..b.clone() };
                c.script = if (1..=8).contains(&ch) { vec![40 * upf(&c)] } else { vec![] };
                run_case(&mut cx, &c, seed);
            }
        }
        for &rate in &rate_grid {
            let mut c = Case { rate, ..b.clone() };
            c.script = vec![40 * upf(&c)];
            run_case(&mut cx, &c, seed);
            // default 10 s seek table, declared length
            let mut c2 = Case { rate, total: Some(40 * upf(&c) as u64), ..c.clone() };
            c2.opt.seek = None;
            run_case(&mut cx, &c2, seed);
        }
        // declared totals: boundaries of the 36-bit field and divisibility, no script
        let u = unit_per_frame(kind, 16, 2);
        for total in [
            Some(0u64), Some(1), Some(u), Some(u + 1), Some(2 * u - 1), Some(3 * u),
            Some(((1u64 << 36) - 1) * u), Some((1u64 << 36) * u), Some(((1u64 << 36) + 1) * u),
            Some(u64::MAX), Some(u64::MAX - (u64::MAX % u)), Some((1u64 << 36) - 1), Some(1u64 << 36),
        ] {
            let mut c = Case { total, finalize: false, ..b.clone() };
            // keep the placeholder seek table small: no seek table for the huge ones
            c.opt.seek = Some("none".into());
            run_case(&mut cx, &c, seed);
            if total.map_or(false, |t| t < 1000) {
                c.opt.seek = Some("f:1".into());
                run_case(&mut cx, &c, seed);
            }
        }
        // huge declared total with a seek table (placeholder table is capped)
        {
            let mut c = Case { total: Some(((1u64 << 36) - 1) * u), finalize: false, ..b.clone() };
            c.opt.block_size = Some(4096);
            c.opt.seek = Some("f:1".into());
            run_case(&mut cx, &c, seed);
        }
    }

    // ---- 2. option setters: full boundary grid of each, and each value used for a real encode
    for &kind in &[Kind::Sample, Kind::ByteLe, Kind::Channel] {
        let b = base_case(kind);
        for &bs in &bs_grid {
            for &ch in &[1u8, 2] {
                let mut c = Case { ch, ..b.clone() };
                c.opt.block_size = Some(bs);
                let frames = (bs as usize) * 2 + 5;
                c.script = vec![frames * unit_per_frame(kind, c.bps, ch) as usize];
                if kind != Kind::Sample && bs > 4608 {
                    continue;
                }
                run_case(&mut cx, &c, seed);
            }
        }
    }
    for &lpc in &lpc_grid {
        for &bs in &[16u16, 33, 34, 192, 4096] {
            for &ch in &[1u8, 2] {
                for &pk in &["noise", "sine", "walk"] {
                    let mut c = Case { ch, pcm_kind: pk, ..base_case(Kind::Sample) };
                    c.opt.block_size = Some(bs);
                    c.opt.lpc = Some(lpc);
                    c.script = vec![(bs as usize * 2 + 7) * ch as usize];
                    run_case(&mut cx, &c, seed);
                }
            }
        }
    }
    // every LPC order 1..=32 at a block size that reaches it
    for o in 1..=32u8 {
        let mut c = Case { ch: 1, pcm_kind: "sine", ..base_case(Kind::Sample) };
        c.opt.block_size = Some(256);
        c.opt.lpc = Some(Some(o));
        c.script = vec![256 * 2 + 9];
        run_case(&mut cx, &c, seed);
    }
    for &po in &po_grid {
        for &bs in &[16u16, 64, 128, 192, 256, 4096, 32768, 65535] {
            for &pk in &["noise", "sine"] {
                if bs > 4096 && pk == "sine" && !thorough {
                    continue;
                }
                let mut c = Case { ch: 1, pcm_kind: pk, ..base_case(Kind::Sample) };
                c.opt.block_size = Some(bs);
                c.opt.po = Some(po);
                c.script = vec![bs as usize + 3];
                run_case(&mut cx, &c, seed);
            }
        }
    }
    // every partition order 0..=15 at the block size with the most factors of two
    for po in 0..=15u32 {
        let mut c = Case { ch: 2, pcm_kind: "walk", ..base_case(Kind::Sample) };
        c.opt.block_size = Some(32768);
        c.opt.po = Some(po);
        c.script = vec![(32768 + 11) * 2];
        run_case(&mut cx, &c, seed);
    }
    for &pad in &pad_grid {
        for &sk in &seek_grid {
            for total in [None, Some(100u64 * 2)] {
                let mut c = Case { total, ..base_case(Kind::Sample) };
                c.opt.padding = Some(pad);
                c.opt.seek = Some(sk.to_string());
                c.script = vec![100 * 2];
                if pad.map_or(false, |p| p >= (1 << 20) && p < (1 << 24)) {
                    // a 16 MiB padding block: constructor only (the model builds the region as a list)
                    c.script = vec![];
                    c.finalize = false;
                }
                run_case(&mut cx, &c, seed);
            }
        }
    }

    // ---- 3. every bit depth x channel count x writer kind does real work
    for bps in 1..=32u32 {
        for &ch in &[1u8, 2, 3, 8] {
            for &kind in &KINDS {
                for &pk in &["noise", "extremes"] {
                    if pk == "extremes" && !(ch <= 2) {
                        continue;
                    }
                    let mut c = Case { bps, ch, pcm_kind: pk, ..base_case(kind) };
                    c.opt.block_size = Some(32);
                    let u = unit_per_frame(kind, bps, ch) as usize;
                    c.script = vec![50 * u, 30 * u];
                    run_case(&mut cx, &c, seed);
                }
            }
        }
    }

    // ---- 4. declared-length contract: scripts x writer kinds x seek policies
    for &kind in &KINDS {
        for &(bps, ch) in &[(16u32, 2u8), (8, 1), (24, 3)] {
            for &d in &[1usize, 15, 16, 17, 40, 64] {
                for sk in ["none", "f:1", "s:1"] {
                    for script in fill_scripts(d, 16) {
                        let u = unit_per_frame(kind, bps, ch) as usize;
                        let mut c = Case { bps, ch, total: Some((d * u) as u64), ..base_case(kind) };
                        c.opt.seek = Some(sk.into());
                        c.script = script.iter().map(|x| x * u).collect();
                        run_case(&mut cx, &c, seed);
                        // the same script with no declared length: the count is recorded
                        let mut c2 = c.clone();
                        c2.total = None;
                        run_case(&mut cx, &c2, seed);
                    }
                }
            }
        }
    }
    // byte/sample writers: totals and scripts that are not whole PCM frames
    for &kind in &[Kind::ByteLe, Kind::ByteBe, Kind::Sample] {
        let (bps, ch) = (16u32, 2u8);
        let u = unit_per_frame(kind, bps, ch) as usize;
        for extra in 1..u {
            let mut c = Case { bps, ch, total: Some((20 * u) as u64), ..base_case(kind) };
            c.script = vec![20 * u + extra]; // a trailing partial PCM frame: dropped, still exact
            run_case(&mut cx, &c, seed);
            c.script = vec![extra]; // less than one PCM frame in total
            run_case(&mut cx, &c, seed);
            c.total = None;
            run_case(&mut cx, &c, seed);
            c.script = vec![16 * u + extra];
            run_case(&mut cx, &c, seed);
        }
    }

    // ---- 5. random combinations (seeded)
    let n_rand = if thorough { 6000 } else { 700 };
    for _ in 0..n_rand {
        let kind = *rng.pick(&KINDS);
        let bps = if rng.chance(1, 8) { *rng.pick(&bps_grid) } else { rng.range(1, 32) as u32 };
        let ch = if rng.chance(1, 8) { *rng.pick(&ch_grid) } else { rng.range(1, 8) as u8 };
        let rate = if rng.chance(1, 6) { *rng.pick(&rate_grid) } else { rng.range(1, 200000) as u32 };
        let mut opt = OptSpec::default();
        opt.block_size = Some(if rng.chance(1, 8) { *rng.pick(&bs_grid) } else { rng.range(16, 80) as u16 });
        if rng.chance(1, 2) {
            opt.lpc = Some(if rng.chance(1, 6) { *rng.pick(&lpc_grid) } else if rng.chance(1, 5) { None } else { Some(rng.range(1, 32) as u8) });
        }
        if rng.chance(1, 2) {
            opt.po = Some(if rng.chance(1, 6) { *rng.pick(&po_grid) } else { rng.range(0, 15) as u32 });
        }
        if rng.chance(1, 2) {
            opt.padding = Some(if rng.chance(1, 4) { *rng.pick(&pad_grid) } else { Some(rng.range(0, 300) as u32) });
        }
        if rng.chance(2, 3) {
            opt.seek = Some(rng.pick(&seek_grid).to_string());
        }
        opt.fast = rng.chance(1, 5);
        let bsz = opt.block_size.unwrap().max(16).min(200) as usize;
        let u = unit_per_frame(kind, bps.clamp(1, 32), ch.max(1)) as usize;
        let n_calls = rng.range(0, 5) as usize;
        let mut script = vec![];
        for _ in 0..n_calls {
            let f = rng.range(0, (bsz * 2) as i64) as usize;
            let part = if kind != Kind::Channel && rng.chance(1, 5) { rng.below(u as u64) as usize } else { 0 };
            script.push(f * u + part);
        }
        let written: usize = script.iter().sum::<usize>() / u;
        let total = match rng.below(6) {
            0 | 1 => None,
            2 => Some((written * u) as u64),
            3 => Some((written.saturating_sub(rng.range(1, 20) as usize) * u) as u64),
            4 => Some(((written + rng.range(1, 20) as usize) * u) as u64),
            _ => Some(rng.below(5 * u as u64 + 5)),
        };
        let c = Case { kind, opt, rate, bps, ch, total, script, pcm_kind: PCM_KINDS[rng.below(PCM_KINDS.len() as u64) as usize], finalize: true };
        // skip scripts on invalid bit depths / channel counts (no data can be generated for them)
        let c = if (1..=32).contains(&c.bps) && (1..=8).contains(&c.ch) { c } else { Case { script: vec![], ..c } };
        let bigpad = matches!(c.opt.padding, Some(Some(p)) if p >= (1 << 20) && p < (1 << 24));
        let c = if bigpad { Case { script: vec![], finalize: false, ..c } } else { c };
        run_case(&mut cx, &c, seed);
    }

    let mut fields: Vec<(&str, String)> = vec![
        ("t", esc("stat")),
        ("profile", esc(if cfg!(debug_assertions) { "debug" } else { "release" })),
        ("cases", cx.cases.to_string()),
        ("viols", cx.viols.to_string()),
    ];
    let st: Vec<(String, String)> = cx.stats.iter().map(|(k, v)| (k.clone(), v.to_string())).collect();
    let dist = obj(&st.iter().map(|(k, v)| (k.as_str(), v.clone())).collect::<Vec<_>>());
    fields.push(("dist", dist));
    println!("{}", obj(&fields));
    for s in &cx.samples {
        println!("{}", obj(&[("t", esc("sample")), ("desc", esc(s))]));
    }
}
