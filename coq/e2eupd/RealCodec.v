(* e2eupd/RealCodec.v — the abstract block codec of the updateio area (coq/updateio/Update.v: payload,
   psize, ser, uclass, read_blocks) INSTANTIATED with the metadata area's byte-level reader and writer
   (coq/metadata/Blocks.v, BlockList.v): payload = a typed metadata block.

   What is shown here:
     * write_equiv     — on lists of typed blocks of the right shape, Update.write_blocks (what
                         update_file runs, for the dry run and for the real write) succeeds exactly when
                         the metadata writer does, with the same bytes;
     * read_rest       — the metadata reader extended with the unread remainder (what Counter(reader)
                         tells update_file); its block list IS BlockList.read_blocks (read_rest_fst);
     * read_write_real — the conditional hypothesis of Update_cond.v: for good lists (shape, Rust type
                         invariants, canonical) reading inverts writing and stops after the last block;
     * good_fp_real, read_good — `good` is kept by resizing the first PADDING of a list that is then
                         written, and every list the reader returns is good.
   A failing body writer is represented the way Update.v represents it (a size over 2^24-1): `junk`
   is only ever measured, never written (write_equiv). *)
From FlacBase Require Import Res Bits.
From FlacMeta Require Import Bytes Bytes_proofs Blocks BlockList Blocks_proofs Blocks_proofs2 Blocks_level BlockList_proofs.
From FlacUpdIo Require GenUpd Update Update_proofs Update_cond.
Open Scope N_scope.
Local Arguments N.add : simpl never.
Local Arguments N.mul : simpl never.
Local Arguments N.div : simpl never.
Local Arguments N.modulo : simpl never.
Local Arguments N.pow : simpl never.


Notation oblk := (Update.oblock block).
Notation blist := (Update.blocklist block).

(* ---- the instance *)
(* a thunk, so that the extracted program does not build it at start-up *)
Definition junk (_ : unit) : list N := zerosN (GenUpd.BLOCK_MAX + 1).
Definition ser_r (p : block) : list N := match write_body p with Ok l => l | _ => junk tt end.
Definition psize_r (p : block) : N := Update.lenN (ser_r p).
(* the "only once" classes of write_blocks (mod.rs:930-973) *)
Definition uclass_r (_ : Update.okind) (p : block) : option N :=
  match p with
  | BSeekTable _ => Some 0
  | BVorbis _ => Some 1
  | BPicture x => if pic_type x =? 1 then Some 2 else if pic_type x =? 2 then Some 3 else None
  | _ => None
  end.

Definition kind_type (k : Update.okind) : btype :=
  match k with
  | Update.KApplication => TApplication | Update.KSeekTable => TSeekTable | Update.KVorbisComment => TVorbis
  | Update.KCuesheet => TCuesheet | Update.KPicture => TPicture
  end.

(* BlockList <-> Vec<Block> *)
Definition of_oblock (b : oblk) : block := match b with Update.OPadding n => BPadding n | Update.OOther _ p => p end.
Definition of_upd (bl : blist) : list block := Update.bl_si block bl :: map of_oblock (Update.bl_blocks block bl).
Definition to_oblock (b : block) : option oblk :=
  match b with
  | BStreaminfo _ => None
  | BPadding n => Some (Update.OPadding n)
  | BApplication _ => Some (Update.OOther Update.KApplication b)
  | BSeekTable _ => Some (Update.OOther Update.KSeekTable b)
  | BVorbis _ => Some (Update.OOther Update.KVorbisComment b)
  | BCuesheet _ => Some (Update.OOther Update.KCuesheet b)
  | BPicture _ => Some (Update.OOther Update.KPicture b)
  end.
Fixpoint to_oblocks (l : list block) : option (list oblk) :=
  match l with
  | [] => Some []
  | b :: r => match to_oblock b, to_oblocks r with Some x, Some y => Some (x :: y) | _, _ => None end
  end.
Definition to_upd (l : list block) : option blist :=
  match l with
  | BStreaminfo si :: r =>
    match to_oblocks r with Some bs => Some (Update.Build_blocklist block (BStreaminfo si) bs) | None => None end
  | _ => None
  end.

(* what the Rust types BlockList / OptionalBlock guarantee about the shape *)
Definition oshape (b : oblk) : Prop :=
  match b with Update.OPadding _ => True | Update.OOther k p => block_type p = kind_type k end.
Definition shape_ok (bl : blist) : Prop :=
  (exists si, Update.bl_si block bl = BStreaminfo si) /\ Forall oshape (Update.bl_blocks block bl).

Lemma to_oblock_of b : oshape b -> to_oblock (of_oblock b) = Some b.
Proof.
  destruct b as [n|k p]; cbn [oshape of_oblock]; [reflexivity|].
  intros H. destruct p, k; cbn [block_type kind_type] in H; try discriminate; reflexivity.
Qed.
Lemma to_oblocks_of bs : Forall oshape bs -> to_oblocks (map of_oblock bs) = Some bs.
Proof.
  induction 1 as [|b r Hb _ IH]; [reflexivity|]. cbn [map to_oblocks]. rewrite (to_oblock_of b Hb), IH. reflexivity.
Qed.
Lemma to_upd_of_upd bl : shape_ok bl -> to_upd (of_upd bl) = Some bl.
Proof.
  intros [[si E] S]. destruct bl as [s bs]. cbn [Update.bl_si Update.bl_blocks] in *. subst s.
  unfold of_upd, to_upd. cbn [Update.bl_si Update.bl_blocks]. rewrite (to_oblocks_of bs S). reflexivity.
Qed.
Lemma of_to_oblock b x : to_oblock b = Some x -> of_oblock x = b /\ oshape x.
Proof. destruct b; cbn [to_oblock]; intros H; inversion H; subst; cbn; auto. Qed.
Lemma of_to_oblocks : forall l bs, to_oblocks l = Some bs -> map of_oblock bs = l /\ Forall oshape bs.
Proof.
  induction l as [|b r IH]; intros bs H; cbn [to_oblocks] in H.
  - inversion H; subst. split; [reflexivity|constructor].
  - destruct (to_oblock b) as [x|] eqn:E; [|discriminate]. destruct (to_oblocks r) as [y|] eqn:E2; [|discriminate].
    inversion H; subst. apply of_to_oblock in E. destruct E as [<- Sx]. destruct (IH y eq_refl) as [<- Sy].
    split; [reflexivity|constructor; assumption].
Qed.
Lemma of_to_upd l bl : to_upd l = Some bl -> of_upd bl = l /\ shape_ok bl.
Proof.
  unfold to_upd. destruct l as [|b r]; [discriminate|]. destruct b; try discriminate.
  destruct (to_oblocks r) as [bs|] eqn:E; [|discriminate]. intros H. inversion H; subst.
  apply of_to_oblocks in E. destruct E as [<- S]. split; [reflexivity|]. split; [eexists; reflexivity|exact S].
Qed.

(* ---- headers and bodies *)
Lemma lenN_same {A} (l : list A) : Update.lenN l = lenN l.
Proof. unfold Update.lenN. rewrite lenN_length. reflexivity. Qed.

Lemma be_bytes3 size : be_bytes 3 size = [(size / 65536) mod 256; (size / 256) mod 256; size mod 256].
Proof.
  cbn [be_bytes]. change (256 ^ N.of_nat 2) with 65536. change (256 ^ N.of_nat 1) with 256.
  change (256 ^ N.of_nat 0) with 1. rewrite N.div_1_r. reflexivity.
Qed.

Lemma header_eq last t size : size < 2 ^ 24 ->
  Update.header last (btype_code t) size = write_header (mkHeader last t size).
Proof.
  intros H. unfold Update.header, write_header. cbn [h_last h_type h_size]. rewrite header_byte_spec, be_bytes3.
  cbn [app]. change (2 ^ 24) with 16777216 in H.
  assert (E : (size / 65536) mod 256 = size / 65536).
  { apply N.mod_small. apply N.div_lt_upper_bound; lia. }
  rewrite E. f_equal. destruct last, t; reflexivity.
Qed.

Lemma lenN_junk : lenN (junk tt) = GenUpd.BLOCK_MAX + 1.
Proof. unfold junk. apply lenN_zerosN. Qed.

Lemma zeros_repeat n : repeat 0 (N.to_nat n) = zerosN n.
Proof.
  induction n as [|n IH] using N.peano_ind; [reflexivity|].
  rewrite zerosN_succ, N2Nat.inj_succ. cbn [repeat]. rewrite IH. reflexivity.
Qed.

Section Real.
Variable u : list N -> bool.
Hypothesis u_ascii : forall s, Forall (fun b => b < 128) s -> u s = true.

Definition good (bl : blist) : Prop :=
  shape_ok bl /\ Forall (ty_block u) (of_upd bl) /\ Forall canon_block (of_upd bl).

(* one block, as update_file's writer and as the metadata writer *)
Lemma write_block_equiv last b x : ty_block u b ->
  (Update.write_block last (btype_code (block_type b)) (psize_r b) (ser_r b) = Ok x <-> write_block last b = Ok x).
Proof.
  intros T. unfold Update.write_block, psize_r. rewrite lenN_same. unfold ser_r.
  pose proof (body_size_write u b T) as S. unfold write_block.
  destruct (write_body b) as [body|e|k] eqn:W.
  - rewrite S. cbn [bind]. unfold BLOCKSIZE_MAX, GenUpd.BLOCK_MAX.
    destruct (N.leb_spec (lenN body) 16777215) as [Hle|Hgt].
    + destruct (N.ltb_spec 16777215 (lenN body)) as [|_]; [lia|]. cbn [bind].
      rewrite header_eq by (change (2 ^ 24) with 16777216; lia). reflexivity.
    + destruct (N.ltb_spec 16777215 (lenN body)) as [_|]; [|lia]. split; discriminate.
  - rewrite lenN_junk. destruct (N.leb_spec (GenUpd.BLOCK_MAX + 1) GenUpd.BLOCK_MAX) as [|_]; [lia|].
    destruct S as [e' ->]. cbn [bind]. split; discriminate.
  - rewrite lenN_junk. destruct (N.leb_spec (GenUpd.BLOCK_MAX + 1) GenUpd.BLOCK_MAX) as [|_]; [lia|].
    rewrite S. cbn [bind]. split; discriminate.
Qed.

Lemma type_code_kind k : Update.type_code k = btype_code (kind_type k).
Proof. destruct k; reflexivity. Qed.

Lemma oblock_write_equiv last (b : oblk) x : oshape b -> ty_block u (of_oblock b) ->
  (Update.write_block last (Update.otype block b) (Update.osize block psize_r b) (Update.obody block ser_r b) = Ok x <->
   write_block last (of_oblock b) = Ok x).
Proof.
  intros S T. destruct b as [n|k p]; cbn [Update.otype Update.osize Update.obody of_oblock oshape] in *.
  - cbn [ty_block] in T. unfold Update.write_block, write_block. cbn [body_size bind write_body write_padding block_type].
    unfold BLOCKSIZE_MAX, GenUpd.BLOCK_MAX in *.
    destruct (N.leb_spec n 16777215) as [_|]; [|lia]. destruct (N.ltb_spec 16777215 n) as [|_]; [lia|].
    cbn [bind]. rewrite zeros_repeat. change GenUpd.TY_PADDING with (btype_code TPadding).
    rewrite header_eq by (change (2 ^ 24) with 16777216; lia). reflexivity.
  - rewrite type_code_kind, <- S. apply write_block_equiv. exact T.
Qed.

(* the list of classes seen so far versus the four flags of write_rest *)
Definition flags_of (seen : list N) : bool * bool * bool * bool :=
  (existsb (N.eqb 0) seen, existsb (N.eqb 1) seen, existsb (N.eqb 2) seen, existsb (N.eqb 3) seen).

Lemma write_opt_equiv : forall (bs : list oblk) seen y,
  Forall oshape bs -> Forall (ty_block u) (map of_oblock bs) ->
  let '(sk, vc, png, icon) := flags_of seen in
  (Update.write_opt block psize_r ser_r uclass_r seen bs = Ok y <->
   write_rest sk vc png icon (map of_oblock bs) = Ok y).
Proof.
  induction bs as [|b r IH]; intros seen y S T; unfold flags_of.
  - cbn [Update.write_opt map write_rest]. reflexivity.
  - inversion S as [|? ? Sb Sr]; subst. cbn [map] in T. inversion T as [|? ? Tb Tr]; subst.
    cbn [Update.write_opt map].
    set (last := match r with [] => true | _ => false end).
    assert (Elast : match map of_oblock r with [] => true | _ => false end = last) by (destruct r; reflexivity).
    (* one step of each side, given the flags after the step *)
    assert (Step : forall seen',
      (let '(sk', vc', png', icon') := flags_of seen' in
       ((bytes <- Update.write_block last (Update.otype block b) (Update.osize block psize_r b) (Update.obody block ser_r b) ;;
         rest <- Update.write_opt block psize_r ser_r uclass_r seen' r ;; Ok (bytes ++ rest)) = Ok y <->
        (x <- write_block last (of_oblock b) ;; z <- write_rest sk' vc' png' icon' (map of_oblock r) ;; Ok (x ++ z)) = Ok y))).
    { intros seen'. pose proof (IH seen') as IH'. unfold flags_of in *.
      pose proof (fun x => oblock_write_equiv last b x Sb Tb) as Hb.
      destruct (Update.write_block last _ _ _) as [x1| |] eqn:W1;
        destruct (write_block last (of_oblock b)) as [x2| |] eqn:W2; cbn [bind];
        try (split; discriminate);
        try (exfalso; first [ destruct (proj1 (Hb _) eq_refl); discriminate
                            | pose proof (proj1 (Hb _) eq_refl) as Q; discriminate
                            | pose proof (proj2 (Hb _) eq_refl) as Q; discriminate ]).
      pose proof (proj1 (Hb x1) eq_refl) as Q. inversion Q; subst x2. clear Q Hb.
      split; intros H.
      - destruct (Update.write_opt block psize_r ser_r uclass_r seen' r) as [y1| |] eqn:E1; cbn [bind] in H; try discriminate.
        rewrite (proj1 (IH' y1 Sr Tr) eq_refl). exact H.
      - destruct (write_rest _ _ _ _ (map of_oblock r)) as [y1| |] eqn:E1; cbn [bind] in H; try discriminate.
        rewrite (proj2 (IH' y1 Sr Tr) eq_refl). exact H. }
    cbn [write_rest]. rewrite Elast.
    destruct b as [n|k p]; cbn [of_oblock Update.check_unique Update.oclass bind] in *.
    + exact (Step seen).
    + cbn [oshape] in Sb.
      destruct p as [si|n|a|pts|v|c|pic]; cbn [Update.check_unique Update.oclass uclass_r bind].
      * destruct k; discriminate.
      * exact (Step seen).
      * exact (Step seen).
      * destruct (existsb (N.eqb 0) seen) eqn:F; cbn [bind]; [split; discriminate|].
        specialize (Step (0 :: seen)). unfold flags_of in Step. cbn [existsb N.eqb orb] in Step. exact Step.
      * destruct (existsb (N.eqb 1) seen) eqn:F; cbn [bind]; [split; discriminate|].
        specialize (Step (1 :: seen)). unfold flags_of in Step. cbn [existsb N.eqb Pos.eqb orb] in Step. exact Step.
      * exact (Step seen).
      * unfold Update.check_unique. cbn [Update.oclass].
        change (uclass_r k (BPicture pic)) with (if pic_type pic =? 1 then Some 2 else if pic_type pic =? 2 then Some 3 else None).
        destruct (pic_type pic =? 1) eqn:P1; cbn [bind].
        { destruct (existsb (N.eqb 2) seen) eqn:F; cbn [bind]; [split; discriminate|].
          specialize (Step (2 :: seen)). unfold flags_of in Step. cbn [existsb N.eqb Pos.eqb orb] in Step. exact Step. }
        destruct (pic_type pic =? 2) eqn:P2; cbn [bind].
        { destruct (existsb (N.eqb 3) seen) eqn:F; cbn [bind]; [split; discriminate|].
          specialize (Step (3 :: seen)). unfold flags_of in Step. cbn [existsb N.eqb Pos.eqb orb] in Step. exact Step. }
        exact (Step seen).
Qed.

Theorem write_equiv bl bytes : shape_ok bl -> Forall (ty_block u) (of_upd bl) ->
  (Update.write_blocks block psize_r ser_r uclass_r bl = Ok bytes <-> write_blocks (of_upd bl) = Ok bytes).
Proof.
  intros [[si E] S] T. destruct bl as [s bs]. cbn [Update.bl_si Update.bl_blocks] in *. subst s.
  unfold of_upd in *. cbn [Update.bl_si Update.bl_blocks] in *. inversion T as [|? ? Tsi Tr]; subst.
  unfold Update.write_blocks, write_blocks. cbn [Update.bl_si Update.bl_blocks].
  assert (Elast : match map of_oblock bs with [] => true | _ => false end = match bs with [] => true | _ => false end)
    by (destruct bs; reflexivity).
  rewrite Elast. set (last := match bs with [] => true | _ => false end).
  pose proof (fun x => write_block_equiv last (BStreaminfo si) x Tsi) as Hb. cbn [block_type btype_code] in Hb.
  change GenUpd.TY_STREAMINFO with 0.
  pose proof (write_opt_equiv bs [] ) as Ho. unfold flags_of in Ho. cbn [existsb] in Ho.
  destruct (Update.write_block last 0 (psize_r (BStreaminfo si)) (ser_r (BStreaminfo si))) as [x1| |] eqn:W1;
    destruct (write_block last (BStreaminfo si)) as [x2| |] eqn:W2; cbn [bind];
    try (split; discriminate);
    try (exfalso; first [ pose proof (proj1 (Hb _) eq_refl) as Q; discriminate
                        | pose proof (proj2 (Hb _) eq_refl) as Q; discriminate ]).
  pose proof (proj1 (Hb x1) eq_refl) as Q. inversion Q; subst x2. clear Q Hb.
  change GenUpd.FLAC_TAG with FLAC_TAG.
  split; intros H.
  - destruct (Update.write_opt block psize_r ser_r uclass_r [] bs) as [y1| |] eqn:E1; cbn [bind] in H; try discriminate.
    rewrite (proj1 (Ho y1 S Tr) eq_refl). exact H.
  - destruct (write_rest false false false false (map of_oblock bs)) as [y1| |] eqn:E1; cbn [bind] in H; try discriminate.
    rewrite (proj2 (Ho y1 S Tr) eq_refl). exact H.
Qed.

(* ---- the reader, with the unread remainder *)
Fixpoint collect_rest (fuel : list N) (it : iter) (acc : list block) : res (list block * list N) :=
  match iter_next u it with
  | (None, it') => Ok (rev acc, it_reader it')
  | (Some (Err e), _) => Err e
  | (Some (Panic k), _) => Panic k
  | (Some (Ok b), it') =>
    match fuel with
    | [] => Panic PFuel
    | _ :: f => collect_rest f it' (b :: acc)
    end
  end.
Definition read_rest (s : list N) : res (list block * list N) := collect_rest (0 :: s) (iter_new s) [].

Lemma collect_rest_fst : forall fuel it acc, rmap fst (collect_rest fuel it acc) = collect u fuel it acc.
Proof.
  induction fuel as [|f0 fuel IH]; intros it acc; cbn [collect_rest collect];
    destruct (iter_next u it) as [[[b|e|k]|] it']; try reflexivity. apply IH.
Qed.
(* the block list read_rest returns is the one the metadata area's read_blocks returns *)
Theorem read_rest_fst s : rmap fst (read_rest s) = read_blocks u s.
Proof. apply collect_rest_fst. Qed.

Definition read_blocks_r (s : list N) : res (blist * list N) :=
  match read_rest s with
  | Ok (l, rest) => match to_upd l with Some bl => Ok (bl, rest) | None => Err EOther end
  | Err e => Err e
  | Panic k => Panic k
  end.

Lemma collect_rest_write_rest : forall l sk vc png icon bs tail acc fuel,
  Forall (ty_block u) l -> Forall canon_block l ->
  write_rest sk vc png icon l = Ok bs ->
  (length l <= length fuel)%nat ->
  collect_rest fuel
    (mkIter (bs ++ tail) false true true sk vc png icon (match l with [] => true | _ => false end)) acc
  = Ok (rev acc ++ l, tail).
Proof.
  induction l as [|b l IH]; intros sk vc png icon bs tail acc fuel T C W F.
  - cbn [write_rest] in W. apply Ok_inj in W. subst bs. destruct fuel; cbn; rewrite app_nil_r; reflexivity.
  - apply write_rest_cons in W. destruct W as (x & y & sk' & vc' & png' & icon' & Wb & Wr & -> & Fl).
    inversion T as [|? ? Tb Tl]; inversion C as [|? ? Nb Nl]; subst.
    destruct fuel as [|f0 fuel]; [cbn in F; lia|].
    pose proof (block_write_read u u_ascii _ b x (y ++ tail) Tb Nb Wb) as RB. rewrite app_assoc in RB.
    cbn [collect_rest]. unfold iter_next. cbn [it_failed it_tag_read negb].
    unfold next_tagged. cbn [it_streaminfo_read negb]. unfold it_read_block. cbn [it_finished it_reader].
    rewrite RB.
    cbn [it_failed it_tag_read it_streaminfo_read it_seektable_read it_vorbiscomment_read it_png_read it_icon_read it_finished it_reader].
    assert (IH' : collect_rest fuel
              (mkIter (y ++ tail) false true true sk' vc' png' icon' (match l with [] => true | _ => false end)) (b :: acc)
            = Ok (rev acc ++ b :: l, tail)).
    { rewrite (IH sk' vc' png' icon' y tail (b :: acc) fuel Tl Nl Wr); [|cbn in F; lia].
      cbn [rev]. rewrite <- app_assoc. reflexivity. }
    destruct b as [si|n|a|pts|v|c|pic]; try contradiction;
      repeat match goal with
             | |- context [pic_type ?q =? ?k] => destruct (pic_type q =? k)
             end;
      match type of Fl with _ /\ _ => destruct Fl as [-> Fl] | _ => idtac end;
      injection Fl as -> -> -> ->; cbn [negb]; exact IH'.
Qed.

Theorem write_blocks_read_rest l bs tail :
  Forall (ty_block u) l -> Forall canon_block l ->
  write_blocks l = Ok bs -> read_rest (bs ++ tail) = Ok (l, tail).
Proof.
  intros T C W. unfold write_blocks in W.
  destruct l as [|b r]; [discriminate|]. destruct b as [si| | | | | |]; try discriminate.
  destruct (write_block (match r with [] => true | _ => false end) (BStreaminfo si)) as [x| |] eqn:Wb;
    cbn [bind] in W; try discriminate.
  destruct (write_rest false false false false r) as [y| |] eqn:Wr; cbn [bind] in W; try discriminate.
  apply Ok_inj in W. subst bs.
  inversion T as [|? ? Tb Tl]; inversion C as [|? ? Nb Nl]; subst.
  unfold read_rest. rewrite <- !app_assoc. cbn [collect_rest].
  unfold iter_next, iter_new. cbn [it_failed it_tag_read it_reader negb].
  rewrite take_tag. cbn [forallb combine FLAC_TAG fst snd N.eqb Pos.eqb andb].
  cbn [it_failed it_tag_read it_streaminfo_read it_seektable_read it_vorbiscomment_read it_png_read it_icon_read it_finished it_reader].
  unfold next_tagged. cbn [it_streaminfo_read negb]. unfold it_read_block. cbn [it_finished it_reader].
  rewrite (block_write_read u u_ascii _ _ x (y ++ tail) Tb Nb Wb).
  cbn [it_failed it_tag_read it_streaminfo_read it_seektable_read it_vorbiscomment_read it_png_read it_icon_read it_finished it_reader].
  rewrite (collect_rest_write_rest r false false false false y tail [BStreaminfo si] _ Tl Nl Wr).
  - reflexivity.
  - apply write_rest_length in Wr. rewrite !app_length. cbn [length FLAC_TAG]. lia.
Qed.

(* ---- the hypotheses of Update_cond.v *)
Lemma ser_len_real : forall p, Update.lenN (ser_r p) = psize_r p.
Proof. reflexivity. Qed.

Theorem read_write_real : forall bl bytes rest, good bl ->
  Update.write_blocks block psize_r ser_r uclass_r bl = Ok bytes -> read_blocks_r (bytes ++ rest) = Ok (bl, rest).
Proof.
  intros bl bytes rest (S & T & C) W. apply (write_equiv bl bytes S T) in W.
  unfold read_blocks_r. rewrite (write_blocks_read_rest _ _ rest T C W). rewrite (to_upd_of_upd bl S). reflexivity.
Qed.

(* a list that was written has every PADDING within 24 bits *)
Lemma write_opt_padding_fits : forall (bs : list oblk) seen y,
  Update.write_opt block psize_r ser_r uclass_r seen bs = Ok y ->
  Forall (fun b => match b with Update.OPadding n => n <= GenUpd.BLOCK_MAX | _ => True end) bs.
Proof.
  induction bs as [|b r IH]; intros seen y H; [constructor|]. cbn [Update.write_opt] in H.
  destruct (Update.check_unique block uclass_r seen b) as [seen'| |]; cbn [bind] in H; try discriminate.
  destruct (Update.write_block _ _ _ _) as [x| |] eqn:W; cbn [bind] in H; try discriminate.
  destruct (Update.write_opt block psize_r ser_r uclass_r seen' r) as [z| |] eqn:E; cbn [bind] in H; try discriminate.
  constructor; [|eapply IH; exact E].
  destruct b as [n|k p]; [|exact I]. unfold Update.write_block in W. cbn [Update.osize] in W.
  destruct (N.leb_spec n GenUpd.BLOCK_MAX); [assumption|discriminate].
Qed.

Lemma fp_rel_good n n' (bs bs' : list oblk) : Update_proofs.fp_rel block n n' bs bs' -> n' <= GenUpd.BLOCK_MAX ->
  Forall oshape bs -> Forall (ty_block u) (map of_oblock bs) ->
  Forall oshape bs' /\ Forall (ty_block u) (map of_oblock bs').
Proof.
  induction 1 as [r|ty p r r' Hr IH]; intros Hn S T.
  - inversion S; inversion T; subst. split; constructor; auto.
  - inversion S; inversion T; subst. destruct (IH Hn) as [S' T']; auto. split; constructor; auto.
Qed.

Lemma fp_rel_new_padding n n' (bs bs' : list oblk) : Update_proofs.fp_rel block n n' bs bs' ->
  Forall (fun b => match b with Update.OPadding m => m <= GenUpd.BLOCK_MAX | _ => True end) bs' -> n' <= GenUpd.BLOCK_MAX.
Proof. induction 1; intros F; inversion F; subst; auto. Qed.

Theorem good_fp_real : forall bl1 bl2 bytes, good bl1 -> Update_proofs.first_padding_only block bl1 bl2 ->
  Update.write_blocks block psize_r ser_r uclass_r bl2 = Ok bytes -> good bl2.
Proof.
  intros bl1 bl2 bytes (S & T & C) [Esi F] W. destruct bl1 as [s1 b1], bl2 as [s2 b2].
  cbn [Update.bl_si Update.bl_blocks] in *. subst s2.
  destruct F as [->|(n & n' & R)]; [split; [exact S|split; assumption]|].
  assert (Hn : n' <= GenUpd.BLOCK_MAX).
  { eapply fp_rel_new_padding; [exact R|]. unfold Update.write_blocks in W. cbn [Update.bl_si Update.bl_blocks] in W.
    destruct (Update.write_block _ _ _ _) as [x| |]; cbn [bind] in W; try discriminate.
    destruct (Update.write_opt block psize_r ser_r uclass_r [] b2) as [z| |] eqn:E; cbn [bind] in W; try discriminate.
    eapply write_opt_padding_fits; exact E. }
  destruct S as [Hsi S]. unfold of_upd in *. cbn [Update.bl_si Update.bl_blocks] in *.
  inversion T as [|? ? Tsi Tr]; inversion C as [|? ? Csi Cr]; subst.
  destruct (fp_rel_good _ _ _ _ R Hn S Tr) as [S' T'].
  split; [split; assumption|]. split; [constructor; assumption|]. constructor; [assumption|].
  (* canon_block only restricts STREAMINFO, and none occurs among the optional blocks *)
  clear - S'. induction S' as [|b r Sb _ IH]; [constructor|]. cbn [map]. constructor; [|exact IH].
  destruct b as [m|k p]; [exact I|]. cbn [oshape of_oblock] in *. destruct p; try exact I. destruct k; discriminate.
Qed.

(* everything the reader returns is good *)
Theorem read_good s bl rest : Forall byte s -> read_blocks_r s = Ok (bl, rest) -> good bl.
Proof.
  intros Hs H. unfold read_blocks_r in H.
  destruct (read_rest s) as [[l r]| |] eqn:R; try discriminate.
  destruct (to_upd l) as [bl'|] eqn:E; [|discriminate]. inversion H; subst bl' r. clear H.
  apply of_to_upd in E. destruct E as [El S].
  pose proof (read_rest_fst s) as F. rewrite R in F. cbn [rmap bind fst] in F. symmetry in F.
  destruct (read_blocks_write_blocks u u_ascii s l Hs F) as (T & C & _).
  split; [exact S|]. rewrite El. split; assumption.
Qed.

End Real.
