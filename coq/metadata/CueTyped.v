(* metadata/CueTyped.v — C20 meets C11: the block a well-formed cue text imports to (C20_import: cue_parse = Ok
   (block_of c total)) satisfies the invariants of the Rust types (ty_cuesheet) — offsets multiples of 588 below
   2^64, index points and tracks contiguous in the reader's sense, at most 100 index points and 99 tracks, ISRC and
   catalogue well formed — so it is in the domain of the write/read round trip of C11: the writer accepts it and the
   reader returns it unchanged. *)
From FlacMeta Require Import Bytes Bytes_proofs Blocks BlockList Blocks_proofs Blocks_proofs2 Blocks_level BlockList_proofs
  Cue CueRender Cue_proofs.
Open Scope N_scope.

Lemma lenN_cons {A} (x : A) l : lenN (x :: l) = 1 + lenN l.
Proof. cbn [lenN]. lia. Qed.

Lemma lenN_map {A B} (f : A -> B) l : lenN (map f l) = lenN l.
Proof. induction l as [|x l IH]; cbn [map lenN]; [reflexivity|rewrite IH; reflexivity]. Qed.

Lemma index_of_off off i : ix_off (index_of off i) = ci_samples i - off /\ ix_num (index_of off i) = ci_num i.
Proof. split; reflexivity. Qed.

(* the index points after the first: typed and contiguous *)
Lemma chain_typed f0 : forall r pf pn, index_chain pf pn r -> f0 <= pf -> pn + lenN r < 256 -> Forall wf_index r ->
  contiguous_from index_is_next (mkIx (588 * pf - 588 * f0) pn) (map (index_of (588 * f0)) r) = true /\
  Forall (ty_index true) (map (index_of (588 * f0)) r).
Proof.
  induction r as [|i r IH]; intros pf pn Hc Hf Hn Hw; cbn [map contiguous_from]; [split; [reflexivity|constructor]|].
  cbn [index_chain] in Hc. destruct Hc as (Hlt & Hnum & Hc). rewrite lenN_cons in Hn.
  inversion Hw as [|? ? Wi Wr]; subst.
  assert (Ei : index_of (588 * f0) i = mkIx (588 * ci_frames i - 588 * f0) (ci_num i)).
  { unfold index_of. rewrite samples_frames. reflexivity. }
  rewrite Ei.
  assert (En : index_is_next (mkIx (588 * ci_frames i - 588 * f0) (ci_num i)) (mkIx (588 * pf - 588 * f0) pn) = Ok true).
  { unfold index_is_next. cbn [ix_off ix_num].
    destruct (N.ltb_spec (588 * pf - 588 * f0) (588 * ci_frames i - 588 * f0)) as [_|]; [|lia].
    destruct (N.ltb_spec (pn + 1) 256) as [_|]; [|lia]. rewrite Hnum, N.eqb_refl. reflexivity. }
  rewrite En.
  destruct (IH (ci_frames i) (ci_num i) Hc ltac:(lia) ltac:(lia) Wr) as [A B].
  split; [exact A|]. constructor; [|exact B].
  destruct Wi as (_ & _ & Hs). rewrite samples_frames in Hs. unfold U64_MAX in Hs.
  split; [split|].
  - cbn [ix_off]. lia.
  - intros _. cbn [ix_off]. replace (588 * ci_frames i - 588 * f0) with ((ci_frames i - f0) * 588) by lia. apply N.mod_mul. lia.
  - cbn [ix_num]. lia.
Qed.

Lemma track_indices_typed t : wf_track t ->
  let l := map (index_of (first_samples t)) (ct_indices t) in
  Forall (ty_index true) l /\ is_contiguous index_valid_first index_is_next l = true /\ lenN l <= CDDA_MAX_INDEX.
Proof.
  intros (Wix & Wshape & _). unfold first_samples. destruct (ct_indices t) as [|i0 r] eqn:E; [contradiction|].
  destruct Wshape as (Hn0 & Hch & Hlen). cbv zeta. rewrite samples_frames. cbn [map].
  inversion Wix as [|? ? W0 Wr]; subst.
  assert (Hnum : ci_num i0 + lenN r < 256) by (rewrite lenN_cons in Hlen; destruct Hn0 as [->|[-> _]]; lia).
  destruct (chain_typed (ci_frames i0) r (ci_frames i0) (ci_num i0) Hch ltac:(lia) Hnum Wr) as [A B].
  assert (E0 : index_of (588 * ci_frames i0) i0 = mkIx 0 (ci_num i0)).
  { unfold index_of. rewrite samples_frames, N.sub_diag. reflexivity. }
  rewrite E0. rewrite N.sub_diag in A.
  split; [|split].
  - constructor; [|exact B]. split; [split; [cbn; lia|intros _; reflexivity]|cbn [ix_num]; lia].
  - cbn [is_contiguous]. unfold index_valid_first. cbn [ix_off ix_num]. rewrite A.
    destruct Hn0 as [->|[-> _]]; reflexivity.
  - rewrite lenN_cons, lenN_map. rewrite lenN_cons in Hlen. unfold CDDA_MAX_INDEX. exact Hlen.
Qed.

(* one track *)
Lemma track_typed t trk : wf_track t -> 1 <= ct_num t < 256 -> track_of t = Some trk ->
  ty_track true trk /\ tr_off trk = first_samples t /\ tr_num trk = ct_num t /\
  indexvec_list (tr_ix trk) = map (index_of (first_samples t)) (ct_indices t).
Proof.
  intros W Hnum Ht. destruct (finish_full t W) as (trk' & Ht' & _ & Eo & En & El).
  rewrite Ht in Ht'. injection Ht' as <-.
  split; [|auto]. unfold ty_track.
  destruct (track_indices_typed t W) as (Ti & Tc & Tl). cbv zeta in Ti, Tc, Tl.
  split.
  { rewrite Eo. unfold first_samples. destruct W as (Wix & Wshape & _). destruct (ct_indices t) as [|i0 r]; [contradiction|].
    inversion Wix as [|? ? (_ & _ & Hs) _]; subst. unfold U64_MAX in Hs. split; [lia|]. intros _. rewrite samples_frames.
    rewrite N.mul_comm. apply N.mod_mul. lia. }
  split; [rewrite En; exact Hnum|]. split.
  { unfold track_of in Ht. destruct (ct_indices t) as [|i0 r]; [discriminate|].
    destruct (indexvec_try_from _) as [iv| |]; try discriminate. injection Ht as <-. cbn [tr_isrc].
    destruct W as (_ & _ & Wi). destruct (ct_isrc t); [exact Wi|exact I]. }
  unfold ty_indexvec. cbv zeta. rewrite El. split; [exact Ti|]. split; [exact Tc|]. split; [exact Tl|].
  unfold track_of in Ht. destruct (ct_indices t) as [|i0 r]; [discriminate|].
  destruct (indexvec_try_from (map (index_of (ci_samples i0)) (i0 :: r))) as [iv| |] eqn:Ei; try discriminate.
  injection Ht as <-. cbn [tr_ix]. apply indexvec_try_from_inv in Ei. tauto.
Qed.

Lemma tracks_of_len : forall ts trks, tracks_of ts = Some trks -> lenN trks = lenN ts.
Proof.
  induction ts as [|t q IH]; intros trks Et; cbn [tracks_of] in Et.
  - injection Et as <-. reflexivity.
  - destruct (track_of t); [|discriminate]. destruct (tracks_of q) as [r|]; [|discriminate]. injection Et as <-.
    rewrite !lenN_cons, (IH r eq_refl). reflexivity.
Qed.

(* the tracks of a sheet, numbered from `num`, the first starting after `prev` (if any) *)
Lemma tracks_typed : forall ts num prev trks, sheet_ok num prev ts -> 1 <= num -> num + lenN ts <= 256 ->
  tracks_of ts = Some trks ->
  Forall (ty_track true) trks /\
  match trks with
  | [] => True
  | x :: r => tr_num x = num /\ (match prev with None => tr_off x = 0 | Some p => 588 * p < tr_off x end) /\
              contiguous_from track_is_next x r = true
  end.
Proof.
  induction ts as [|t ts IH]; intros num prev trks Hs Hn Hl Ht; cbn [tracks_of] in Ht.
  - injection Ht as <-. split; [constructor|exact I].
  - destruct (track_of t) as [x|] eqn:Ex; [|discriminate]. destruct (tracks_of ts) as [r|] eqn:Er; [|discriminate].
    injection Ht as <-. cbn [sheet_ok] in Hs. destruct Hs as (Hnum & W & Hfirst & Hrest). rewrite lenN_cons in Hl.
    destruct (track_typed t x W ltac:(lia) Ex) as (Tx & Eo & En & El).
    destruct (IH (num + 1) (Some (last_frames t)) r Hrest ltac:(lia) ltac:(lia) eq_refl) as [Tr Hr].
    split; [constructor; assumption|]. split; [congruence|]. split.
    + rewrite Eo. unfold first_samples. destruct (ct_indices t) as [|i0 q]; [contradiction|]. rewrite samples_frames.
      destruct prev as [p|]; [lia|rewrite Hfirst; reflexivity].
    + pose proof (tracks_of_len ts r Er) as Lr.
      destruct r as [|y r']; [reflexivity|]. destruct Hr as (Ny & Oy & Cy). cbn [contiguous_from]. rewrite lenN_cons in Lr.
      unfold track_is_next. rewrite En, Hnum, Ny. destruct (N.ltb_spec (num + 1) 256) as [_|]; [|lia]. rewrite N.eqb_refl. cbn [andb].
      destruct (finished_last_le t x W El) as [Hle _].
      destruct (N.ltb_spec (indexvec_last (tr_ix x)) (tr_off y)) as [_|]; [exact Cy|lia].
Qed.

(* the imported block has the invariants of its Rust type *)
Theorem imported_block_typed c total b : wf_cue c -> total mod 588 = 0 -> total < 18446744073709551616 ->
  block_of c total = Some b -> ty_cuesheet b.
Proof.
  intros (Hne & Hlen & Hs & Hcat) Hm Ht Hb. unfold block_of in Hb.
  destruct (tracks_of (cu_tracks c)) as [ts|] eqn:Et; [|discriminate]. injection Hb as <-.
  destruct (tracks_typed (cu_tracks c) 1 None ts Hs ltac:(lia) ltac:(lia) Et) as [T C].
  cbn [ty_cuesheet]. split; [exact Hcat|]. split; [unfold LEAD_IN; lia|]. split; [exact T|]. split.
  - destruct ts as [|x r]; [reflexivity|]. destruct C as (Nx & Ox & Cx). cbn [is_contiguous]. unfold track_valid_first.
    rewrite Ox, Nx. cbn [N.eqb andb]. exact Cx.
  - split.
    + pose proof (tracks_of_len _ _ Et) as L.
      rewrite L. unfold CDDA_MAX_TRACKS. exact Hlen.
    + unfold ty_leadout. cbn [lo_off lo_isrc ty_isrc]. split; [split; [exact Ht|intros _; exact Hm]|exact I].
Qed.

(* ---- hence the writer accepts it and the reader returns it unchanged (C11's round trip applies) *)
Lemma enc_all_tracks_upper : forall l, Forall (ty_track true) l -> lenN (enc_all track_bytes l) <= 1236 * lenN l.
Proof.
  induction 1 as [|t l Ht _ IH]; [cbn; lia|]. cbn [enc_all]. rewrite lenN_app, lenN_cons, (lenN_track_bytes true t Ht).
  destruct Ht as (_ & _ & _ & (_ & _ & Hl & _)). unfold CDDA_MAX_INDEX in Hl. lia.
Qed.

Section RoundTrip.
Variable u : list N -> bool.
Hypothesis u_ascii : forall s, Forall (fun b => b < 128) s -> u s = true.

Theorem imported_block_round_trips c total b last :
  wf_cue c -> total mod 588 = 0 -> total < 18446744073709551616 -> block_of c total = Some b ->
  exists bytes, write_block last (BCuesheet b) = Ok bytes /\
    forall rest, read_block u (bytes ++ rest) = Ok (last, BCuesheet b, rest).
Proof.
  intros W Hm Ht Hb. pose proof (imported_block_typed c total b W Hm Ht Hb) as T.
  assert (Tb : ty_block u (BCuesheet b)) by exact T.
  unfold block_of in Hb. destruct (tracks_of (cu_tracks c)) as [ts|] eqn:Et; [|discriminate]. injection Hb as <-.
  pose proof T as (_ & _ & Ft & _ & Lt & _). unfold CDDA_MAX_TRACKS in Lt.
  assert (Wb : write_body (BCuesheet (CueCDDA (cu_catalog c) LEAD_IN ts (mkLO total IsrcNone false false))) =
               Ok (cue_bytes (CueCDDA (cu_catalog c) LEAD_IN ts (mkLO total IsrcNone false false)))).
  { cbn [write_body write_cuesheet cue_bytes]. destruct (N.ltb_spec 255 (lenN ts + 1)); [lia|].
    rewrite (write_tracks_enc true ts Ft). reflexivity. }
  set (blk := CueCDDA (cu_catalog c) LEAD_IN ts (mkLO total IsrcNone false false)) in *.
  pose proof (body_size_write u (BCuesheet blk) Tb) as S. rewrite Wb in S.
  pose proof (lenN_cue_bytes blk T I) as L. cbn [blk] in L. pose proof (enc_all_tracks_upper ts Ft) as U.
  assert (Hfit : lenN (cue_bytes blk) <= BLOCKSIZE_MAX) by (unfold BLOCKSIZE_MAX; lia).
  assert (Hw : write_block last (BCuesheet blk) =
               Ok (write_header (mkHeader last (block_type (BCuesheet blk)) (lenN (cue_bytes blk))) ++ cue_bytes blk)).
  { unfold write_block. rewrite S. cbn [bind]. destruct (N.ltb_spec BLOCKSIZE_MAX (lenN (cue_bytes blk))); [lia|].
    rewrite Wb. reflexivity. }
  eexists. split; [exact Hw|]. intros rest.
  apply (block_write_read u u_ascii last (BCuesheet blk) _ rest Tb I Hw).
Qed.
End RoundTrip.
