(* E2E/ReadersE2E.v — C01 down to the reader front-ends: the samples written through the FlacSampleWriter model
   are what the FlacSampleReader / FlacByteReader / FlacChannelReader models deliver, exactly once and in order,
   under every seek-free call history. *)
From Coq Require Import List NArith ZArith Lia.
From FlacBase Require Import Res.
From FlacCodec Require Ast Stream Header Wf Enc Enc_proofs.
From FlacWriters Require Import Meta Params Params_proofs Finalize Writers.
From FlacReaders Require Readers Spec Ser RNum Seek Props_C07.
From FlacE2E Require Import Bridge E2E SampleE2E Success ReadBridge.
Import ListNotations.
Open Scope N_scope.

Module RS := FlacReaders.Spec.
Module R := FlacReaders.Readers.

(* everything together, hypotheses on the input only: the run succeeds; the stream decoder model decodes the file to
   the blocks; the readers area's abstract file of those blocks is valid and its PCM is the whole PCM frames written;
   hence (C07) the sample reader model — and likewise the byte and channel readers over pcm_bytes / chan_pcm —
   delivers exactly those samples under every seek-free history of read / fill_buf / consume / next calls *)
Theorem written_samples_are_read : forall o L md5, (forall l, length (md5 l) = 16%nat) ->
  forall p rate bps wo ch total w chunks e rp,
  options_wf wo ->
  sample_new p [] wo rate bps ch total = Ok w ->
  forallb (FlacCodec.Wf.fits bps) (concat chunks) = true ->
  let W := N.of_nat (length (concat chunks)) / ch in
  let written := firstn (N.to_nat ch * (length (concat chunks) / N.to_nat ch)) (concat chunks) in
  1 <= W -> N.of_nat (length (concat chunks)) < 2 ^ 36 ->
  match total with Some T => T = ch * W | None => True end ->
  exists f blocks,
    sample_run (encB o L rate bps) md5 p w chunks = Ok f /\
    FlacCodec.Stream.dec_stream (f_stream f) =
      Some (conv_si (f_si f), map FlacCodec.Stream.interleave_frame blocks, FlacCodec.Stream.EndEof) /\
    let F := file_of_blocks blocks ch bps (Some (FlacCodec.Enc_proofs.blocks_samples blocks)) e rp in
    RS.valid_file F /\ RS.pcm F = written /\
    forall ops, RS.no_sseek ops -> Forall RS.sop_ok (snd (FlacReaders.Seek.sample_run F ops)) ->
      let atr := map (RS.abs_s F) (snd (FlacReaders.Seek.sample_run F ops)) in
      Forall (RS.cur_ok written) atr /\ RS.chained 0 atr (RS.spos F (fst (FlacReaders.Seek.sample_run F ops))) /\
      RS.exactly_once written atr.
Proof.
  intros o L md5 Hmd p rate bps wo ch total w chunks e rp Hwf Hnew Hfit W written HW Hlen Htot.
  destruct (sample_writer_lossless o L md5 Hmd p rate bps wo ch total w chunks Hwf Hnew Hfit HW Hlen Htot) as (f & _ & Hrun & _ & _).
  destruct (e2e_sample_pcm o L md5 Hmd p rate bps wo ch total w chunks f Hwf Hnew Hrun Hfit Hlen)
    as (blocks & Hdec & Hcat & Hok & Hshape & Htotal & Hsc & Hlt & _).
  exists f, blocks. split; [exact Hrun|]. split; [exact Hdec|]. cbv zeta.
  assert (Hb : 1 <= bps /\ bps <= 32).
  { pose proof Hnew as H. unfold sample_new in H. apply bind_ok in H. destruct H as (bps' & Hbp & _).
    unfold signed_bit_count_32 in Hbp. destruct ((1 <=? bps) && (bps <=? 32)) eqn:Eb; [|discriminate].
    apply andb_prop in Eb. destruct Eb as [B1 B2]. apply N.leb_le in B1, B2. auto. }
  assert (Hpos : 1 <= FlacCodec.Enc_proofs.blocks_samples blocks).
  { (* at least one whole PCM frame was written *)
    destruct blocks as [|b bl]; [|].
    - cbn [map concat] in Hcat. exfalso. fold written in Hcat.
      assert (Hl : length written = 0%nat) by (rewrite <- Hcat; reflexivity).
      assert (Hch0 : ch <> 0) by (intros ->; unfold W in HW; destruct (N.of_nat (length (concat chunks))); cbn in HW; lia).
      set (c := N.to_nat ch) in *. set (q := (length (concat chunks) / c)%nat) in *.
      assert (Hc : (1 <= c)%nat) by (unfold c; lia).
      assert (Hq : (1 <= q)%nat).
      { assert (E : N.of_nat q = W) by (unfold q, W, c; rewrite Nat2N.inj_div, N2Nat.id; reflexivity). lia. }
      assert (Hle : (c * q <= length (concat chunks))%nat) by (apply Nat.mul_div_le; lia).
      unfold written in Hl. rewrite firstn_length in Hl. fold c q in Hl. nia.
    - apply Forall_cons_iff in Hok. destruct Hok as [(Hchb & _ & _ & _ & _ & n & Hn1 & _ & _ & Hall) _].
      unfold FlacCodec.Enc_proofs.blocks_samples. cbn [fold_right].
      destruct b as [|c0 b']; [cbn in Hchb; lia|].
      apply Forall_cons_iff in Hall. destruct Hall as [[A _] _]. cbn [FlacCodec.Enc.block_len]. lia. }
  rewrite <- Hsc.
  pose proof (blocks_valid_file (conv_si (f_si f)) bps blocks e rp Hok Hshape Htotal Hpos (proj1 Hb) (proj2 Hb) Hlt) as Hvalid.
  assert (Hpcm : RS.pcm (file_of_blocks blocks (FlacCodec.Ast.si_channels (conv_si (f_si f))) bps
                          (Some (FlacCodec.Enc_proofs.blocks_samples blocks)) e rp) = written).
  { rewrite (blocks_pcm (conv_si (f_si f)) bps blocks _ _ e rp Hok). exact Hcat. }
  split; [exact Hvalid|]. split; [exact Hpcm|].
  intros ops Hns Hops. rewrite <- Hpcm. apply FlacReaders.Props_C07.C07_sample_reader; assumption.
Qed.

(* ---------------- FlacChannelWriter -> FlacChannelReader ---------------- *)
From FlacWriters Require Import Lists_proofs Writers_proofs.
From FlacE2E Require Import ChannelE2E ChannelSuccess.

Lemma nth_zip_app (c : nat) : forall (a b : list (list Z)), length a = length b ->
  nth c (zip_app a b) [] = nth c a [] ++ nth c b [].
Proof.
  revert c. intros c a. revert c. induction a as [|x a IH]; intros c [|y b] Hl; try discriminate.
  - destruct c; reflexivity.
  - destruct c as [|c]; cbn [zip_app nth]; [reflexivity|]. apply IH. cbn in Hl. lia.
Qed.

Lemma nth_stack n c : forall blocks rest, Forall (fun b : list (list Z) => length b = n) blocks -> length rest = n ->
  nth c (stack blocks rest) [] = concat (map (fun b => nth c b []) blocks) ++ nth c rest [].
Proof.
  induction blocks as [|b bl IH]; intros rest Fb Lr; cbn [stack fold_right map concat]; [reflexivity|].
  fold (stack bl rest). apply Forall_cons_iff in Fb. destruct Fb as [Lb Fb].
  rewrite nth_zip_app by (rewrite (stack_length n bl rest Fb Lr); exact Lb).
  rewrite (IH rest Fb Lr), app_assoc. reflexivity.
Qed.

Theorem written_channels_are_read : forall o L md5, (forall l, length (md5 l) = 16%nat) ->
  forall p rate bps wo ch total w chunks e rp,
  options_wf wo ->
  channel_new p [] wo rate bps ch total = Ok w ->
  Forall (chunk_ok (N.to_nat ch)) chunks ->
  let all := cconcat (N.to_nat ch) chunks in
  forallb (FlacCodec.Wf.fits bps) (concat all) = true ->
  let m := length (hd [] all) in
  (1 <= m)%nat -> N.of_nat m < 2 ^ 36 ->
  match total with Some T => T = N.of_nat m | None => True end ->
  exists f blocks,
    channel_run (encB o L rate bps) md5 p w chunks = Ok f /\
    FlacCodec.Stream.dec_stream (f_stream f) =
      Some (conv_si (f_si f), map FlacCodec.Stream.interleave_frame blocks, FlacCodec.Stream.EndEof) /\
    let F := file_of_blocks blocks ch bps (Some (FlacCodec.Enc_proofs.blocks_samples blocks)) e rp in
    RS.valid_file F /\
    forall c, (c < N.to_nat ch)%nat ->
      RS.chan_pcm F c = nth c all [] /\
      forall ops, RS.no_cseek ops -> Forall RS.cop_ok (snd (FlacReaders.Seek.chan_run F ops)) ->
        let atr := map (RS.abs_c F c) (snd (FlacReaders.Seek.chan_run F ops)) in
        Forall (RS.cur_ok (nth c all [])) atr /\ RS.chained 0 atr (RS.cpos (fst (FlacReaders.Seek.chan_run F ops))) /\
        RS.exactly_once (nth c all []) atr /\ Forall (RS.chan_shape F) (snd (FlacReaders.Seek.chan_run F ops)).
Proof.
  intros o L md5 Hmd p rate bps wo ch total w chunks e rp Hwf Hnew Hchunks all Hfit m Hm Hlen Htot.
  assert (Hr : rate < 2 ^ 20 /\ 1 <= bps /\ bps <= 32 /\ 1 <= ch /\ ch <= 8).
  { pose proof Hnew as H. unfold channel_new in H. apply bind_ok in H. destruct H as (bps' & Hb & H).
    apply bind_ok in H. destruct H as (t & _ & H). apply bind_ok in H. destruct H as (e0 & He0 & _).
    unfold signed_bit_count_32 in Hb. destruct ((1 <=? bps) && (bps <=? 32)) eqn:Eb; [|discriminate].
    apply andb_prop in Eb. destruct Eb as [B1 B2]. apply N.leb_le in B1, B2. injection Hb as <-.
    unfold encoder_new in He0. apply bind_ok in He0. destruct He0 as ([] & Hv & _). unfold encoder_new_validate in Hv.
    destruct (N.ltb_spec rate 1048576); [|discriminate]. destruct ((1 <=? ch) && (ch <=? 8)) eqn:Ec; [|discriminate].
    apply andb_prop in Ec. destruct Ec as [C1 C2]. apply N.leb_le in C1, C2. change (2 ^ 20) with 1048576. auto. }
  destruct Hr as (R & B1 & B2 & C1 & C2).
  destruct (channel_run_succeeds o L md5 Hmd p rate bps ch R B1 B2 C1 C2 wo total w chunks Hwf Hnew Hchunks Hfit Hm Hlen Htot) as [f Hrun].
  destruct (e2e_channel_pcm o L md5 Hmd p rate bps wo ch total w chunks f Hwf Hnew Hchunks Hrun Hfit Hlen)
    as (blocks & Hdec & Hst & Hok & Hshape & Htotal & Hsc & Hlt & _).
  exists f, blocks. split; [exact Hrun|]. split; [exact Hdec|]. cbv zeta.
  fold all in Hst.
  assert (Fbl : Forall (fun b : list (list Z) => length b = N.to_nat ch) blocks).
  { eapply Forall_impl; [|exact Hok]. intros b (Hcb & _ & _ & _ & Hscb & _). rewrite Hsc in Hscb. lia. }
  assert (Hpos : 1 <= FlacCodec.Enc_proofs.blocks_samples blocks).
  { destruct blocks as [|b bl].
    - exfalso. cbn [stack fold_right] in Hst. unfold m in Hm. rewrite <- Hst in Hm.
      destruct (N.to_nat ch) as [|k] eqn:Ek; [lia|]. cbn in Hm. lia.
    - apply Forall_cons_iff in Hok. destruct Hok as [(Hchb & _ & _ & _ & _ & n & Hn1 & _ & _ & Hall) _].
      unfold FlacCodec.Enc_proofs.blocks_samples. cbn [fold_right].
      destruct b as [|c0 b']; [cbn in Hchb; lia|].
      apply Forall_cons_iff in Hall. destruct Hall as [[A _] _]. cbn [FlacCodec.Enc.block_len]. lia. }
  rewrite <- Hsc.
  pose proof (blocks_valid_file (conv_si (f_si f)) bps blocks e rp Hok Hshape Htotal Hpos B1 B2 Hlt) as Hvalid.
  split; [exact Hvalid|]. intros c Hc.
  set (F := file_of_blocks blocks (FlacCodec.Ast.si_channels (conv_si (f_si f))) bps (Some (FlacCodec.Enc_proofs.blocks_samples blocks)) e rp) in *.
  assert (Hpcm : RS.chan_pcm F c = nth c all []).
  { unfold RS.chan_pcm, RS.cdata, F. cbn [file_of_blocks R.f_slots]. rewrite slot_frames.
    rewrite <- Hst, (nth_stack (N.to_nat ch) c blocks _ Fbl (repeat_length _ _)).
    rewrite nth_repeat, app_nil_r. reflexivity. }
  split; [exact Hpcm|]. intros ops Hns Hops. rewrite <- Hpcm.
  apply FlacReaders.Props_C07.C07_channel_reader; assumption.
Qed.

(* ---------------- FlacByteWriter -> FlacByteReader (same byte order) ---------------- *)
From FlacWriters Require Import Bytes_proofs.
From FlacE2E Require Import ByteE2E ByteSuccess.

Definition conv_endian (en : Writers.endian) : Ser.endian :=
  match en with Writers.LE => Ser.LE | Writers.BE => Ser.BE end.

(* two's complement written back: the bytes a sample was read from *)
Lemma le_bytes_le_value : forall c, Forall byte_ok c ->
  RS.le_bytes (length c) (Z.to_N (le_value c)) = c /\ (0 <= le_value c < 2 ^ (8 * Z.of_nat (length c)))%Z.
Proof.
  induction c as [|b r IH]; intros F; [cbn; split; [reflexivity|lia]|].
  apply Forall_cons_iff in F. destruct F as [Hb Fr]. destruct (IH Fr) as [E R]. unfold byte_ok in Hb.
  cbn [le_value length RS.le_bytes].
  assert (Ev : Z.to_N (Z.of_N b + 256 * le_value r) = b + 256 * Z.to_N (le_value r)) by lia.
  rewrite Ev.
  assert (M : (b + 256 * Z.to_N (le_value r)) mod 256 = b).
  { rewrite (N.mul_comm 256), N.mod_add by lia. apply N.mod_small. exact Hb. }
  assert (D : (b + 256 * Z.to_N (le_value r)) / 256 = Z.to_N (le_value r)).
  { rewrite N.add_comm, (N.mul_comm 256), N.div_add_l by lia. rewrite (N.div_small b 256) by exact Hb. lia. }
  rewrite M, D, E. split; [reflexivity|].
  replace (8 * Z.of_nat (S (length r)))%Z with (8 + 8 * Z.of_nat (length r))%Z by lia.
  rewrite Z.pow_add_r by lia. change (2 ^ 8)%Z with 256%Z. lia.
Qed.

Lemma twos_complement_read_back en (c : list N) : Forall byte_ok c -> (1 <= length c)%nat ->
  RS.twos_complement (conv_endian en) (N.of_nat (length c))
    (bytes_to_int_le (match en with Writers.LE => c | Writers.BE => rev c end)) = c.
Proof.
  intros F Hl.
  assert (G : forall d, Forall byte_ok d -> length d = length c ->
     RS.le_bytes (length c) (Z.to_N (bytes_to_int_le d mod 2 ^ (8 * Z.of_N (N.of_nat (length c))))) = d).
  { intros d Fd Ld. destruct (le_bytes_le_value d Fd) as [E R]. rewrite Ld in *.
    rewrite nat_N_Z.
    assert (Em : (bytes_to_int_le d mod 2 ^ (8 * Z.of_nat (length c)) = le_value d)%Z).
    { unfold bytes_to_int_le. rewrite Ld. set (w := (2 ^ (8 * Z.of_nat (length c)))%Z) in *. cbv zeta.
      destruct (2 * le_value d <? w)%Z.
      - apply Z.mod_small. exact R.
      - replace (le_value d - w)%Z with (le_value d + (-1) * w)%Z by lia. rewrite Z.mod_add by lia. apply Z.mod_small. exact R. }
    rewrite Em. exact E. }
  unfold RS.twos_complement. rewrite Nat2N.id. destruct en; cbn [conv_endian Ser.order].
  - apply G; [exact F|reflexivity].
  - rewrite (G (rev c)); [apply rev_involutive|apply Forall_rev; exact F|apply rev_length].
Qed.

Lemma fits_conv bps z : FlacCodec.Wf.fits bps z = true -> RS.fits (Z.of_N bps) z.
Proof.
  unfold FlacCodec.Wf.fits, RS.fits. intros H. apply andb_prop in H. destruct H as [H H3]. apply andb_prop in H. destruct H as [_ H2].
  apply Z.leb_le in H2. apply Z.ltb_lt in H3. lia.
Qed.

Lemma forallb_firstn {A} (f : A -> bool) k : forall l, forallb f l = true -> forallb f (firstn k l) = true.
Proof.
  induction k as [|k IH]; intros [|x l] H; cbn [firstn forallb] in *; try reflexivity.
  apply andb_prop in H. destruct H as [-> H]. cbn [andb]. apply IH. exact H.
Qed.

Lemma In_firstn_in {A} k : forall (l : list A) x, In x (firstn k l) -> In x l.
Proof.
  induction k as [|k IH]; intros [|y l] x H; cbn [firstn] in H; try contradiction.
  destruct H as [<-|H]; [left; reflexivity|right; apply IH; exact H].
Qed.

(* serialising the samples a run of whole samples spells gives the run back *)
Lemma ser_decode_bytes en bps (x : list N) k : 1 <= bps <= 32 ->
  let nb := Ser.bytes_per_sample bps in
  length x = (N.to_nat nb * k)%nat -> Forall byte_ok x ->
  forallb (FlacCodec.Wf.fits bps) (decode_bytes en (N.to_nat nb) x) = true ->
  Ser.ser (conv_endian en) nb (decode_bytes en (N.to_nat nb) x) = x.
Proof.
  intros Hb nb Lx Fx Hfit.
  assert (Hnb : 1 <= nb <= 4).
  { unfold nb, Ser.bytes_per_sample. split; [apply N.div_le_lower_bound; lia|]. apply N.lt_succ_r. apply N.div_lt_upper_bound; lia. }
  unfold nb at 1. rewrite FlacReaders.Props_C07.C07_ser_twos_complement; [|exact Hb|].
  2:{ apply Forall_forall. intros z Hz. apply fits_conv. rewrite forallb_forall in Hfit. apply Hfit. exact Hz. }
  fold nb. unfold decode_bytes.
  destruct (drain (N.to_nat nb) x) as [cs r] eqn:D. cbn [fst].
  assert (Hn : (0 < N.to_nat nb)%nat) by lia.
  pose proof (drain_spec _ Hn x cs r D) as (Ex & Fcs & Lr). pose proof (drain_length _ Hn x cs r D) as Ld.
  assert (Hr : r = []).
  { assert (length r = 0)%nat; [|destruct r; [reflexivity|discriminate]].
    rewrite Lx in Ld. set (n := N.to_nat nb) in *.
    destruct (Nat.lt_trichotomy (length cs) k) as [Hl|[E|Hg]].
    - assert (n * (length cs + 1) <= n * k)%nat by (apply Nat.mul_le_mono_l; lia). lia.
    - subst k. lia.
    - assert (n * (k + 1) <= n * length cs)%nat by (apply Nat.mul_le_mono_l; lia). lia. }
  subst r. rewrite app_nil_r in Ex. rewrite Ex. rewrite map_map. f_equal.
  rewrite <- (map_id cs) at 2. apply map_ext_in. intros c Hc.
  rewrite Forall_forall in Fcs. pose proof (Fcs c Hc) as Lc.
  replace nb with (N.of_nat (length c)) by lia. apply twos_complement_read_back; [|lia].
  rewrite Ex in Fx. apply Forall_forall. intros b Hbn. rewrite Forall_forall in Fx. apply Fx. apply in_concat. exists c. auto.
Qed.

Lemma firstn_decode_bytes en n (buf : list N) k : (0 < n)%nat -> (n * k <= length buf)%nat ->
  firstn k (decode_bytes en n buf) = decode_bytes en n (firstn (n * k) buf).
Proof.
  intros Hn Hk. rewrite <- (firstn_skipn (n * k) buf) at 1.
  rewrite (decode_bytes_app en n (firstn (n * k) buf) (skipn (n * k) buf) k Hn) by (rewrite firstn_length; lia).
  assert (Ll : length (decode_bytes en n (firstn (n * k) buf)) = k).
  { rewrite decode_bytes_length, firstn_length by exact Hn. rewrite Nat.min_l by exact Hk. rewrite Nat.mul_comm. apply Nat.div_mul. lia. }
  rewrite <- Ll at 1. rewrite firstn_app, Nat.sub_diag, firstn_all. cbn [firstn]. apply app_nil_r.
Qed.

Theorem written_bytes_are_read : forall o L md5, (forall l, length (md5 l) = 16%nat) ->
  forall p rate bps en wo ch total w chunks rp,
  options_wf wo ->
  byte_new p en [] wo rate bps ch total = Ok w ->
  Forall byte_ok (concat chunks) ->
  let nb := bytes_per_sample_of bps in
  let samples := decode_bytes en (N.to_nat nb) (concat chunks) in
  forallb (FlacCodec.Wf.fits bps) samples = true ->
  let W := N.of_nat (length samples) / ch in
  let written := firstn (N.to_nat nb * (N.to_nat ch * (length samples / N.to_nat ch))) (concat chunks) in
  1 <= W -> N.of_nat (length samples) < 2 ^ 36 ->
  match total with Some T => T = nb * ch * W | None => True end ->
  exists f blocks,
    byte_run (encB o L rate bps) md5 p w chunks = Ok f /\
    FlacCodec.Stream.dec_stream (f_stream f) =
      Some (conv_si (f_si f), map FlacCodec.Stream.interleave_frame blocks, FlacCodec.Stream.EndEof) /\
    let F := file_of_blocks blocks ch bps (Some (FlacCodec.Enc_proofs.blocks_samples blocks)) (conv_endian en) rp in
    RS.valid_file F /\ RS.pcm_bytes F = written /\
    forall ops, RS.no_bseek ops -> Forall RS.bop_ok (snd (FlacReaders.Seek.byte_run F ops)) ->
      let atr := map (RS.abs_b F) (snd (FlacReaders.Seek.byte_run F ops)) in
      Forall (RS.cur_ok written) atr /\ RS.chained 0 atr (RS.bpos F (fst (FlacReaders.Seek.byte_run F ops))) /\
      RS.exactly_once written atr.
Proof.
  intros o L md5 Hmd p rate bps en wo ch total w chunks rp Hwf Hnew Hbytes nb samples Hfit W written HW Hlen Htot.
  assert (Hr : rate < 2 ^ 20 /\ 1 <= bps /\ bps <= 32 /\ 1 <= ch /\ ch <= 8).
  { pose proof Hnew as H. unfold byte_new in H. apply bind_ok in H. destruct H as (bps' & Hb & H).
    apply bind_ok in H. destruct H as (t & _ & H). apply bind_ok in H. destruct H as (e0 & He0 & _).
    unfold signed_bit_count_32 in Hb. destruct ((1 <=? bps) && (bps <=? 32)) eqn:Eb; [|discriminate].
    apply andb_prop in Eb. destruct Eb as [B1 B2]. apply N.leb_le in B1, B2. injection Hb as <-.
    unfold encoder_new in He0. apply bind_ok in He0. destruct He0 as ([] & Hv & _). unfold encoder_new_validate in Hv.
    destruct (N.ltb_spec rate 1048576); [|discriminate]. destruct ((1 <=? ch) && (ch <=? 8)) eqn:Ec; [|discriminate].
    apply andb_prop in Ec. destruct Ec as [C1 C2]. apply N.leb_le in C1, C2. change (2 ^ 20) with 1048576. auto. }
  destruct Hr as (R & B1 & B2 & C1 & C2).
  destruct (byte_run_succeeds o L md5 Hmd p rate bps ch R B1 B2 C1 C2 en wo total w chunks Hwf Hnew Hbytes Hfit HW Hlen Htot) as [f Hrun].
  destruct (e2e_byte_pcm o L md5 Hmd p rate bps en wo ch total w chunks f Hwf Hnew Hrun Hbytes Hfit Hlen)
    as (blocks & Hdec & Hcat & Hok & Hshape & Htotal & Hsc & Hlt & _).
  exists f, blocks. split; [exact Hrun|]. split; [exact Hdec|]. cbv zeta.
  fold nb samples in Hcat.
  set (c := N.to_nat ch) in *. set (n := N.to_nat nb) in *. set (q := (length samples / c)%nat) in *.
  assert (Hnb : 1 <= nb <= 4).
  { unfold nb, bytes_per_sample_of. split; [apply N.div_le_lower_bound; lia|]. apply N.lt_succ_r. apply N.div_lt_upper_bound; lia. }
  assert (Hq : (1 <= q)%nat).
  { assert (E : N.of_nat q = W) by (unfold q, W, c; rewrite Nat2N.inj_div, N2Nat.id; reflexivity). lia. }
  assert (Hcq : (c * q <= length samples)%nat) by (apply Nat.mul_div_le; unfold c; lia).
  assert (Hpos : 1 <= FlacCodec.Enc_proofs.blocks_samples blocks).
  { destruct blocks as [|b bl].
    - exfalso. cbn [map concat] in Hcat. assert (Hl : length (firstn (c * q) samples) = 0%nat) by (rewrite <- Hcat; reflexivity).
      rewrite firstn_length in Hl. assert (1 <= c)%nat by (unfold c; lia). nia.
    - apply Forall_cons_iff in Hok. destruct Hok as [(Hchb & _ & _ & _ & _ & n0 & Hn1 & _ & _ & Hall) _].
      unfold FlacCodec.Enc_proofs.blocks_samples. cbn [fold_right].
      destruct b as [|c0 b']; [cbn in Hchb; lia|].
      apply Forall_cons_iff in Hall. destruct Hall as [[A _] _]. cbn [FlacCodec.Enc.block_len]. lia. }
  rewrite <- Hsc.
  pose proof (blocks_valid_file (conv_si (f_si f)) bps blocks (conv_endian en) rp Hok Hshape Htotal Hpos B1 B2 Hlt) as Hvalid.
  set (F := file_of_blocks blocks (FlacCodec.Ast.si_channels (conv_si (f_si f))) bps (Some (FlacCodec.Enc_proofs.blocks_samples blocks)) (conv_endian en) rp) in *.
  assert (Hpcm : RS.pcm_bytes F = written).
  { rewrite FlacReaders.Props_C07.C07_bytes_vs_samples. unfold F at 3. rewrite (blocks_pcm (conv_si (f_si f)) bps blocks _ _ _ rp Hok), Hcat.
    unfold F. cbn [file_of_blocks R.f_endian R.f_bps].
    assert (Hls : length samples = (length (concat chunks) / n)%nat) by (unfold samples; apply decode_bytes_length; unfold n; lia).
    assert (Hnk : (n * (c * q) <= length (concat chunks))%nat).
    { pose proof (Nat.mul_div_le (length (concat chunks)) n ltac:(unfold n; lia)) as H. rewrite <- Hls in H. nia. }
    unfold samples. rewrite (firstn_decode_bytes en n (concat chunks) (c * q)) by (unfold n; lia || exact Hnk).
    change (Ser.bytes_per_sample bps) with nb. unfold n.
    apply (ser_decode_bytes en bps _ (c * q) (conj B1 B2)).
    - change (Ser.bytes_per_sample bps) with nb. rewrite firstn_length. fold n. lia.
    - apply Forall_forall. intros b Hb. rewrite Forall_forall in Hbytes. apply Hbytes. eapply In_firstn_in. exact Hb.
    - change (Ser.bytes_per_sample bps) with nb. fold n. rewrite <- (firstn_decode_bytes en n (concat chunks) (c * q)) by (unfold n; lia || exact Hnk).
      apply forallb_firstn. exact Hfit. }
  split; [exact Hvalid|]. split; [exact Hpcm|].
  intros ops Hns Hops. rewrite <- Hpcm. apply FlacReaders.Props_C07.C07_byte_reader; assumption.
Qed.
