#!/usr/bin/env python3
"""Translator (data): regenerate coq/codec/GenStream.v from <repo>/src/stream.rs.

Extracts the frame-header code tables (block size, sample rate, bits-per-sample, channel
assignment), SYNC_CODE, MAX_FRAME_NUMBER, FIXED_COEFFS and the subframe-type code ranges.
coq/codec/Tables_proofs.v proves that the model's tables (Header.v/Subframe.v) equal the generated
ones, so the round-trip and conformance theorems are re-checked against what the code says now.
Exit 2 + ANCHOR-LOST if something cannot be found."""
import os
import re
import sys

sys.path.insert(0, os.path.dirname(os.path.abspath(__file__)))
from rustconst import const


def die(msg):
    print("ANCHOR-LOST stream.rs: " + msg)
    sys.exit(2)


def block(src, header):
    i = src.find(header)
    if i < 0:
        die("missing: " + header)
    j = src.find("\n}\n", i)
    return src[i:j]


def num(tok):
    v = const(tok)
    if v is None:
        die("not a constant: " + tok)
    return v


def main():
    repo = sys.argv[1] if len(sys.argv) > 1 else "/repo"
    dst = sys.argv[2] if len(sys.argv) > 2 else "/verif/coq/codec/GenStream.v"
    src = open(os.path.join(repo, "src/stream.rs")).read()
    writer_mismatch = []

    # code -> variant name (readers)
    def code_map(header):
        b = block(src, header)
        return dict((num(c), v) for c, v in re.findall(r"(?<![\w.])(\d\w*)\s*=>\s*Ok\(Self::(\w+)", b))

    def value_map(header, ty):
        b = block(src, header)
        return dict((v, const(n)) for v, n in re.findall(r"%s::(\w+)\s*=>\s*([^,\n]+)," % ty, b) if const(n) is not None)

    bs_codes = code_map("impl FromBitStream for BlockSize<()>")
    bs_vals = value_map("impl From<BlockSize<u16>> for u16", "BlockSize")
    rate_codes = code_map("impl FromBitStreamUsing for SampleRate<()>")
    rate_vals = value_map("impl From<SampleRate<u32>> for u32", "SampleRate")
    bps_codes = code_map("impl FromBitStreamUsing for BitsPerSample {")
    bps_vals = value_map("impl From<BitsPerSample> for u32", "BitsPerSample")
    if len(bs_codes) != 15 or len(rate_codes) < 14 or len(bps_codes) < 6:
        die("unexpected table sizes %d %d %d" % (len(bs_codes), len(rate_codes), len(bps_codes)))

    def write_map(header):
        b = block(src, header)
        return dict((v, const(c)) for v, c in re.findall(r"Self::(\w+)(?:\(_\))?\s*=>\s*([^,\n]+),", b) if const(c) is not None)

    bs_w = write_map("impl<B> ToBitStream for BlockSize<B>")
    rate_w = write_map("impl<R> ToBitStream for SampleRate<R>")
    bps_w = write_map("impl ToBitStream for BitsPerSample")
    # the writer's code for each variant must be the reader's code for the same variant
    for nm, rd_codes, wr_codes in (("BlockSize", bs_codes, bs_w), ("SampleRate", rate_codes, rate_w), ("BitsPerSample", bps_codes, bps_w)):
        inv = dict((v, c) for c, v in rd_codes.items())
        for v, c in wr_codes.items():
            if inv.get(v) != c:
                print("ANCHOR-CHANGED stream.rs: writer code of %s::%s is %s, reader code is %s" % (nm, v, c, inv.get(v)))
                writer_mismatch.append((nm, v, c, inv.get(v)))

    def table(codes, vals):
        out = []
        for c in sorted(codes):
            v = codes[c]
            if v in vals:
                out.append((c, vals[v]))
        return out

    bs_tab = table(bs_codes, bs_vals)
    rate_tab = table(rate_codes, rate_vals)
    bps_tab = table(bps_codes, bps_vals)
    bs_special = sorted(c for c in bs_codes if bs_codes[c] in ("Uncommon8", "Uncommon16"))
    rate_special = dict((rate_codes[c], c) for c in rate_codes if rate_codes[c] in ("Streaminfo", "KHz", "Hz", "DHz"))
    bps_special = dict((bps_codes[c], c) for c in bps_codes if bps_codes[c] == "Streaminfo")

    # channel assignment: codes -> Independent(count) / LeftSide / SideRight / MidSide
    b = block(src, "impl FromBitStream for ChannelAssignment")
    indep = re.findall(r"(?<![\w.])(\d\w*)\s*=>\s*Ok\(Self::Independent\(Independent::(\w+)\)\)", b)
    ind_enum = dict(re.findall(r"(\w+)\s*=\s*(\d+),", block(src, "pub enum Independent")))
    chan = []
    for c, name in indep:
        chan.append((num(c), int(ind_enum[name])))
    stereo = dict((v, num(c)) for c, v in re.findall(r"(?<![\w.])(\d\w*)\s*=>\s*Ok\(Self::(LeftSide|SideRight|MidSide)\)", b))

    m = re.search(r"const SYNC_CODE: u32 = ([^;]+);", src)
    sync = num(m.group(1)) if m else die("SYNC_CODE")
    m = re.search(r"const MAX_FRAME_NUMBER: u64 = ([^;]+);", src)
    maxfn = num(m.group(1)) if m else die("MAX_FRAME_NUMBER")
    m = re.search(r"pub const FIXED_COEFFS:\s*\[&\[i64\];\s*5\]\s*=\s*\[(.*?)\];", src, re.S)
    if not m:
        die("FIXED_COEFFS")
    coeffs = [[int(x) for x in re.findall(r"-?\d+", grp)] for grp in re.findall(r"&\[(.*?)\]", m.group(1), re.S)]
    b = block(src, "impl FromBitStream for SubframeHeaderType")
    T = r"(\d\w*)"
    m = re.search(T + r"\s*=>\s*Ok\(Self::Constant\),\s*" + T + r"\s*=>\s*Ok\(Self::Verbatim\),\s*v @ " + T + r"\s*\.\.=\s*" + T +
                  r"\s*=>\s*Ok\(Self::Fixed\s*\{\s*order: v - " + T + r",?\s*\}\),\s*v @ " + T + r"\s*\.\.=\s*" + T +
                  r"\s*=>\s*Ok\(Self::Lpc\s*\{\s*order: NonZero::new\(v - " + T + r"\)", b)
    if not m or num(m.group(1)) != 0 or num(m.group(2)) != 1:
        die("SubframeHeaderType::from_reader")
    fixed_lo, fixed_hi, fixed_base, lpc_lo, lpc_hi, lpc_base = [num(x) for x in m.groups()[2:]]

    def pairs(t):
        return "[" + "; ".join("(%d, %d)" % p for p in t) + "]"

    def zl(l):
        return "[" + "; ".join("(%d)%%Z" % x for x in l) + "]"

    lines = [
        "(* GENERATED by tools/gen_stream.py from src/stream.rs — do not edit *)",
        "From Coq Require Import NArith ZArith List.", "Import ListNotations.", "Open Scope N_scope.",
        "Definition gen_bs_table : list (N * N) := %s." % pairs(bs_tab),
        "Definition gen_bs_uncommon : list N := [%s]." % "; ".join(map(str, bs_special)),
        "Definition gen_rate_table : list (N * N) := %s." % pairs(rate_tab),
        "Definition gen_rate_streaminfo : N := %d." % rate_special.get("Streaminfo", 99),
        "Definition gen_rate_khz : N := %d." % rate_special.get("KHz", 99),
        "Definition gen_rate_hz : N := %d." % rate_special.get("Hz", 99),
        "Definition gen_rate_dhz : N := %d." % rate_special.get("DHz", 99),
        "Definition gen_bps_table : list (N * N) := %s." % pairs(bps_tab),
        "Definition gen_bps_streaminfo : N := %d." % bps_special.get("Streaminfo", 99),
        "Definition gen_chan_independent : list (N * N) := %s." % pairs(chan),
        "Definition gen_chan_left_side : N := %d." % stereo.get("LeftSide", 99),
        "Definition gen_chan_side_right : N := %d." % stereo.get("SideRight", 99),
        "Definition gen_chan_mid_side : N := %d." % stereo.get("MidSide", 99),
        "Definition gen_sync_code : N := %d." % sync,
        "Definition gen_max_frame_number : N := %d." % maxfn,
        "Definition gen_fixed_coeffs : list (list Z) := [%s]." % "; ".join(zl(c) for c in coeffs),
        "Definition gen_writer_reader_code_mismatches : N := %d." % len(writer_mismatch),
        "Definition gen_subframe_codes : list N := [%s]." % "; ".join(map(str, [fixed_lo, fixed_hi, fixed_base, lpc_lo, lpc_hi, lpc_base])),
        "",
    ]
    text = "\n".join(lines)
    old = open(dst).read() if os.path.exists(dst) else None
    if old != text:
        open(dst, "w").write(text)
    print("gen_stream ok")


if __name__ == "__main__":
    main()
