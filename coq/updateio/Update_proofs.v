(* updateio/Update_proofs.v — theorems about the model in Update.v (property C10). *)
From FlacBase Require Import Res Bits.
From FlacUpdIo Require Import GenUpd Update.
Open Scope N_scope.

Lemma lenN_app {A} (a b : list A) : lenN (a ++ b) = lenN a + lenN b.
Proof. unfold lenN. rewrite app_length. lia. Qed.
Lemma lenN_repeat {A} (x : A) n : lenN (repeat x n) = N.of_nat n.
Proof. unfold lenN. now rewrite repeat_length. Qed.
Lemma lenN_eq {A B} (a : list A) (b : list B) : lenN a = lenN b -> length a = length b.
Proof. unfold lenN. lia. Qed.

Section Proofs.
  Variable payload : Type.
  Variable psize : payload -> N.
  Variable ser : payload -> list N.
  Variable uclass : okind -> payload -> option N.
  Variable read_blocks : list N -> res (blocklist payload * list N).

  (* C11, first half: a block's reported size is the number of body bytes it writes *)
  Hypothesis ser_len : forall p, lenN (ser p) = psize p.

  Notation oblock := (oblock payload).
  Notation blocklist := (blocklist payload).
  Notation osize := (osize payload psize).
  Notation obody := (obody payload ser).
  Notation oclass := (oclass payload uclass).
  Notation check_unique := (check_unique payload uclass).
  Notation write_opt := (write_opt payload psize ser uclass).
  Notation write_blocks := (write_blocks payload psize ser uclass).
  Notation opt_size := (opt_size payload psize uclass).
  Notation blocks_size := (blocks_size payload psize uclass).
  Notation map_first_padding := (map_first_padding payload).
  Notation grow_padding := (grow_padding payload).
  Notation shrink_padding := (shrink_padding payload).
  Notation update_plan := (update_plan payload).
  Notation update_decision := (update_decision payload psize uclass).
  Notation update_file := (update_file payload psize ser uclass read_blocks).
  Notation update := (update payload psize ser uclass read_blocks).
  Notation run_edits := (run_edits payload psize ser uclass read_blocks).
  Notation first_padding := (first_padding payload).
  Notation set_first_padding := (set_first_padding payload).
  Notation with_first_padding := (with_first_padding payload).
  Notation file_inv := (file_inv payload read_blocks).
  Notation keeps_streaminfo := (keeps_streaminfo payload).

  (* ---------------------------------------------------------------- sizes *)
  Lemma obody_len b : lenN (obody b) = osize b.
  Proof. destruct b; cbn [Update.obody Update.osize]. - rewrite lenN_repeat. lia. - apply ser_len. Qed.

  Lemma header_len last ty size : lenN (header last ty size) = HEADER_SIZE.
  Proof. reflexivity. Qed.

  Lemma write_block_size last ty size body : lenN body = size ->
    rmap lenN (write_block last ty size body) = size_block size.
  Proof.
    intros H. unfold write_block, size_block. destruct (size <=? BLOCK_MAX); cbn [rmap bind]; [|reflexivity].
    rewrite lenN_app, header_len, H. reflexivity.
  Qed.

  Lemma write_block_no_panic last ty size body : is_panic (write_block last ty size body) = false.
  Proof. unfold write_block. destruct (size <=? BLOCK_MAX); reflexivity. Qed.

  Lemma check_unique_no_panic seen b : is_panic (check_unique seen b) = false.
  Proof. unfold Update.check_unique. destruct (oclass b); [destruct (existsb _ _)|]; reflexivity. Qed.

  Lemma write_opt_size bs : forall seen, rmap lenN (write_opt seen bs) = opt_size seen bs.
  Proof.
    induction bs as [|b r IH]; intros seen; cbn [Update.write_opt Update.opt_size]; [reflexivity|].
    destruct (check_unique seen b) as [seen'|e|k]; cbn [bind rmap]; try reflexivity.
    pose proof (write_block_size (match r with [] => true | _ => false end) (Update.otype payload b) (osize b) (obody b) (obody_len b)) as Hb.
    destruct (write_block _ _ _ _) as [bytes|e|k]; cbn [bind rmap] in *;
      destruct (size_block (osize b)) as [n|e'|k']; cbn [bind rmap] in *; try discriminate; try reflexivity.
    - specialize (IH seen'). destruct (write_opt seen' r) as [rest|e|k]; cbn [bind rmap] in *;
        destruct (opt_size seen' r) as [m|e'|k']; cbn [bind rmap] in *; try discriminate; try reflexivity.
      + inversion Hb; inversion IH; subst. rewrite lenN_app. reflexivity.
      + inversion IH; subst. reflexivity.
      + inversion IH; subst. reflexivity.
    - inversion Hb; subst. reflexivity.
    - inversion Hb; subst. reflexivity.
  Qed.

  Lemma write_blocks_size bl : rmap lenN (write_blocks bl) = blocks_size bl.
  Proof.
    unfold Update.write_blocks, Update.blocks_size.
    pose proof (write_block_size (match bl_blocks payload bl with [] => true | _ => false end) TY_STREAMINFO
                  (psize (bl_si payload bl)) (ser (bl_si payload bl)) (ser_len _)) as Hb.
    destruct (write_block _ _ _ _) as [bytes|e|k]; cbn [bind rmap] in *;
      destruct (size_block (psize (bl_si payload bl))) as [n|e'|k']; cbn [bind rmap] in *; try discriminate; try reflexivity.
    - pose proof (write_opt_size (bl_blocks payload bl) []) as IH.
      destruct (write_opt [] _) as [rest|e|k]; cbn [bind rmap] in *;
        destruct (opt_size [] _) as [m|e'|k']; cbn [bind rmap] in *; try discriminate; try reflexivity.
      + inversion Hb; inversion IH; subst. rewrite !lenN_app. f_equal. lia.
      + inversion IH; subst; reflexivity.
      + inversion IH; subst; reflexivity.
    - inversion Hb; subst; reflexivity.
    - inversion Hb; subst; reflexivity.
  Qed.

  Lemma write_blocks_ok_size bl bytes : write_blocks bl = Ok bytes -> blocks_size bl = Ok (lenN bytes).
  Proof. intros H. rewrite <- write_blocks_size, H. reflexivity. Qed.

  Lemma size_ok_write_ok bl n : blocks_size bl = Ok n -> exists bytes, write_blocks bl = Ok bytes /\ lenN bytes = n.
  Proof.
    intros H. rewrite <- write_blocks_size in H. destruct (write_blocks bl) as [bytes|e|k]; cbn in H; try discriminate.
    inversion H; subst. eauto.
  Qed.

  Lemma opt_size_no_panic bs : forall seen, is_panic (opt_size seen bs) = false.
  Proof.
    induction bs as [|b r IH]; intros seen; cbn [Update.opt_size]; [reflexivity|].
    pose proof (check_unique_no_panic seen b) as Hc.
    destruct (check_unique seen b) as [s|e|k]; cbn [bind] in *; try reflexivity; try discriminate.
    unfold size_block. destruct (osize b <=? BLOCK_MAX); cbn [bind]; [|reflexivity].
    specialize (IH s). destruct (opt_size s r); cbn [bind] in *; auto.
  Qed.

  Lemma blocks_size_no_panic bl : is_panic (blocks_size bl) = false.
  Proof.
    unfold Update.blocks_size, size_block. destruct (_ <=? BLOCK_MAX); cbn [bind]; [|reflexivity].
    pose proof (opt_size_no_panic (bl_blocks payload bl) []) as H. destruct (opt_size [] _); cbn [bind] in *; auto.
  Qed.

  Lemma write_blocks_no_panic bl : is_panic (write_blocks bl) = false.
  Proof.
    pose proof (write_blocks_size bl) as H. pose proof (blocks_size_no_panic bl) as P.
    destruct (write_blocks bl); cbn in *; auto. rewrite <- H in P. discriminate.
  Qed.

  (* ---------------------------------------------------------------- first padding *)
  (* bs and bs' are equal except that the first PADDING has size n in bs and n' in bs' *)
  Inductive fp_rel (n n' : N) : list oblock -> list oblock -> Prop :=
  | fp_here r : fp_rel n n' (OPadding n :: r) (OPadding n' :: r)
  | fp_skip ty p r r' : fp_rel n n' r r' -> fp_rel n n' (OOther ty p :: r) (OOther ty p :: r').

  Lemma mfp_rel f bs : forall bs', map_first_padding f bs = Some bs' ->
    exists n n', f n = Some n' /\ fp_rel n n' bs bs'.
  Proof.
    induction bs as [|b r IH]; intros bs' H; cbn [Update.map_first_padding] in H; [discriminate|].
    destruct b as [n|ty p].
    - destruct (f n) as [n'|] eqn:E; [|discriminate]. inversion H; subst. exists n, n'. split; auto. constructor.
    - destruct (map_first_padding f r) as [r'|] eqn:E; [|discriminate]. inversion H; subst.
      destruct (IH r' eq_refl) as (n & n' & Hf & Hr). exists n, n'. split; auto. now constructor.
  Qed.

  Lemma mfp_char f bs : map_first_padding f bs =
    match first_padding bs with
    | None => None
    | Some n => match f n with Some n' => Some (set_first_padding n' bs) | None => None end
    end.
  Proof.
    induction bs as [|b r IH]; cbn [Update.map_first_padding Update.first_padding Update.set_first_padding]; [reflexivity|].
    destruct b as [n|ty p]; [destruct (f n); reflexivity|].
    rewrite IH. destruct (first_padding r) as [n|]; [destruct (f n)|]; reflexivity.
  Qed.

  Lemma fp_rel_set n n' bs bs' : fp_rel n n' bs bs' -> first_padding bs = Some n /\ bs' = set_first_padding n' bs.
  Proof. induction 1; cbn [Update.first_padding Update.set_first_padding]; [auto|]. destruct IHfp_rel as [-> ->]. auto. Qed.

  Lemma fp_rel_size n n' bs bs' : fp_rel n n' bs bs' -> n' <= BLOCK_MAX ->
    forall seen s, opt_size seen bs = Ok s -> exists base, s = base + n /\ opt_size seen bs' = Ok (base + n').
  Proof.
    induction 1 as [r|ty p r r' Hr IH]; intros Hn' seen s Hs; cbn [Update.opt_size] in *.
    - cbn [Update.check_unique Update.oclass bind Update.osize] in *. unfold size_block in *.
      destruct (n <=? BLOCK_MAX); cbn [bind] in Hs; [|discriminate].
      apply N.leb_le in Hn'. rewrite Hn'. cbn [bind].
      destruct (opt_size seen r) as [m|e|k]; cbn [bind] in *; try discriminate.
      inversion Hs; subst. exists (HEADER_SIZE + m). split; [lia|]. f_equal. lia.
    - destruct (check_unique seen (OOther ty p)) as [seen'|e|k]; cbn [bind] in *; try discriminate.
      destruct (size_block _) as [q|e|k]; cbn [bind] in *; try discriminate.
      destruct (opt_size seen' r) as [m|e|k] eqn:E; cbn [bind] in *; try discriminate.
      inversion Hs; subst. destruct (IH Hn' seen' m E) as (base & -> & ->). cbn [bind].
      exists (q + base). split; [lia|]. f_equal. lia.
  Qed.

  (* bl2 is bl1 with at most the first PADDING's size changed *)
  Definition first_padding_only (bl1 bl2 : blocklist) : Prop :=
    bl_si payload bl2 = bl_si payload bl1 /\
    (bl_blocks payload bl2 = bl_blocks payload bl1 \/
     exists n n', fp_rel n n' (bl_blocks payload bl1) (bl_blocks payload bl2)).

  Lemma blocks_size_fp bl1 bs2 n n' s : fp_rel n n' (bl_blocks payload bl1) bs2 -> n' <= BLOCK_MAX ->
    blocks_size bl1 = Ok s ->
    exists base, s = base + n /\ blocks_size {| bl_si := bl_si payload bl1; bl_blocks := bs2 |} = Ok (base + n').
  Proof.
    intros Hr Hn' Hs. unfold Update.blocks_size in *. cbn [bl_si bl_blocks].
    destruct (size_block _) as [q|e|k]; cbn [bind] in *; try discriminate.
    destruct (opt_size [] (bl_blocks payload bl1)) as [m|e|k] eqn:E; cbn [bind] in *; try discriminate.
    inversion Hs; subst. destruct (fp_rel_size _ _ _ _ Hr Hn' [] m E) as (base & -> & ->). cbn [bind].
    exists (lenN FLAC_TAG + q + base). split; [lia|]. f_equal. lia.
  Qed.

  (* ---------------------------------------------------------------- the decision *)
  (* an in-place plan always has exactly the old size, and differs from the edited list in the first
     PADDING only *)
  Lemma update_plan_inplace old new bl1 bl2 : blocks_size bl1 = Ok new ->
    update_plan old new bl1 = InPlace bl2 ->
    blocks_size bl2 = Ok old /\ first_padding_only bl1 bl2.
  Proof.
    intros Hs Hp. unfold Update.update_plan in Hp. destruct (N.compare_spec new old) as [E|L|G].
    - inversion Hp; subst. split; auto. split; auto.
    - unfold Update.grow_padding, to_blocksize in Hp.
      destruct (old - new <=? BLOCK_MAX) eqn:Hd; [|discriminate].
      destruct (map_first_padding _ _) as [bs|] eqn:M; [|discriminate]. inversion Hp; subst; clear Hp.
      apply mfp_rel in M. destruct M as (n & n' & Hf & Hr). unfold checked_add in Hf.
      destruct (n + (old - new) <=? BLOCK_MAX) eqn:Hl; [|discriminate]. inversion Hf; subst; clear Hf.
      apply N.leb_le in Hl. destruct (blocks_size_fp bl1 bs n _ new Hr Hl Hs) as (base & -> & Hb).
      split. + rewrite Hb. f_equal. lia. + split; [reflexivity|]. right. eauto.
    - unfold Update.shrink_padding, to_blocksize in Hp.
      destruct (new - old <=? BLOCK_MAX) eqn:Hd; [|discriminate].
      destruct (map_first_padding _ _) as [bs|] eqn:M; [|discriminate]. inversion Hp; subst; clear Hp.
      apply mfp_rel in M. destruct M as (n & n' & Hf & Hr). unfold checked_sub in Hf.
      destruct (new - old <=? n) eqn:Hl; [|discriminate]. inversion Hf; subst; clear Hf.
      apply N.leb_le in Hl, Hd.
      assert (Hn' : n - (new - old) <= BLOCK_MAX).
      { (* the old padding fitted, the new one is smaller *)
        assert (n <= BLOCK_MAX); [|lia].
        clear - Hr Hs. unfold Update.blocks_size in Hs.
        destruct (size_block _); cbn [bind] in Hs; try discriminate.
        destruct (opt_size [] (bl_blocks payload bl1)) as [m|e|k] eqn:E; cbn [bind] in Hs; try discriminate. clear Hs.
        revert m E. generalize (@nil N). induction Hr; intros seen m E; cbn [Update.opt_size] in E.
        - cbn [Update.check_unique Update.oclass bind Update.osize] in E. unfold size_block in E.
          destruct (n <=? BLOCK_MAX) eqn:L; [now apply N.leb_le|discriminate].
        - destruct (check_unique seen _) as [s'|e|k]; cbn [bind] in E; try discriminate.
          destruct (size_block _); cbn [bind] in E; try discriminate.
          destruct (opt_size s' r) eqn:E2; cbn [bind] in E; try discriminate. eauto. }
      destruct (blocks_size_fp bl1 bs n _ new Hr Hn' Hs) as (base & -> & Hb).
      split. + rewrite Hb. f_equal. lia. + split; [reflexivity|]. right. eauto.
  Qed.

  Lemma update_plan_rebuild old new bl1 bl2 : update_plan old new bl1 = Rebuild bl2 -> bl2 = bl1.
  Proof.
    unfold Update.update_plan. destruct (new ?= old); [discriminate| |].
    - destruct (grow_padding _ _); [discriminate|]. now inversion 1.
    - destruct (shrink_padding _ _); [discriminate|]. now inversion 1.
  Qed.

  (* closed form of the decision, including the 24-bit limit and the missing-padding case *)
  Theorem update_plan_char old new bl : update_plan old new bl =
    match new ?= old with
    | Eq => InPlace bl
    | Lt => match first_padding (bl_blocks payload bl) with
            | Some n => if (old - new <=? BLOCK_MAX) && (n + (old - new) <=? BLOCK_MAX)
                        then InPlace (with_first_padding (n + (old - new)) bl) else Rebuild bl
            | None => Rebuild bl
            end
    | Gt => match first_padding (bl_blocks payload bl) with
            | Some n => if (new - old <=? BLOCK_MAX) && (new - old <=? n)
                        then InPlace (with_first_padding (n - (new - old)) bl) else Rebuild bl
            | None => Rebuild bl
            end
    end.
  Proof.
    unfold Update.update_plan, Update.grow_padding, Update.shrink_padding, to_blocksize, Update.with_first_padding.
    destruct (new ?= old); [reflexivity| |].
    - destruct (old - new <=? BLOCK_MAX); cbn [andb]; [rewrite mfp_char|];
        destruct (first_padding _) as [n|]; try reflexivity.
      unfold checked_add. destruct (n + (old - new) <=? BLOCK_MAX); reflexivity.
    - destruct (new - old <=? BLOCK_MAX); cbn [andb]; [rewrite mfp_char|];
        destruct (first_padding _) as [n|]; try reflexivity.
      unfold checked_sub. destruct (new - old <=? n); reflexivity.
  Qed.

  (* the size-only decision the driver runs is the decision update_file takes *)
  Lemma update_decision_dry_run old bl : update_decision old bl =
    (new_size <- rmap lenN (write_blocks bl) ;; Ok (update_plan old new_size bl)).
  Proof. unfold Update.update_decision. now rewrite write_blocks_size. Qed.

  (* ---------------------------------------------------------------- the file *)
  (* C11, second half: reading inverts writing and stops after the last block *)
  Hypothesis read_write : forall bl bytes rest, write_blocks bl = Ok bytes -> read_blocks (bytes ++ rest) = Ok (bl, rest).

  Lemma overwrite_mid (pre meta audio bytes : list N) : length bytes = length meta ->
    overwrite (pre ++ meta ++ audio) (length pre) bytes = pre ++ bytes ++ audio.
  Proof.
    intros H. unfold overwrite. rewrite firstn_app, firstn_all, Nat.sub_diag. cbn [firstn]. rewrite app_nil_r.
    rewrite H. rewrite skipn_app. rewrite skipn_all2 by lia.
    replace (length pre + length meta - length pre)%nat with (length meta) by lia.
    rewrite skipn_app, skipn_all, Nat.sub_diag. reflexivity.
  Qed.

  Lemma skipn_pre (pre s : list N) : skipn (length pre) (pre ++ s) = s.
  Proof. rewrite skipn_app, skipn_all, Nat.sub_diag. reflexivity. Qed.

  Lemma old_size_meta (meta audio : list N) : N.of_nat (length (meta ++ audio) - length audio) = lenN meta.
  Proof. rewrite app_length. unfold lenN. f_equal. lia. Qed.

  Ltac file_cases H :=
    unfold Update.update_file in H; rewrite skipn_pre in H;
    match type of H with context [read_blocks ?s] =>
      match goal with R : read_blocks s = _ |- _ => rewrite R in H end end;
    rewrite old_size_meta in H.

  (* Ok(false): in place *)
  Theorem update_file_inplace edit pre meta audio bl st :
    read_blocks (meta ++ audio) = Ok (bl, audio) ->
    update_file edit (length pre) (pre ++ meta ++ audio) = (st, Ok false) ->
    exists bl1 bl2 meta',
      edit bl = Ok bl1 /\
      st = {| orig := pre ++ meta' ++ audio; rebuilt := None |} /\
      length meta' = length meta /\
      write_blocks bl2 = Ok meta' /\
      read_blocks (meta' ++ audio) = Ok (bl2, audio) /\
      first_padding_only bl1 bl2.
  Proof.
    intros R H. file_cases H.
    destruct (edit bl) as [bl1|e|k]; try (inversion H; fail).
    destruct (write_blocks bl1) as [dry|e|k] eqn:W1; cbn [rmap bind] in H; try (inversion H; fail).
    destruct (update_plan (lenN meta) (lenN dry) bl1) as [bl2|bl2] eqn:P.
    - apply write_blocks_ok_size in W1.
      destruct (update_plan_inplace _ _ _ _ W1 P) as [S2 F].
      destruct (size_ok_write_ok _ _ S2) as (bytes & W2 & L2). rewrite W2 in H. inversion H; subst; clear H.
      apply lenN_eq in L2. exists bl1, bl2, bytes. repeat split; auto.
      + now rewrite overwrite_mid.
      + apply F. + apply F.
    - destruct (write_blocks bl2); inversion H.
  Qed.

  (* Ok(true): rebuilt *)
  Theorem update_file_rebuilt edit pre meta audio bl st :
    read_blocks (meta ++ audio) = Ok (bl, audio) ->
    update_file edit (length pre) (pre ++ meta ++ audio) = (st, Ok true) ->
    exists bl1 bytes,
      edit bl = Ok bl1 /\ write_blocks bl1 = Ok bytes /\
      st = {| orig := pre ++ meta ++ audio; rebuilt := Some (bytes ++ audio) |} /\
      read_blocks (bytes ++ audio) = Ok (bl1, audio).
  Proof.
    intros R H. file_cases H.
    destruct (edit bl) as [bl1|e|k]; try (inversion H; fail).
    destruct (write_blocks bl1) as [dry|e|k] eqn:W1; cbn [rmap bind] in H; try (inversion H; fail).
    destruct (update_plan (lenN meta) (lenN dry) bl1) as [bl2|bl2] eqn:P.
    - destruct (write_blocks bl2); inversion H.
    - apply update_plan_rebuild in P. subst bl2. rewrite W1 in H. inversion H; subst; clear H.
      exists bl1, dry. repeat split; auto.
  Qed.

  (* any failure (read error, callback error, validation error in the dry run): nothing was written *)
  Theorem update_file_failure_untouched edit start file st r :
    update_file edit start file = (st, r) -> is_ok r = false ->
    st = {| orig := file; rebuilt := None |}.
  Proof.
    unfold Update.update_file. intros H Hr.
    destruct (read_blocks _) as [[bl rest]|e|k]; try (inversion H; subst; reflexivity).
    destruct (edit bl) as [bl1|e|k]; try (inversion H; subst; reflexivity).
    destruct (rmap lenN (write_blocks bl1)) as [new|e|k]; try (inversion H; subst; reflexivity).
    destruct (update_plan _ _ _) as [bl2|bl2]; destruct (write_blocks bl2); inversion H; subst; try reflexivity; discriminate.
  Qed.

  Corollary update_file_callback_error edit start file bl rest e :
    read_blocks (skipn start file) = Ok (bl, rest) -> edit bl = Err e ->
    update_file edit start file = ({| orig := file; rebuilt := None |}, Err e).
  Proof. intros R E. unfold Update.update_file. now rewrite R, E. Qed.

  Corollary update_file_validation_error edit start file bl rest bl1 e :
    read_blocks (skipn start file) = Ok (bl, rest) -> edit bl = Ok bl1 -> write_blocks bl1 = Err e ->
    update_file edit start file = ({| orig := file; rebuilt := None |}, Err e).
  Proof. intros R E W. unfold Update.update_file. now rewrite R, E, W. Qed.

  (* the model itself never panics unless the reader or the callback does; moreover once the dry run
     has succeeded the call succeeds (in the absence of I/O faults) *)
  Theorem update_file_no_panic edit start file :
    is_panic (read_blocks (skipn start file)) = false ->
    (forall bl, is_panic (edit bl) = false) ->
    is_panic (snd (update_file edit start file)) = false.
  Proof.
    intros HR HE. unfold Update.update_file.
    destruct (read_blocks _) as [[bl rest]|e|k]; cbn in *; auto.
    specialize (HE bl). destruct (edit bl) as [bl1|e|k]; cbn in *; auto.
    pose proof (write_blocks_no_panic bl1) as P1.
    destruct (write_blocks bl1) as [dry|e|k]; cbn in *; auto.
    destruct (update_plan _ _ _) as [bl2|bl2]; pose proof (write_blocks_no_panic bl2) as P2;
      destruct (write_blocks bl2); cbn in *; auto.
  Qed.

  Theorem update_file_dry_run_decides edit pre meta audio bl bl1 dry :
    read_blocks (meta ++ audio) = Ok (bl, audio) -> edit bl = Ok bl1 -> write_blocks bl1 = Ok dry ->
    exists st b, update_file edit (length pre) (pre ++ meta ++ audio) = (st, Ok b).
  Proof.
    intros R E W. unfold Update.update_file. rewrite skipn_pre, R, old_size_meta, E, W. cbn [rmap bind].
    destruct (update_plan _ _ _) as [bl2|bl2] eqn:P.
    - apply write_blocks_ok_size in W. destruct (update_plan_inplace _ _ _ _ W P) as [S2 _].
      destruct (size_ok_write_ok _ _ S2) as (bytes & -> & _). eauto.
    - apply update_plan_rebuild in P. subst. rewrite W. eauto.
  Qed.

  Lemma first_padding_only_set bl1 bl2 : first_padding_only bl1 bl2 ->
    bl2 = bl1 \/ exists n n', first_padding (bl_blocks payload bl1) = Some n /\ bl2 = with_first_padding n' bl1.
  Proof.
    intros [S [E|(n & n' & R)]]; destruct bl1 as [s1 b1], bl2 as [s2 b2]; cbn [bl_si bl_blocks] in *; subst.
    - now left.
    - right. apply fp_rel_set in R. destruct R as [F ->]. exists n, n'. split; auto.
  Qed.

  (* Ok(false) in the vocabulary of Update.v: the new metadata has the old length, is the serialisation of
     the edited list with at most the first PADDING's size replaced, and reads back as exactly that *)
  Theorem update_file_inplace_spec edit pre meta audio bl st :
    read_blocks (meta ++ audio) = Ok (bl, audio) ->
    update_file edit (length pre) (pre ++ meta ++ audio) = (st, Ok false) ->
    exists bl1 bl2 meta',
      edit bl = Ok bl1 /\
      st = {| orig := pre ++ meta' ++ audio; rebuilt := None |} /\
      length meta' = length meta /\
      write_blocks bl2 = Ok meta' /\
      read_blocks (meta' ++ audio) = Ok (bl2, audio) /\
      (bl2 = bl1 \/ exists n n', first_padding (bl_blocks payload bl1) = Some n /\ bl2 = with_first_padding n' bl1).
  Proof.
    intros R H. destruct (update_file_inplace _ _ _ _ _ _ R H) as (bl1 & bl2 & meta' & E & S & L & W & R2 & F).
    exists bl1, bl2, meta'. repeat split; auto. now apply first_padding_only_set.
  Qed.

  (* ---------------------------------------------------------------- histories *)
  (* what stays true of the file across any history of updates through `update`:
     it is (some metadata) ++ audio, it parses to blocks followed by exactly `audio` *)
  Lemma update_step edit audio file file' r : file_inv audio file -> update edit file = (file', r) ->
    file_inv audio file'.
  Proof.
    intros (meta & bl & -> & R) H. unfold Update.update in H.
    destruct (update_file edit 0 (meta ++ audio)) as [st r0] eqn:U. inversion H; subst; clear H.
    change 0%nat with (length (@nil N)) in U. change (meta ++ audio) with ([] ++ meta ++ audio) in U.
    destruct r as [[|]|e|k].
    - destruct (update_file_rebuilt _ _ _ _ _ _ R U) as (bl1 & bytes & _ & _ & -> & R1). cbn. exists bytes, bl1. auto.
    - destruct (update_file_inplace _ _ _ _ _ _ R U) as (bl1 & bl2 & meta' & _ & -> & _ & _ & R2 & _). cbn. exists meta', bl2. auto.
    - apply update_file_failure_untouched in U; [|reflexivity]. subst. cbn. exists meta, bl. auto.
    - apply update_file_failure_untouched in U; [|reflexivity]. subst. cbn. exists meta, bl. auto.
  Qed.

  Theorem run_edits_audio_constant edits : forall audio file fn rs,
    file_inv audio file -> run_edits edits file = (fn, rs) -> file_inv audio fn.
  Proof.
    induction edits as [|e es IH]; intros audio file fn rs I H; cbn [Update.run_edits] in H.
    - inversion H; subst; auto.
    - destruct (update e file) as [f1 r] eqn:U. destruct (run_edits es f1) as [f2 rs2] eqn:RE.
      inversion H; subst. eapply IH; [|exact RE]. eapply update_step; eauto.
  Qed.

  (* the bytes from the first frame on are the same bytes, at the end of the file *)
  Corollary run_edits_suffix edits audio file fn rs :
    file_inv audio file -> run_edits edits file = (fn, rs) ->
    skipn (length fn - length audio) fn = audio.
  Proof.
    intros I H. destruct (run_edits_audio_constant _ _ _ _ _ I H) as (m & _ & -> & _).
    rewrite app_length. replace (length m + length audio - length audio)%nat with (length m) by lia.
    apply skipn_pre.
  Qed.

  (* decoding: whatever the decoder computes from STREAMINFO and the frame bytes is unchanged by
     any history of edits that leave STREAMINFO alone *)
  Section Decode.
    Variable pcm : Type.
    Variable decode_frames : payload -> list N -> pcm.
    Definition file_inv_si (si : payload) (audio file : list N) : Prop :=
      exists meta bl, file = meta ++ audio /\ read_blocks (meta ++ audio) = Ok (bl, audio) /\ bl_si payload bl = si.

    Lemma update_step_si edit si audio file file' r : keeps_streaminfo edit ->
      file_inv_si si audio file -> update edit file = (file', r) -> file_inv_si si audio file'.
    Proof.
      intros K (meta & bl & -> & R & S) H. unfold Update.update in H.
      destruct (update_file edit 0 (meta ++ audio)) as [st r0] eqn:U. inversion H; subst; clear H.
      change 0%nat with (length (@nil N)) in U. change (meta ++ audio) with ([] ++ meta ++ audio) in U.
      destruct r as [[|]|e|k].
      - destruct (update_file_rebuilt _ _ _ _ _ _ R U) as (bl1 & bytes & E & _ & -> & R1). cbn.
        exists bytes, bl1. split; [reflexivity|]. split; [exact R1|]. apply K in E. congruence.
      - destruct (update_file_inplace _ _ _ _ _ _ R U) as (bl1 & bl2 & meta' & E & -> & _ & _ & R2 & F). cbn.
        exists meta', bl2. split; [reflexivity|]. split; [exact R2|]. apply K in E. destruct F as [F _]. congruence.
      - apply update_file_failure_untouched in U; [|reflexivity]. subst. cbn. exists meta, bl. auto.
      - apply update_file_failure_untouched in U; [|reflexivity]. subst. cbn. exists meta, bl. auto.
    Qed.

    Theorem run_edits_same_pcm edits : Forall keeps_streaminfo edits -> forall audio meta bl fn rs,
      read_blocks (meta ++ audio) = Ok (bl, audio) ->
      run_edits edits (meta ++ audio) = (fn, rs) ->
      decode_file payload read_blocks pcm decode_frames fn = decode_file payload read_blocks pcm decode_frames (meta ++ audio).
    Proof.
      intros K audio meta bl fn rs R H.
      assert (I : file_inv_si (bl_si payload bl) audio (meta ++ audio)) by (exists meta, bl; auto).
      assert (G : file_inv_si (bl_si payload bl) audio fn).
      { clear R. revert K fn rs H I. generalize (meta ++ audio) as file.
        induction edits as [|e es IH]; intros file K fn rs H I; cbn [Update.run_edits] in H.
        - inversion H; subst; auto.
        - inversion K; subst. destruct (update e file) as [f1 r] eqn:U. destruct (run_edits es f1) as [f2 rs2] eqn:RE.
          inversion H; subst. eapply IH; eauto. eapply update_step_si; eauto. }
      destruct G as (m & bl' & -> & R' & S'). unfold Update.decode_file. rewrite R, R', S'. reflexivity.
    Qed.
  End Decode.
End Proofs.
