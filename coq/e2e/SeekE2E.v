(* E2E/SeekE2E.v — C09 across the areas: every defined point of the SEEKTABLE that finalize writes names a frame
   boundary of the finished stream: the byte offset is where the codec area's frame decoder finds the frame of a
   block, that block starts at the sample number the point announces, has the length it announces, and carries the
   frame number of its position.  (The writers area proves the table truthful against its own bookkeeping;
   here the bookkeeping is tied to the bytes the block encoder model produced and to what the decoder makes of them.) *)
From Coq Require Import List NArith ZArith Lia.
From FlacBase Require Import Res Bits.
From FlacCodec Require Ast Stream File Enc Enc_proofs Wf Header Dec.
From FlacWriters Require Import Meta Params Finalize Finalize_proofs C09_proofs Writers Lists_proofs Encoder_proofs Finish_proofs.
From FlacE2E Require Import Bridge E2E.
Import ListNotations.
Open Scope N_scope.

Module EP := FlacCodec.Enc_proofs.
Module E := FlacCodec.Enc.
Module CS := FlacCodec.Stream.

Section SeekE2E.
Variable o : E.eopts.
Variable L : E.oracle.
Variable md5 : list N -> list N.
Hypothesis md5_length : forall l, length (md5 l) = 16%nat.
Variable p : profile.
Variable rate bps : N.

(* the frames of a block list, one byte string per block *)
Fixpoint frames_list (k : N) (bl : list block) : option (list (list N)) :=
  match bl with
  | [] => Some []
  | b :: r => match E.enc_frame_bytes o L rate bps k b, frames_list (k + 1) r with
              | Some x, Some xs => Some (x :: xs)
              | _, _ => None
              end
  end.

Lemma frames_list_length : forall bl k xs, frames_list k bl = Some xs -> length xs = length bl.
Proof.
  induction bl as [|b r IH]; intros k xs H; cbn [frames_list] in H; [injection H as <-; reflexivity|].
  destruct (E.enc_frame_bytes o L rate bps k b); [|discriminate]. destruct (frames_list (k + 1) r) as [ys|] eqn:Ey; [|discriminate].
  injection H as <-. cbn [length]. f_equal. eapply IH; eauto.
Qed.

Lemma frames_list_app : forall pre post k xs, frames_list k (pre ++ post) = Some xs ->
  exists a c, frames_list k pre = Some a /\ frames_list (k + N.of_nat (length pre)) post = Some c /\ xs = a ++ c.
Proof.
  induction pre as [|b r IH]; intros post k xs H; cbn [app frames_list length] in *.
  - exists [], xs. rewrite N.add_0_r. auto.
  - destruct (E.enc_frame_bytes o L rate bps k b) as [x|]; [|discriminate].
    destruct (frames_list (k + 1) (r ++ post)) as [ys|] eqn:Ey; [|discriminate]. injection H as <-.
    destruct (IH post (k + 1) ys Ey) as (a & c & Ha & Hc & ->). rewrite Ha.
    exists (x :: a), c. split; [reflexivity|]. split; [|reflexivity].
    replace (k + N.of_nat (S (length r))) with (k + 1 + N.of_nat (length r)) by lia. exact Hc.
Qed.

Lemma frames_list_snoc : forall bl k xs b x, frames_list k bl = Some xs ->
  E.enc_frame_bytes o L rate bps (k + N.of_nat (length bl)) b = Some x -> frames_list k (bl ++ [b]) = Some (xs ++ [x]).
Proof.
  induction bl as [|a bl IH]; intros k xs b x H Ex; cbn [app frames_list length] in *.
  - injection H as <-. rewrite N.add_0_r in Ex. rewrite Ex. reflexivity.
  - destruct (E.enc_frame_bytes o L rate bps k a) as [xa|]; [|discriminate].
    destruct (frames_list (k + 1) bl) as [ys|] eqn:Ey; [|discriminate]. injection H as <-.
    rewrite (IH (k + 1) ys b x Ey); [reflexivity|].
    replace (k + 1 + N.of_nat (length bl)) with (k + N.of_nat (S (length bl))) by lia. exact Ex.
Qed.

Lemma frames_list_concat : forall bl k xs, frames_list k bl = Some xs -> E.enc_blocks o L rate bps k bl = Some (concat xs).
Proof.
  induction bl as [|b r IH]; intros k xs H; cbn [frames_list E.enc_blocks] in *; [injection H as <-; reflexivity|].
  destruct (E.enc_frame_bytes o L rate bps k b) as [x|]; [|discriminate].
  destruct (frames_list (k + 1) r) as [ys|] eqn:Ey; [|discriminate]. injection H as <-.
  rewrite (IH (k + 1) ys Ey). reflexivity.
Qed.

(* what reach accumulates, frame by frame *)
Lemma reach_frames e0 bl e : reach o L p rate bps e0 bl e ->
  exists xs, frames_list (e_frame_number e0) bl = Some xs /\
             e_emitted_rev e = rev bl ++ e_emitted_rev e0 /\ e_frames_rev e = rev xs ++ e_frames_rev e0 /\
             e_frame_number e = e_frame_number e0 + N.of_nat (length bl).
Proof.
  induction 1 as [|bl e bytes H IH|bl e b e' H IH Henc].
  - exists []. cbn. rewrite N.add_0_r. auto.
  - destruct IH as (xs & A & B & C & D). exists xs. cbn [md5_consume e_emitted_rev e_frames_rev e_frame_number]. auto.
  - destruct IH as (xs & A & B & C & D). unfold encoder_encode in Henc.
    destruct (si_max_bs (e_si e) <? block_len b); [discriminate|].
    destruct (u64_add p (e_samples_written e) (block_len b)) as [written| |]; try discriminate. cbn [bind] in Henc.
    destruct (match si_total (e_si e) with Some t => t <? written | None => false end); [discriminate|].
    destruct (8 <? N.of_nat (length b)); [discriminate|].
    unfold encB in Henc at 1.
    destruct (E.enc_frame_bytes o L rate bps (e_frame_number e) b) as [x|] eqn:Ex; [|discriminate]. cbn [bind] in Henc.
    destruct (u64_add p (e_count e) (N.of_nat (length x))) as [count| |]; try discriminate. cbn [bind] in Henc.
    injection Henc as <-. cbn [e_emitted_rev e_frames_rev e_frame_number].
    exists (xs ++ [x]). rewrite D in Ex. split; [apply (frames_list_snoc bl _ xs b x A Ex)|].
    rewrite !rev_app_distr, B, C, D, app_length. cbn [rev app length]. repeat split; try reflexivity. lia.
Qed.

(* a seek-point candidate of the frame list is a frame boundary *)
Lemma seekpoint_boundary : forall (bl : list block) (xs : list (list N)) s0 b0 s b m, length xs = length bl ->
  In {| sp_sample := s; sp_byte := Some b; sp_frames := m |}
     (frame_seekpoints s0 b0 (combine (map block_len bl) (map (fun f => N.of_nat (length f)) xs))) ->
  exists pre blk post a x c, bl = pre ++ blk :: post /\ xs = a ++ x :: c /\ length a = length pre /\
    s = s0 + EP.blocks_samples pre /\ b = b0 + N.of_nat (length (concat a)) /\ m = E.block_len blk.
Proof.
  induction bl as [|b1 bl IH]; intros xs s0 b0 s b m Hl Hin; destruct xs as [|x1 xs]; try discriminate; cbn in Hin; [contradiction|].
  destruct Hin as [E|Hin].
  - injection E as <- <- <-. exists [], b1, bl, [], x1, xs. cbn. repeat split; try lia; destruct b1; reflexivity.
  - cbn [length] in Hl. destruct (IH xs _ _ s b m ltac:(lia) Hin) as (pre & blk & post & a & x & c & -> & -> & La & Hs & Hb & Hm).
    exists (b1 :: pre), blk, post, (x1 :: a), x, c. cbn [app length concat EP.blocks_samples fold_right]. fold (EP.blocks_samples pre).
    rewrite app_length. repeat split; try lia.
    assert (block_len b1 = E.block_len b1) by (destruct b1; reflexivity). lia.
Qed.

Lemma combine_snoc {A B} : forall (r : list A) (r' : list B) a b, length r = length r' ->
  combine (r ++ [a]) (r' ++ [b]) = combine r r' ++ [(a, b)].
Proof.
  induction r as [|y r IH]; intros [|y' r'] a b Hl; try discriminate; [reflexivity|]. cbn [app combine]. f_equal. apply IH. cbn in Hl. lia.
Qed.

Lemma rev_combine {A B} : forall (l : list A) (l' : list B), length l = length l' ->
  combine (rev l) (rev l') = rev (combine l l').
Proof.
  induction l as [|a l IH]; intros [|b l'] H; try discriminate; [reflexivity|]. cbn [rev combine length] in *.
  rewrite combine_snoc by (rewrite !rev_length; lia). rewrite IH by lia. reflexivity.
Qed.

Lemma app_eq_len {A} : forall (a a' l l' : list A), a ++ l = a' ++ l' -> length a = length a' -> a = a' /\ l = l'.
Proof.
  induction a as [|x a IH]; intros [|y a'] l l' H Hl; try discriminate; [auto|]. cbn [app] in H. injection H as <- H.
  destruct (IH a' l l' H ltac:(cbn in Hl; lia)) as [-> ->]. auto.
Qed.

Lemma encoder_new_emitted wo ch total e0 : encoder_new p [] wo rate bps ch total = Ok e0 -> e_emitted_rev e0 = [].
Proof.
  unfold encoder_new. intros H.
  apply bind_ok in H. destruct H as ([] & _ & H). apply bind_ok in H. destruct H as (bl & _ & H).
  apply bind_ok in H. destruct H as (meta & _ & H). injection H as <-. reflexivity.
Qed.

(* C09 end to end *)
Theorem e2e_seekpoints wo ch total e0 bl e f iv pts :
  encoder_new p [] wo rate bps ch total = Ok e0 ->
  reach o L p rate bps e0 bl e ->
  enc_inv e -> enc_static e -> frames_nonempty e -> e_interval e = Some iv ->
  encoder_finalize md5 p e = Ok f -> first_seektable (f_blocks f) = Some pts ->
  Forall (EP.block_ok (conv_si (f_si f)) bps) bl ->
  N.of_nat (length bl) <= FlacCodec.Header.MAX_FRAME_NUMBER + 1 ->
  EP.blocks_samples bl < 2 ^ 64 ->
  exists audio, CS.read_metadata_min (f_stream f) = Some (conv_si (f_si f), audio) /\
  forall s b m, In (Defined s b m) pts ->
    exists pre blk post h rest, bl = pre ++ blk :: post /\ s = EP.blocks_samples pre /\ m = E.block_len blk /\
      FlacCodec.Dec.dec_frame (Some (conv_si (f_si f))) (fun _ => Ok tt) (skipn (N.to_nat b) audio) = Ok (h, blk, rest) /\
      FlacCodec.Ast.h_number h = N.of_nat (length pre).
Proof.
  intros Hnew Hr I S Fn Ei Hfin Hp Hall Hlen Hfit.
  destruct (finished_stream_form o L md5 md5_length p rate bps wo ch total e0 bl e f Hnew Hr Hfin Hfit)
    as (audio & Hmeta & Hb & _ & Hrate & Hbps & _ & _).
  exists audio. split; [exact Hmeta|]. intros s b m Hin.
  destruct (finalize_points md5 md5_length p e f iv pts I S Fn Ei Hfin Hp) as (_ & Hpts & _).
  specialize (Hpts s b m Hin).
  destruct (encoder_new_fresh p rate bps _ _ _ _ Hnew) as (_ & F0 & K0 & _).
  pose proof (encoder_new_emitted _ _ _ _ Hnew) as Em0.
  destruct (reach_frames e0 bl e Hr) as (xs & Hxs & Hem & Hfr & _).
  rewrite K0 in Hxs. rewrite Em0, app_nil_r in Hem. rewrite F0, app_nil_r in Hfr.
  pose proof (frames_list_length _ _ _ Hxs) as Lxs.
  assert (Hinfo : frames_info e = combine (map block_len bl) (map (fun x => N.of_nat (length x)) xs)).
  { unfold frames_info, info_rev. rewrite Hem, Hfr, !map_rev, rev_combine by (rewrite !map_length; lia). apply rev_involutive. }
  rewrite Hinfo in Hpts.
  destruct (seekpoint_boundary bl xs 0 0 s b m Lxs Hpts) as (pre & blk & post & a & x & c & Ebl & Exs & La & Hs & Hbb & Hm).
  rewrite N.add_0_l in Hs, Hbb.
  exists pre, blk, post.
  (* the frame at that boundary *)
  rewrite Ebl in Hxs. destruct (frames_list_app pre (blk :: post) 0 xs Hxs) as (a' & c' & Ha & Hc & Exs').
  rewrite Exs in Exs'. pose proof (frames_list_length _ _ _ Ha) as La'.
  destruct (app_eq_len _ _ _ _ Exs' ltac:(lia)) as [<- <-].
  cbn [frames_list] in Hc. rewrite N.add_0_l in Hc.
  destruct (E.enc_frame_bytes o L rate bps (N.of_nat (length pre)) blk) as [x'|] eqn:Ex; [|discriminate].
  destruct (frames_list _ post) as [c2|] eqn:Ec; [|discriminate]. injection Hc as Hx Hc2. subst x' c2.
  (* the audio is the concatenation of the frames *)
  pose proof (frames_list_concat _ _ _ ltac:(rewrite <- Ebl in Hxs; exact Hxs)) as Hcat.
  rewrite Ebl in Hb. rewrite <- Ebl in Hb. rewrite Hb in Hcat. injection Hcat as ->.
  rewrite Exs, concat_app. cbn [concat]. rewrite Hbb, Nat2N.id, skipn_app, Nat.sub_diag, skipn_all. cbn [skipn app].
  assert (Hbok : EP.block_ok (conv_si (f_si f)) bps blk).
  { rewrite Forall_forall in Hall. apply Hall. rewrite Ebl. apply in_or_app. right. left. reflexivity. }
  assert (Hnum : N.of_nat (length pre) <= FlacCodec.Header.MAX_FRAME_NUMBER).
  { rewrite Ebl, app_length in Hlen. cbn [length] in Hlen. clear - Hlen. set (MX := FlacCodec.Header.MAX_FRAME_NUMBER) in *. clearbody MX. lia. }
  destruct (EP.enc_frame_roundtrip o L (conv_si (f_si f)) rate bps _ blk x (concat c) (fun _ => Ok tt) Ex Hbok Hrate Hnum ltac:(reflexivity))
    as (h & Hd & Hn & _).
  exists h, (concat c). repeat split; assumption.
Qed.

End SeekE2E.

(* ---- the same for a whole FlacSampleWriter run, hypotheses on the input only ---- *)
From FlacWriters Require Import Params_proofs Writers_proofs New_proofs Run_proofs.
From FlacE2E Require Import Sample SampleE2E Success.

Theorem sample_writer_seekpoints_full : forall o L md5, (forall l, length (md5 l) = 16%nat) ->
  forall p rate bps wo ch total w chunks iv,
  options_wf wo -> o_seektable_interval wo = Some iv ->
  sample_new p [] wo rate bps ch total = Ok w ->
  forallb (FlacCodec.Wf.fits bps) (concat chunks) = true ->
  let W := N.of_nat (length (concat chunks)) / ch in
  1 <= W -> N.of_nat (length (concat chunks)) < 2 ^ 36 ->
  match total with Some T => T = ch * W | None => True end ->
  exists f blocks audio,
    sample_run (encB o L rate bps) md5 p w chunks = Ok f /\
    CS.read_metadata_min (f_stream f) = Some (conv_si (f_si f), audio) /\
    concat (map CS.interleave_frame blocks) = firstn (N.to_nat ch * (length (concat chunks) / N.to_nat ch)) (concat chunks) /\
    (Forall (EP.block_ok (conv_si (f_si f)) bps) blocks /\ EP.short_only_last (conv_si (f_si f)) blocks /\
     FlacCodec.Ast.si_total (conv_si (f_si f)) = EP.blocks_samples blocks /\
     FlacCodec.Ast.si_channels (conv_si (f_si f)) = ch /\ EP.blocks_samples blocks < 2 ^ 36) /\
    forall pts, first_seektable (f_blocks f) = Some pts ->
      forall s b m, In (Defined s b m) pts ->
        exists pre blk post h rest, blocks = pre ++ blk :: post /\ s = EP.blocks_samples pre /\ m = E.block_len blk /\
          FlacCodec.Dec.dec_frame (Some (conv_si (f_si f))) (fun _ => Ok tt) (skipn (N.to_nat b) audio) = Ok (h, blk, rest) /\
          FlacCodec.Ast.h_number h = N.of_nat (length pre).
Proof.
  intros o L md5 Hmd p rate bps wo ch total w chunks iv Hwf Hiv Hnew Hfit W HW Hlen Htot.
  assert (Hr : rate < 2 ^ 20 /\ 1 <= bps /\ bps <= 32 /\ 1 <= ch /\ ch <= 8 /\ e_interval (sw_enc w) = Some iv /\
               exists t, encoder_new p [] wo rate bps ch t = Ok (sw_enc w)).
  { pose proof Hnew as H. unfold sample_new in H. apply bind_ok in H. destruct H as (bps' & Hb & H).
    apply bind_ok in H. destruct H as (t & _ & H). apply bind_ok in H. destruct H as (e0 & He0 & H). injection H as <-. cbn [sw_enc].
    unfold signed_bit_count_32 in Hb. destruct ((1 <=? bps) && (bps <=? 32)) eqn:Eb; [|discriminate].
    apply andb_prop in Eb. destruct Eb as [B1 B2]. apply N.leb_le in B1, B2. injection Hb as <-.
    pose proof He0 as Hn0.
    unfold encoder_new in He0. apply bind_ok in He0. destruct He0 as ([] & Hv & He0). unfold encoder_new_validate in Hv.
    destruct (N.ltb_spec rate 1048576); [|discriminate]. destruct ((1 <=? ch) && (ch <=? 8)) eqn:Ec; [|discriminate].
    apply andb_prop in Ec. destruct Ec as [C1 C2]. apply N.leb_le in C1, C2. change (2 ^ 20) with 1048576.
    apply bind_ok in He0. destruct He0 as (bl & _ & He0). apply bind_ok in He0. destruct He0 as (meta & _ & He0). injection He0 as <-.
    cbn [e_interval]. repeat split; try assumption. eauto. }
  destruct Hr as (R & B1 & B2 & C1 & C2 & Hiv0 & t & Hn0).
  destruct (sample_run_succeeds o L md5 Hmd p rate bps ch R B1 B2 C1 C2 wo total w chunks Hwf Hnew Hfit HW Hlen Htot) as (f & Hrun & Hcf).
  destruct (e2e_sample_pcm o L md5 Hmd p rate bps wo ch total w chunks f Hwf Hnew Hrun Hfit Hlen)
    as (blocks & _ & Hcat & Hok & Hshape & Htotal & Hsc & Hlt & _ & Hreach).
  destruct (sample_run_spec (encB o L rate bps) md5 p [] wo rate bps ch total w chunks f Hwf Hnew Hrun Hcf)
    as (cs & r & _ & I & S & Fn & Se & _ & _ & _ & Hfin).
  assert (Ei : e_interval (f_enc f) = Some iv) by (destruct Se as (_ & E & _); rewrite E; exact Hiv0).
  assert (Hcnt : N.of_nat (length blocks) <= FlacCodec.Header.MAX_FRAME_NUMBER + 1).
  { (* every block holds at least one sample *)
    assert (Hle : N.of_nat (length blocks) <= EP.blocks_samples blocks).
    { clear - Hok. induction Hok as [|b l Hb _ IH]; [cbn; lia|]. unfold EP.blocks_samples in *. cbn [length fold_right].
      destruct Hb as (Hch & _ & _ & _ & _ & n & Hn1 & _ & _ & Hall). destruct b as [|c0 b']; [cbn in Hch; lia|].
      apply Forall_cons_iff in Hall. destruct Hall as [[A _] _]. cbn [E.block_len]. lia. }
    unfold FlacCodec.Header.MAX_FRAME_NUMBER. change (2 ^ 36 - 1 + 1) with (2 ^ 36). lia. }
  assert (H3664 : 2 ^ 36 < 2 ^ 64) by (apply N.pow_lt_mono_r; lia).
  assert (Hseek : forall pts, first_seektable (f_blocks f) = Some pts ->
            exists audio, CS.read_metadata_min (f_stream f) = Some (conv_si (f_si f), audio) /\
            forall s b m, In (Defined s b m) pts ->
              exists pre blk post h rest, blocks = pre ++ blk :: post /\ s = EP.blocks_samples pre /\ m = E.block_len blk /\
                FlacCodec.Dec.dec_frame (Some (conv_si (f_si f))) (fun _ => Ok tt) (skipn (N.to_nat b) audio) = Ok (h, blk, rest) /\
                FlacCodec.Ast.h_number h = N.of_nat (length pre)).
  { intros pts Hp. apply (e2e_seekpoints o L md5 Hmd p rate bps wo ch t (sw_enc w) blocks (f_enc f) f iv pts Hn0 Hreach I S Fn Ei Hfin Hp Hok Hcnt). lia. }
  destruct (finished_stream_form o L md5 Hmd p rate bps wo ch t (sw_enc w) blocks (f_enc f) f Hn0 Hreach Hfin ltac:(lia)) as (audio & Hmeta & _).
  exists f, blocks, audio. split; [exact Hrun|]. split; [exact Hmeta|]. split; [exact Hcat|]. split; [auto|].
  intros pts Hp. destruct (Hseek pts Hp) as (audio' & Hmeta' & H). rewrite Hmeta in Hmeta'. injection Hmeta' as <-. exact H.
Qed.

Theorem sample_writer_seekpoints : forall o L md5, (forall l, length (md5 l) = 16%nat) ->
  forall p rate bps wo ch total w chunks iv,
  options_wf wo -> o_seektable_interval wo = Some iv ->
  sample_new p [] wo rate bps ch total = Ok w ->
  forallb (FlacCodec.Wf.fits bps) (concat chunks) = true ->
  let W := N.of_nat (length (concat chunks)) / ch in
  1 <= W -> N.of_nat (length (concat chunks)) < 2 ^ 36 ->
  match total with Some T => T = ch * W | None => True end ->
  exists f blocks audio,
    sample_run (encB o L rate bps) md5 p w chunks = Ok f /\
    CS.read_metadata_min (f_stream f) = Some (conv_si (f_si f), audio) /\
    concat (map CS.interleave_frame blocks) = firstn (N.to_nat ch * (length (concat chunks) / N.to_nat ch)) (concat chunks) /\
    forall pts, first_seektable (f_blocks f) = Some pts ->
      forall s b m, In (Defined s b m) pts ->
        exists pre blk post h rest, blocks = pre ++ blk :: post /\ s = EP.blocks_samples pre /\ m = E.block_len blk /\
          FlacCodec.Dec.dec_frame (Some (conv_si (f_si f))) (fun _ => Ok tt) (skipn (N.to_nat b) audio) = Ok (h, blk, rest) /\
          FlacCodec.Ast.h_number h = N.of_nat (length pre).
Proof.
  intros o L md5 Hmd p rate bps wo ch total w chunks iv Hwf Hiv Hnew Hfit W HW Hlen Htot.
  destruct (sample_writer_seekpoints_full o L md5 Hmd p rate bps wo ch total w chunks iv Hwf Hiv Hnew Hfit HW Hlen Htot)
    as (f & blocks & audio & A & B & C & _ & D).
  exists f, blocks, audio. auto.
Qed.
