"""C01 — encoding is lossless: every finalized stream decodes to exactly its input.

Search (harness/src/bin/c01.rs, release and debug profiles): encode -> decode equality over
all lengths 1..70 x 20 PCM shapes, short final blocks (1..2*order), every bits-per-sample 1..32,
channels 1..8, every sample-rate header coding, block-size codings, LPC none/1..32, partition
order 0..15, windows, mid-side x exhaustive/fast, total known/unknown; three writer front-ends
(bytes LE/BE, samples, channels; random chunking) x reader front-ends (sample fill_buf/read,
iterator, bytes LE/BE, channels); channel count / rate / bits-per-sample checked.
Option values whose defects belong to the writers area (lpc 32 debug assertion, partition
order >= 7, 1 bit per sample) are probed on the tree under test and left out while the probe
still panics (reported in the evidence); VERIF_ALLOW_KNOWN=1 forces them in.
Model: the integrator's Coq codec model (checks.codec_common)."""
from checks import codech_util as cu


def run(chk):
    cu.simple_check(
        chk, "C01", "c01", ["release", "debug"], kinds=["struct"],
        rule="one evaluation = one encode of a generated PCM signal under one configuration through one writer front-end followed by decodes through 2-6 reader front-ends and comparison with the PCM; all are distinct (length x shape x configuration x front-end) and non-trivial (at least one audio frame encoded and decoded)",
        assumptions=[
            "the searcher samples the option/PCM space (all lengths 1..70 and every bits-per-sample exhaustively, the rest by sweeps and random draws); the universal statement rests on the Coq theorems of the codec model",
            "writer-area defects still present in the tree (probed: max_lpc_order 32 in debug, max_partition_order >= 7, 1 bit per sample) are excluded from the space until repaired; see searcher.known_writer_defects_present",
        ],
        evaluations=lambda s: cu.total(s, "encodes") + cu.total(s, "decodes"),
        nontrivial=lambda s: cu.total(s, "encodes"),
        debug_scale=60,
        extra=lambda c, by_prof: (lambda cc: dict(cc.encoder_model_tie(chk, c.cases), **cc.composed_model_tie(chk, c.cases)))(__import__("checks.codec_common", fromlist=["x"])))
