"""C18 — multithreaded encoding produces the same bytes as single-threaded encoding (PARTIAL, category `other`).

Proof (partial): coq/updateio/{Par,Par_proofs,Props_C18}.v — fork-join programs over disjoint components:
every interleaving reaching the join point yields the sequential result; join/try_join/vec_map and the
encoder's task structure are instances; C18_modulo_assumptions derives the property from two named
assumptions (the Rust closures are such tasks; rayon implements fork-join), which no theorem here can see.
Tie: (a) tools/gen_updateio.py compares the text of join/try_join/vec_map (both cfg variants) with what the
model mirrors; (b) source scan (trusted, textual): the crate forbids unsafe code and the encode path has no
static mut / Cell / RefCell / atomics / thread_local! / locks / unsafe.
Search: harness/src/bin/c18.rs built without and with the `rayon` feature; the rayon build is run under
RAYON_NUM_THREADS = 1, 2, 3, 8, 16, several times each; finished files compared case by case (hash + length)."""
import json
import os
import re
import shutil

import vlib
from vlib import VERIF, CACHE, sh
from checks import c10 as c10mod

LEVEL = "other"
AREA = c10mod.AREA
THEOREMS = ["C18_fork_join_partial", "C18_join", "C18_try_join", "C18_vec_map", "C18_encode_tasks", "C18_correlate",
            "C18_modulo_assumptions", "C18_nonvacuous"]
POOLS = [1, 2, 3, 8, 16]
SCAN_FILES = ["src/encode.rs", "src/lib.rs", "src/crc.rs", "src/audio.rs", "src/stream.rs", "src/byteorder.rs", "src/metadata/mod.rs"]
FORBIDDEN = [r"\bstatic\s+mut\b", r"\bCell\s*<", r"\bRefCell\b", r"\bUnsafeCell\b", r"\bAtomic[A-Z]\w*", r"\bthread_local\s*!", r"\bunsafe\b",
             r"\bMutex\b", r"\bRwLock\b", r"\bOnceLock\b", r"\bOnceCell\b", r"\bLazyLock\b", r"\blazy_static\b"]


def strip_rust(src):
    """remove comments, string and char literals (textual; good enough for a keyword scan)"""
    out, i, n = [], 0, len(src)
    while i < n:
        if src.startswith("//", i):
            j = src.find("\n", i)
            i = n if j < 0 else j
        elif src.startswith("/*", i):
            depth, i = 1, i + 2
            while i < n and depth:
                if src.startswith("/*", i):
                    depth += 1; i += 2
                elif src.startswith("*/", i):
                    depth -= 1; i += 2
                else:
                    i += 1
        elif src[i] == '"':
            i += 1
            while i < n and src[i] != '"':
                i += 2 if src[i] == "\\" else 1
            i += 1
            out.append('""')
        elif src[i] == "'" and i + 2 < n and (src[i + 2] == "'" or (src[i + 1] == "\\" and src.find("'", i + 2) in range(i + 2, i + 8))):
            j = src.find("'", i + 2)
            i = j + 1
            out.append("' '")
        else:
            out.append(src[i]); i += 1
    return "".join(out)


def source_scan(repo):
    hits = []
    lib = open(os.path.join(repo, "src/lib.rs")).read()
    forbid = re.search(r"#!\[forbid\([^\)]*unsafe_code", lib) is not None
    for f in SCAN_FILES:
        p = os.path.join(repo, f)
        if not os.path.exists(p):
            hits.append("%s: file missing" % f)
            continue
        code = strip_rust(open(p).read())
        for ln_no, ln in enumerate(code.splitlines(), 1):
            for rx in FORBIDDEN:
                if re.search(rx, ln):
                    hits.append("%s:%d: %s" % (f, ln_no, ln.strip()[:160]))
    return forbid, hits


def parse(out):
    cases, stat = {}, {}
    for ln in out.splitlines():
        if not ln.startswith("{"):
            continue
        d = json.loads(ln)
        if d.get("t") == "case":
            cases[d["id"]] = d
        elif d.get("t") == "stat":
            stat = d
    return cases, stat


def run(chk):
    chk.coverage["explanation"] = ("partial: Coq theorem (coq/updateio/Par.v) that every interleaving of a fork-join program over disjoint state yields the sequential result, instantiated to the encoder's task structure; that the Rust closures are such tasks and that rayon implements fork-join is checked by a source scan and by byte-comparing serial and rayon builds at pool sizes 1,2,3,8,16 (schedules sampled, not enumerated)")
    chk.assumptions = [
        "PARTIAL: the theorems are about the fork-join model; that the Rust closures are deterministic tasks on disjoint state is the borrow checker's (distinct &mut captures, get_disjoint_mut, Send bounds, #![forbid(unsafe_code)]) and is only scanned textually here",
        "that rayon::join and into_par_iter().map().collect() implement fork-join with order-preserving collect is rayon's contract, trusted",
        "the thread scheduler is not controlled: pool sizes 1,2,3,8,16 and repeated runs sample it",
    ]
    proof_ok = c10mod.proof_stage(chk, THEOREMS, ["FlacUpdIo.Par", "FlacUpdIo.Par_proofs", "FlacUpdIo.Props_C18"])

    # ---- source scan (trusted)
    forbid, hits = source_scan(vlib.REPO)
    if not forbid:
        chk.violation("forbid-unsafe-code-missing", "src/lib.rs no longer has #![forbid(unsafe_code)]: task disjointness is no longer enforced by the compiler", {"file": "src/lib.rs"})
    for h in hits[:5]:
        chk.violation("shared-mutable-state-in-encode-path", "the encode path now mentions shared mutable state / unsafe: " + h, {"hit": h, "all_hits": hits[:40]})

    # ---- builds: with the feature first (binary copied aside), then without
    harness = os.path.join(VERIF, "harness")
    ok, binp, out = vlib.cargo_build(harness, "c18", "release", features=["rayon"])
    if not ok:
        chk.broken_tie("harness-build-rayon", out)
        return
    bindir = os.path.join(CACHE, "bin", vlib.repo_tag())
    os.makedirs(bindir, exist_ok=True)
    par_bin = os.path.join(bindir, "c18_rayon")
    shutil.copy2(binp, par_bin)
    ok, ser_bin, out = vlib.cargo_build(harness, "c18", "release")
    if not ok:
        chk.broken_tie("harness-build-serial", out)
        return
    env = {"VERIF_SEED": str(chk.seed), "VERIF_TIER": chk.tier}
    rc, out = sh([ser_bin], timeout=3000, env=env)
    ref, rstat = parse(out)
    if rc != 0 or not ref or rstat.get("rayon") is not False:
        chk.broken_tie("harness-run-serial", "rc=%d rayon=%r: %s" % (rc, rstat.get("rayon"), out[-1500:]))
        return
    # the serial build is itself deterministic (C08's business, but a flaky reference would make this check lie)
    rc, out2 = sh([ser_bin], timeout=3000, env=env)
    ref2, _ = parse(out2)
    unstable = [i for i in ref if ref2.get(i, {}).get("out") != ref[i]["out"]]
    if unstable:
        chk.violation("serial-build-nondeterministic", "two runs of the serial build differ on case %s" % ref[unstable[0]]["spec"], {"spec": ref[unstable[0]]["spec"], "run1": ref[unstable[0]]["out"], "run2": ref2.get(unstable[0], {}).get("out")})
    repeats = 5 if chk.tier == "thorough" else 3
    runs = compared = 0
    mism = []
    for threads in POOLS:
        for rep in range(repeats):
            e = dict(env)
            e["RAYON_NUM_THREADS"] = str(threads)
            rc, pout = sh([par_bin], timeout=3000, env=e)
            got, pstat = parse(pout)
            runs += 1
            if rc != 0 or pstat.get("rayon") is not True or len(got) != len(ref):
                chk.broken_tie("harness-run-rayon", "threads=%d rc=%d rayon=%r cases=%d/%d: %s" % (threads, rc, pstat.get("rayon"), len(got), len(ref), pout[-1500:]))
                return
            for i, c in ref.items():
                compared += 1
                if got[i]["out"] != c["out"]:
                    mism.append((threads, rep, c["spec"], c["out"], got[i]["out"]))
    seen = set()
    for threads, rep, spec, a, b in mism:
        if spec in seen:
            continue
        seen.add(spec)
        key = "parallel-differs-from-serial"
        chk.violation(key, "with the rayon feature on %d threads (run %d) case [%s] gives %s, the serial build %s" % (threads, rep, spec, b, a),
                      {"spec": spec, "threads": threads, "run": rep, "serial": a, "rayon": b,
                       "replay_cmd": "RAYON_NUM_THREADS=%d %s --spec \"%s\" --dump   vs   %s --spec \"%s\" --dump" % (threads, par_bin, spec, ser_bin, spec)})
        if len(seen) >= 5:
            break

    ok_cases = sum(1 for c in ref.values() if c["out"].startswith("ok"))
    chk.coverage.update({
        "evaluations": compared,
        "distinct_nontrivial": ok_cases,
        "rule": "distinct (input, option set) cases that encode successfully in the serial build; each is compared under every pool size and repeat",
        "runs_of_rayon_build": runs,
        "pool_sizes": POOLS,
        "repeats_per_pool": repeats,
        "cases": len(ref),
        "cases_not_ok_in_both_builds": len(ref) - ok_cases,
        "traces_validated_against_impl": 0,
        "disagreements_checked": len(mism),
        "source_scan": {"forbid_unsafe_code": forbid, "files": SCAN_FILES, "hits": hits[:20], "trusted": True},
        "samples": [{"spec": ref[i]["spec"], "out": ref[i]["out"]} for i in list(ref)[:4]],
    })
