"""C06 — seeking lands exactly on the requested position, for every reader and history.

Proof: coq/readers (Seek.v, Readers.v, Ser.v = model of the three reader front-ends and Decoder::seek over an
abstract decoder core; Props_C06.v): every call of every history over {read, fill_buf, consume, next, seek}
refines an abstract cursor over the expected PCM (bytes / interleaved samples / each channel): after a
successful seek the data delivered is pcm[t..], a seek outside the stream fails and leaves no stale data, the
byte reader resolves Start/Current/End like std::io::Seek over the PCM bytes and answers the new position.
Tie: the extracted model is run on every history the harness ran against the real readers (release and debug
builds) and must give the same observations; a vm_compute sample checks the extraction; tools/gen_readers.py
reports changed source anchors.
Search: harness/src/bin/c06.rs judges every observation of the real readers with an abstract cursor over the
PCM that was *encoded* (ground truth), over files of every seek-table shape, 1-8 channels, every byte width."""
import vlib
from checks import readers_common as rc

THEOREMS = ["C06_byte_reader", "C06_sample_reader", "C06_channel_reader", "C06_byte_invariant",
            "C06_sample_invariant", "C06_channel_invariant", "C06_sample_seek_beyond_end", "C06_channel_seek_beyond_end", "C06_nonvacuous_samples", "C06_nonvacuous_bytes",
            "C06_nonvacuous_channels", "C06_orig_end_uses_sample_count", "C06_orig_channel_seek_stale", "C06_usize32_far_seek_panics"]


def run(chk):
    chk.assumptions = list(rc.ASSUMPTIONS)
    proof_ok = rc.proof_stage(chk, THEOREMS, e2e_theorems=["C06_written_file_seeks", "C06_written_file_seeks_bytes_channels", "C06_byte_written_file_seeks", "C06_channel_written_file_seeks"])
    exe = rc.build_driver(chk, "c06") if proof_ok else None

    total_cases = compared = disagreements = soft = vm_n = 0
    distinct = set()
    stats = {}
    samples = []
    for profile in ("release", "debug"):
        run_ = rc.run_harness(chk, "c06", profile)
        if run_ is None:
            continue
        stats[profile] = {k: v for k, v in run_["stat"].items() if k != "t"}
        chk.notes.extend(n for n in sorted(set(run_["notes"]))[:8] if n not in chk.notes)
        total_cases += len(run_["cases"])
        for c in run_["cases"]:
            ops = c["m"].split(" ")[5] if len(c["m"].split(" ")) > 5 else ""
            # non-trivial: the history contains a seek and at least one data call after it
            toks = ops.split(";")
            si = [i for i, t in enumerate(toks) if t.split(":")[0] in ("s", "ss", "sc", "se")]
            if si and si[0] < len(toks) - 1:
                distinct.add((c["file"], c["reader"], ops))
        rc.report_viols(chk, run_)
        if exe:
            model = rc.run_model(chk, exe, run_["files"], run_["cases"])
            if model is not None:
                n, bad, sv = rc.diff(chk, "C06", run_, model, "c06-" + profile)
                compared += n
                disagreements += bad
                soft += sv
            if profile == "release":
                vm_n = rc.vm_sample(chk, "C06", run_)
        if profile == "release":
            samples = rc.sample_cases(run_, 6)

    chk.coverage.update({
        "evaluations": total_cases,
        "distinct_nontrivial": len(distinct),
        "rule": "boundary histories (every frame boundary -1/0/+1, mid-frame, 0, 1, end-1, end, end+1; byte readers with mid-sample offsets and Start/Current/End forms; from four different buffer states), extreme targets (u64::MAX, 2^63, i64::MIN/MAX for Current/End, below zero, beyond end) and random histories over {read, fill, consume, next, seek}; a case is counted as distinct non-trivial when its (file, reader, op list) is new and it contains a seek followed by at least one further call",
        "traces_validated_against_impl": compared,
        "disagreements_checked": disagreements,
        "error_variant_only_differences": soft,
        "vm_compute_cases": vm_n,
        "harness_stats": stats,
        "samples": samples,
    })
